(* ScanProofs.v — find_all (Dfa.v) is the leftmost non-overlapping selection over
   the isolated greedy runs of Scan.v (C14), for arbitrary (possibly stateful)
   predicates; structural corollaries; semantic corollaries for stateless,
   pairwise disjoint predicates. *)
From Verif Require Import Base BaseProofs Regex Nfa Dfa ClosureProofs NfaProofs DfaProofs Scan Token.
From Verif Require UnambProofs.      (* tpred_eqb_spec only *)
From Coq Require Import Permutation Sorted.
Open Scope nat_scope.

(* ====================================================================== *)
(* sort_asc: permutation, sorted, and canonical on duplicate-free keys     *)
(* ====================================================================== *)
Section SortAsc.
  Context {A : Type} (key : A -> Z).

  Definition lt_key (a b : A) : Prop := (key a < key b)%Z.

  Lemma insert_asc_perm x l : Permutation (insert_asc key x l) (x :: l).
  Proof.
    induction l as [|y t IH]; cbn [insert_asc]; [reflexivity|].
    destruct (key x <? key y)%Z; [reflexivity|].
    rewrite IH. apply perm_swap.
  Qed.

  Lemma fold_insert_asc_perm l : forall acc,
    Permutation (fold_left (fun acc x => insert_asc key x acc) l acc) (acc ++ l).
  Proof.
    induction l as [|x l IH]; intros acc; cbn [fold_left].
    - rewrite app_nil_r. reflexivity.
    - rewrite IH, insert_asc_perm. change (x :: acc) with ([x] ++ acc).
      rewrite (Permutation_app_comm [x] acc), <- app_assoc. reflexivity.
  Qed.

  Theorem sort_asc_perm l : Permutation (sort_asc key l) l.
  Proof. unfold sort_asc. rewrite fold_insert_asc_perm. reflexivity. Qed.

  Lemma insert_asc_sorted x l :
    StronglySorted (le_key key) l -> StronglySorted (le_key key) (insert_asc key x l).
  Proof.
    induction l as [|y t IH]; intros Hs; cbn [insert_asc].
    - constructor; constructor.
    - inversion Hs as [|? ? Ht Hy]; subst.
      destruct (Z.ltb_spec (key x) (key y)) as [Hlt|Hge].
      + constructor; [exact Hs|]. constructor; [unfold le_key; lia|].
        eapply Forall_impl; [|exact Hy]. unfold le_key; intros; lia.
      + constructor; [apply IH; exact Ht|].
        eapply Permutation_Forall; [symmetry; apply insert_asc_perm|].
        constructor; [unfold le_key; lia | exact Hy].
  Qed.

  Lemma fold_insert_asc_sorted l : forall acc,
    StronglySorted (le_key key) acc ->
    StronglySorted (le_key key) (fold_left (fun acc x => insert_asc key x acc) l acc).
  Proof.
    induction l as [|x l IH]; intros acc Hs; cbn [fold_left]; [exact Hs|].
    apply IH, insert_asc_sorted, Hs.
  Qed.

  Theorem sort_asc_sorted l : StronglySorted (le_key key) (sort_asc key l).
  Proof. apply fold_insert_asc_sorted. constructor. Qed.

  (* a key-sorted list that is a permutation of a strictly key-sorted list is that list *)
  Lemma sorted_perm_unique : forall l1 l2,
    StronglySorted (le_key key) l1 -> StronglySorted lt_key l2 ->
    Permutation l1 l2 -> l1 = l2.
  Proof.
    induction l1 as [|x t1 IH]; intros l2 H1 H2 Hp.
    - apply Permutation_nil in Hp. subst; reflexivity.
    - destruct l2 as [|y t2]; [apply Permutation_sym, Permutation_nil in Hp; discriminate|].
      inversion H1 as [|? ? Hs1 Hx]; subst. inversion H2 as [|? ? Hs2 Hy]; subst.
      rewrite Forall_forall in Hx, Hy.
      assert (Hxin : In x (y :: t2)) by (eapply Permutation_in; [exact Hp | left; reflexivity]).
      assert (Hyin : In y (x :: t1))
        by (eapply Permutation_in; [symmetry; exact Hp | left; reflexivity]).
      assert (Exy : x = y).
      { destruct Hxin as [E|Hxin]; [symmetry; exact E|].
        destruct Hyin as [E|Hyin]; [exact E|].
        specialize (Hx _ Hyin). specialize (Hy _ Hxin). unfold le_key, lt_key in *. lia. }
      subst y. f_equal. apply IH; [exact Hs1 | exact Hs2|].
      eapply Permutation_cons_inv; exact Hp.
  Qed.

  Theorem sort_asc_canonical l cs :
    Permutation l cs -> StronglySorted lt_key cs -> sort_asc key l = cs.
  Proof.
    intros Hp Hs. apply sorted_perm_unique; [apply sort_asc_sorted | exact Hs|].
    rewrite sort_asc_perm. exact Hp.
  Qed.
End SortAsc.

(* ====================================================================== *)
(* Part A / B: arbitrary predicates                                        *)
(* ====================================================================== *)
Section ScanAny.
  Context {P I : Type}.
  Variable peqb : P -> P -> bool.
  Variable ast : P -> Z -> I -> bool * Z.
  Variable a : automaton P.

  Notation consume := (consume peqb ast).
  Notation greedy_run := (greedy_run peqb ast).
  Notation greedy := (greedy peqb ast).
  Notation all_greedy := (all_greedy peqb ast).
  Notation all_greedy_from := (all_greedy_from peqb ast).
  Notation step_active := (step_active peqb ast).
  Notation scan_loop := (scan_loop peqb ast).
  Notation all_candidates := (all_candidates peqb ast).
  Notation find_all_dfa := (find_all_dfa peqb ast).
  Notation scan_spec := (scan_spec peqb ast).

  Definition ckey (c : cand) : Z := Z.of_nat (fst c).

  (* ---------- consume keeps the start and counts the items ---------- *)
  Lemma consume_some (pt pt' : pat P) x :
    consume a pt x = OK (Some pt') -> p_start pt' = p_start pt /\ p_len pt' = S (p_len pt).
  Proof.
    unfold Dfa.consume. intros H.
    destruct (fold_left _ _ _) as [[ds [p|]]|k]; try discriminate.
    destruct (closure _ _) as [T'|k]; try discriminate.
    inversion H; subst. split; reflexivity.
  Qed.

  Lemma greedy_run_bounds : forall w (pt : pat P) n,
    greedy_run a pt w = OK (Some n) -> p_len pt <= n <= p_len pt + length w.
  Proof.
    induction w as [|x w IH]; intros pt n H; cbn [Scan.greedy_run] in H.
    - destruct (is_accepting a pt); inversion H; subst. cbn [length]. lia.
    - destruct (consume a pt x) as [[pt'|]|k] eqn:Ec; try discriminate.
      + apply IH in H. apply consume_some in Ec. destruct Ec as [_ El]. rewrite El in H.
        cbn [length]. lia.
      + destruct (is_accepting a pt); inversion H; subst. cbn [length]. lia.
  Qed.

  (* ---------- the specification, reorganised along the input ---------- *)
  Definition ocons (s : nat) (g : option nat) (cs : list cand) : list cand :=
    match g with Some n => (s, s + n) :: cs | None => cs end.

  (* the greedy runs of a list of attempts on the same remaining input *)
  Fixpoint runs (w : list I) (pts : list (pat P)) : res (list cand) :=
    match pts with
    | [] => OK []
    | pt :: r =>
        match greedy_run a pt w with
        | Err k => Err k
        | OK g =>
            match runs w r with
            | Err k => Err k
            | OK cs => OK (ocons (p_start pt) g cs)
            end
        end
    end.

  (* the greedy runs of the attempts that start at idx, idx+1, ... on the remaining input *)
  Fixpoint fresh (idx : nat) (w : list I) : res (list cand) :=
    match w with
    | [] => OK []
    | x :: w' =>
        match greedy_run a (new_pat a idx) w with
        | Err k => Err k
        | OK g =>
            match fresh (S idx) w' with
            | Err k => Err k
            | OK cs => OK (ocons idx g cs)
            end
        end
    end.

  Lemma skipn_S_cons {A} : forall n (l : list A) x r, skipn n l = x :: r -> skipn (S n) l = r.
  Proof.
    induction n as [|n IH]; intros l x r H.
    - cbn in H. subst l. reflexivity.
    - destruct l as [|y l]; [discriminate|]. cbn [skipn] in H. apply IH in H. exact H.
  Qed.

  Lemma all_greedy_from_fresh : forall w w0 idx,
    skipn idx w0 = w -> all_greedy_from a w0 (seq idx (length w)) = fresh idx w.
  Proof.
    induction w as [|x w IH]; intros w0 idx Hs; [reflexivity|].
    cbn [length seq Scan.all_greedy_from fresh]. unfold Scan.greedy. rewrite Hs.
    rewrite (IH w0 (S idx) (skipn_S_cons _ _ _ _ Hs)).
    destruct (greedy_run a (new_pat a idx) (x :: w)) as [[n|]|k]; try reflexivity.
  Qed.

  Lemma all_greedy_fresh w : all_greedy a w = fresh 0 w.
  Proof. unfold Scan.all_greedy. apply all_greedy_from_fresh. reflexivity. Qed.

  Lemma runs_app w : forall l1 l2,
    runs w (l1 ++ l2) =
    match runs w l1 with
    | Err k => Err k
    | OK c1 => match runs w l2 with Err k => Err k | OK c2 => OK (c1 ++ c2) end
    end.
  Proof.
    induction l1 as [|pt r IH]; intros l2; cbn [app runs].
    - destruct (runs w l2); reflexivity.
    - destruct (greedy_run a pt w) as [g|k]; [|reflexivity].
      rewrite IH. destruct (runs w r) as [c1|k]; [|reflexivity].
      destruct (runs w l2) as [c2|k]; [|reflexivity].
      destruct g; reflexivity.
  Qed.

  Lemma runs_nil idx : forall active c,
    runs [] active = OK c ->
    (forall pt, In pt active -> p_start pt + p_len pt = idx) ->
    c = map (fun pt => (p_start pt, idx)) (filter (is_accepting a) active).
  Proof.
    induction active as [|pt r IH]; intros c H Hinv; cbn [runs] in H.
    - inversion H; reflexivity.
    - cbn [Scan.greedy_run] in H.
      destruct (runs [] r) as [cr|k] eqn:Er; [|destruct (is_accepting a pt); discriminate].
      assert (Ecr : cr = map (fun pt => (p_start pt, idx)) (filter (is_accepting a) r)).
      { apply IH; [reflexivity|]. intros q Hq; apply Hinv; right; exact Hq. }
      cbn [filter]. destruct (is_accepting a pt); inversion H; subst c; cbn [ocons map].
      + rewrite (Hinv pt (or_introl eq_refl)). rewrite <- Ecr. reflexivity.
      + exact Ecr.
  Qed.

  (* ---------- one input item ---------- *)
  Lemma ocons_perm s g (cr cs c' : list cand) :
    Permutation cr (cs ++ c') -> Permutation (ocons s g cr) (cs ++ ocons s g c').
  Proof.
    intros Hp. destruct g as [n|]; cbn [ocons]; [|exact Hp].
    rewrite Hp. apply Permutation_middle.
  Qed.

  Lemma step_active_spec idx x w : forall pts c,
    runs (x :: w) pts = OK c ->
    (forall pt, In pt pts -> p_start pt + p_len pt = idx) ->
    exists act' cs c',
      step_active a idx x pts = OK (act', cs) /\ runs w act' = OK c' /\
      Permutation c (cs ++ c') /\
      (forall pt, In pt act' -> p_start pt + p_len pt = S idx).
  Proof.
    induction pts as [|pt r IH]; intros c H Hinv.
    - inversion H; subst. exists [], [], []. repeat split; try reflexivity. intros pt [].
    - cbn [runs] in H. cbn [Scan.greedy_run] in H. cbn [Dfa.step_active].
      assert (Hinv' : forall q, In q r -> p_start q + p_len q = idx)
        by (intros q Hq; apply Hinv; right; exact Hq).
      pose proof (Hinv pt (or_introl eq_refl)) as Hpt.
      destruct (consume a pt x) as [[pt'|]|k] eqn:Ec; try discriminate.
      + destruct (greedy_run a pt' w) as [g|k] eqn:Eg; [|discriminate].
        destruct (runs (x :: w) r) as [cr|k] eqn:Er; [|discriminate].
        inversion H; subst c.
        destruct (IH cr eq_refl Hinv') as (act' & cs & c' & Est & Ern & Hp & Hinv2).
        rewrite Est. apply consume_some in Ec. destruct Ec as [Es El].
        exists (pt' :: act'), cs, (ocons (p_start pt) g c'). split; [reflexivity|].
        split; [cbn [runs]; rewrite Eg, Ern, Es; reflexivity|].
        split; [apply ocons_perm; exact Hp|].
        intros q [<-|Hq]; [rewrite Es, El; lia | apply Hinv2; exact Hq].
      + destruct (runs (x :: w) r) as [cr|k] eqn:Er;
          [|destruct (is_accepting a pt); discriminate].
        destruct (IH cr eq_refl Hinv') as (act' & cs & c' & Est & Ern & Hp & Hinv2).
        rewrite Est.
        destruct (is_accepting a pt); inversion H; subst c; cbn [ocons].
        * exists act', ((p_start pt, idx) :: cs), c'. split; [reflexivity|].
          split; [exact Ern|]. split; [|exact Hinv2].
          rewrite Hpt. cbn [app]. apply perm_skip. exact Hp.
        * exists act', cs, c'. repeat split; assumption.
  Qed.

  (* ---------- the scan loop ---------- *)
  Lemma scan_loop_spec : forall w idx active cands c1 c2,
    runs w active = OK c1 -> fresh idx w = OK c2 ->
    (forall pt, In pt active -> p_start pt + p_len pt = idx) ->
    exists out, scan_loop a idx w active cands = OK (cands ++ out) /\
                Permutation out (c1 ++ c2).
  Proof.
    induction w as [|x w IH]; intros idx active cands c1 c2 Hr Hf Hinv.
    - cbn [Dfa.scan_loop]. cbn [fresh] in Hf. inversion Hf; subst c2.
      eexists; split; [reflexivity|]. rewrite app_nil_r.
      rewrite (runs_nil idx active c1 Hr Hinv). reflexivity.
    - cbn [Dfa.scan_loop]. cbn [fresh] in Hf.
      destruct (greedy_run a (new_pat a idx) (x :: w)) as [g|k] eqn:Eg; [|discriminate].
      destruct (fresh (S idx) w) as [c2'|k] eqn:Ef; [|discriminate].
      inversion Hf; subst c2.
      assert (Hrun : runs (x :: w) (active ++ [new_pat a idx]) = OK (c1 ++ ocons idx g [])).
      { rewrite runs_app, Hr. cbn [runs]. rewrite Eg. reflexivity. }
      destruct (step_active_spec idx x w _ _ Hrun) as (act' & cs & c' & Est & Ern & Hp & Hinv2).
      { intros pt Hin. apply in_app_or in Hin. destruct Hin as [Hin|[<-|[]]];
          [apply Hinv; exact Hin | cbn; lia]. }
      rewrite Est.
      destruct (IH (S idx) act' (cands ++ cs) c' c2' Ern Ef Hinv2) as (out' & Esl & Hp').
      rewrite Esl. exists (cs ++ out'). split; [rewrite app_assoc; reflexivity|].
      rewrite Hp'. rewrite app_assoc, <- Hp. rewrite <- app_assoc.
      destruct g; reflexivity.
  Qed.

  (* ---------- the greedy successes are strictly ordered by start ---------- *)
  Lemma fresh_facts : forall w idx c,
    fresh idx w = OK c ->
    StronglySorted (fun c1 c2 : cand => fst c1 < fst c2) c /\
    (forall s t, In (s, t) c -> idx <= s < idx + length w /\ s <= t <= idx + length w).
  Proof.
    induction w as [|x w IH]; intros idx c H; cbn [fresh] in H.
    - inversion H; subst. split; [constructor | intros s t []].
    - destruct (greedy_run a (new_pat a idx) (x :: w)) as [g|k] eqn:Eg; [|discriminate].
      destruct (fresh (S idx) w) as [c'|k] eqn:Ef; [|discriminate].
      inversion H; subst c. destruct (IH (S idx) c' Ef) as [Hs Hb].
      assert (Hb' : forall s t, In (s, t) c' ->
                idx <= s < idx + length (x :: w) /\ s <= t <= idx + length (x :: w)).
      { intros s t Hin. apply Hb in Hin. cbn [length]. lia. }
      destruct g as [n|]; cbn [ocons]; [|split; assumption].
      split.
      + constructor; [exact Hs|]. apply Forall_forall. intros [s t] Hin.
        apply Hb in Hin. cbv beta. cbn [fst]. lia.
      + intros s t [E|Hin]; [|apply Hb'; exact Hin]. inversion E; subst s t.
        apply greedy_run_bounds in Eg. cbn [new_pat p_len length] in Eg. cbn [length]. lia.
  Qed.

  Lemma all_greedy_sorted w cs :
    all_greedy a w = OK cs -> StronglySorted (fun c1 c2 : cand => fst c1 < fst c2) cs.
  Proof. rewrite all_greedy_fresh. intros H. apply (fresh_facts _ _ _ H). Qed.

  (* ---------- A1 ---------- *)
  Lemma all_candidates_perm w cs :
    all_greedy a w = OK cs -> exists out, all_candidates a w = OK out /\ Permutation out cs.
  Proof.
    rewrite all_greedy_fresh. intros Hf. unfold Dfa.all_candidates.
    destruct (scan_loop_spec w 0 [] [] [] cs eq_refl Hf) as (out & E & Hp); [intros pt []|].
    exists out. split; [exact E | exact Hp].
  Qed.

  Theorem find_all_is_scan : forall w f cs,
    all_greedy a w = OK cs -> find_all_dfa a w f = select_leftmost f 0 cs.
  Proof.
    intros w f cs Hg. destruct (all_candidates_perm w cs Hg) as (out & E & Hp).
    unfold Dfa.find_all_dfa. rewrite E. f_equal.
    apply sort_asc_canonical; [exact Hp|].
    pose proof (all_greedy_sorted w cs Hg) as Hs.
    clear - Hs. induction Hs as [|c l Hs IH Hc]; constructor; [exact IH|].
    eapply Forall_impl; [|exact Hc]. intros c' Hlt. unfold lt_key. cbv beta in *. lia.
  Qed.

  (* ---------- A2: errors of the specification are errors of find_all ---------- *)
  Lemma step_active_ok idx x w : forall pts act' cs c',
    step_active a idx x pts = OK (act', cs) -> runs w act' = OK c' ->
    exists c, runs (x :: w) pts = OK c.
  Proof.
    induction pts as [|pt r IH]; intros act' cs c' H Hr.
    - eexists; reflexivity.
    - cbn [Dfa.step_active] in H. cbn [runs Scan.greedy_run].
      destruct (consume a pt x) as [o|k]; [|discriminate].
      destruct (step_active a idx x r) as [[act'' cs'']|k] eqn:Est; [|discriminate].
      destruct o as [pt'|].
      + inversion H; subst act' cs. cbn [runs] in Hr.
        destruct (greedy_run a pt' w) as [g|k]; [|discriminate].
        destruct (runs w act'') as [c''|k] eqn:Er; [|discriminate].
        destruct (IH _ _ _ eq_refl Er) as [c Ec]. rewrite Ec. eexists; reflexivity.
      + assert (Eact : act'' = act') by (destruct (is_accepting a pt); inversion H; reflexivity).
        subst act''. destruct (IH _ _ _ eq_refl Hr) as [c Ec]. rewrite Ec.
        eexists; reflexivity.
  Qed.

  Lemma runs_nil_ok : forall active, exists c, runs [] active = OK c.
  Proof.
    induction active as [|pt r [c IH]]; [eexists; reflexivity|].
    cbn [runs Scan.greedy_run]. rewrite IH. eexists; reflexivity.
  Qed.

  Lemma scan_loop_ok : forall w idx active cands r,
    scan_loop a idx w active cands = OK r ->
    exists c1 c2, runs w active = OK c1 /\ fresh idx w = OK c2.
  Proof.
    induction w as [|x w IH]; intros idx active cands r H.
    - destruct (runs_nil_ok active) as [c Ec]. exists c, []. split; [exact Ec | reflexivity].
    - cbn [Dfa.scan_loop] in H.
      destruct (step_active a idx x (active ++ [new_pat a idx])) as [[act' cs]|k] eqn:Est;
        [|discriminate].
      destruct (IH _ _ _ _ H) as (c' & c2' & Er & Ef).
      destruct (step_active_ok idx x w _ _ _ _ Est Er) as [c Ec].
      rewrite runs_app in Ec.
      destruct (runs (x :: w) active) as [c1|k]; [|discriminate].
      cbn [runs] in Ec. cbn [fresh]. rewrite Ef.
      destruct (greedy_run a (new_pat a idx) (x :: w)) as [g|k]; [|discriminate].
      exists c1. eexists. split; reflexivity.
  Qed.

  Theorem find_all_err : forall w f k,
    all_greedy a w = Err k -> exists k', find_all_dfa a w f = Err k'.
  Proof.
    intros w f k Hg. unfold Dfa.find_all_dfa.
    destruct (all_candidates a w) as [r|k'] eqn:E; [|eexists; reflexivity].
    exfalso. apply scan_loop_ok in E. destruct E as (c1 & c2 & _ & Ef).
    rewrite all_greedy_fresh in Hg. congruence.
  Qed.

  (* ---------- B4: the form used by get_headers ---------- *)
  Theorem C14_filtered : forall w f cs,
    all_greedy a w = OK cs -> find_all_dfa a w f = scan_spec a w f.
  Proof.
    intros w f cs Hg. unfold Scan.scan_spec. rewrite Hg. apply find_all_is_scan. exact Hg.
  Qed.

  (* ---------- B1: bounds, and the result is a sub-selection ---------- *)
  Lemma all_greedy_bounds w cs :
    all_greedy a w = OK cs ->
    forall s t, In (s, t) cs -> s < length w /\ s <= t <= length w.
  Proof.
    rewrite all_greedy_fresh. intros H s t Hin.
    destruct (fresh_facts _ _ _ H) as [_ Hb]. apply Hb in Hin. lia.
  Qed.

  Lemma select_leftmost_incl (f : cand -> res bool) : forall cs le ms,
    select_leftmost f le cs = OK ms -> incl ms cs.
  Proof.
    induction cs as [|c rest IH]; intros le ms H; cbn [select_leftmost] in H.
    - inversion H; subst. intros x [].
    - destruct (f c) as [[|]|k]; try discriminate.
      + destruct (Nat.leb le (fst c)).
        * destruct (select_leftmost f (snd c) rest) as [r|k] eqn:Er; [|discriminate].
          inversion H; subst ms. apply IH in Er.
          intros y [<-|Hy]; [left; reflexivity | right; apply Er; exact Hy].
        * apply IH in H. intros y Hy; right; apply H; exact Hy.
      + apply IH in H. intros y Hy; right; apply H; exact Hy.
  Qed.

  Theorem C14_bounds : forall w f cs ms,
    all_greedy a w = OK cs -> find_all_dfa a w f = OK ms ->
    (forall s t, In (s, t) cs -> s < length w /\ s <= t <= length w) /\
    incl ms cs /\
    (forall s t, In (s, t) ms -> s < length w /\ s <= t <= length w).
  Proof.
    intros w f cs ms Hg Hf. rewrite (find_all_is_scan w f cs Hg) in Hf.
    pose proof (all_greedy_bounds w cs Hg) as Hb.
    pose proof (select_leftmost_incl f cs 0 ms Hf) as Hi.
    split; [exact Hb|]. split; [exact Hi|]. intros s t Hin. apply Hb, Hi, Hin.
  Qed.

  (* ---------- B2: ordered and non-overlapping ---------- *)
  Lemma select_leftmost_sorted (f : cand -> res bool) : forall cs le ms,
    (forall c, In c cs -> fst c <= snd c) ->
    select_leftmost f le cs = OK ms ->
    Forall (fun c => le <= fst c) ms /\
    StronglySorted (fun c1 c2 : cand => snd c1 <= fst c2) ms.
  Proof.
    induction cs as [|c rest IH]; intros le ms Hne H; cbn [select_leftmost] in H.
    - inversion H; subst. split; constructor.
    - assert (Hne' : forall c', In c' rest -> fst c' <= snd c')
        by (intros c' Hc'; apply Hne; right; exact Hc').
      destruct (f c) as [[|]|k]; try discriminate.
      + destruct (Nat.leb_spec le (fst c)) as [Hle|Hgt].
        * destruct (select_leftmost f (snd c) rest) as [r|k] eqn:Er; [|discriminate].
          inversion H; subst ms. destruct (IH _ _ Hne' Er) as [Hall Hs].
          pose proof (Hne c (or_introl eq_refl)) as Hc.
          split.
          -- constructor; [exact Hle|]. eapply Forall_impl; [|exact Hall].
             intros c' Hc'; cbv beta in *. lia.
          -- constructor; [exact Hs | exact Hall].
        * apply IH; assumption.
      + apply IH; assumption.
  Qed.

  Theorem C14_ordered_disjoint : forall w f cs ms,
    all_greedy a w = OK cs -> find_all_dfa a w f = OK ms ->
    StronglySorted (fun c1 c2 : cand => snd c1 <= fst c2) ms.
  Proof.
    intros w f cs ms Hg Hf. rewrite (find_all_is_scan w f cs Hg) in Hf.
    eapply select_leftmost_sorted; [|exact Hf].
    intros [s t] Hin. apply (all_greedy_bounds w cs Hg) in Hin. cbn [fst snd]. lia.
  Qed.

  (* ---------- B3: every non-empty greedy success is covered ---------- *)
  Lemma select_leftmost_complete : forall cs le ms,
    StronglySorted (fun c1 c2 : cand => fst c1 < fst c2) cs ->
    select_leftmost (fun _ => OK true) le cs = OK ms ->
    forall i t, In (i, t) cs -> i < t ->
      (exists s t', In (s, t') ms /\ s <= i < t') \/ i < le.
  Proof.
    induction cs as [|c rest IH]; intros le ms Hs H i t Hin Hlt; [destruct Hin|].
    cbn [select_leftmost] in H. inversion Hs as [|? ? Hs' Hc]; subst.
    rewrite Forall_forall in Hc.
    destruct (Nat.leb_spec le (fst c)) as [Hle|Hgt].
    - destruct (select_leftmost (fun _ => OK true) (snd c) rest) as [r|k] eqn:Er; [|discriminate].
      inversion H; subst ms. left. destruct Hin as [->|Hin].
      + exists i, t. split; [left; reflexivity | cbn; lia].
      + destruct (IH _ _ Hs' Er i t Hin Hlt) as [(s & t' & Hm & Hcov)|Hcov].
        * exists s, t'. split; [right; exact Hm | exact Hcov].
        * specialize (Hc _ Hin). cbn [fst] in Hc. destruct c as [s0 t0]. cbn [fst snd] in *.
          exists s0, t0. split; [left; reflexivity | lia].
    - destruct Hin as [->|Hin]; [right; cbn [fst] in Hgt; lia|].
      apply (IH _ _ Hs' H i t Hin Hlt).
  Qed.

  Theorem C14_complete : forall w cs ms,
    all_greedy a w = OK cs -> find_all_dfa a w (fun _ => OK true) = OK ms ->
    forall i t, In (i, t) cs -> i < t -> exists s t', In (s, t') ms /\ s <= i < t'.
  Proof.
    intros w cs ms Hg Hf i t Hin Hlt. rewrite (find_all_is_scan w _ cs Hg) in Hf.
    destruct (select_leftmost_complete cs 0 ms (all_greedy_sorted w cs Hg) Hf i t Hin Hlt)
      as [H|H]; [exact H | lia].
  Qed.

  (* membership in all_greedy = success of the isolated greedy run *)
  Lemma all_greedy_from_In w : forall starts cs,
    all_greedy_from a w starts = OK cs ->
    forall i t, In (i, t) cs <-> In i starts /\ greedy a w i = OK (Some t).
  Proof.
    induction starts as [|j r IH]; intros cs H i t; cbn [Scan.all_greedy_from] in H.
    - inversion H; subst. cbn [In]. tauto.
    - destruct (greedy a w j) as [g|k] eqn:Eg; [|discriminate].
      destruct (all_greedy_from a w r) as [cs'|k] eqn:Er; [|discriminate].
      inversion H; subst cs. specialize (IH cs' eq_refl i t). cbn [In].
      destruct g as [t0|].
      + cbn [In]. rewrite IH. split.
        * intros [E|[Hin Hg]]; [inversion E; subst; auto | auto].
        * intros [[->|Hin] Hg]; [left; congruence | right; auto].
      + rewrite IH. split.
        * intros [Hin Hg]; auto.
        * intros [[->|Hin] Hg]; [congruence | auto].
  Qed.

  Lemma all_greedy_In w cs :
    all_greedy a w = OK cs ->
    forall i t, In (i, t) cs <-> i < length w /\ greedy a w i = OK (Some t).
  Proof.
    intros H i t. unfold Scan.all_greedy in H. rewrite (all_greedy_from_In w _ _ H i t).
    rewrite in_seq. split; intros [H1 H2]; (split; [lia | exact H2]).
  Qed.
End ScanAny.

(* ====================================================================== *)
(* B5: a match cannot end while a Balanced group is open                    *)
(* ====================================================================== *)
Section OpenGroup.
  Context {P I : Type}.
  Variable peqb : P -> P -> bool.
  Hypothesis peqb_spec : forall p q, peqb p q = true <-> p = q.
  Variable ast : P -> Z -> I -> bool * Z.

  Lemma peqb_neq p q : p <> q -> peqb p q = false.
  Proof.
    intros Hne. destruct (peqb p q) eqn:E; [|reflexivity].
    apply peqb_spec in E. contradiction.
  Qed.

  Lemma depth_of_set_other (ds : @depths P) p q d :
    p <> q -> depth_of peqb (set_depth peqb ds q d) p = depth_of peqb ds p.
  Proof.
    intros Hne. induction ds as [|[q' d'] t IH]; cbn [set_depth depth_of].
    - rewrite (peqb_neq p q Hne). reflexivity.
    - destruct (peqb q q') eqn:Eq; cbn [depth_of].
      + apply peqb_spec in Eq. subst q'. rewrite (peqb_neq p q Hne). reflexivity.
      + destruct (peqb p q'); [reflexivity | exact IH].
  Qed.

  Definition gstep (x : I) (acc : res ((@depths P) * option P)) (p : P)
    : res ((@depths P) * option P) :=
    match acc with
    | Err k => Err k
    | OK (ds, found) =>
        let '(b, d') := ast p (depth_of peqb ds p) x in
        let ds' := set_depth peqb ds p d' in
        if b then match found with Some _ => Err ValueErrorAmbiguous | None => OK (ds', Some p) end
        else OK (ds', found)
    end.

  Lemma consume_eq_g (a : automaton P) (pt : pat P) x :
    consume peqb ast a pt x =
    let h := a_heap a in
    let trans := dtrans peqb h (p_state pt) in
    let open := filter (fun p => (0 <? depth_of peqb (p_depths pt) p)%Z) trans in
    let cands := match open with [] => trans | _ => open end in
    match fold_left (gstep x) cands (OK (p_depths pt, None)) with
    | Err k => Err k
    | OK (_, None) => OK None
    | OK (ds, Some p) =>
        match closure h (move peqb h (p_state pt) p) with
        | Err k => Err k
        | OK T' => OK (Some (mkPat (p_start pt) T' ds (S (p_len pt))))
        end
    end.
  Proof. reflexivity. Qed.

  Lemma fold_gstep_err x : forall l k, fold_left (gstep x) l (Err k) = Err k.
  Proof. induction l as [|p l IH]; intros k; [reflexivity | apply IH]. Qed.

  Lemma fold_gstep_some x : forall l ds p ds',
    fold_left (gstep x) l (OK (ds, Some p)) <> OK (ds', None).
  Proof.
    induction l as [|q l IH]; intros ds p ds'; cbn [fold_left]; [discriminate|].
    unfold gstep at 2. destruct (ast q (depth_of peqb ds q) x) as [b d'].
    destruct b; [rewrite fold_gstep_err; discriminate | apply IH].
  Qed.

  Lemma fold_gstep_none x : forall l ds found ds',
    NoDup l -> fold_left (gstep x) l (OK (ds, found)) = OK (ds', None) ->
    found = None /\ forall p, In p l -> fst (ast p (depth_of peqb ds p) x) = false.
  Proof.
    induction l as [|q l IH]; intros ds found ds' Hnd H; cbn [fold_left] in H.
    - inversion H; subst. split; [reflexivity | intros p []].
    - inversion Hnd as [|? ? Hnotin Hnd']; subst.
      unfold gstep in H at 2. destruct (ast q (depth_of peqb ds q) x) as [b d'] eqn:Eq.
      destruct b.
      + exfalso. destruct found as [p0|].
        * rewrite fold_gstep_err in H. discriminate.
        * exact (fold_gstep_some x l _ _ _ H).
      + destruct (IH _ _ _ Hnd' H) as [Hf Hall]. split; [exact Hf|].
        intros p [<-|Hp]; [rewrite Eq; reflexivity|].
        specialize (Hall p Hp). rewrite depth_of_set_other in Hall; [exact Hall|].
        intros ->. contradiction.
  Qed.

  (* if consume finds no transition, every candidate predicate rejected the item
     (evaluated at the depth it had before the call) *)
  Lemma consume_none_rejects (a : automaton P) (pt : pat P) x :
    consume peqb ast a pt x = OK None ->
    let trans := dtrans peqb (a_heap a) (p_state pt) in
    let open := filter (fun p => (0 <? depth_of peqb (p_depths pt) p)%Z) trans in
    forall p, In p (match open with [] => trans | _ => open end) ->
              fst (ast p (depth_of peqb (p_depths pt) p) x) = false.
  Proof.
    rewrite consume_eq_g. cbv zeta.
    set (trans := dtrans peqb (a_heap a) (p_state pt)).
    set (open := filter _ trans).
    set (cands := match open with [] => trans | _ => open end).
    intros H p Hp.
    assert (Hnd : NoDup cands).
    { assert (Ht : NoDup trans)
        by (apply (@pdedup_NoDup P I peqb peqb_spec (fun _ _ => true))).
      subst cands. destruct open eqn:Eo; [exact Ht|]. rewrite <- Eo. apply NoDup_filter, Ht. }
    destruct (fold_left (gstep x) cands (OK (p_depths pt, None))) as [[ds [q|]]|k] eqn:Ef.
    - destruct (closure _ _); discriminate.
    - apply fold_gstep_none in Ef; [|exact Hnd]. apply Ef, Hp.
    - discriminate.
  Qed.

  Theorem C14_no_open_group_at_end (a : automaton P) (pt : pat P) x :
    consume peqb ast a pt x = OK None ->
    forall p, In p (dtrans peqb (a_heap a) (p_state pt)) ->
      (depth_of peqb (p_depths pt) p > 0)%Z ->
      fst (ast p (depth_of peqb (p_depths pt) p) x) = false.
  Proof.
    intros H p Hp Hd. apply (consume_none_rejects a pt x H).
    assert (Hopen : In p (filter (fun p => (0 <? depth_of peqb (p_depths pt) p)%Z)
                            (dtrans peqb (a_heap a) (p_state pt)))).
    { apply filter_In. split; [exact Hp|]. apply Z.ltb_lt. lia. }
    destruct (filter _ _) eqn:Eo; [destruct Hopen | exact Hopen].
  Qed.
End OpenGroup.

(* token-level reading: an open Balanced group accepts every token *)
Lemma balanced_open_accepts l r d t :
  (d > 0)%Z -> fst (taccept_st (PBalanced l r) d t) = true.
Proof.
  intros Hd. cbn [taccept_st].
  destruct (taccept l t); [reflexivity|].
  destruct (taccept r t).
  - destruct (Z.ltb_spec (d - 1) 0); [lia | reflexivity].
  - cbn [fst]. apply Z.ltb_lt. lia.
Qed.

Theorem C14_balanced_closed_at_end (a : automaton tpred) (pt : pat tpred) (x : token) :
  consume tpred_eqb taccept_st a pt x = OK None ->
  forall l r, In (PBalanced l r) (dtrans tpred_eqb (a_heap a) (p_state pt)) ->
    (depth_of tpred_eqb (p_depths pt) (PBalanced l r) <= 0)%Z.
Proof.
  intros H l r Hin.
  destruct (Z_le_gt_dec (depth_of tpred_eqb (p_depths pt) (PBalanced l r)) 0) as [Hle|Hgt];
    [exact Hle|].
  pose proof (C14_no_open_group_at_end tpred_eqb UnambProofs.tpred_eqb_spec taccept_st
                a pt x H _ Hin Hgt) as Hrej.
  rewrite balanced_open_accepts in Hrej by exact Hgt. discriminate.
Qed.

(* ====================================================================== *)
(* Part C: stateless, pairwise disjoint predicates                          *)
(* ====================================================================== *)
Section ScanSem.
  Context {P I : Type}.
  Variable peqb : P -> P -> bool.
  Hypothesis peqb_spec : forall p q, peqb p q = true <-> p = q.
  Variable accepts : P -> I -> bool.
  Notation ast := (accept_st accepts).
  Notation lang := (lang accepts).

  (* ---------- the empty word and nullable ---------- *)
  Lemma nullable_op_union (l r : list (op P)) :
    nullable_op (Union l r) = nullable_seq l || nullable_seq r.
  Proof. reflexivity. Qed.
  Lemma nullable_op_plus (e : list (op P)) : nullable_op (Plus e) = nullable_seq e.
  Proof. reflexivity. Qed.
  Lemma nullable_seq_cons (o : op P) (e : list (op P)) :
    nullable_seq (o :: e) = nullable_op o && nullable_seq e.
  Proof. reflexivity. Qed.

  Lemma lang_nil_nullable : forall e : list (op P), lang_seq accepts e [] -> nullable_seq e = true.
  Proof.
    apply (seq_ind' (fun o => lang_op accepts o [] -> nullable_op o = true)
                    (fun e => lang_seq accepts e [] -> nullable_seq e = true)).
    - intros p H. inversion H.
    - intros l r IHl IHr H. rewrite nullable_op_union. apply Bool.orb_true_iff.
      inversion H; subst; [left; apply IHl | right; apply IHr]; assumption.
    - reflexivity.
    - reflexivity.
    - intros e IH H. rewrite nullable_op_plus. inversion H; subst; [apply IH; assumption|].
      match goal with E : _ ++ _ = [] |- _ => apply app_eq_nil in E; destruct E as [-> ->] end.
      apply IH; assumption.
    - reflexivity.
    - intros o e IHo IHe H. rewrite nullable_seq_cons.
      inversion H; subst.
      match goal with E : _ ++ _ = [] |- _ => apply app_eq_nil in E; destruct E as [-> ->] end.
      rewrite IHo, IHe by assumption. reflexivity.
  Qed.

  Section WithAut.
    Variable ps : list P.
    Hypothesis Hdisj : disjoint accepts ps.
    Variable a : automaton P.
    Hypothesis Hpreds : hpreds (a_heap a) (fun p => In p ps).
    Notation acc_from := (acc_from accepts a).

    Lemma greedy_run_spec : forall w (pt : pat P),
      zeros (p_depths pt) -> eclosed (a_heap a) (p_state pt) ->
      exists r, greedy_run peqb ast a pt w = OK r /\
        forall n, r = Some n ->
          exists j, n = p_len pt + j /\ j <= length w /\
            acc_from (p_state pt) (firstn j w) /\
            forall j', j < j' <= length w -> ~ acc_from (p_state pt) (firstn j' w).
    Proof.
      induction w as [|x w IH]; intros pt Hz Hc.
      - cbn [greedy_run]. eexists; split; [reflexivity|]. intros n Hn.
        unfold is_accepting in Hn.
        destruct (mem (a_acc a) (p_state pt)) eqn:Hm; inversion Hn; subst n.
        exists 0. split; [lia|]. split; [cbn; lia|]. split.
        + cbn [firstn]. apply acc_from_nil; assumption.
        + intros j' Hj'. cbn [length] in Hj'. lia.
      - cbn [greedy_run].
        destruct (consume_spec peqb peqb_spec accepts ps Hdisj a Hpreds pt x Hz)
          as (T' & ET & [[-> Ec]|[Hne (ds' & Hz' & Ec)]]); rewrite Ec;
          destruct (step_sem accepts _ _ _ _ Hc ET) as [Hc' Hsem].
        + eexists; split; [reflexivity|]. intros n Hn. unfold is_accepting in Hn.
          destruct (mem (a_acc a) (p_state pt)) eqn:Hm; inversion Hn; subst n.
          exists 0. split; [lia|]. split; [cbn; lia|]. split.
          * cbn [firstn]. apply acc_from_nil; assumption.
          * intros j' Hj' Hacc. destruct j' as [|j']; [lia|]. cbn [firstn] in Hacc.
            apply Hsem in Hacc. destruct Hacc as (u' & [] & _).
        + destruct (IH (mkPat (p_start pt) T' ds' (S (p_len pt))) Hz' Hc') as (r & Er & Hr).
          exists r. split; [exact Er|]. intros n Hn.
          destruct (Hr n Hn) as (j & -> & Hj & Hacc & Hmax). cbn [p_len p_state] in *.
          exists (S j). split; [lia|]. split; [cbn [length]; lia|]. split.
          * cbn [firstn]. apply Hsem. exact Hacc.
          * intros j' Hj' Hacc'. destruct j' as [|j']; [lia|]. cbn [firstn length] in *.
            apply Hsem in Hacc'. apply (Hmax j'); [lia | exact Hacc'].
    Qed.
  End WithAut.

  (* ---------- the automaton of a well-formed pattern ---------- *)
  Section WithExpr.
    Variable e : expr P.
    Hypothesis Hwf : wf e = true.
    Hypothesis Hdisj : disjoint accepts (preds_seq e).
    Variable a : automaton P.
    Hypothesis Ha : to_dfa e = OK a.

    Lemma aut_facts :
      hpreds (a_heap a) (fun p => In p (preds_seq e)) /\
      eclosed (a_heap a) (a_start a) /\
      forall v, acc_from accepts a (a_start a) v <-> lang e v.
    Proof.
      destruct (to_dfa_sem accepts e Hwf Hdisj) as (a' & Ea & H).
      assert (a' = a) by congruence. subst a'. exact H.
    Qed.

    Lemma greedy_spec w i :
      exists r, greedy peqb ast a w i = OK r /\
        forall t, r = Some t ->
          exists j, t = i + j /\ j <= length (skipn i w) /\
            lang e (firstn j (skipn i w)) /\
            forall j', j < j' <= length (skipn i w) -> ~ lang e (firstn j' (skipn i w)).
    Proof.
      destruct aut_facts as (Hp & Hc & Hsem).
      destruct (greedy_run_spec (preds_seq e) Hdisj a Hp (skipn i w) (new_pat a i))
        as (r & Er & Hr); [constructor | exact Hc|].
      unfold greedy. rewrite Er. destruct r as [n|].
      - eexists; split; [reflexivity|]. intros t Ht. inversion Ht; subst t.
        destruct (Hr n eq_refl) as (j & -> & Hj & Hacc & Hmax). cbn [new_pat p_len p_state] in *.
        exists j. split; [lia|]. split; [exact Hj|]. split; [apply Hsem; exact Hacc|].
        intros j' Hj' HL. apply (Hmax j' Hj'). apply Hsem. exact HL.
      - eexists; split; [reflexivity|]. discriminate.
    Qed.

    (* C1 *)
    Theorem greedy_total : forall w i, exists r, greedy peqb ast a w i = OK r.
    Proof. intros w i. destruct (greedy_spec w i) as (r & Er & _). exists r; exact Er. Qed.

    Lemma all_greedy_from_total w : forall starts,
      exists cs, all_greedy_from peqb ast a w starts = OK cs.
    Proof.
      induction starts as [|i r [cs IH]]; [eexists; reflexivity|].
      cbn [all_greedy_from]. destruct (greedy_total w i) as [g Eg]. rewrite Eg, IH.
      eexists; reflexivity.
    Qed.

    Theorem all_greedy_total : forall w, exists cs, all_greedy peqb ast a w = OK cs.
    Proof. intros w. apply all_greedy_from_total. Qed.

    (* C2 *)
    Theorem C14_sound : forall w i t,
      i <= length w -> greedy peqb ast a w i = OK (Some t) ->
      i <= t <= length w /\ lang e (sublist w i t).
    Proof.
      intros w i t Hi Hg. destruct (greedy_spec w i) as (r & Er & Hr).
      rewrite Hg in Er. inversion Er; subst r.
      destruct (Hr t eq_refl) as (j & -> & Hj & HL & _).
      rewrite skipn_length in Hj. split; [lia|].
      unfold sublist. replace (i + j - i) with j by lia. exact HL.
    Qed.

    (* C3 *)
    Theorem C14_longest : forall w i t,
      greedy peqb ast a w i = OK (Some t) ->
      forall t', t < t' <= length w -> ~ lang e (sublist w i t').
    Proof.
      intros w i t Hg t' Ht'. destruct (greedy_spec w i) as (r & Er & Hr).
      rewrite Hg in Er. inversion Er; subst r.
      destruct (Hr t eq_refl) as (j & -> & Hj & _ & Hmax).
      unfold sublist. apply Hmax. rewrite skipn_length. lia.
    Qed.

    (* C4 *)
    Theorem C14_nonempty : nullable_seq e = false ->
      forall w i t, greedy peqb ast a w i = OK (Some t) -> i < t.
    Proof.
      intros Hn w i t Hg. destruct (greedy_spec w i) as (r & Er & Hr).
      rewrite Hg in Er. inversion Er; subst r.
      destruct (Hr t eq_refl) as (j & -> & _ & HL & _).
      destruct j as [|j]; [|lia]. exfalso. cbn [firstn] in HL.
      apply lang_nil_nullable in HL. congruence.
    Qed.

    (* every candidate is a sound, longest match *)
    Lemma all_greedy_sem w cs :
      all_greedy peqb ast a w = OK cs ->
      forall s t, In (s, t) cs ->
        s < length w /\ s <= t <= length w /\ lang e (sublist w s t) /\
        (forall t', t < t' <= length w -> ~ lang e (sublist w s t')) /\
        greedy peqb ast a w s = OK (Some t).
    Proof.
      intros Hg s t Hin. apply (all_greedy_In peqb ast a w cs Hg) in Hin.
      destruct Hin as [Hs Hgr].
      destruct (C14_sound w s t (Nat.lt_le_incl _ _ Hs) Hgr) as [Hb HL].
      split; [exact Hs|]. split; [exact Hb|]. split; [exact HL|].
      split; [apply C14_longest; exact Hgr | exact Hgr].
    Qed.
  End WithExpr.

  Lemma select_leftmost_total (f : cand -> res bool) :
    (forall c, exists b, f c = OK b) ->
    forall cs le, exists ms, select_leftmost f le cs = OK ms.
  Proof.
    intros Hf. induction cs as [|c rest IH]; intros le; cbn [select_leftmost].
    - eexists; reflexivity.
    - destruct (Hf c) as [b Eb]. rewrite Eb. destruct b; [|apply IH].
      destruct (Nat.leb le (fst c)); [|apply IH].
      destruct (IH (snd c)) as [r Er]. rewrite Er. eexists; reflexivity.
  Qed.

  (* C1, find_all: no error unless the acceptance filter raises one *)
  Theorem C14_find_all_total : forall (e : expr P) w f,
    wf e = true -> disjoint accepts (preds_seq e) ->
    (forall c, exists b, f c = OK b) ->
    exists ms, find_all peqb ast e w f = OK ms.
  Proof.
    intros e w f Hwf Hd Hf. destruct (to_dfa_sem accepts e Hwf Hd) as (a & Ea & _).
    unfold find_all. rewrite Ea.
    destruct (all_greedy_total e Hwf Hd a Ea w) as [cs Ecs].
    rewrite (find_all_is_scan peqb ast a w f cs Ecs).
    apply select_leftmost_total. exact Hf.
  Qed.

  (* C5 *)
  Theorem C14_find_all_spec : forall (e : expr P) (a : automaton P) w ms,
    wf e = true -> disjoint accepts (preds_seq e) -> to_dfa e = OK a ->
    find_all peqb ast e w (fun _ => OK true) = OK ms ->
    (forall s t, In (s, t) ms ->
       s < length w /\ s <= t <= length w /\ lang e (sublist w s t) /\
       (forall t', t < t' <= length w -> ~ lang e (sublist w s t')) /\
       greedy peqb ast a w s = OK (Some t)) /\
    StronglySorted (fun c1 c2 : cand => snd c1 <= fst c2) ms /\
    (forall i t, i < length w -> i < t -> greedy peqb ast a w i = OK (Some t) ->
       exists s t', In (s, t') ms /\ s <= i < t').
  Proof.
    intros e a w ms Hwf Hd Ea Hf. unfold find_all in Hf. rewrite Ea in Hf.
    destruct (all_greedy_total e Hwf Hd a Ea w) as [cs Ecs].
    destruct (C14_bounds peqb ast a w _ cs ms Ecs Hf) as (_ & Hincl & _).
    split; [|split].
    - intros s t Hin. apply (all_greedy_sem e Hwf Hd a Ea w cs Ecs). apply Hincl. exact Hin.
    - eapply C14_ordered_disjoint; eassumption.
    - intros i t Hi Hlt Hg.
      apply (C14_complete peqb ast a w cs ms Ecs Hf i t); [|exact Hlt].
      apply (all_greedy_In peqb ast a w cs Ecs). split; assumption.
  Qed.
End ScanSem.

(* the counterexample to C14_sound without [i <= length w]: a nullable pattern
   "matches" the empty word at a start position past the end of the input *)
Example greedy_past_end :
  match to_dfa [Opt [Atom 0%Z]] with
  | OK a => greedy id_peqb id_accept_st a ([] : list Z) 1 = OK (Some 1)
  | Err _ => False
  end.
Proof. vm_compute. reflexivity. Qed.

Print Assumptions sort_asc_canonical.
Print Assumptions find_all_is_scan.
Print Assumptions find_all_err.
Print Assumptions C14_bounds.
Print Assumptions C14_ordered_disjoint.
Print Assumptions C14_complete.
Print Assumptions C14_filtered.
Print Assumptions all_greedy_In.
Print Assumptions C14_no_open_group_at_end.
Print Assumptions C14_balanced_closed_at_end.
Print Assumptions greedy_total.
Print Assumptions all_greedy_total.
Print Assumptions C14_find_all_total.
Print Assumptions C14_sound.
Print Assumptions C14_longest.
Print Assumptions C14_nonempty.
Print Assumptions C14_find_all_spec.
