(* MarkerProofs.v — property C17 (suppression marker `nocl`), summary.
     A  MarkerProofsText.v    what counts as a marker
     B  MarkerProofsFold.v    a function is omitted exactly when a marker sits on the line of its name
     C  MarkerProofsNonint.v  marking an unrelated function changes nothing else *)
From Verif Require Export MarkerProofsText MarkerProofsFold MarkerProofsNonint.

(* A *)
Print Assumptions C17_marker_text.
Print Assumptions C17_marker_token.
Print Assumptions C17_case_insensitive.
Print Assumptions C17_mention_is_not_marker.
(* B *)
Print Assumptions fold_scopes_preorder.
Print Assumptions unfold_fold_fst.
Print Assumptions C17_filter_nocl_In.
Print Assumptions C17_omitted_iff.
Print Assumptions C17_omitted_iff_flat.
Print Assumptions C17_reported_iff.
(* C *)
Print Assumptions fold_scopes_split.
Print Assumptions fold_scopes_unrelated.
Print Assumptions C17_noninterference_core.
Print Assumptions C17_noninterference.
Print Assumptions C17_noninterference_laminar.
Print Assumptions C17_unrelated_childless.
Print Assumptions ex_unsorted_differs.
Print Assumptions C17_noninterference_measure.
Print Assumptions C17_noninterference_measure_conv.
Print Assumptions C17_noninterference_measure_err.
Print Assumptions C17_mark_one_function.
Print Assumptions C17_mark_one_function_scan.
