(* HasNameProofs.v — soundness of the certificate of HasName.v: if
   [has_name_check e = true] then every successful greedy run of the matcher
   (hence every match reported by find_all) has consumed a Name token. *)
From Verif Require Import Base Regex Nfa Dfa Token TokEngine Unamb UnambProofs Scan HasName.
Open Scope Z_scope.

(* ====================================================================== *)
(* 1. membership                                                           *)
(* ====================================================================== *)

Lemma nconfig_mem_In : forall c S, nconfig_mem c S = true <-> In c S.
Proof.
  intros [c b] S. unfold nconfig_mem. rewrite existsb_exists. split.
  - intros [[d b'] [Hin He]]. unfold nconfig_eqb in He. cbn [fst snd] in He.
    apply andb_true_iff in He. destruct He as [H1 H2].
    apply config_eqb_eq in H1. apply Bool.eqb_prop in H2. subst. assumption.
  - intro H. exists (c, b). split; auto. unfold nconfig_eqb. cbn [fst snd].
    rewrite config_eqb_refl, Bool.eqb_reflx. reflexivity.
Qed.

Lemma is_name_rep : forall lits t, is_name (rep lits t) = is_name t.
Proof. reflexivity. Qed.

(* ====================================================================== *)
(* 2. one concrete step is one of the abstract steps                       *)
(* ====================================================================== *)

Theorem consume_abs : forall a pt c x,
  related a pt c ->
  match abs_consume a (bal_preds (a_heap a)) c (rep (heap_lits (a_heap a)) x) with
  | ADead => consume_tk a pt x = OK None
  | ASucc l => exists pt' c', consume_tk a pt x = OK (Some pt') /\ related a pt' c' /\ In c' l
  | AAmbiguous | AError => True
  end.
Proof.
  intros a pt c x Hrel.
  pose proof (related_classes _ _ _ Hrel) as Hcls.
  destruct Hrel as (Hst & Hlen & Hnth & Hz).
  destruct c as [T cls]. cbn [fst snd] in *. subst T cls.
  unfold abs_consume. cbn [fst snd].
  rewrite consume_unfold. cbv zeta.
  set (h := a_heap a) in *. set (bal := bal_preds h) in *. set (lits := heap_lits h) in *.
  set (ds := p_depths pt) in *.
  set (trans := dtrans tpred_eqb h (p_state pt)) in *.
  assert (Htr : forall p, In p trans -> In p (heap_preds h))
    by (intros p Hp; eapply dtrans_heap_preds; exact Hp).
  assert (Hcl : forall p, In p trans ->
            cls_of bal (classes_of ds bal) p = class_of (depth_of tpred_eqb ds p))
    by (intros p Hp; apply cls_of_related; auto).
  assert (Hopen : filter (fun p => dclass_eqb (cls_of bal (classes_of ds bal) p) DPos) trans
                  = filter (fun p => 0 <? depth_of tpred_eqb ds p) trans).
  { apply filter_ext_in. intros p Hp. rewrite Hcl by assumption. apply class_of_pos. }
  rewrite Hopen. clear Hopen.
  pose proof (cands_sub (fun p => 0 <? depth_of tpred_eqb ds p) trans) as Hsub.
  pose proof (cands_NoDup (fun p => 0 <? depth_of tpred_eqb ds p) trans (dtrans_NoDup _ _)) as Hnd.
  set (cands := match filter (fun p => 0 <? depth_of tpred_eqb ds p) trans with
                | [] => trans | _ => filter (fun p => 0 <? depth_of tpred_eqb ds p) trans end) in *.
  assert (Hacc : filter (fun p => abs_accept p (cls_of bal (classes_of ds bal) p) (rep lits x)) cands
                 = filter (fun p => fst (taccept_st p (depth_of tpred_eqb ds p) x)) cands).
  { apply filter_ext_in. intros p Hp. rewrite Hcl by auto. symmetry.
    apply abs_accept_sound. apply heap_preds_lits. auto. }
  rewrite Hacc. clear Hacc.
  rewrite (fold_cstep x ds cands ds None Hnd (fun _ _ => eq_refl)).
  destruct (filter (fun p => fst (taccept_st p (depth_of tpred_eqb ds p) x)) cands) as [|p [|p2 l]] eqn:EF.
  - reflexivity.
  - destruct (closure h (move tpred_eqb h (p_state pt) p)) as [T'|k] eqn:EC; [|exact I].
    set (ds' := upd_depths x cands ds).
    exists (mkPat (p_start pt) T' ds' (Datatypes.S (p_len pt))), (T', classes_of ds' bal).
    split; [reflexivity|]. split.
    + apply (related_intro a (mkPat (p_start pt) T' ds' (Datatypes.S (p_len pt)))).
      * reflexivity.
      * intros q Hq. cbn [p_depths]. unfold ds'. rewrite upd_depths_spec by assumption.
        destruct (pmem tpred_eqb q cands).
        -- rewrite taccept_st_stateless by assumption. apply Hz. assumption.
        -- apply Hz. assumption.
    + apply (in_map (fun cls' => (T', cls'))).
      apply update_classes_sound. intros b Hb.
      unfold ds'. rewrite upd_depths_spec by assumption.
      destruct (pmem tpred_eqb b cands); [|reflexivity].
      apply abs_classes_sound. apply heap_preds_lits.
      apply bal_preds_In in Hb. tauto.
  - exact I.
Qed.

(* ====================================================================== *)
(* 3. the invariant with the Name bit                                      *)
(* ====================================================================== *)

Definition ncovered (a : automaton tpred) (S : list nconfig) (pt : pat tpred) (b : bool) : Prop :=
  exists c, related a pt c /\ In (c, b) S.

Lemma name_inv_start : forall a S i, name_inv_check_aut a S = true ->
  ncovered a S (new_pat a i) false.
Proof.
  intros a S i H. unfold name_inv_check_aut in H. apply andb_true_iff in H.
  destruct H as [H _]. apply nconfig_mem_In in H.
  exists (start_config a (bal_preds (a_heap a))). split; [apply start_related | exact H].
Qed.

Lemma name_inv_accepting : forall a S pt b, name_inv_check_aut a S = true ->
  ncovered a S pt b -> is_accepting a pt = true -> b = true.
Proof.
  intros a S pt b H (c & Hr & Hin) Hacc. unfold name_inv_check_aut in H.
  apply andb_true_iff in H. destruct H as [_ H]. rewrite forallb_forall in H.
  specialize (H _ Hin). apply andb_true_iff in H. destruct H as [H _].
  cbn [fst snd] in H. destruct Hr as (Hst & _). unfold is_accepting in Hacc.
  rewrite Hst in Hacc. rewrite Hacc in H. cbn in H. exact H.
Qed.

Lemma name_inv_step : forall a S pt b x pt', name_inv_check_aut a S = true ->
  ncovered a S pt b -> consume_tk a pt x = OK (Some pt') ->
  ncovered a S pt' (b || is_name x).
Proof.
  intros a S pt b x pt' H (c & Hr & Hin) Hc. unfold name_inv_check_aut in H.
  apply andb_true_iff in H. destruct H as [_ H]. rewrite forallb_forall in H.
  specialize (H _ Hin). apply andb_true_iff in H. destruct H as [_ H].
  rewrite forallb_forall in H.
  specialize (H _ (rep_in_abs_tokens (heap_lits (a_heap a)) x)). cbn [fst snd] in H.
  pose proof (consume_abs a pt c x Hr) as K.
  destruct (abs_consume a (bal_preds (a_heap a)) c (rep (heap_lits (a_heap a)) x)) as [| |l|];
    try discriminate H.
  - rewrite K in Hc. discriminate Hc.
  - destruct K as (pt1 & c1 & E & Hr1 & Hin1). rewrite E in Hc. inversion Hc; subst pt1.
    rewrite forallb_forall in H. specialize (H _ Hin1). apply nconfig_mem_In in H.
    rewrite is_name_rep in H. exists c1. split; assumption.
Qed.

(* ====================================================================== *)
(* 4. greedy runs                                                          *)
(* ====================================================================== *)

Notation greedy_run_tk := (greedy_run tpred_eqb taccept_st).
Notation greedy_tk := (greedy tpred_eqb taccept_st).

Theorem greedy_run_has_name : forall a S, name_inv_check_aut a S = true ->
  forall w pt b n, ncovered a S pt b -> greedy_run_tk a pt w = OK (Some n) ->
  b = true \/
  exists j tk, (p_len pt + j < n)%nat /\ nth_error w j = Some tk /\ is_name tk = true.
Proof.
  intros a S Hinv. induction w as [|x w IH]; intros pt b n Hc H; cbn [greedy_run] in H.
  - destruct (is_accepting a pt) eqn:Ea; [|discriminate]. left.
    eapply name_inv_accepting; eassumption.
  - fold (consume_tk a pt x) in H.
    destruct (consume_tk a pt x) as [[pt'|]|k] eqn:Ec; try discriminate.
    + pose proof (name_inv_step a S pt b x pt' Hinv Hc Ec) as Hc'.
      assert (El : p_len pt' = Datatypes.S (p_len pt)).
      { unfold consume_tk in Ec. rewrite consume_unfold in Ec. cbv zeta in Ec.
        destruct (fold_left _ _ _) as [[ds [p|]]|k]; try discriminate.
        destruct (closure _ _) as [T'|k]; try discriminate.
        inversion Ec; subst. reflexivity. }
      assert (Hlen : (p_len pt' <= n)%nat).
      { clear - H. revert pt' n H. induction w as [|y w IHw]; intros pt' n H; cbn [greedy_run] in H.
        - destruct (is_accepting a pt'); inversion H; subst; lia.
        - destruct (consume tpred_eqb taccept_st a pt' y) as [[pt''|]|k] eqn:Ec; try discriminate.
          + apply IHw in H.
            assert (El : p_len pt'' = Datatypes.S (p_len pt')).
            { fold (consume_tk a pt' y) in Ec. rewrite consume_unfold in Ec. cbv zeta in Ec.
              destruct (fold_left _ _ _) as [[ds [p|]]|k]; try discriminate.
              destruct (closure _ _) as [T'|k]; try discriminate.
              inversion Ec; subst. reflexivity. }
            lia.
          + destruct (is_accepting a pt'); inversion H; subst; lia. }
      destruct (IH pt' _ n Hc' H) as [Hb|(j & tk & Hj & Hn & Hname)].
      * apply orb_true_iff in Hb. destruct Hb as [Hb|Hb]; [left; exact Hb|].
        right. exists O, x. split; [lia|]. split; [reflexivity | exact Hb].
      * right. exists (Datatypes.S j), tk. split; [lia|]. split; assumption.
    + destruct (is_accepting a pt) eqn:Ea; [|discriminate]. left.
      eapply name_inv_accepting; eassumption.
Qed.

(* every successful greedy attempt (s, t) has a Name token in w[s..t) *)
Theorem greedy_has_name : forall a S, name_inv_check_aut a S = true ->
  forall w s t, greedy_tk a w s = OK (Some t) ->
  exists j tk, (j < t - s)%nat /\ nth_error (skipn s w) j = Some tk /\ is_name tk = true.
Proof.
  intros a S Hinv w s t H. unfold greedy in H.
  destruct (greedy_run_tk a (new_pat a s) (skipn s w)) as [[n|]|k] eqn:E; try discriminate.
  inversion H; subst t.
  destruct (greedy_run_has_name a S Hinv _ _ _ _ (name_inv_start a S s Hinv) E)
    as [Hb|(j & tk & Hj & Hn & Hname)]; [discriminate|].
  exists j, tk. cbn [new_pat p_len] in Hj. split; [lia|]. split; assumption.
Qed.

Theorem has_name_check_sound : forall e a, has_name_check e = true -> to_dfa e = OK a ->
  forall w s t, greedy_tk a w s = OK (Some t) ->
  exists j tk, (j < t - s)%nat /\ nth_error (skipn s w) j = Some tk /\ is_name tk = true.
Proof.
  intros e a H Ha. unfold has_name_check in H. rewrite Ha in H.
  eapply greedy_has_name. exact H.
Qed.

Print Assumptions consume_abs.
Print Assumptions greedy_run_has_name.
Print Assumptions has_name_check_sound.
