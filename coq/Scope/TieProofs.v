(* TieProofs.v — the comparison operators and state updates of the hand-written scope / lexer / matcher models
   ARE the ones the source states: each model definition is proved equal to the definition regenerated from the
   source on every run (Gen/GenCompare.v).  Changing `<` to `<=`, `>=` to `>`, `+ 1` to `+ 0` … in any of these
   source lines changes GenCompare.v and one of these lemmas stops checking. *)
From Verif Require Import Base Token Lex Headers Blocks Pairing Fold GenCompare.
From Coq Require Import ZifyBool ZifyNat.
Open Scope Z_scope.

Definition zr (r : range) : Z * Z := (Z.of_nat (fst r), Z.of_nat (snd r)).

Lemma tie_range_lt a b : r_lt a b = token_range_lt (fst (zr a)) (snd (zr a)) (fst (zr b)) (snd (zr b)).
Proof. unfold r_lt, token_range_lt, zr; cbn [fst snd]. lia. Qed.
Lemma tie_range_contains a b : r_contains a b = token_range_contains (fst (zr a)) (snd (zr a)) (fst (zr b)) (snd (zr b)).
Proof. unfold r_contains, token_range_contains, zr; cbn [fst snd]. lia. Qed.
Lemma tie_range_overlaps a b : r_overlaps a b = token_range_overlaps (fst (zr a)) (snd (zr a)) (fst (zr b)) (snd (zr b)).
Proof. unfold r_overlaps, token_range_overlaps, zr; cbn [fst snd]. lia. Qed.
Lemma tie_scope_contains a b :
  s_contains a b = scope_contains (Z.of_nat (h_start (s_header a))) (Z.of_nat (snd (s_block a)))
                                  (Z.of_nat (h_start (s_header b))) (Z.of_nat (snd (s_block b))).
Proof. unfold s_contains, scope_contains. lia. Qed.
(* the two places where a block must start at or after the end of the header (GD12) *)
Lemma tie_block_after_header (h b : range) :
  Nat.leb (snd h) (fst b) = nearest_block_is_later (Z.of_nat (fst b)) (Z.of_nat (snd h)) /\
  Nat.leb (snd h) (fst b) = scope_block_after_header (Z.of_nat (fst b)) (Z.of_nat (snd h)).
Proof. unfold nearest_block_is_later, scope_block_after_header. split; lia. Qed.
(* Balanced.accept: the depth counter *)
Lemma tie_balanced_accept l r d t sat :
  taccept_st (PBalanced l r) d t =
  (let '(b, d', _) := balanced_accept (taccept l t) (taccept r t) d sat in (b, d')).
Proof.
  unfold taccept_st, balanced_accept.
  destruct (taccept l t); [reflexivity|]. destruct (taccept r t).
  - destruct (d - 1 <? 0); reflexivity.
  - f_equal. lia.
Qed.
(* lex(): a token lies on a later line when its offset is beyond the line break *)
Lemma tie_lex_advance i rest n ls off :
  advance (i :: rest) n ls off = if lex_past_newline off i then advance rest (n + 1) (i + 1) off else (i :: rest, n, ls).
Proof. unfold lex_past_newline. reflexivity. Qed.

(* _scope_tokens: the walk over the sorted child ranges *)
Lemma tie_drop_passed idx r rest :
  drop_passed idx (r :: rest) = if child_range_passed (Z.of_nat idx) (Z.of_nat (snd r)) then drop_passed idx rest else r :: rest.
Proof. unfold child_range_passed. cbn [drop_passed]. replace (Z.of_nat idx >=? Z.of_nat (snd r)) with (Nat.leb (snd r) idx) by lia. reflexivity. Qed.
Lemma tie_scope_token_step i r c rs : drop_passed i (c :: rs) = c :: rs ->
  scope_token_indices (i :: r) (c :: rs) =
  if before_child_range (Z.of_nat i) (Z.of_nat (fst c)) then i :: scope_token_indices r (c :: rs) else scope_token_indices r (c :: rs).
Proof.
  intros H. unfold before_child_range. cbn [scope_token_indices]. rewrite H.
  replace (Z.of_nat i <? Z.of_nat (fst c)) with (Nat.ltb i (fst c)) by lia. reflexivity.
Qed.
(* Python.extract_blocks: the scan over the lines below the header *)
Lemma tie_block_lines ts li l r hline hindent acc :
  block_lines ts ((li, l) :: r) hline hindent acc =
  if py_line_not_below_header (tok_line ts (line_first l)) hline then acc
  else if py_line_deeper (tok_col ts (line_first l)) hindent then block_lines ts r hline hindent (acc ++ [li])
  else block_lines ts r hline hindent [].
Proof. reflexivity. Qed.
Lemma tie_py_header_at_end (ts : list token) (h : header) :
  Nat.leb (length ts) (h_end h) = py_header_at_end (Z.of_nat (h_end h)) (Z.of_nat (length ts)).
Proof. unfold py_header_at_end. lia. Qed.

From Verif Require Import Regex Nfa Dfa.
(* find_all: a candidate is kept when it starts at or after the end of the last kept one *)
Lemma tie_select_leftmost (f : cand -> res bool) last_end c rest :
  f c = OK true ->
  select_leftmost f last_end (c :: rest) =
  if find_all_after_last (Z.of_nat (fst c)) (Z.of_nat last_end)
  then match select_leftmost f (snd c) rest with Err k => Err k | OK r => OK (c :: r) end
  else select_leftmost f last_end rest.
Proof.
  intros H. cbn [select_leftmost]. rewrite H. unfold find_all_after_last.
  replace (Z.of_nat (fst c) >=? Z.of_nat last_end) with (Nat.leb last_end (fst c)) by lia. reflexivity.
Qed.
Lemma tie_group_is_open d : (0 <? d) = group_is_open d.
Proof. unfold group_is_open. lia. Qed.

From Verif Require Import Codebase Exclude FsScan.
(* _scan_file: a cached entry is reused exactly when its checksum equals the file's *)
Lemma tie_scan_one (supported : pystr -> option pystr) (analyze : pystr -> Z -> analysis) ca f ck res :
  cache_get ca (fst f) = Some (ck, res) ->
  scan_one supported analyze (Some ca) f =
  if reuse_cached_entry true ck (snd f) then (mkSentry (fst f) (snd f) res, false)
  else (mkSentry (fst f) (snd f) (analyze (match supported (last (fst f) []) with Some l => l | None => [] end) (snd f)), true).
Proof. intros H. unfold scan_one, reuse_cached_entry. rewrite H. cbn [andb]. reflexivity. Qed.
Lemma tie_scan_one_no_entry (supported : pystr -> option pystr) (analyze : pystr -> Z -> analysis) ca f :
  cache_get ca (fst f) = None -> reuse_cached_entry false 0 (snd f) = false /\
  snd (scan_one supported analyze (Some ca) f) = true.
Proof. intros H. unfold scan_one, reuse_cached_entry. rewrite H. split; reflexivity. Qed.

(* lex(): line, column, next line start, the single-line fast path, the length kept of a padded token *)
Lemma tie_lex_position t idx n ls r :
  lex_loop (t :: r) idx n ls =
  let '(idx', n', ls') := advance idx n ls (lt_off t) in
  mkTok (lt_kind t) (lt_val t) (lex_line_number n') (lex_column (lt_off t) ls') :: lex_loop r idx' n' ls'.
Proof. reflexivity. Qed.
Lemma tie_lex_advance2 i rest n ls off :
  advance (i :: rest) n ls off = if off >? i then advance rest (lex_line_number n) (lex_next_line_start i) off else (i :: rest, n, ls).
Proof. reflexivity. Qed.
Lemma tie_lex_trim n t :
  trim_tok n t = mkLtok (lt_off t) (lt_kind t) (firstn (Z.to_nat (lex_trim_length n (lt_off t))) (lt_val t)).
Proof. reflexivity. Qed.
Lemma tie_lex_single_line code lts : newline_indices code = [] ->
  locate code lts = map (fun t => mkTok (lt_kind t) (lt_val t) 1 (lex_single_line_column (lt_off t))) (filter nonempty lts).
Proof. intros H. unfold locate. rewrite H. reflexivity. Qed.

(* get_balanced_symbol_token_ranges: a closing symbol is paired only when a group is open; the range ends past it *)
Lemma tie_balanced_close i t r op cl stack : is_symbol t op = false -> is_symbol t cl = true ->
  balanced_from i (t :: r) op cl stack =
  if balanced_has_open (Z.of_nat (length stack))
  then match stack with s :: stack' => (s, Z.to_nat (balanced_range_end (Z.of_nat i))) :: balanced_from (S i) r op cl stack' | [] => [] end
  else balanced_from (S i) r op cl [].
Proof.
  intros Ho Hc. cbn [balanced_from]. rewrite Ho, Hc. unfold balanced_has_open, balanced_range_end.
  destruct stack as [|s stack']; cbn [length].
  - reflexivity.
  - replace (Z.of_nat (S (length stack')) >? 0) with true by lia.
    replace (Z.to_nat (Z.of_nat i + 1)) with (S i) by lia. reflexivity.
Qed.

(* the hidden-name rule of scan and of check, the totals-row test of the text and Markdown overviews *)
Lemma tie_hidden_rule c r :
  negb (is_hidden (c :: r)) = scan_keeps_file c /\ negb (is_hidden (c :: r)) = scan_keeps_dir c /\
  negb (is_hidden (c :: r)) = check_keeps_file c /\ negb (is_hidden (c :: r)) = check_keeps_dir c.
Proof. unfold is_hidden, scan_keeps_file, scan_keeps_dir, check_keeps_file, check_keeps_dir. repeat split; reflexivity. Qed.
Lemma tie_totals_row n : (1 <? n) = text_totals_row n /\ (1 <? n) = md_totals_row n.
Proof. unfold text_totals_row, md_totals_row. split; lia. Qed.

From Verif Require Import GenScan Cache.
(* the version gate of the cache *)
Lemma tie_usable_cache v es :
  (exists x, usable_cache (CDoc v es) = Some x) <-> cache_version_accepted true v tool_version = true.
Proof.
  unfold usable_cache, cache_version_accepted. cbn [andb]. destruct (pystr_eqb v tool_version); split; intros H.
  - reflexivity.
  - eexists. reflexivity.
  - destruct H as [x H]. discriminate H.
  - discriminate H.
Qed.
