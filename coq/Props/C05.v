(* C05 — interim *)
From Verif Require Import Base Token TokEngine Lex Headers Blocks Pairing Fold ScanFile.
Example C05_ex_empty : scan_file LPython [] = OK []. Proof. vm_compute. reflexivity. Qed.
