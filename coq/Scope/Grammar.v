(* Grammar.v — a formal token-level canonical grammar for the C family (the fragment
   of C01's "canonical programs" without brace groups inside parameter lists), as an
   inductive relation that generates a code-token stream TOGETHER WITH the function
   descriptors the property prescribes for it.  Scope/GrammarProofs*.v prove that every
   generated stream satisfies the hypotheses of the C01 end-to-end theorems (wf_descs,
   lexically_canonical), so that for these streams C01 holds with no hypothesis left
   except the lexer's (positions strictly increasing, C16) and the absence of markers.

   Token positions play no role in the grammar (any positions may be attached). *)
From Verif Require Import Base Regex Token TokEngine Headers Blocks Spec HeaderSpec.
Open Scope Z_scope.

Definition is_lparen (t : token) : bool := is_symbol t lparen.
Definition is_rparen (t : token) : bool := is_symbol t rparen.
Definition is_lbrace (t : token) : bool := is_symbol t lbrace.
Definition is_rbrace (t : token) : bool := is_symbol t rbrace.
Definition plain (t : token) : bool :=            (* neither a parenthesis nor a brace symbol *)
  negb (is_lparen t) && negb (is_rparen t) && negb (is_lbrace t) && negb (is_rbrace t).
Definition semicolon : pystr := [59].

(* the inside of a parenthesis group: plain tokens and nested groups, in any order *)
Inductive inner : list token -> Prop :=
| inner_nil : inner []
| inner_plain t r : plain t = true -> inner r -> inner (t :: r)
| inner_group o g c r : is_lparen o = true -> inner g -> is_rparen c = true -> inner r -> inner (o :: g ++ c :: r).
(* one parenthesis group "( ... )" *)
Inductive group : list token -> Prop :=
| group_intro o g c : is_lparen o = true -> inner g -> is_rparen c = true -> group (o :: g ++ [c]).
(* one or more groups in a row *)
Inductive groups : list token -> Prop :=
| groups_one g : group g -> groups g
| groups_more g r : group g -> groups r -> groups (g ++ r).

(* a simple statement: brace-free, parentheses balanced, ends with the symbol ";"
   (calls, assignments, declarations, initialisers without braces, return ...) *)
Definition simple_stmt (ts : list token) : Prop :=
  exists body semi, ts = body ++ [semi] /\ inner body /\ is_symbol semi semicolon = true.

(* what may precede a function's name on its line: type and modifier words *)
Definition prefix_tok (t : token) : bool := (is_name t || is_keyword t) && plain t.

(* items off ts ds: the token list ts, placed at absolute offset off, is a sequence of canonical items;
   ds are the descriptors (absolute indices) of the functions defined in it, parents before children *)
Inductive items (nested : bool) : nat -> list token -> list fdesc -> Prop :=
| items_nil off : items nested off [] []
| items_stmt off s r ds :
    simple_stmt s -> items nested (off + length s) r ds -> items nested off (s ++ r) ds
(* a control statement: keyword, optional condition group(s), braced body — never a function *)
| items_ctrl off kw cond o body c r ds1 ds2 :
    is_keyword kw = true -> plain kw = true -> (cond = [] \/ groups cond) ->
    is_lbrace o = true -> is_rbrace c = true ->
    items nested (off + 1 + length cond + 1) body ds1 ->
    items nested (off + 1 + length cond + 1 + length body + 1) r ds2 ->
    items nested off (kw :: cond ++ o :: body ++ c :: r) (ds1 ++ ds2)
(* a function definition: [type words] name ( ... )+ { body } *)
| items_func off pre nm gs o body c r ds1 ds2 :
    forallb prefix_tok pre = true -> is_name nm = true -> plain nm = true -> groups gs ->
    is_lbrace o = true -> is_rbrace c = true ->
    items nested (off + length pre + 1 + length gs + 1) body ds1 ->
    (nested = false -> ds1 = []) ->                      (* C: no function inside a function *)
    items nested (off + length pre + 1 + length gs + 1 + length body + 1) r ds2 ->
    items nested off (pre ++ nm :: gs ++ o :: body ++ c :: r)
          (mkFd (off + length pre) (off + length pre) (off + length pre + 1 + length gs)
                (off + length pre + 1 + length gs) (off + length pre + 1 + length gs + 1 + length body)
           :: ds1 ++ ds2).

Definition canonical_program (nested : bool) (ts : list token) (ds : list fdesc) : Prop := items nested O ts ds.
