(* Exclude.v — the exclusion test of Scanner.is_excluded for the five
   unambiguous gitignore pattern classes of C11 (pathspec is an oracle: this
   matcher is compared with it on every generated (pattern, path) pair), and
   the hidden-name rule. *)
From Verif Require Import Base Codebase.
Open Scope Z_scope.

Definition star : Z := 42.
Definition is_hidden (name : pystr) : bool := match name with c :: _ => c =? 46 | [] => false end.

Inductive pat_class :=
| PBare (name : pystr)            (* name      : any component (file or directory) equal to it *)
| PDirOnly (name : pystr)         (* name/     : any DIRECTORY component equal to it *)
| PExt (ext : pystr)              (* *.ext     : any component ending in .ext *)
| PAnchored (cs : list pystr)     (* a/b       : that path from the root, and everything beneath *)
| PBeneath (dir : pystr)          (* a/*       : everything strictly beneath root-level a *)
| POther.                         (* comments, blank lines, anything outside the five classes: ignored here *)

Definition no_special (s : pystr) : bool :=
  negb (existsb (fun c => (c =? star) || (c =? 63) || (c =? 91) || (c =? 33) || (c =? 35) || (c =? 92)) s)
  && negb (match s with [] => true | _ => false end).

Fixpoint ends_with (suf s : pystr) : bool :=
  match s with
  | [] => match suf with [] => true | _ => false end
  | _ :: r => pystr_eqb suf s || ends_with suf r
  end.

Definition classify (line : pystr) : pat_class :=
  let parts := split_path line in
  match parts with
  | [] :: (_ :: _) as rest =>       (* /a, /a/b : anchored at the root *)
      if forallb no_special rest then PAnchored rest else POther
  | [n] =>
      if no_special n then PBare n
      else match n with
           | 42 :: 46 :: ext => if no_special ext && negb (existsb (fun c => c =? 46) ext) then PExt ext else POther
           | _ => POther
           end
  | [n; []] => if no_special n then PDirOnly n else POther
  | [n; [42]] => if no_special n then PBeneath n else POther
  | _ => if forallb no_special parts then PAnchored parts else POther
  end.

Fixpoint is_prefix (a b : list pystr) : bool :=
  match a, b with
  | [], _ => true
  | x :: a', y :: b' => pystr_eqb x y && is_prefix a' b'
  | _ :: _, [] => false
  end.

(* comps = components of the root-relative path of a FILE *)
Definition matches (p : pat_class) (comps : list pystr) : bool :=
  match p with
  | PBare n => existsb (pystr_eqb n) comps
  | PDirOnly n => existsb (pystr_eqb n) (removelast comps)
  | PExt ext => existsb (fun c => ends_with (46 :: ext) c) comps
  | PAnchored cs => is_prefix cs comps
  | PBeneath d => match comps with c :: _ :: _ => pystr_eqb d c | _ => false end
  | POther => false
  end.

(* gitignore semantics: the LAST pattern that matches decides; a pattern starting with "!" re-includes *)
Definition excluded_step (comps : list pystr) (acc : bool) (line : pystr) : bool :=
  match line with
  | 33 :: rest => if matches (classify rest) comps then false else acc
  | _ => if matches (classify line) comps then true else acc
  end.
Definition excluded (patterns : list pystr) (comps : list pystr) : bool :=
  fold_left (excluded_step comps) patterns false.

Definition negated (line : pystr) : bool := match line with 33 :: _ => true | _ => false end.
(* without negated patterns: some pattern matches *)
Lemma excluded_step_true comps : forall ps, forallb (fun l => negb (negated l)) ps = true ->
  fold_left (excluded_step comps) ps true = true.
Proof.
  induction ps as [|l ps IH]; cbn [fold_left forallb]; intros H; [reflexivity|].
  apply andb_prop in H as [Hl Hps]. unfold excluded_step at 2. destruct l as [|c r]; cbn [negated] in Hl.
  - destruct (matches (classify []) comps); apply IH; exact Hps.
  - destruct (Z.eqb_spec c 33) as [->|Hc]; [discriminate Hl|].
    assert (E : excluded_step comps true (c :: r) = true).
    { unfold excluded_step. destruct c; try (destruct (matches _ comps); reflexivity).
      repeat (destruct p; try (destruct (matches _ comps); reflexivity)). exfalso. apply Hc. reflexivity. }
    fold (excluded_step comps true (c :: r)). rewrite E. apply IH. exact Hps.
Qed.
Theorem excluded_without_negation patterns comps :
  forallb (fun l => negb (negated l)) patterns = true ->
  excluded patterns comps = existsb (fun line => matches (classify line) comps) patterns.
Proof.
  unfold excluded. induction patterns as [|l ps IH]; cbn [fold_left forallb existsb]; intros H; [reflexivity|].
  apply andb_prop in H as [Hl Hps].
  assert (E : excluded_step comps false l = matches (classify l) comps).
  { unfold excluded_step. destruct l as [|c r]; [destruct (matches _ comps); reflexivity|].
    destruct c; try (destruct (matches _ comps); reflexivity).
    repeat (destruct p; try (destruct (matches _ comps); reflexivity)). discriminate Hl. }
  rewrite E. destruct (matches (classify l) comps); cbn [orb].
  - apply excluded_step_true. exact Hps.
  - apply IH. exact Hps.
Qed.

(* the last matching pattern decides *)
Theorem excluded_last_decides patterns line comps :
  excluded (patterns ++ [line]) comps = excluded_step comps (excluded patterns comps) line.
Proof. unfold excluded. rewrite fold_left_app. reflexivity. Qed.
Corollary excluded_reincluded patterns p comps :
  matches (classify p) comps = true -> excluded (patterns ++ [33 :: p]) comps = false.
Proof. intros H. rewrite excluded_last_decides. unfold excluded_step. rewrite H. reflexivity. Qed.
