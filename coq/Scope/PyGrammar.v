(* PyGrammar.v — a formal canonical grammar for Python at the level of positioned tokens: a program
   is a block of entries at one indentation; an entry is a line, optionally followed by a deeper
   block (compound statements), or a definition header `[async] def name (...)+ rest` — possibly over several
   physical lines, the further ones indented deeper than the `def` — followed by a deeper block, its suite.  Lines are physical lines (no backslash continuation), strictly increasing; the
   column of a line's first token is its indentation.  The relation generates the token list together
   with the descriptors PySpec.v prescribes (absolute token indices; parents before children). *)
From Verif Require Import Base Regex Token TokEngine Lex Headers Blocks Spec HeaderSpec LexShapes PySpec Grammar GrammarAll.
Open Scope Z_scope.

Definition no_def (ts : list token) : Prop := Forall (fun t => kw_is t s_def = false) ts.
Definition no_continuation (ts : list token) : Prop := Forall (fun t => ends_with_str [92; 10] (t_value t) = false) ts.

(* l is one physical line, number ln, whose first token stands in column c *)
(* (a line does not END with the keyword `async`: the header pattern `[async] def name (...)` pays no attention
   to line breaks, so a stray `async` right before a definition line would be taken into its header) *)
Definition line_at (c ln : Z) (l : list token) : Prop :=
  l <> [] /\ Forall (fun t => t_line t = ln) l /\ t_col (hd (mkTok KOther [] 0 0) l) = c /\ no_continuation l /\
  kw_is (last l (mkTok KOther [] 0 0)) s_async = false.

(* Python parenthesis groups: only parentheses count (the header pattern uses Balanced("(", ")")); braces and
   brackets inside a parameter list are ordinary tokens (`def f(p={}, q=[1]):`) *)
Definition pplain (t : token) : bool := negb (is_lparen t) && negb (is_rparen t).
Inductive pinner : list token -> Prop :=
| pinner_nil : pinner []
| pinner_plain t r : pplain t = true -> pinner r -> pinner (t :: r)
| pinner_group o g c r : is_lparen o = true -> pinner g -> is_rparen c = true -> pinner r -> pinner (o :: g ++ c :: r).
Inductive pgroup : list token -> Prop :=
| pgroup_intro o g c : is_lparen o = true -> pinner g -> is_rparen c = true -> pgroup (o :: g ++ [c]).
Inductive pgroups : list token -> Prop :=
| pgroups_one g : pgroup g -> pgroups g
| pgroups_more g r : pgroup g -> pgroups r -> pgroups (g ++ r).

(* l is a definition header that begins on physical line ln in column c and ends on line hl (hl = ln for a
   one-line header): line numbers never decrease along l, every token that begins a further physical line of the
   header stands to the right of column c, no backslash continuation, and the header does not end with `async` *)
Definition head_at (c ln hl : Z) (l : list token) : Prop :=
  l <> [] /\ t_line (hd (mkTok KOther [] 0 0) l) = ln /\ t_col (hd (mkTok KOther [] 0 0) l) = c /\
  t_line (last l (mkTok KOther [] 0 0)) = hl /\
  (forall i a b, nth_error l i = Some a -> nth_error l (S i) = Some b ->
                 t_line a <= t_line b /\ (t_line a < t_line b -> c < t_col b)) /\
  no_continuation l /\ kw_is (last l (mkTok KOther [] 0 0)) s_async = false.

(* a definition header `[async] def name (...)+ rest`: name offset and offset of the end of the recognised header
   shape; `rest` — from the token after the last ")" (":" or "->") to the end of the header — stands on line hl *)
Inductive def_line (hl : Z) : list token -> nat -> nat -> Prop :=
| dl_def d nm gs rest :
    kw_is d s_def = true -> is_name nm = true -> pgroups gs -> no_def gs ->
    rest <> [] -> is_lparen (hd nm rest) = false -> no_def rest -> Forall (fun t => t_line t = hl) rest ->
    def_line hl (d :: nm :: gs ++ rest) 1 (2 + length gs)
| dl_async a d nm gs rest :
    kw_is a s_async = true -> kw_is d s_def = true -> is_name nm = true -> pgroups gs -> no_def gs ->
    rest <> [] -> is_lparen (hd nm rest) = false -> no_def rest -> Forall (fun t => t_line t = hl) rest ->
    def_line hl (a :: d :: nm :: gs ++ rest) 2 (3 + length gs).

(* pentry c off lo ts ds hi: ts (at absolute offset off) is one entry at indentation column c whose lines are
   numbered in (lo, hi], hi being its last line; pblock: one or more entries *)
Inductive pentry (c : Z) : nat -> Z -> list token -> list pydesc -> Z -> Prop :=
| pe_line off lo l ln :
    line_at c ln l -> lo < ln -> no_def l -> pentry c off lo l [] ln
| pe_compound off lo l ln c' sub ds hi :
    line_at c ln l -> lo < ln -> no_def l -> c < c' ->
    pblock c' (off + length l) ln sub ds hi ->
    pentry c off lo (l ++ sub) ds hi
| pe_def off lo l ln hl nmo heo c' sub ds hi :
    head_at c ln hl l -> lo < ln -> def_line hl l nmo heo -> c < c' ->
    pblock c' (off + length l) hl sub ds hi ->
    pentry c off lo (l ++ sub)
           (mkPd (off + nmo) off (off + heo) (off + length l) (off + length l + length sub) :: ds) hi
with pblock (c : Z) : nat -> Z -> list token -> list pydesc -> Z -> Prop :=
| pb_one off lo e ds hi : pentry c off lo e ds hi -> pblock c off lo e ds hi
| pb_more off lo e ds1 mid r ds2 hi :
    pentry c off lo e ds1 mid -> pblock c (off + length e) mid r ds2 hi ->
    pblock c off lo (e ++ r) (ds1 ++ ds2) hi.

Definition py_canonical_program (ts : list token) (ds : list pydesc) : Prop :=
  exists c lo hi, pblock c O lo ts ds hi.
