(* PyGrammarParse.v — an executable recogniser for the Python grammar of PyGrammar.v: the token list is cut into
   physical lines, and blocks are recognised by the column of each line's first token.  Proved sound in
   Scope/PyGrammarParseProofs.v (py_parse_program ts = Some ds -> py_canonical_program ts ds), so that for every
   generated program it accepts the unconditional theorem C01_grammar_python applies as it stands. *)
From Verif Require Import Base Regex Token TokEngine Lex Headers Blocks Spec HeaderSpec LexShapes PySpec Grammar GrammarAll GrammarParse PyGrammar.
Open Scope Z_scope.

Definition dummy_tok : token := mkTok KOther [] 0 0.

(* the tokens of the first physical line of ts (the maximal prefix on the line of its first token), and the rest *)
Fixpoint take_line (ln : Z) (ts : list token) : list token * list token :=
  match ts with
  | t :: r => if t_line t =? ln then let '(l, rest) := take_line ln r in (t :: l, rest) else ([], ts)
  | [] => ([], [])
  end.

Fixpoint split_lines (fuel : nat) (ts : list token) : list (list token) :=
  match fuel with
  | O => []
  | S f => match ts with
           | [] => []
           | t :: _ => let '(l, rest) := take_line (t_line t) ts in l :: split_lines f rest
           end
  end.

Definition no_def_b (ts : list token) : bool := forallb (fun t => negb (kw_is t s_def)) ts.
Definition line_col (l : list token) : Z := t_col (hd dummy_tok l).
Definition line_no (l : list token) : Z := t_line (hd dummy_tok l).

(* line_at c ln l, decided *)
Definition line_ok (c ln : Z) (l : list token) : bool :=
  match l with
  | [] => false
  | _ => forallb (fun t => t_line t =? ln) l && (line_col l =? c)
         && forallb (fun t => negb (ends_with_str [92; 10] (t_value t))) l
         && negb (kw_is (last l dummy_tok) s_async)
  end.

(* Python parenthesis groups, decided: only parentheses count *)
Fixpoint pwalk (top : bool) (ts : list token) (depth : nat) : option nat :=
  match ts with
  | [] => Some depth
  | t :: r =>
      if is_lparen t then pwalk top r (S depth)
      else if is_rparen t then match depth with O => None | S d => pwalk top r d end
      else match depth with O => if top then pwalk top r O else None | S _ => pwalk top r depth end
  end.
Definition pgroups_b (ts : list token) : bool :=
  match ts with [] => false | _ => match pwalk false ts O with Some O => true | _ => false end end.

(* a definition header: Some (name offset, end of the header shape) *)
Definition def_shape (l : list token) : option (nat * nat) :=
  let go (pre : nat) (r : list token) :=
    match r with
    | d :: nm :: r2 =>
        if kw_is d s_def && is_name nm then
          let n := groups_len r2 0 in
          let gs := firstn n r2 in
          let rest := skipn n r2 in
          match rest with
          | [] => None
          | x :: _ =>
              if pgroups_b gs && no_def_b gs && negb (is_lparen x) && no_def_b rest
              then Some ((pre + 1)%nat, (pre + 2 + n)%nat) else None
          end
        else None
    | _ => None
    end in
  match l with
  | a :: r => if kw_is a s_async then go 1%nat r else go O l
  | [] => None
  end.

(* does the line begin like a definition? *)
Definition starts_def (l : list token) : bool :=
  match l with
  | a :: r => kw_is a s_def || (kw_is a s_async && match r with d :: _ => kw_is d s_def | [] => false end)
  | [] => false
  end.

(* physical lines are joined until the header's parenthesis groups are closed *)
Fixpoint join_def (fuel : nat) (acc : list token) (lines : list (list token)) : option (list token * list (list token)) :=
  match def_shape acc with
  | Some _ => Some (acc, lines)
  | None => match fuel, lines with
            | S f, l :: r => join_def f (acc ++ l) r
            | _, _ => None
            end
  end.

(* head_at c ln hl l, decided *)
Fixpoint mono_ok (c : Z) (l : list token) : bool :=
  match l with
  | a :: r => match r with
              | b :: _ => (t_line a <=? t_line b) && (negb (t_line a <? t_line b) || (c <? t_col b)) && mono_ok c r
              | [] => true
              end
  | [] => true
  end.
Definition head_ok (c ln hl : Z) (l : list token) : bool :=
  match l with
  | [] => false
  | _ => (line_no l =? ln) && (line_col l =? c) && (t_line (last l dummy_tok) =? hl) && mono_ok c l
         && forallb (fun t => negb (ends_with_str [92; 10] (t_value t))) l
         && negb (kw_is (last l dummy_tok) s_async)
  end.

(* entries of one block at column c: consumes lines while their column is c (deeper lines belong to the entry
   before them); returns descriptors, the remaining lines, the last line number, and the number of tokens used *)
Fixpoint py_block (fuel : nat) (c : Z) (off : nat) (lo : Z) (lines : list (list token))
  : option (list pydesc * list (list token) * Z * nat) :=
  match fuel with
  | O => None
  | S f =>
      match lines with
      | [] => None
      | l :: rest =>
          let ln := line_no l in
          (* the entry starting with l *)
          let entry : option (list pydesc * list (list token) * Z * nat) :=
            if starts_def l then
              match join_def (length rest) l rest with
              | Some (hdr, rest1) =>
                  let hl := t_line (last hdr dummy_tok) in
                  match def_shape hdr, rest1 with
                  | Some (nmo, heo), l2 :: _ =>
                      if head_ok c ln hl hdr && (lo <? ln) && forallb (fun t => t_line t =? hl) (skipn heo hdr)
                         && (c <? line_col l2) then
                        match py_block f (line_col l2) (off + length hdr) hl rest1 with
                        | Some (ds, rest2, hi, used) =>
                            Some (mkPd (off + nmo) off (off + heo) (off + length hdr) (off + length hdr + used) :: ds,
                                  rest2, hi, (length hdr + used)%nat)
                        | None => None
                        end
                      else None
                  | _, _ => None
                  end
              | None => None
              end
            else if negb (line_ok c ln l && (lo <? ln) && no_def_b l) then None
            else
              match rest with
              | l2 :: _ =>
                  if c <? line_col l2 then
                    match py_block f (line_col l2) (off + length l) ln rest with
                    | Some (ds, rest2, hi, used) => Some (ds, rest2, hi, (length l + used)%nat)
                    | None => None
                    end
                  else Some ([], rest, ln, length l)
              | [] => Some ([], rest, ln, length l)
              end in
          match entry with
          | None => None
          | Some (ds1, rest1, mid, used1) =>
              match rest1 with
              | l3 :: _ =>
                  if line_col l3 =? c then
                    match py_block f c (off + used1) mid rest1 with
                    | Some (ds2, rest2, hi, used2) => Some (ds1 ++ ds2, rest2, hi, (used1 + used2)%nat)
                    | None => None
                    end
                  else Some (ds1, rest1, mid, used1)
              | [] => Some (ds1, rest1, mid, used1)
              end
          end
      end
  end.

Definition py_parse_program (ts : list token) : option (list pydesc) :=
  let lines := split_lines (length ts) ts in
  match lines with
  | [] => None
  | l :: _ =>
      match py_block (S (length lines) * 2) (line_col l) O (line_no l - 1) lines with
      | Some (ds, [], _, _) => Some ds
      | _ => None
      end
  end.
