(* Dfa.v — the deterministic matcher: subset states (sets of NFA addresses),
   Pattern.consume with per-pattern predicate state (Balanced depth), the
   open-group rule, ambiguity error; match, starts_with and find_all as in
   codelimit.common.gsm.matcher (after the GD2/GD3 repairs).  Definitions only.

   The DFA is represented lazily: a DFA state *is* the set of NFA states it
   stands for and its outgoing transitions are computed on demand; Python
   builds the same reachable part eagerly (nfa_to_dfa, see DfaBuild below). *)
From Verif Require Import Base Regex Nfa.

Section Dfa.
  Context {P I : Type}.
  Variable peqb : P -> P -> bool.
  (* stateful accept: predicate, its current depth, item -> (accepted, new depth).
     Stateless predicates ignore and preserve the depth. *)
  Variable accept_st : P -> Z -> I -> bool * Z.

  Notation heap := (heap P).

  Record automaton := mkAut { a_heap : heap; a_start : list nat; a_acc : nat }.

  Definition to_dfa (e : expr P) : res automaton :=
    match expression_to_nfa e with
    | Err k => Err k
    | OK (h, (s, a)) =>
        match closure h [s] with
        | Err k => Err k
        | OK st => OK (mkAut h st a)
        end
    end.

  (* distinct predicates (w.r.t. __eq__) on the transitions leaving a set of states *)
  Fixpoint pmem (p : P) (l : list P) : bool :=
    match l with [] => false | q :: t => peqb p q || pmem p t end.
  Fixpoint pdedup (l : list P) : list P :=
    match l with [] => [] | p :: t => if pmem p (pdedup t) then pdedup t else p :: pdedup t end.
  Definition dtrans (h : heap) (T : list nat) : list P :=
    pdedup (flat_map (fun s => map fst (ntrans (get h s))) T).

  (* per-pattern predicate state: association list predicate -> depth (default 0) *)
  Definition depths := list (P * Z).
  Fixpoint depth_of (ds : depths) (p : P) : Z :=
    match ds with [] => 0%Z | (q, d) :: t => if peqb p q then d else depth_of t p end.
  Fixpoint set_depth (ds : depths) (p : P) (d : Z) : depths :=
    match ds with
    | [] => [(p, d)]
    | (q, d') :: t => if peqb p q then (q, d) :: t else (q, d') :: set_depth t p d
    end.

  Record pat := mkPat { p_start : nat; p_state : list nat; p_depths : depths; p_len : nat }.

  Definition is_accepting (a : automaton) (pt : pat) : bool := mem (a_acc a) (p_state pt).

  (* Pattern.consume: Some pattern' = a transition was taken, None = no transition *)
  Definition consume (a : automaton) (pt : pat) (x : I) : res (option pat) :=
    let h := a_heap a in
    let trans := dtrans h (p_state pt) in
    let open := filter (fun p => (0 <? depth_of (p_depths pt) p)%Z) trans in
    let cands := match open with [] => trans | _ => open end in
    let step (acc : res (depths * option P)) (p : P) : res (depths * option P) :=
      match acc with
      | Err k => Err k
      | OK (ds, found) =>
          let '(b, d') := accept_st p (depth_of ds p) x in
          let ds' := set_depth ds p d' in
          if b then match found with Some _ => Err ValueErrorAmbiguous | None => OK (ds', Some p) end
          else OK (ds', found)
      end in
    match fold_left step cands (OK (p_depths pt, None)) with
    | Err k => Err k
    | OK (_, None) => OK None
    | OK (ds, Some p) =>
        match closure h (move peqb h (p_state pt) p) with
        | Err k => Err k
        | OK T' => OK (Some (mkPat (p_start pt) T' ds (S (p_len pt))))
        end
    end.

  Definition new_pat (a : automaton) (start : nat) : pat := mkPat start (a_start a) [] O.

  (* match(): consume every item, then accepting? *)
  Fixpoint run_all (a : automaton) (pt : pat) (w : list I) : res (option pat) :=
    match w with
    | [] => OK (Some pt)
    | x :: w' =>
        match consume a pt x with
        | Err k => Err k
        | OK None => OK None
        | OK (Some pt') => run_all a pt' w'
        end
    end.
  Definition match_ (e : expr P) (w : list I) : res bool :=
    match to_dfa e with
    | Err k => Err k
    | OK a => match run_all a (new_pat a O) w with
              | Err k => Err k
              | OK None => OK false
              | OK (Some pt) => OK (is_accepting a pt)
              end
    end.

  (* starts_with(): stop at the first accepting state after at least one item *)
  Fixpoint run_prefix (a : automaton) (pt : pat) (w : list I) : res (option nat) :=
    match w with
    | [] => OK None
    | x :: w' =>
        match consume a pt x with
        | Err k => Err k
        | OK None => OK None
        | OK (Some pt') => if is_accepting a pt' then OK (Some (p_len pt')) else run_prefix a pt' w'
        end
    end.
  Definition starts_with_dfa (a : automaton) (w : list I) : res (option nat) := run_prefix a (new_pat a O) w.
  Definition starts_with (e : expr P) (w : list I) : res (option nat) :=
    match to_dfa e with Err k => Err k | OK a => starts_with_dfa a w end.

  (* find_all(): every start position runs to completion; completed accepting
     attempts are candidates; candidates are ordered by start, filtered by the
     optional acceptance test, and selected leftmost-first without overlap *)
  Definition cand : Type := nat * nat.       (* start, end *)

  Fixpoint step_active (a : automaton) (idx : nat) (x : I) (active : list pat)
    : res (list pat * list cand) :=
    match active with
    | [] => OK ([], [])
    | pt :: rest =>
        match consume a pt x with
        | Err k => Err k
        | OK r =>
            match step_active a idx x rest with
            | Err k => Err k
            | OK (act', cs) =>
                match r with
                | Some pt' => OK (pt' :: act', cs)
                | None => if is_accepting a pt then OK (act', (p_start pt, idx) :: cs) else OK (act', cs)
                end
            end
        end
    end.

  Fixpoint scan_loop (a : automaton) (idx : nat) (w : list I) (active : list pat) (cands : list cand)
    : res (list cand) :=
    match w with
    | [] =>
        OK (cands ++ map (fun pt => (p_start pt, idx)) (filter (is_accepting a) active))
    | x :: w' =>
        match step_active a idx x (active ++ [new_pat a idx]) with
        | Err k => Err k
        | OK (act', cs) => scan_loop a (S idx) w' act' (cands ++ cs)
        end
    end.

  Definition all_candidates (a : automaton) (w : list I) : res (list cand) := scan_loop a O w [] [].

  Fixpoint select_leftmost (acceptf : cand -> res bool) (last_end : nat) (cs : list cand) : res (list cand) :=
    match cs with
    | [] => OK []
    | c :: rest =>
        match acceptf c with
        | Err k => Err k
        | OK false => select_leftmost acceptf last_end rest
        | OK true =>
            if Nat.leb last_end (fst c) then
              match select_leftmost acceptf (snd c) rest with
              | Err k => Err k
              | OK r => OK (c :: r)
              end
            else select_leftmost acceptf last_end rest
        end
    end.

  Definition find_all_dfa (a : automaton) (w : list I) (acceptf : cand -> res bool) : res (list cand) :=
    match all_candidates a w with
    | Err k => Err k
    | OK cs => select_leftmost acceptf O (sort_asc (fun c : cand => Z.of_nat (fst c)) cs)
    end.
  Definition find_all (e : expr P) (w : list I) (acceptf : cand -> res bool) : res (list cand) :=
    match to_dfa e with Err k => Err k | OK a => find_all_dfa a w acceptf end.
  Definition accept_all (c : cand) : res bool := OK true.
End Dfa.

Arguments automaton P : clear implicits.
Arguments pat P : clear implicits.

(* ---------- instances used by C13/C14: Identity atoms over integer items ---------- *)
Definition id_peqb (a b : Z) : bool := Z.eqb a b.
Definition id_accepts (p x : Z) : bool := Z.eqb p x.
Definition id_accept_st (p : Z) (d : Z) (x : Z) : bool * Z := (Z.eqb p x, d).

Fixpoint enc_op (o : op Z) : tree :=
  let fix enc_seq (e : list (op Z)) : list tree :=
    match e with [] => [] | o :: e' => enc_op o :: enc_seq e' end in
  match o with
  | Atom p => T [L 0; L p]
  | Union l r => T [L 1; T (enc_seq l); T (enc_seq r)]
  | Opt e => T [L 2; T (enc_seq e)]
  | Star e => T [L 3; T (enc_seq e)]
  | Plus e => T [L 4; T (enc_seq e)]
  end.

Definition enc_cands (r : res (list (nat * nat))) : tree :=
  enc_res (enc_list (fun c : nat * nat => T [enc_nat (fst c); enc_nat (snd c)])) r.

(* all four observables of the engine on one (pattern, word) pair *)
Definition engine_obs (e : expr Z) (w : list Z) : tree :=
  T [enc_res enc_bool (match_ id_peqb id_accept_st e w);
     enc_res enc_bool (nfa_match id_accepts e w);
     enc_res (enc_option enc_nat) (starts_with id_peqb id_accept_st e w);
     enc_cands (find_all id_peqb id_accept_st e w (fun _ => OK true))].

(* the three observables of C13 (find_all belongs to C14) *)
Definition engine_obs3 (e : expr Z) (w : list Z) : tree :=
  T [enc_res enc_bool (match_ id_peqb id_accept_st e w);
     enc_res enc_bool (nfa_match id_accepts e w);
     enc_res (enc_option enc_nat) (starts_with id_peqb id_accept_st e w)].
