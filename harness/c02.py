"""C02 — thresholds and the refactoring alarm."""
import contextlib
import io
import os
import re
import shutil
import tempfile
from pathlib import Path

from common import Check, assert_repo_import, coq_list, eval_cases, eval_one, pystr, z, canon_tree

IMPORTS = "Base GenThresholds Thresholds CheckFlow"
PRELUDE = "Definition mk (v : Z) : Measurement := mkMeas [102] (mkLoc 1 1) (mkLoc 2 1) v.\n"


def cat(v):
    return 0 if v <= 15 else 1 if v <= 30 else 2 if v <= 60 else 3


COLOURS = ["green", "yellow", "dark_orange", "red"]
SYMBOLS = ["✓", "✓", "⚠", "✖"]


# ------------------------------------------------------------------ leaf sites
def impl_leaf(v):
    from codelimit.common import utils
    from codelimit.common.CheckResult import CheckResult
    from codelimit.common.Location import Location
    from codelimit.common.Measurement import Measurement
    from codelimit.common.LanguageTotals import LanguageTotals
    from codelimit.common.SourceFileEntry import SourceFileEntry
    from codelimit.common.report import format_markdown
    from codelimit.common.report.ReportUnit import ReportUnit
    from rich.console import Console
    m = Measurement("f", Location(1, 1), Location(2, 1), v)
    style = utils.get_style_for_measurement(v).color.name
    emoji = utils.get_emoji_for_measurement(v)
    txt = utils.format_unit("f", v)
    unit_colour = None
    for sp in txt.spans:
        if txt.plain[sp.start:sp.end] == " | ":
            unit_colour = sp.style.color.name
    cr = CheckResult()
    cr.add(Path("a"), [m])
    lt = LanguageTotals("X")
    lt.add(SourceFileEntry("a", "c", "X", v, [m]))
    buf = io.StringIO()
    con = Console(file=buf, width=10000, color_system=None)
    format_markdown._print_findings_without_repository([ReportUnit("a", m)], con)
    icon1 = buf.getvalue().splitlines()[-1].split("|")[5].strip().split(" ")[0]
    from codelimit.common.GithubRepository import GithubRepository
    buf = io.StringIO()
    con = Console(file=buf, width=10000, color_system=None)
    format_markdown._print_findings_with_repository([ReportUnit("a", m)], GithubRepository("o", "n", "b"), con)
    icon2 = buf.getvalue().splitlines()[-1].split("|")[1].strip().split(" ")[0]
    return [utils.make_profile([m]), utils.make_count_profile([m]), style, emoji, unit_colour,
            [cr.hard_to_maintain, cr.unmaintainable],
            [lt.files, lt.loc, lt.functions, lt.hard_to_maintain, lt.unmaintainable], icon1, icon2]


def model_leaf(v):
    return ("T [enc_list L (make_profile [mk {0}]); enc_list L (make_count_profile [mk {0}]); "
            "enc_str (get_style_for_measurement {0}); enc_str (get_emoji_for_measurement {0}); "
            "enc_str (format_unit_color {0}); "
            "(let '(_, h, u) := check_result_add [] 0 0 [97] [mk {0}] in T [L h; L u]); "
            "(let '(a, b, c, d, e) := language_totals_add 0 0 0 0 0 (mkEntry [97] [99] [88] {0} [] [mk {0}]) in T [L a; L b; L c; L d; L e]); "
            "enc_str (md_icon_plain (mkReportUnit [97] (mk {0}))); enc_str (md_icon_repo (mkReportUnit [97] (mk {0})))]"
            ).format(z(v))


def oracle_leaf(v, out):
    c = cat(v)
    prof = [0, 0, 0, 0]
    prof[c] = v
    cnt = [0, 0, 0, 0]
    cnt[c] = 1
    exp = [prof, cnt, COLOURS[c], SYMBOLS[c], COLOURS[c], [1 if c == 2 else 0, 1 if c == 3 else 0],
           [1, v, 1, 1 if c == 2 else 0, 1 if c == 3 else 0], "❌" if c == 3 else "⚠",
           "❌" if c == 3 else "⚠"]
    names = ["make_profile", "make_count_profile", "style colour", "emoji", "format_unit colour",
             "CheckResult counters", "LanguageTotals counters", "markdown icon", "markdown icon (repository)"]
    return [f"{n}: got {o!r}, expected {e!r}" for n, o, e in zip(names, out, exp) if canon_tree(o) != canon_tree(e)]


# ------------------------------------------------------------------ check command on real files
TEMPLATES = {
    "py": lambda i, n: f"def f{i}():\n" + "".join("    x = 1\n" for _ in range(n - 1)) + "\n",
    "js": lambda i, n: f"function f{i}() {{\n" + "".join("  x = 1;\n" for _ in range(n - 2)) + "}\n\n"
    if n >= 2 else f"function f{i}() {{ }}\n\n",
    "c": lambda i, n: f"int f{i}(void) {{\n" + "".join("  x = 1;\n" for _ in range(n - 2)) + "}\n\n"
    if n >= 2 else f"int f{i}(void) {{ }}\n\n",
    "java": lambda i, n: f"  void f{i}() {{\n" + "".join("    x = 1;\n" for _ in range(n - 2)) + "  }\n\n"
    if n >= 2 else f"  void f{i}() {{ }}\n\n",
}


LONG_DIR = os.path.join("a_rather_long_directory_name_for_generated_sources_0123456789", "and_a_second_level_that_is_long_too_0123456789")


def render_file(ext, lengths):
    body = "".join(TEMPLATES[ext](i, n) for i, n in enumerate(lengths))
    if ext == "java":
        return "class A {\n" + body + "}\n"
    if ext == "py" and not lengths:
        return "x = 1\n"
    return body


def run_check(root, paths, quiet):
    import typer
    from codelimit.commands.check import check_command
    old = os.getcwd()
    os.chdir(root)
    buf = io.StringIO()
    code = None
    try:
        with contextlib.redirect_stdout(buf):
            try:
                check_command([Path(p) for p in paths], quiet)
            except typer.Exit as e:
                code = e.exit_code
    finally:
        os.chdir(old)
    return code, buf.getvalue()


LINE = re.compile(r"^(.*?):(\d+):(\d+): (\d+) (\S) (.*)$")


def parse_check_output(out):
    listing, summary = [], None
    for ln in out.splitlines():
        m = LINE.match(ln)
        if m:
            listing.append((m.group(1), int(m.group(2)), int(m.group(3)), int(m.group(4)), m.group(5), m.group(6)))
        elif "files checked" in ln:
            summary = ln
    return listing, summary


def gen_lengths(rng):
    pool = [1, 2, 5, 14, 15, 16, 17, 29, 30, 31, 32, 45, 59, 60, 61, 62, 80, 120]
    mode = rng.random()
    n = rng.choice([0, 1, 1, 2, 3, 4, 6])
    if mode < 0.25:
        return [rng.choice([1, 5, 14, 15, 16, 29, 30]) for _ in range(n)]       # nothing to report
    if mode < 0.45:
        return [rng.choice([15, 30, 31, 45, 59, 60]) for _ in range(n)]         # hard but not unmaintainable
    return [rng.choice(pool) for _ in range(n)]


def check_cases(chk, n_cases):
    from codelimit.common.lexer_utils import lex
    from codelimit.common.Scanner import scan_file
    from codelimit.languages import Languages
    from pygments.lexers import get_lexer_for_filename
    cases = []
    tmp = tempfile.mkdtemp(prefix="verif_c02_")
    try:
        for ci in range(n_cases):
            root = os.path.join(tmp, f"r{ci}")
            os.makedirs(root)
            nfiles = chk.rng.choice([1, 1, 2, 3, 4])
            # a fifth of the cases: paths longer than an 80-column console, which is what rich assumes when the output is
            # piped; every listed function must still show its length, symbol and name (seeded change C02-18: lines cropped)
            narrow = chk.rng.random() < 0.2
            files = []
            for fi in range(nfiles):
                ext = chk.rng.choice(["py", "py", "js", "c", "java"])
                lengths = gen_lengths(chk.rng)
                lengths = [max(x, 2) for x in lengths]
                name = f"m{fi}.{ext}"
                text = render_file(ext, lengths)
                if chk.rng.random() < 0.15 and ext != "java":
                    # a file that IS one function at a threshold, with and without its final line break: the number of
                    # lines of the file equals the function's length (seeded change C02-9: "at most 30 line breaks -> nothing to report")
                    lengths = [chk.rng.choice([30, 31, 32, 60, 61, 62])]
                    text = render_file(ext, lengths).rstrip("\n") + chk.rng.choice(["", "\n"])
                    chk.count("check: file that is exactly one function at a threshold")
                if chk.rng.random() < 0.1:
                    # classic Mac line ends: reading in text mode turns a lone carriage return into a line break, so the lines
                    # (and the lengths) are the same as with LF (seeded change C02-17: lines counted on the raw bytes)
                    text = text.replace("\n", "\r")
                    chk.count("check: file with lone carriage returns as line breaks")
                if narrow:
                    name = os.path.join(LONG_DIR, name)
                    os.makedirs(os.path.join(root, LONG_DIR), exist_ok=True)
                with open(os.path.join(root, name), "w", newline="") as f:
                    f.write(text)
                files.append((name, ext, lengths))
            quiet = chk.rng.random() < 0.5
            old_cols = os.environ.get("COLUMNS")
            if narrow:
                os.environ["COLUMNS"] = "80"
                chk.count("check: paths longer than the 80-column console")
            try:
                code, out = run_check(root, [f[0] for f in files], quiet)
            finally:
                if old_cols is None:
                    os.environ.pop("COLUMNS", None)
                else:
                    os.environ["COLUMNS"] = old_cols
            listing, summary = parse_check_output(out)
            # analysed results (implementation's own scan) -> model input
            analysed = []
            for name, ext, lengths in files:
                p = os.path.join(root, name)
                lexer = get_lexer_for_filename(p)
                toks = lex(lexer, open(p).read(), False)
                ms = scan_file(toks, Languages.by_name[lexer.__class__.name])
                analysed.append((name, ms))
            case = {"files": [(n, e, ls) for n, e, ls in files], "quiet": quiet}
            # ---- property oracle from the generated lengths alone
            problems = []
            # the oracle judges thresholds against the lengths scan_file measured; the generated
            # lengths only steer the distribution (a template measured differently is counted, it is C01's subject)
            measured = []
            for (name, ext, lengths), (_, ms) in zip(files, analysed):
                if [m.value for m in ms] != lengths:
                    chk.count("check: template measured differently than generated")
                measured.append((name, ext, [m.value for m in ms], [m.unit_name for m in ms]))
            all_l = [x for _, _, ls, _ in measured for x in ls]
            exp_exit = 1 if any(x > 60 for x in all_l) else 0
            if code != exp_exit:
                problems.append(f"exit status {code}, expected {exp_exit}")
            exp_listing = []
            for name, ext, ls, nms in measured:
                idx = sorted([i for i, x in enumerate(ls) if x > 30], key=lambda i: -ls[i])
                exp_listing += [(name, ls[i], nms[i], SYMBOLS[cat(ls[i])]) for i in idx]
            got_listing = [(p, ln, nm, sym) for p, _, _, ln, sym, nm in listing]
            n_find = sum(1 for x in all_l if x > 30)
            if quiet and n_find == 0:
                if out.strip() != "":
                    problems.append(f"--quiet printed {out!r} although no function exceeds 30 lines")
            else:
                if got_listing != exp_listing:
                    problems.append(f"listing {got_listing}, expected {exp_listing}")
                if n_find > 0:
                    exp_sum = f"{len(files)} files checked, {n_find} functions need refactoring."
                    if summary is None or summary.strip() != exp_sum:
                        problems.append(f"summary {summary!r}, expected {exp_sum!r}")
                elif summary is None or "Refactoring not necessary" not in summary or \
                        not summary.startswith(f"{len(files)} files checked"):
                    problems.append(f"summary {summary!r}")
            nontriv = n_find > 0 and len(files) > 1
            chk.case_seen(case, nontriv)
            chk.count("check: files=%d" % len(files))
            chk.count("check: " + ("unmaintainable" if exp_exit else "hard only" if n_find else "clean"))
            if problems:
                chk.violation({"kind": "check_command", **case, "stdout": out, "exit": code}, "; ".join(problems))
            # ---- a file reached twice in one run (named on the command line and found again inside a directory argument):
            #      whatever the run lists, its summary count matches the listing (seeded change C02-26: the listing
            #      de-duplicated, the counters not)
            if n_find > 0 and chk.rng.random() < 0.5:
                dup = chk.rng.choice([f[0] for f in files])
                args2 = chk.rng.choice([[f[0] for f in files] + [dup], [".", dup], [dup, "."]])
                code2, out2 = run_check(root, args2, False)
                listing2, summary2 = parse_check_output(out2)
                m2 = re.search(r"(\d+) files checked, (\d+) functions need refactoring", summary2 or "")
                chk.evaluations += 1
                chk.count("check: a file reached twice in one run")
                if code2 != exp_exit:
                    chk.violation({"kind": "check_command twice", **case, "arguments": args2, "stdout": out2},
                                  f"check {args2}: exit status {code2}, expected {exp_exit}")
                elif m2 is None or int(m2.group(2)) != len(listing2):
                    chk.violation({"kind": "check_command twice", **case, "arguments": args2, "stdout": out2},
                                  f"check {args2}: the summary says {summary2!r} but {len(listing2)} functions are listed")
            # ---- model vs implementation
            printed = not (out.strip() == "")
            impl_tree = [code, printed,
                         [[name, [[m.unit_name, [m.start.line, m.start.column], [m.end.line, m.end.column], m.value]
                                  for m in sorted([m for m in ms if m.value > 30], key=lambda m: m.value, reverse=True)]]
                          for name, ms in analysed],
                         len(files), n_find > 0 if printed else (n_find > 0), n_find]
            # listing as printed (order, lengths, names) must equal the model listing too
            model_in = coq_list(
                "(%s, %s)" % (pystr(name), coq_list(
                    "mkMeas %s (mkLoc %d %d) (mkLoc %d %d) %s" % (pystr(m.unit_name), m.start.line, m.start.column,
                                                                  m.end.line, m.end.column, z(m.value)) for m in ms))
                for name, ms in analysed)
            printed_listing = [[p, ln, nm] for p, _, _, ln, _, nm in listing]
            model_listing = [[name, m.value, m.unit_name] for name, ms in analysed
                             for m in sorted([m for m in ms if m.value > 30], key=lambda m: m.value, reverse=True)]
            if printed and printed_listing != model_listing:
                chk.violation({"kind": "check_command", **case, "stdout": out},
                              f"printed listing {printed_listing} differs from scan measurements {model_listing}")
            cases.append((f"enc_outcome (check_run {'true' if quiet else 'false'} {model_in})", impl_tree, case))
    finally:
        shutil.rmtree(tmp, ignore_errors=True)
    return cases


# ------------------------------------------------------------------ findings view
def findings_cases(chk, n_cases):
    from codelimit.common.Codebase import Codebase
    from codelimit.common.Location import Location
    from codelimit.common.Measurement import Measurement
    from codelimit.common.SourceFileEntry import SourceFileEntry
    from codelimit.common.report.Report import Report
    from codelimit.common.report import format_markdown, format_text
    from rich.console import Console
    cases = []
    for ci in range(n_cases):
        nfiles = chk.rng.choice([1, 2, 3])
        target = chk.rng.choice([0, 3, 9, 10, 11, 12, 25])
        files = []
        remaining = target
        for fi in range(nfiles):
            k = remaining if fi == nfiles - 1 else chk.rng.randint(0, remaining)
            remaining -= k
            ls = [chk.rng.choice([31, 31, 40, 60, 61, 61, 90]) for _ in range(k)] + \
                 [chk.rng.choice([1, 15, 30]) for _ in range(chk.rng.randint(0, 3))]
            chk.rng.shuffle(ls)
            files.append((f"d/f{fi}.py", ls))
        full = chk.rng.random() < 0.4
        cb = Codebase("/r")
        for name, ls in files:
            ms = [Measurement(f"g{i}", Location(i + 1, 1), Location(i + 2, 1), v) for i, v in enumerate(ls)]
            cb.add_file(SourceFileEntry(name, "c", "Python", sum(ls), ms))
        cb.aggregate()
        # with / without a repository: the Markdown table then has linked function names, the rest of the contract is the same
        # (seeded change C18-22: the 'more rows' line lost on the repository path)
        with_repo = chk.rng.random() < 0.4
        if with_repo:
            from codelimit.common.GithubRepository import GithubRepository
            report = Report(cb, GithubRepository("own", "nam", chk.rng.choice(["main", "feature/x"])))
        else:
            report = Report(cb)
        buf = io.StringIO()
        format_text.print_findings(Console(file=buf, width=10000, color_system=None), report, full)
        text_out = buf.getvalue()
        buf = io.StringIO()
        format_markdown.print_findings(report, Console(file=buf, width=10000, color_system=None), full)
        md_out = buf.getvalue()
        trows = [LINE.match(ln) for ln in text_out.splitlines()]
        trows = [(m.group(1), int(m.group(4)), m.group(6)) for m in trows if m]
        mrows, links = [], []
        for ln in md_out.splitlines():
            cells = [c.strip() for c in ln.split("|")]
            if len(cells) == 7 and cells[2].isdigit():
                mrows.append((cells[1], int(cells[4]), cells[5].split(" ", 1)[1]))
            elif with_repo and len(cells) == 5 and cells[2].isdigit():
                fm = re.match(r"^(\S) \[(.*)\]\((\S*)\)$", cells[1])
                if fm:
                    mrows.append((cells[3], int(cells[2]), fm.group(2)))
                    links.append((fm.group(1), int(cells[2]), cells[3], fm.group(3)))
        tmore = re.search(r"^(\d+) more rows", text_out, re.M)
        mmore = re.search(r"^(\d+) more rows", md_out, re.M)
        units = [(name, v, f"g{i}") for name, ls in files for i, v in enumerate(ls) if v > 30]
        exp_all = sorted(units, key=lambda u: -u[1])
        exp_rows = exp_all if (full or len(exp_all) <= 10) else exp_all[:10]
        exp_more = None if (full or len(exp_all) <= 10) else len(exp_all) - 10
        problems = []
        if trows != exp_rows:
            problems.append(f"text findings rows {trows} expected {exp_rows}")
        if mrows != exp_rows:
            problems.append(f"markdown findings rows {mrows} expected {exp_rows}")
        if (int(tmore.group(1)) if tmore else None) != exp_more:
            problems.append(f"text 'more rows' {tmore and tmore.group(1)} expected {exp_more}")
        if (int(mmore.group(1)) if mmore else None) != exp_more:
            problems.append(f"markdown 'more rows' {mmore and mmore.group(1)} expected {exp_more}")
        for icon, v, f, link in links:
            if icon != ("\u274C" if v > 60 else "\u26A0") or not re.match(
                    r"^https://github\.com/own/nam/blob/" + re.escape(report.repository.branch) + "/" + re.escape(f) + r"#L\d+-L\d+$", link):
                problems.append(f"markdown findings row of {f} ({v} lines): icon {icon!r}, link {link}")
                break
        case = {"files": files, "full": full, "repository": with_repo}
        chk.count("findings: " + ("with" if with_repo else "without") + " repository")
        chk.case_seen(case, len(exp_all) > 0)
        chk.count("findings: %s" % ("<=10" if len(exp_all) <= 10 else ">10"))
        if problems:
            chk.violation({"kind": "findings", **case}, "; ".join(problems))
        model_in = coq_list(
            "(%s, mkEntry %s [99] [80] %s [] %s)" % (pystr(name), pystr(name), z(sum(ls)), coq_list(
                "mkMeas %s (mkLoc %d 1) (mkLoc %d 1) %s" % (pystr(f"g{i}"), i + 1, i + 2, z(v)) for i, v in enumerate(ls)))
            for name, ls in files)
        impl_tree = [[[f, v, nm] for f, v, nm in trows], [] if tmore is None else [int(tmore.group(1))]]
        expr = ("let '(sh, more) := findings_view %s %s in T [enc_list (fun u => T [enc_str (ru_file u); "
                "L (m_value (ru_measurement u)); enc_str (m_unit_name (ru_measurement u))]) sh; enc_option L more]"
                % ("true" if full else "false", model_in))
        cases.append((expr, impl_tree, case))
    return cases


def scan_counter_cases(chk, n_cases):
    """the per-language counters of the scan overview, over several scans made one after the other in this process"""
    from codelimit.common import Scanner
    rng = chk.rng
    tmp = tempfile.mkdtemp(prefix="verif_c02s_")
    seen = []
    orig = Scanner.ScanResultTable

    def rec(scan_totals, *a, **kw):
        seen.append(scan_totals)
        return orig(scan_totals, *a, **kw)
    Scanner.ScanResultTable = rec
    try:
        for ci in range(n_cases):
            root = os.path.join(tmp, f"s{ci}")
            os.makedirs(root)
            files = {}
            for fi in range(rng.choice([1, 1, 2, 3])):
                ext = rng.choice(["py", "js", "c", "java"])
                # a Python definition needs a suite: no length 1 there
                files[f"m{fi}.{ext}"] = [max(v, 2) if ext == "py" else v for v in gen_lengths(rng)]
                with open(os.path.join(root, f"m{fi}.{ext}"), "w") as f:
                    f.write(render_file(ext, files[f"m{fi}.{ext}"]))
            del seen[:]
            with contextlib.redirect_stdout(io.StringIO()):
                Scanner.scan_codebase(Path(root))
            lang = {"py": "Python", "js": "JavaScript", "c": "C", "java": "Java"}
            want = {}
            for nm, ls in files.items():
                w = want.setdefault(lang[nm.rsplit(".", 1)[1]], [0, 0, 0, 0, 0])
                w[0] += 1
                w[1] += len(ls)
                w[2] += sum(ls)
                w[3] += sum(1 for v in ls if 31 <= v <= 60)
                w[4] += sum(1 for v in ls if v > 60)
            st = seen[-1] if seen else None
            got = None if st is None else {t.language: [t.files, t.functions, t.loc, t.hard_to_maintain, t.unmaintainable]
                                           for t in st.languages_totals()}
            chk.evaluations += 1
            chk.count("scan overview counters (consecutive scans in one process)")
            if got != want:
                chk.violation({"kind": "scan-counters", "files": files, "scan_number_in_process": ci + 1},
                              f"scan #{ci + 1} of this process, files {files}: overview counters per language "
                              f"[files, functions, lines, hard-to-maintain, unmaintainable] = {got}, expected {want}")
            elif any(w[3] or w[4] for w in want.values()):
                chk.nontrivial.add(("scan-counters", ci))
    finally:
        Scanner.ScanResultTable = orig
        shutil.rmtree(tmp, ignore_errors=True)


def run(tier, seed, replay=None):
    assert_repo_import()
    chk = Check("C02", tier, seed)
    model_ok = chk.proof_stage(["Agg/CheckFlow.vo", "Base/BaseProofs.vo"])
    # --- leaf sweep
    values = list(range(0, 201)) + [1000, 10 ** 6] if tier == "quick" else list(range(-3, 2001)) + [10 ** 6, 10 ** 9]
    cases = []
    for v in values:
        try:
            out = impl_leaf(v)
        except Exception as e:  # the implementation must not fail on an integer length
            chk.violation({"kind": "leaf", "value": v}, f"threshold site raised {type(e).__name__}: {e}")
            continue
        probs = oracle_leaf(v, out) if v >= 1 else []
        chk.case_seen({"kind": "leaf", "value": v}, v in (15, 16, 30, 31, 60, 61) or v % 7 == 0)
        chk.count("leaf")
        if probs:
            chk.violation({"kind": "leaf", "value": v}, f"length {v}: " + "; ".join(probs))
        cases.append((model_leaf(v), out, {"kind": "leaf", "value": v}))
    n_check = 120 if tier == "quick" else 2500
    n_find = 150 if tier == "quick" else 3000
    cases += check_cases(chk, n_check)
    cases += findings_cases(chk, n_find)
    scan_counter_cases(chk, 25 if tier == "quick" else 600)
    if model_ok:
        mism, err = eval_cases("C02", IMPORTS, [(m, e) for m, e, _ in cases], prelude=PRELUDE)
        chk.traces = len(cases)
        if err:
            chk.broken.append("correspondence evaluation failed: " + err[-400:])
        for i in mism[:5]:
            got = eval_one("C02", IMPORTS, cases[i][0], prelude=PRELUDE)
            chk.broken.append(f"correspondence: model and implementation differ on {cases[i][2]}: "
                              f"model {got} vs implementation {canon_tree(cases[i][1])}")
    else:
        chk.broken.append("model does not build against the regenerated definitions; correspondence not run")
    return chk.finish(
        rule="leaf sweep over every length value on 9 threshold sites; random multisets of function lengths "
             "(mass on 14-17, 29-32, 59-62) written as real Python/JS/C/Java files and run through check_command "
             "(stdout parsed back); random reports through text/markdown print_findings around the 10-row cut-off. "
             "Non-trivial: boundary or multiple-of-7 length / >=1 finding in >=2 files / >=1 finding row.",
        assumptions=["rich renders the Text objects codelimit builds without altering their characters",
                     "the four file templates are measured at their generated length (checked on every case)"])
