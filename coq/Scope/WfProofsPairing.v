(* WfProofsPairing.v — the scopes built by build_scopes_loop: the block of a
   scope ends strictly after its header (every selected block starts at or
   after the header's end and is non-empty), and the scopes come out in the
   order of the (descending) header list, which is strictly descending by
   start index when token positions increase and header starts are distinct. *)
From Verif Require Import Base Token Lex Headers Blocks Pairing LexProofs
  TotalProofsHeaders TotalProofsBlocks TotalProofsScopes
  WfProofsBase WfProofsBlocks WfProofsHeaders.
From Coq Require Import Sorted Permutation.
Open Scope nat_scope.

(* ====================================================================== *)
(* 1. selected blocks start after the header                               *)
(* ====================================================================== *)

Lemma find_scope_sel h blocks i :
  In i (find_scope_blocks_indices h blocks) ->
  In (nth i blocks (0, 0)) blocks /\ snd h <= fst (nth i blocks (0, 0)).
Proof.
  unfold find_scope_blocks_indices.
  destruct (get_nearest_block h blocks) as [body|]; [|intros []].
  destruct (r_contains body h); intros H;
    apply (number_from_sel blocks (0, 0)) in H; destruct H as [Hin Hf]; cbn [snd] in Hf;
    apply andb_true_iff in Hf; destruct Hf as [Hf _]; apply Nat.leb_le in Hf; auto.
Qed.

Definition block_in (n : nat) (b : range) : Prop := fst b < snd b <= n.

Lemma build_scopes_loop_spec n : forall rh blocks sc,
  Forall (block_in n) blocks -> In sc (build_scopes_loop rh blocks) ->
  In (s_header sc) rh /\ h_end (s_header sc) < snd (s_block sc) <= n.
Proof.
  induction rh as [|h r IH]; intros blocks sc Hb H; cbn [build_scopes_loop] in H; [destruct H|].
  pose proof (find_scope_sel (hrange h) blocks) as Hsel.
  destruct (find_scope_blocks_indices (hrange h) blocks) as [|i0 idx'] eqn:Eidx.
  - destruct (IH blocks sc Hb H). split; [right|]; assumption.
  - set (idx := i0 :: idx') in *. destruct H as [<-|H].
    + cbn [s_header s_block snd]. split; [left; reflexivity|].
      rewrite Forall_forall in Hb.
      assert (Hall : forall x, In x (map snd (map (fun i => nth i blocks (0, 0)) idx)) -> x <= n).
      { intros x Hx. apply in_map_iff in Hx. destruct Hx as (b & <- & Hx).
        apply in_map_iff in Hx. destruct Hx as (i & <- & Hi).
        destruct (Hsel i Hi) as [Hin _]. apply Hb in Hin. unfold block_in in Hin. lia. }
      split.
      * destruct (Hsel i0 (or_introl eq_refl)) as [Hin Hle]. cbn [hrange snd] in Hle.
        apply Hb in Hin. unfold block_in in Hin.
        assert (H0 : In (snd (nth i0 blocks (0, 0)))
                        (map snd (map (fun i => nth i blocks (0, 0)) idx))) by (left; reflexivity).
        pose proof (max_list_ge' _ _ H0). lia.
      * apply Hall. apply max_list_In. discriminate.
    + destruct (IH (delete_indices blocks idx) sc) as [H1 H2]; [|exact H|split; [right|]; assumption].
      apply Forall_forall. intros b Hin. apply delete_indices_In' in Hin.
      rewrite Forall_forall in Hb. apply Hb, Hin.
Qed.

Lemma build_scopes_loop_SS (R : header -> header -> Prop) : forall rh blocks,
  StronglySorted R rh ->
  StronglySorted (fun a b => R (s_header a) (s_header b)) (build_scopes_loop rh blocks).
Proof.
  induction rh as [|h r IH]; intros blocks HS; cbn [build_scopes_loop]; [constructor|].
  inversion HS as [|? ? HS' HF]; subst.
  destruct (find_scope_blocks_indices (hrange h) blocks) as [|i0 idx']; [apply IH, HS'|].
  constructor; [apply IH, HS'|]. apply Forall_forall. intros sc Hsc. cbn [s_header].
  rewrite Forall_forall in HF. apply HF.
  clear - Hsc. revert Hsc. generalize (delete_indices blocks (i0 :: idx')). clear.
  induction r as [|h' r IH]; intros bl H; cbn [build_scopes_loop] in H; [destruct H|].
  destruct (find_scope_blocks_indices (hrange h') bl) as [|j idx].
  - right. eapply IH, H.
  - destruct H as [<-|H]; [left; reflexivity | right; eapply IH, H].
Qed.

(* ====================================================================== *)
(* 2. sorting the headers                                                  *)
(* ====================================================================== *)

Lemma tok_line_nth ts i t : nth_error ts i = Some t -> tok_line ts i = t_line t.
Proof. unfold tok_line. intros ->. reflexivity. Qed.
Lemma tok_col_nth ts i t : nth_error ts i = Some t -> tok_col ts i = t_col t.
Proof. unfold tok_col. intros ->. reflexivity. Qed.

Lemma sorted_pos ts i j :
  StronglySorted pos_lt ts -> i < j -> j < length ts ->
  (tok_line ts i < tok_line ts j \/ (tok_line ts i = tok_line ts j /\ tok_col ts i < tok_col ts j))%Z.
Proof.
  intros HS Hij Hj.
  destruct (nth_error ts i) as [a|] eqn:Ea; [|apply nth_error_None in Ea; lia].
  destruct (nth_error ts j) as [b|] eqn:Eb; [|apply nth_error_None in Eb; lia].
  rewrite (tok_line_nth _ _ _ Ea), (tok_line_nth _ _ _ Eb), (tok_col_nth _ _ _ Ea), (tok_col_nth _ _ _ Eb).
  apply (SSf_nth pos_lt ts HS i j a b Hij Ea Eb).
Qed.

Lemma sort_headers_desc_strict ts hs :
  StronglySorted pos_lt ts -> Forall (fun h => h_start h < length ts) hs ->
  NoDup (map h_start hs) ->
  StronglySorted (fun a b => h_start b < h_start a) (sort_headers_desc ts hs).
Proof.
  intros HS Hv Hnd. unfold sort_headers_desc.
  set (k1 := fun h => tok_line ts (h_start h)). set (k2 := fun h => tok_col ts (h_start h)).
  pose proof (sort_desc2_perm k1 k2 hs) as Hp.
  pose proof (sort_desc2_sorted k1 k2 hs) as H1.
  assert (H2 : StronglySorted (fun a b => h_start a <> h_start b) (sort_desc2 k1 k2 hs)).
  { apply NoDup_map_SS. eapply Permutation_NoDup; [|exact Hnd].
    apply Permutation_map. symmetry. exact Hp. }
  eapply SSf_impl; [|exact (SSf_and _ _ _ H1 H2)].
  intros a b Ha Hb [Hge Hne]. cbv beta in *.
  rewrite Forall_forall in Hv.
  pose proof (Hv a (Permutation_in _ Hp Ha)) as Hva.
  pose proof (Hv b (Permutation_in _ Hp Hb)) as Hvb.
  destruct (Nat.lt_trichotomy (h_start a) (h_start b)) as [Hlt|[Heq|Hgt]]; [|congruence|exact Hgt].
  exfalso. unfold ge2 in Hge. apply lt2_false in Hge. unfold k1, k2 in Hge.
  pose proof (sorted_pos ts _ _ HS Hlt Hvb). lia.
Qed.

Print Assumptions build_scopes_loop_spec.
Print Assumptions sort_headers_desc_strict.
