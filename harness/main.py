import warnings
warnings.simplefilter("ignore", SyntaxWarning)
import argparse
import importlib
import os
import sys

sys.path.insert(0, os.path.dirname(os.path.abspath(__file__)))


def main():
    ap = argparse.ArgumentParser()
    ap.add_argument("prop")
    ap.add_argument("--tier", default=os.environ.get("VERIF_TIER", "quick"), choices=["quick", "thorough"])
    ap.add_argument("--replay", default=None)
    a = ap.parse_args()
    seed = int(os.environ.get("VERIF_SEED", "1") or 1)
    mod = importlib.import_module(a.prop.lower())
    sys.exit(mod.run(a.tier, seed, a.replay))


if __name__ == "__main__":
    main()
