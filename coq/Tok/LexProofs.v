(* LexProofs.v — C16: the positions computed by lexer_utils.lex are the true
   (line, column) of every token, consistent with source_utils.location_to_index,
   strictly increasing, non-overlapping; the token filters do what they say.
   The Pygments lexer is an oracle constrained only by [contract]. *)
From Verif Require Import Base Token Lex.
From Coq Require Import Sorted.
Open Scope Z_scope.

(* ---------- the lexer contract ---------- *)
Fixpoint contract_from (off : Z) (code : pystr) (lts : list ltok) : Prop :=
  match lts with
  | [] => code = []
  | t :: r => lt_off t = off /\
              exists rest, code = lt_val t ++ rest /\
                           contract_from (off + Z.of_nat (length (lt_val t))) rest r
  end.
Definition contract (code : pystr) (lts : list ltok) : Prop := contract_from 0 code lts.

(* ---------- specification vocabulary ---------- *)
Definition is_nl (c : Z) : bool := c =? 10.
(* number of newline characters of s *)
Definition count_nl (s : pystr) : Z := countb is_nl s.

(* scanning s whose first character has index i, the current line starting at
   ls: the start of the line that contains the position just after s *)
Fixpoint line_start_from (i ls : Z) (s : pystr) : Z :=
  match s with
  | [] => ls
  | c :: r => if c =? 10 then line_start_from (i + 1) (i + 1) r
              else line_start_from (i + 1) ls r
  end.
(* offset of the first character of the line containing offset [length s],
   where s is the text before that offset *)
Definition line_start (s : pystr) : Z := line_start_from 0 0 s.

Definition line_of (code : pystr) (off : Z) : Z :=
  1 + count_nl (firstn (Z.to_nat off) code).
Definition col_of (code : pystr) (off : Z) : Z :=
  off - line_start (firstn (Z.to_nat off) code) + 1.
Definition tok_at (code : pystr) (lt : ltok) : token :=
  mkTok (lt_kind lt) (lt_val lt) (line_of code (lt_off lt)) (col_of code (lt_off lt)).

Definition pos_lt (t1 t2 : token) : Prop :=
  t_line t1 < t_line t2 \/ (t_line t1 = t_line t2 /\ t_col t1 < t_col t2).

(* the i-th non-empty lexer token and the i-th located token *)
Definition kept_pair (code : pystr) (lts : list ltok) (lt : ltok) (t : token) : Prop :=
  exists i, nth_error (filter nonempty lts) i = Some lt /\
            nth_error (locate code lts) i = Some t.

(* ---------- generic list facts ---------- *)
Lemma SS_filter {A} (R : A -> A -> Prop) (f : A -> bool) l :
  StronglySorted R l -> StronglySorted R (filter f l).
Proof.
  intros HS; induction HS as [|a l HS IH HF]; simpl; [constructor|].
  destruct (f a); auto. constructor; auto.
  apply Forall_forall. intros x Hx. apply filter_In in Hx as [Hx _].
  rewrite Forall_forall in HF. auto.
Qed.

Lemma SS_map {A B} (R : B -> B -> Prop) (f : A -> B) l :
  StronglySorted (fun a b => R (f a) (f b)) l -> StronglySorted R (map f l).
Proof.
  intros HS; induction HS as [|a l HS IH HF]; simpl; constructor; auto.
  apply Forall_forall. intros y Hy. apply in_map_iff in Hy as [x [<- Hx]].
  rewrite Forall_forall in HF. auto.
Qed.

Lemma SS_impl {A} (R R' : A -> A -> Prop) l :
  (forall a b, R a b -> R' a b) -> StronglySorted R l -> StronglySorted R' l.
Proof.
  intros HI HS; induction HS as [|a l HS IH HF]; constructor; auto.
  eapply Forall_impl; [|exact HF]. auto.
Qed.

Lemma SS_Forall {A} (R : A -> A -> Prop) (P : A -> Prop) l :
  StronglySorted R l -> Forall P l ->
  StronglySorted (fun a b => P a /\ P b /\ R a b) l.
Proof.
  intros HS; induction HS as [|a l HS IH HF]; intros HP; constructor.
  - inversion HP; auto.
  - inversion HP as [|? ? Pa Pl]; subst.
    rewrite Forall_forall in *. intros x Hx. auto.
Qed.

Lemma SS_nth {A} (R : A -> A -> Prop) l :
  StronglySorted R l ->
  forall i j a b, (i < j)%nat -> nth_error l i = Some a -> nth_error l j = Some b -> R a b.
Proof.
  intros HS; induction HS as [|x l HS IH HF]; intros i j a b Hij Ha Hb.
  - destruct i; discriminate.
  - destruct j as [|j]; [lia|]. simpl in Hb. destruct i as [|i].
    + simpl in Ha. inversion Ha; subst. rewrite Forall_forall in HF.
      apply HF. eapply nth_error_In; eauto.
    + simpl in Ha. apply (IH i j); auto. lia.
Qed.

Lemma firstn_add {A} : forall (n m : nat) (l : list A),
  firstn (n + m) l = firstn n l ++ firstn m (skipn n l).
Proof.
  induction n as [|n IH]; intros m l; simpl; auto.
  destruct l; simpl.
  - rewrite firstn_nil. reflexivity.
  - rewrite IH. reflexivity.
Qed.

Lemma In_firstn_own {A} : forall (n : nat) (l : list A) x, In x (firstn n l) -> In x l.
Proof.
  induction n as [|n IH]; intros l x H; simpl in H; [destruct H|].
  destruct l; simpl in *; [destruct H|]. destruct H; auto.
Qed.

(* ---------- count_nl ---------- *)
Lemma count_nl_nil : count_nl [] = 0.
Proof. reflexivity. Qed.
Lemma count_nl_cons c r : count_nl (c :: r) = (if c =? 10 then 1 else 0) + count_nl r.
Proof. unfold count_nl, countb, is_nl. simpl. destruct (c =? 10); simpl length; lia. Qed.
Lemma count_nl_app a b : count_nl (a ++ b) = count_nl a + count_nl b.
Proof. unfold count_nl, countb. rewrite filter_app, app_length. lia. Qed.
Lemma count_nl_nonneg s : 0 <= count_nl s.
Proof. unfold count_nl, countb; lia. Qed.
Lemma count_nl_zero s : count_nl s = 0 <-> ~ In 10 s.
Proof.
  induction s as [|c r IH].
  - rewrite count_nl_nil. simpl. tauto.
  - rewrite count_nl_cons. pose proof (count_nl_nonneg r). simpl.
    destruct (Z.eqb_spec c 10) as [e|e].
    + split; intros; [lia|tauto].
    + rewrite Z.add_0_l, IH. tauto.
Qed.

(* ---------- line_start ---------- *)
Lemma line_start_from_app : forall a b i ls,
  line_start_from i ls (a ++ b) =
  line_start_from (i + Z.of_nat (length a)) (line_start_from i ls a) b.
Proof.
  induction a as [|c a IH]; intros b i ls.
  - simpl. f_equal. lia.
  - simpl app. simpl line_start_from. simpl length. destruct (c =? 10); rewrite IH; f_equal; lia.
Qed.

Lemma line_start_from_no_nl : forall s i ls, ~ In 10 s -> line_start_from i ls s = ls.
Proof.
  induction s as [|c r IH]; intros i ls H; simpl; auto.
  destruct (Z.eqb_spec c 10).
  - exfalso. apply H. left; auto.
  - apply IH. intro; apply H; right; auto.
Qed.

Lemma line_start_from_bounds : forall s i ls, ls <= i ->
  ls <= line_start_from i ls s <= i + Z.of_nat (length s).
Proof.
  induction s as [|c r IH]; intros i ls H; simpl line_start_from; simpl length.
  - lia.
  - destruct (c =? 10).
    + pose proof (IH (i + 1) (i + 1)). lia.
    + pose proof (IH (i + 1) ls). lia.
Qed.

Lemma last_nl_split : forall s, In 10 s -> exists a b, s = a ++ 10 :: b /\ ~ In 10 b.
Proof.
  induction s as [|c r IH]; intros H; [destruct H|].
  destruct (in_dec Z.eq_dec 10 r) as [Hr|Hr].
  - destruct (IH Hr) as [a [b [E Hb]]]. exists (c :: a), b. subst r. auto.
  - destruct H as [H|H]; [|tauto]. subst c. exists [], r. auto.
Qed.

(* readable characterisation of line_start: 0 when there is no newline before,
   else one past the index of the last newline *)
Theorem line_start_spec s :
  (~ In 10 s /\ line_start s = 0) \/
  (exists a b, s = a ++ 10 :: b /\ ~ In 10 b /\ line_start s = Z.of_nat (length a) + 1).
Proof.
  destruct (in_dec Z.eq_dec 10 s) as [H|H].
  - right. destruct (last_nl_split s H) as [a [b [E Hb]]]. exists a, b.
    split; auto. split; auto. subst s. unfold line_start.
    rewrite line_start_from_app. simpl. apply line_start_from_no_nl; auto.
  - left. split; auto. apply line_start_from_no_nl; auto.
Qed.

Lemma line_start_bounds s : 0 <= line_start s <= Z.of_nat (length s).
Proof. pose proof (line_start_from_bounds s 0 0). unfold line_start. lia. Qed.

(* ---------- newline_indices / advance ---------- *)
Lemma advance_nif : forall code i n ls off,
  snd (fst (advance (newline_indices_from i code) n ls off))
    = n + count_nl (firstn (Z.to_nat (off - i)) code) /\
  snd (advance (newline_indices_from i code) n ls off)
    = line_start_from i ls (firstn (Z.to_nat (off - i)) code).
Proof.
  induction code as [|c r IH]; intros i n ls off.
  - simpl. rewrite firstn_nil. simpl. rewrite count_nl_nil. split; lia.
  - simpl newline_indices_from.
    destruct (Z_le_gt_dec off i) as [Hle|Hgt].
    + replace (Z.to_nat (off - i)) with O by lia. simpl firstn.
      rewrite count_nl_nil. simpl line_start_from.
      destruct (c =? 10).
      * simpl advance. destruct (Z.gtb_spec off i); try lia. simpl. split; lia.
      * destruct (IH (i + 1) n ls off) as [A B]. rewrite A, B.
        replace (Z.to_nat (off - (i + 1))) with O by lia. simpl.
        rewrite count_nl_nil. split; lia.
    + replace (Z.to_nat (off - i)) with (S (Z.to_nat (off - (i + 1)))) by lia.
      simpl firstn. rewrite count_nl_cons. simpl line_start_from.
      destruct (c =? 10).
      * simpl advance. destruct (Z.gtb_spec off i); try lia.
        destruct (IH (i + 1) (n + 1) (i + 1) off) as [A B]. rewrite A, B. split; lia.
      * destruct (IH (i + 1) n ls off) as [A B]. rewrite A, B. split; lia.
Qed.

Lemma advance_advance : forall idx n ls o1 o2 idx' n' ls',
  o1 <= o2 -> advance idx n ls o1 = (idx', n', ls') ->
  advance idx' n' ls' o2 = advance idx n ls o2.
Proof.
  induction idx as [|i rest IH]; intros n ls o1 o2 idx' n' ls' Hle H; simpl in H.
  - inversion H; subst. reflexivity.
  - destruct (Z.gtb_spec o1 i).
    + simpl. destruct (Z.gtb_spec o2 i); try lia. eapply IH; eauto.
    + inversion H; subst. reflexivity.
Qed.

(* the token lex_loop emits for t, computed from scratch from state (idx,n,ls) *)
Definition tok_adv (idx : list Z) (n ls : Z) (t : ltok) : token :=
  mkTok (lt_kind t) (lt_val t)
        (snd (fst (advance idx n ls (lt_off t))) + 1)
        (lt_off t - snd (advance idx n ls (lt_off t)) + 1).

Definition off_le (a b : ltok) : Prop := lt_off a <= lt_off b.

(* non-decreasing offsets make the incremental scan equal to a from-scratch one *)
Lemma lex_loop_map : forall lts idx n ls,
  StronglySorted off_le lts ->
  lex_loop lts idx n ls = map (tok_adv idx n ls) lts.
Proof.
  induction lts as [|t r IH]; intros idx n ls HS; simpl; auto.
  inversion HS as [|? ? HSr HF]; subst.
  destruct (advance idx n ls (lt_off t)) as [[idx' n'] ls'] eqn:E.
  f_equal.
  - unfold tok_adv. rewrite E. reflexivity.
  - rewrite IH by auto. apply map_ext_in. intros t2 H2.
    rewrite Forall_forall in HF. specialize (HF t2 H2). unfold off_le in HF.
    unfold tok_adv. rewrite (advance_advance _ _ _ _ _ _ _ _ HF E). reflexivity.
Qed.

Lemma tok_adv_tok_at code t : tok_adv (newline_indices code) 0 0 t = tok_at code t.
Proof.
  unfold tok_adv, tok_at, line_of, col_of, line_start, newline_indices.
  destruct (advance_nif code 0 0 0 (lt_off t)) as [A B]. rewrite A, B.
  replace (lt_off t - 0) with (lt_off t) by lia. f_equal; lia.
Qed.

(* ---------- C16.8: the two branches of locate agree ---------- *)
Theorem C16_branches_agree : forall lts,
  lex_loop lts [] 0 0 = map (fun t => mkTok (lt_kind t) (lt_val t) 1 (lt_off t + 1)) lts.
Proof.
  assert (G : forall lts n ls, lex_loop lts [] n ls =
            map (fun t => mkTok (lt_kind t) (lt_val t) (n + 1) (lt_off t - ls + 1)) lts).
  { induction lts as [|t r IH]; intros n ls; simpl; auto. rewrite IH. reflexivity. }
  intros lts. rewrite G. apply map_ext. intros t. f_equal; lia.
Qed.

Corollary C16_branches_agree_code : forall code lts,
  newline_indices code = [] ->
  lex_loop lts (newline_indices code) 0 0 =
  map (fun t => mkTok (lt_kind t) (lt_val t) 1 (lt_off t + 1)) lts.
Proof. intros code lts H. rewrite H. apply C16_branches_agree. Qed.

(* hence locate is always the loop *)
Theorem locate_is_loop code lts :
  locate code lts = lex_loop (filter nonempty lts) (newline_indices code) 0 0.
Proof.
  unfold locate. destruct (newline_indices code) eqn:E; auto.
  rewrite C16_branches_agree. reflexivity.
Qed.

(* ---------- consequences of the contract ---------- *)
Definition tok_fact (off : Z) (code : pystr) (t : ltok) : Prop :=
  off <= lt_off t /\
  lt_off t + Z.of_nat (length (lt_val t)) <= off + Z.of_nat (length code) /\
  firstn (length (lt_val t)) (skipn (Z.to_nat (lt_off t - off)) code) = lt_val t.
Definition before (a b : ltok) : Prop :=
  lt_off a + Z.of_nat (length (lt_val a)) <= lt_off b.

Lemma contract_from_facts : forall lts off code, contract_from off code lts ->
  StronglySorted before lts /\ Forall (tok_fact off code) lts.
Proof.
  induction lts as [|a r IH]; intros off code H; simpl in H.
  - split; constructor.
  - destruct H as [Ho [rest [Hc Hr]]]. destruct (IH _ _ Hr) as [SS FA]. split.
    + constructor; auto. rewrite Forall_forall in *. intros x Hx.
      destruct (FA x Hx) as [A _]. unfold before; lia.
    + constructor.
      * unfold tok_fact. subst code. rewrite Ho. replace (off - off) with 0 by lia.
        simpl skipn. rewrite app_length. split; [lia|split; [lia|]].
        rewrite firstn_app, Nat.sub_diag, firstn_all. simpl. apply app_nil_r.
      * rewrite Forall_forall in *. intros x Hx. destruct (FA x Hx) as [A [B C]].
        unfold tok_fact. subst code. rewrite app_length. split; [lia|split; [lia|]].
        rewrite skipn_app. rewrite skipn_all2 by lia. simpl.
        replace (Z.to_nat (lt_off x - off) - length (lt_val a))%nat
          with (Z.to_nat (lt_off x - (off + Z.of_nat (length (lt_val a))))) by lia.
        exact C.
Qed.

Lemma contract_facts code lts : contract code lts ->
  StronglySorted before lts /\ Forall (tok_fact 0 code) lts.
Proof. apply contract_from_facts. Qed.

Lemma before_off_le a b : before a b -> off_le a b.
Proof. unfold before, off_le. lia. Qed.

Lemma nonempty_len t : nonempty t = true -> 0 < Z.of_nat (length (lt_val t)).
Proof. unfold nonempty. destruct (lt_val t); [discriminate|simpl; lia]. Qed.

(* ---------- the master equation ---------- *)
Theorem C16_locate_spec code lts : contract code lts ->
  locate code lts = map (tok_at code) (filter nonempty lts).
Proof.
  intros H. destruct (contract_facts code lts H) as [SS _].
  rewrite locate_is_loop, lex_loop_map.
  - apply map_ext. apply tok_adv_tok_at.
  - apply SS_filter. eapply SS_impl; [|exact SS]. apply before_off_le.
Qed.

(* one token per non-empty lexer token, in order (no contract needed) *)
Lemma lex_loop_values : forall lts idx n ls, map t_value (lex_loop lts idx n ls) = map lt_val lts.
Proof.
  induction lts as [|t r IH]; intros; simpl; auto.
  destruct (advance idx n ls (lt_off t)) as [[idx' n'] ls']. simpl. rewrite IH. reflexivity.
Qed.
Lemma lex_loop_kinds : forall lts idx n ls, map t_kind (lex_loop lts idx n ls) = map lt_kind lts.
Proof.
  induction lts as [|t r IH]; intros; simpl; auto.
  destruct (advance idx n ls (lt_off t)) as [[idx' n'] ls']. simpl. rewrite IH. reflexivity.
Qed.
Theorem C16_values code lts : map t_value (locate code lts) = map lt_val (filter nonempty lts).
Proof. rewrite locate_is_loop. apply lex_loop_values. Qed.
Theorem C16_kinds code lts : map t_kind (locate code lts) = map lt_kind (filter nonempty lts).
Proof. rewrite locate_is_loop. apply lex_loop_kinds. Qed.
Theorem C16_length code lts : length (locate code lts) = length (filter nonempty lts).
Proof. rewrite <- (map_length t_value), C16_values, map_length. reflexivity. Qed.

Lemma kept_pair_tok_at code lts lt t : contract code lts ->
  kept_pair code lts lt t ->
  In lt lts /\ nonempty lt = true /\ tok_fact 0 code lt /\ t = tok_at code lt.
Proof.
  intros H [i [Hl Ht]]. rewrite (C16_locate_spec code lts H) in Ht.
  rewrite nth_error_map, Hl in Ht. simpl in Ht. inversion Ht; subst.
  apply nth_error_In in Hl. apply filter_In in Hl as [Hin Hne].
  destruct (contract_facts code lts H) as [_ FA]. rewrite Forall_forall in FA. auto.
Qed.

Lemma in_locate code lts t : contract code lts -> In t (locate code lts) ->
  exists lt, kept_pair code lts lt t.
Proof.
  intros H Hin. apply In_nth_error in Hin as [i Hi]. 
  pose proof Hi as Hi'. rewrite (C16_locate_spec code lts H), nth_error_map in Hi'.
  destruct (nth_error (filter nonempty lts) i) as [lt|] eqn:E; [|discriminate].
  exists lt, i. auto.
Qed.

(* ---------- C16.1 ---------- *)
Theorem C16_line_is_count code lts lt t : contract code lts ->
  kept_pair code lts lt t ->
  t_kind t = lt_kind lt /\ t_value t = lt_val lt /\
  t_line t = 1 + count_nl (firstn (Z.to_nat (lt_off lt)) code) /\
  t_col t = lt_off lt - line_start (firstn (Z.to_nat (lt_off lt)) code) + 1.
Proof.
  intros H K. destruct (kept_pair_tok_at _ _ _ _ H K) as [_ [_ [_ ->]]].
  simpl. unfold line_of, col_of. auto.
Qed.

Theorem C16_line_is_count_all code lts : contract code lts ->
  Forall2 (fun lt t =>
    t_kind t = lt_kind lt /\ t_value t = lt_val lt /\
    t_line t = 1 + count_nl (firstn (Z.to_nat (lt_off lt)) code) /\
    t_col t = lt_off lt - line_start (firstn (Z.to_nat (lt_off lt)) code) + 1)
    (filter nonempty lts) (locate code lts).
Proof.
  intros H. rewrite (C16_locate_spec code lts H).
  induction (filter nonempty lts); simpl; constructor; auto.
Qed.

(* ---------- C16.6 / C16.7: the filters ---------- *)
Theorem C16_lex_is_filter code lts fc :
  lex code lts fc = filter (keep_token (negb fc)) (locate code lts).
Proof. reflexivity. Qed.

Theorem C16_lex_In code lts fc t :
  In t (lex code lts fc) <->
  In t (locate code lts) /\ is_whitespace t = false /\ (fc = true -> is_comment t = false).
Proof.
  rewrite C16_lex_is_filter, filter_In. unfold keep_token.
  destruct (is_whitespace t), (is_comment t), fc; simpl; intuition congruence.
Qed.

Theorem C16_no_whitespace_kept code lts : forall fc t,
  In t (lex code lts fc) -> is_whitespace t = false.
Proof. intros fc t H. apply C16_lex_In in H. tauto. Qed.

Theorem C16_comments_dropped code lts : forall t,
  In t (lex code lts true) -> is_comment t = false.
Proof. intros t H. apply C16_lex_In in H. tauto. Qed.

Theorem C16_comments_kept code lts : forall t,
  In t (locate code lts) -> is_comment t = true -> is_whitespace t = false ->
  In t (lex code lts false).
Proof. intros t H _ W. apply C16_lex_In. split; auto. split; auto. discriminate. Qed.

(* non-comments are unaffected by the flag *)
Theorem C16_code_tokens_kept code lts : forall fc t,
  In t (locate code lts) -> is_comment t = false -> is_whitespace t = false ->
  In t (lex code lts fc).
Proof. intros fc t H C W. apply C16_lex_In. auto. Qed.

Lemma lex_sublist_SS (R : token -> token -> Prop) code lts fc :
  StronglySorted R (locate code lts) -> StronglySorted R (lex code lts fc).
Proof. rewrite C16_lex_is_filter. apply SS_filter. Qed.

(* ---------- position arithmetic ---------- *)
Lemma pos_cases code o1 o2 : 0 <= o1 <= o2 ->
  let mid := firstn (Z.to_nat (o2 - o1)) (skipn (Z.to_nat o1) code) in
  line_of code o2 = line_of code o1 + count_nl mid /\
  (count_nl mid = 0 -> col_of code o2 - col_of code o1 = o2 - o1).
Proof.
  intros H mid. unfold line_of, col_of.
  assert (E : firstn (Z.to_nat o2) code = firstn (Z.to_nat o1) code ++ mid).
  { replace (Z.to_nat o2) with (Z.to_nat o1 + Z.to_nat (o2 - o1))%nat by lia.
    apply firstn_add. }
  rewrite E, count_nl_app. split; [lia|].
  intros Hz. apply count_nl_zero in Hz. unfold line_start.
  rewrite line_start_from_app, (line_start_from_no_nl mid) by auto. lia.
Qed.

Lemma pos_lt_offsets code o1 o2 : 0 <= o1 < o2 ->
  line_of code o1 < line_of code o2 \/
  (line_of code o1 = line_of code o2 /\ col_of code o1 < col_of code o2).
Proof.
  intros H. destruct (pos_cases code o1 o2) as [A B]; [lia|].
  pose proof (count_nl_nonneg (firstn (Z.to_nat (o2 - o1)) (skipn (Z.to_nat o1) code))) as N.
  destruct (Z.eq_dec (count_nl (firstn (Z.to_nat (o2 - o1)) (skipn (Z.to_nat o1) code))) 0) as [Z0|NZ].
  - right. specialize (B Z0). lia.
  - left. lia.
Qed.

(* pairwise facts about two kept lexer tokens, a before b *)
Definition good (code : pystr) (t : ltok) : Prop := nonempty t = true /\ tok_fact 0 code t.

Lemma good_pairs code lts : contract code lts ->
  StronglySorted (fun a b => good code a /\ good code b /\ before a b) (filter nonempty lts).
Proof.
  intros H. destruct (contract_facts code lts H) as [SS FA].
  apply SS_Forall.
  - apply SS_filter; auto.
  - apply Forall_forall. intros x Hx. apply filter_In in Hx as [Hx Hne].
    rewrite Forall_forall in FA. split; auto.
Qed.

Lemma pair_pos_lt code a b : good code a -> good code b -> before a b ->
  pos_lt (tok_at code a) (tok_at code b).
Proof.
  intros [Na [A0 _]] _ Hb. unfold pos_lt, tok_at; simpl.
  apply pos_lt_offsets. apply nonempty_len in Na. unfold before in Hb. lia.
Qed.

(* ---------- C16.4 ---------- *)
Theorem C16_strictly_increasing code lts : contract code lts ->
  StronglySorted pos_lt (locate code lts).
Proof.
  intros H. rewrite (C16_locate_spec code lts H). apply SS_map.
  eapply SS_impl; [|apply good_pairs; exact H].
  intros a b [Ga [Gb Hb]]. apply pair_pos_lt; auto.
Qed.

Theorem C16_strictly_increasing_lex code lts fc : contract code lts ->
  StronglySorted pos_lt (lex code lts fc).
Proof. intros H. apply lex_sublist_SS, C16_strictly_increasing, H. Qed.

(* index formulation: any earlier token is strictly before any later one,
   in particular consecutive ones (j = S i) *)
Theorem C16_strictly_increasing_nth code lts fc : contract code lts ->
  forall i j t1 t2, (i < j)%nat ->
  nth_error (lex code lts fc) i = Some t1 -> nth_error (lex code lts fc) j = Some t2 ->
  t_line t1 < t_line t2 \/ (t_line t1 = t_line t2 /\ t_col t1 < t_col t2).
Proof.
  intros H i j t1 t2. apply (SS_nth pos_lt). apply C16_strictly_increasing_lex, H.
Qed.

Theorem C16_strictly_increasing_locate_nth code lts : contract code lts ->
  forall i j t1 t2, (i < j)%nat ->
  nth_error (locate code lts) i = Some t1 -> nth_error (locate code lts) j = Some t2 ->
  t_line t1 < t_line t2 \/ (t_line t1 = t_line t2 /\ t_col t1 < t_col t2).
Proof.
  intros H i j t1 t2. apply (SS_nth pos_lt). apply C16_strictly_increasing, H.
Qed.

(* ---------- split_lines / location_to_index ---------- *)
Lemma sum_lines_prefix : forall pre post cur i ls,
  i = ls + Z.of_nat (length cur) ->
  sum_line_lengths (length (filter is_nl pre)) (split_lines_aux (pre ++ post) cur)
  = OK (line_start_from i ls pre - ls).
Proof.
  induction pre as [|c r IH]; intros post cur i ls Hi.
  - simpl. f_equal. lia.
  - simpl. unfold is_nl at 1. destruct (c =? 10).
    + simpl. rewrite (IH post [] (i + 1) (i + 1)) by (simpl; lia).
      rewrite rev_length. f_equal. lia.
    + apply IH. simpl length. lia.
Qed.

(* the sum of (length + 1) over the first k lines is the offset of the start of line k+1 *)
Lemma sum_lines_code pre post :
  sum_line_lengths (Z.to_nat (count_nl pre)) (split_lines (pre ++ post)) = OK (line_start pre).
Proof.
  unfold count_nl, countb, split_lines, line_start. rewrite Nat2Z.id.
  rewrite (sum_lines_prefix pre post [] 0 0) by (simpl; lia). f_equal. lia.
Qed.

Theorem location_to_index_pos code off : 0 <= off ->
  location_to_index code (line_of code off) (col_of code off) = OK off.
Proof.
  intros H. unfold location_to_index, line_of, col_of.
  assert (E : split_lines code =
              split_lines (firstn (Z.to_nat off) code ++ skipn (Z.to_nat off) code))
    by (rewrite firstn_skipn; reflexivity).
  rewrite E. replace (1 + count_nl (firstn (Z.to_nat off) code) - 1)
    with (count_nl (firstn (Z.to_nat off) code)) by lia.
  rewrite sum_lines_code. f_equal.
  pose proof (line_start_bounds (firstn (Z.to_nat off) code)) as B.
  pose proof (firstn_le_length (Z.to_nat off) code). lia.
Qed.

(* ---------- C16.2 ---------- *)
Theorem C16_position code lts lt t : contract code lts ->
  kept_pair code lts lt t ->
  location_to_index code (t_line t) (t_col t) = OK (lt_off lt).
Proof.
  intros H K. destruct (kept_pair_tok_at _ _ _ _ H K) as [_ [_ [[A0 _] ->]]].
  simpl. apply location_to_index_pos. exact A0.
Qed.

(* ---------- C16.3 ---------- *)
Theorem C16_text_at_offset code lts lt : contract code lts -> In lt lts ->
  firstn (length (lt_val lt)) (skipn (Z.to_nat (lt_off lt)) code) = lt_val lt.
Proof.
  intros H Hin. destruct (contract_facts code lts H) as [_ FA].
  rewrite Forall_forall in FA. destruct (FA lt Hin) as [_ [_ C]].
  replace (lt_off lt - 0) with (lt_off lt) in C by lia. exact C.
Qed.

Theorem C16_text code lts t : contract code lts -> In t (locate code lts) ->
  exists off, location_to_index code (t_line t) (t_col t) = OK off /\
              0 <= off /\ off + Z.of_nat (length (t_value t)) <= Z.of_nat (length code) /\
              firstn (length (t_value t)) (skipn (Z.to_nat off) code) = t_value t.
Proof.
  intros H Hin. destruct (in_locate code lts t H Hin) as [lt K].
  exists (lt_off lt). split; [apply (C16_position code lts lt t H K)|].
  destruct (kept_pair_tok_at _ _ _ _ H K) as [Hl [_ [[A0 [A1 _]] ->]]]. simpl.
  split; [exact A0|]. split; [lia|]. apply (C16_text_at_offset code lts lt H Hl).
Qed.

Corollary C16_text_lex code lts fc t : contract code lts -> In t (lex code lts fc) ->
  exists off, location_to_index code (t_line t) (t_col t) = OK off /\
              0 <= off /\ off + Z.of_nat (length (t_value t)) <= Z.of_nat (length code) /\
              firstn (length (t_value t)) (skipn (Z.to_nat off) code) = t_value t.
Proof. intros H Hin. apply C16_lex_In in Hin as [Hin _]. apply (C16_text code lts t H Hin). Qed.

(* ---------- C16.5 ---------- *)
Definition disjoint_on_line (t1 t2 : token) : Prop :=
  t_line t1 = t_line t2 ->
  t_col t1 + Z.of_nat (length (t_value t1)) <= t_col t2 /\ ~ In 10 (t_value t1).
Definition disjoint_offsets (code : pystr) (t1 t2 : token) : Prop :=
  exists o1 o2, location_to_index code (t_line t1) (t_col t1) = OK o1 /\
                location_to_index code (t_line t2) (t_col t2) = OK o2 /\
                o1 + Z.of_nat (length (t_value t1)) <= o2.

Lemma pair_disjoint code a b : good code a -> good code b -> before a b ->
  disjoint_on_line (tok_at code a) (tok_at code b) /\
  disjoint_offsets code (tok_at code a) (tok_at code b).
Proof.
  intros [Na [A0 [A1 A2]]] [Nb [B0 _]] Hb. unfold before in Hb. split.
  - unfold disjoint_on_line, tok_at; simpl. intros HL.
    destruct (pos_cases code (lt_off a) (lt_off b)) as [P Q]; [lia|].
    assert (Z0 : count_nl (firstn (Z.to_nat (lt_off b - lt_off a))
                                  (skipn (Z.to_nat (lt_off a)) code)) = 0) by lia.
    specialize (Q Z0). split; [lia|].
    apply count_nl_zero in Z0. intro Hin. apply Z0.
    rewrite <- A2 in Hin. replace (lt_off a - 0) with (lt_off a) in Hin by lia.
    replace (length (lt_val a))
      with (Nat.min (length (lt_val a)) (Z.to_nat (lt_off b - lt_off a))) in Hin by lia.
    rewrite <- firstn_firstn in Hin. eapply In_firstn_own; eauto.
  - exists (lt_off a), (lt_off b). unfold tok_at; simpl.
    rewrite !location_to_index_pos by lia. auto.
Qed.

(* lexer-token formulation: texts of successive lexer tokens do not overlap *)
Theorem C16_disjoint_lexer code lts : contract code lts ->
  StronglySorted (fun a b => lt_off a + Z.of_nat (length (lt_val a)) <= lt_off b) lts.
Proof. intros H. destruct (contract_facts code lts H) as [SS _]. exact SS. Qed.

(* token formulation, on the offsets recovered by location_to_index *)
Theorem C16_disjoint code lts : contract code lts ->
  StronglySorted (fun t1 t2 => disjoint_on_line t1 t2 /\ disjoint_offsets code t1 t2)
                 (locate code lts).
Proof.
  intros H. rewrite (C16_locate_spec code lts H). apply SS_map.
  eapply SS_impl; [|apply good_pairs; exact H].
  intros a b [Ga [Gb Hb]]. apply pair_disjoint; auto.
Qed.

Theorem C16_disjoint_lex code lts fc : contract code lts ->
  StronglySorted (fun t1 t2 => disjoint_on_line t1 t2 /\ disjoint_offsets code t1 t2)
                 (lex code lts fc).
Proof. intros H. apply lex_sublist_SS, C16_disjoint, H. Qed.

Theorem C16_disjoint_nth code lts fc : contract code lts ->
  forall i j t1 t2, (i < j)%nat ->
  nth_error (lex code lts fc) i = Some t1 -> nth_error (lex code lts fc) j = Some t2 ->
  (t_line t1 = t_line t2 ->
     t_col t1 + Z.of_nat (length (t_value t1)) <= t_col t2 /\ ~ In 10 (t_value t1)) /\
  (exists o1 o2, location_to_index code (t_line t1) (t_col t1) = OK o1 /\
                 location_to_index code (t_line t2) (t_col t2) = OK o2 /\
                 o1 + Z.of_nat (length (t_value t1)) <= o2).
Proof.
  intros H i j t1 t2 Hij H1 H2.
  apply (SS_nth _ _ (C16_disjoint_lex code lts fc H) i j t1 t2 Hij H1 H2).
Qed.

(* ---------- supporting facts, stated for the record ---------- *)
Lemma nif_In : forall code i j,
  In j (newline_indices_from i code) <->
  i <= j /\ nth_error code (Z.to_nat (j - i)) = Some 10.
Proof.
  induction code as [|c r IH]; intros i j.
  - simpl. split; [tauto|]. intros [_ H]. destruct (Z.to_nat (j - i)); discriminate.
  - simpl newline_indices_from.
    assert (R : i + 1 <= j -> nth_error (c :: r) (Z.to_nat (j - i))
                               = nth_error r (Z.to_nat (j - (i + 1)))).
    { intros. replace (Z.to_nat (j - i)) with (S (Z.to_nat (j - (i + 1)))) by lia.
      reflexivity. }
    destruct (Z.eqb_spec c 10) as [e|e].
    + simpl In. rewrite IH. split.
      * intros [->|[A B]].
        -- replace (j - j) with 0 by lia. simpl. subst c. split; [lia|reflexivity].
        -- rewrite R by lia. split; [lia|exact B].
      * intros [A B]. destruct (Z.eq_dec i j) as [->|NE]; [left; reflexivity|right].
        rewrite R in B by lia. split; [lia|exact B].
    + rewrite IH. split.
      * intros [A B]. rewrite R by lia. split; [lia|exact B].
      * intros [A B]. destruct (Z.eq_dec i j) as [->|NE].
        -- replace (j - j) with 0 in B by lia. simpl in B. congruence.
        -- rewrite R in B by lia. split; [lia|exact B].
Qed.

Lemma nif_sorted : forall code i, StronglySorted Z.lt (newline_indices_from i code).
Proof.
  induction code as [|c r IH]; intros i; simpl; [constructor|].
  destruct (c =? 10); auto. constructor; auto.
  apply Forall_forall. intros j Hj. apply nif_In in Hj. lia.
Qed.

(* newline_indices code is the strictly increasing list of all positions of 10 *)
Theorem newline_indices_In code j :
  In j (newline_indices code) <-> 0 <= j /\ nth_error code (Z.to_nat j) = Some 10.
Proof.
  unfold newline_indices. rewrite nif_In. replace (j - 0) with j by lia. tauto.
Qed.
Theorem newline_indices_sorted code : StronglySorted Z.lt (newline_indices code).
Proof. apply nif_sorted. Qed.
Theorem newline_indices_length code : Z.of_nat (length (newline_indices code)) = count_nl code.
Proof.
  unfold newline_indices. generalize 0. induction code as [|c r IH]; intros i; simpl; auto.
  rewrite count_nl_cons. destruct (c =? 10); simpl length; rewrite <- (IH (i + 1)); lia.
Qed.

(* advance from scratch = count of newlines before off / start of off's line *)
Theorem advance_spec code off :
  snd (fst (advance (newline_indices code) 0 0 off)) = count_nl (firstn (Z.to_nat off) code) /\
  snd (advance (newline_indices code) 0 0 off) = line_start (firstn (Z.to_nat off) code).
Proof.
  destruct (advance_nif code 0 0 0 off) as [A B]. unfold newline_indices, line_start.
  rewrite A, B. replace (off - 0) with off by lia. split; [lia|reflexivity].
Qed.

(* split_lines: the maximal newline-free segments of code *)
Fixpoint join_nl (ls : list pystr) : pystr :=
  match ls with
  | [] => []
  | l :: r => match r with [] => l | _ => l ++ 10 :: join_nl r end
  end.

Lemma split_lines_aux_facts : forall code cur, ~ In 10 cur ->
  split_lines_aux code cur <> [] /\
  join_nl (split_lines_aux code cur) = rev cur ++ code /\
  Forall (fun l => ~ In 10 l) (split_lines_aux code cur) /\
  Z.of_nat (length (split_lines_aux code cur)) = count_nl code + 1.
Proof.
  induction code as [|c r IH]; intros cur Hc.
  - rewrite count_nl_nil. simpl. rewrite app_nil_r. repeat split; try discriminate; auto.
    constructor; auto. rewrite <- in_rev. exact Hc.
  - simpl split_lines_aux. rewrite count_nl_cons. destruct (Z.eqb_spec c 10) as [e|e].
    + destruct (IH [] (fun x => x)) as [N [J [F L]]]. repeat split; try discriminate.
      * simpl join_nl. destruct (split_lines_aux r []) eqn:E; [congruence|].
        rewrite J. subst c. reflexivity.
      * constructor; auto. rewrite <- in_rev. exact Hc.
      * simpl length. lia.
    + assert (Hc' : ~ In 10 (c :: cur)) by (simpl; intros [?|?]; [congruence|tauto]).
      destruct (IH (c :: cur) Hc') as [N [J [F L]]]. repeat split; auto.
      * rewrite J. simpl. rewrite <- app_assoc. reflexivity.
Qed.

Theorem split_lines_spec code :
  join_nl (split_lines code) = code /\
  Forall (fun l => ~ In 10 l) (split_lines code) /\
  Z.of_nat (length (split_lines code)) = count_nl code + 1.
Proof.
  destruct (split_lines_aux_facts code [] (fun x => x)) as [_ [J [F L]]].
  unfold split_lines. auto.
Qed.

Print Assumptions line_start_spec.
Print Assumptions C16_branches_agree.
Print Assumptions C16_branches_agree_code.
Print Assumptions locate_is_loop.
Print Assumptions C16_locate_spec.
Print Assumptions C16_values.
Print Assumptions C16_kinds.
Print Assumptions C16_length.
Print Assumptions C16_line_is_count.
Print Assumptions C16_line_is_count_all.
Print Assumptions C16_lex_is_filter.
Print Assumptions C16_lex_In.
Print Assumptions C16_no_whitespace_kept.
Print Assumptions C16_comments_dropped.
Print Assumptions C16_comments_kept.
Print Assumptions C16_code_tokens_kept.
Print Assumptions C16_strictly_increasing.
Print Assumptions C16_strictly_increasing_lex.
Print Assumptions C16_strictly_increasing_nth.
Print Assumptions C16_strictly_increasing_locate_nth.
Print Assumptions location_to_index_pos.
Print Assumptions C16_position.
Print Assumptions C16_text_at_offset.
Print Assumptions C16_text.
Print Assumptions C16_text_lex.
Print Assumptions C16_disjoint_lexer.
Print Assumptions C16_disjoint.
Print Assumptions C16_disjoint_lex.
Print Assumptions C16_disjoint_nth.
Print Assumptions newline_indices_In.
Print Assumptions newline_indices_sorted.
Print Assumptions newline_indices_length.
Print Assumptions advance_spec.
Print Assumptions sum_lines_code.
Print Assumptions split_lines_spec.

(* non-vacuity: the contract is satisfiable, including by zero-length tokens *)
Example contract_example :
  let code := [97; 10; 98; 32; 99] in
  let lts := [mkLtok 0 KName [97]; mkLtok 1 KWhitespace [10]; mkLtok 2 KText [];
              mkLtok 2 KName [98]; mkLtok 3 KWhitespace [32]; mkLtok 4 KName [99]] in
  contract code lts /\
  lex code lts true = [mkTok KName [97] 1 1; mkTok KName [98] 2 1; mkTok KName [99] 2 3].
Proof.
  split.
  - unfold contract. simpl. repeat (split; [reflexivity|]; eexists; split; [reflexivity|]).
    reflexivity.
  - reflexivity.
Qed.
