(* C13 — interim: executable sanity examples; the theorems are added by Gsm/*Proofs.v *)
From Verif Require Import Base Regex Nfa Dfa.
Open Scope Z_scope.
Example C13_ex_star_opt_terminates :
  match_ id_peqb id_accept_st [Star [Opt [Atom 1]]] [1; 1] = OK true.
Proof. vm_compute. reflexivity. Qed.
