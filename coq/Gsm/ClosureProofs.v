(* ClosureProofs.v — state sets (sorted duplicate-free lists) and the
   epsilon-closure of Nfa.v: totality (the fuel always suffices) and
   specification (exactly the epsilon-reachable states, in canonical form). *)
From Verif Require Import Base Regex Nfa.
From Coq Require Import Sorted Relations.
Open Scope nat_scope.

(* ---------- sets ---------- *)
Lemma mem_In : forall a l, mem a l = true <-> In a l.
Proof.
  intros a l; induction l as [|x t IH]; cbn [mem In].
  - split; [discriminate | tauto].
  - rewrite Bool.orb_true_iff, IH, Nat.eqb_eq. split; intros [H|H]; auto.
Qed.

Lemma mem_false_In : forall a l, mem a l = false <-> ~ In a l.
Proof.
  intros a l. rewrite <- mem_In. destruct (mem a l); split; congruence.
Qed.

Lemma insert_set_In : forall a b l, In b (insert_set a l) <-> b = a \/ In b l.
Proof.
  intros a b l; induction l as [|x t IH]; cbn [insert_set].
  - cbn [In]. split; intros [H|H]; auto.
  - destruct (Nat.ltb a x) eqn:Hlt.
    + cbn [In]. split; intros [H|H]; auto.
    + destruct (Nat.eqb a x) eqn:Heq.
      * apply Nat.eqb_eq in Heq; subst x. cbn [In]. split; [auto|]. intros [H|H]; auto.
      * cbn [In]. rewrite IH. tauto.
Qed.

Lemma to_set_In : forall a l, In a (to_set l) <-> In a l.
Proof.
  intros a l; induction l as [|x t IH]; cbn [to_set fold_right]; [tauto|].
  fold (to_set t). rewrite insert_set_In, IH. cbn [In]. split; intros [H|H]; auto.
Qed.

Definition sorted (l : list nat) : Prop := StronglySorted lt l.

Lemma insert_set_sorted : forall a l, sorted l -> sorted (insert_set a l).
Proof.
  intros a l; induction l as [|x t IH]; intros Hs; cbn [insert_set].
  - constructor; constructor.
  - inversion Hs as [|x' t' Hst Hall]; subst.
    destruct (Nat.ltb a x) eqn:Hlt.
    + apply Nat.ltb_lt in Hlt. constructor; [exact Hs|].
      constructor; [exact Hlt|].
      rewrite Forall_forall in *. intros y Hy. specialize (Hall y Hy). lia.
    + destruct (Nat.eqb a x) eqn:Heq; [exact Hs|].
      apply Nat.ltb_ge in Hlt. apply Nat.eqb_neq in Heq.
      constructor; [apply IH; exact Hst|].
      rewrite Forall_forall in *. intros y Hy. apply insert_set_In in Hy.
      destruct Hy as [Hy|Hy]; [subst; lia | apply Hall; exact Hy].
Qed.

Lemma to_set_sorted : forall l, sorted (to_set l).
Proof.
  induction l as [|x t IH]; cbn [to_set fold_right].
  - constructor.
  - apply insert_set_sorted. exact IH.
Qed.

(* canonical form: two sorted lists with the same elements are equal *)
Lemma sorted_canon : forall l1 l2, sorted l1 -> sorted l2 ->
  (forall a, In a l1 <-> In a l2) -> l1 = l2.
Proof.
  induction l1 as [|x t1 IH]; intros l2 H1 H2 Hin.
  - destruct l2 as [|y t2]; [reflexivity|].
    exfalso. apply (Hin y). left; reflexivity.
  - destruct l2 as [|y t2].
    + exfalso. apply (Hin x). left; reflexivity.
    + inversion H1 as [|x' t' Hs1 Ha1]; subst.
      inversion H2 as [|y' t'' Hs2 Ha2]; subst.
      rewrite Forall_forall in Ha1, Ha2.
      assert (Hxy : x = y).
      { assert (Hx : In x (y :: t2)) by (apply Hin; left; reflexivity).
        assert (Hy : In y (x :: t1)) by (apply Hin; left; reflexivity).
        destruct Hx as [Hx|Hx]; [auto|].
        destruct Hy as [Hy|Hy]; [auto|].
        specialize (Ha1 _ Hy). specialize (Ha2 _ Hx). lia. }
      subst y. f_equal. apply IH; [exact Hs1 | exact Hs2 |].
      intros a; split; intros Ha.
      * assert (Hq : In a (x :: t2)) by (apply Hin; right; exact Ha).
        destruct Hq as [Hq|Hq]; [|exact Hq]. subst a. specialize (Ha1 _ Ha). lia.
      * assert (Hq : In a (x :: t1)) by (apply Hin; right; exact Ha).
        destruct Hq as [Hq|Hq]; [|exact Hq]. subst a. specialize (Ha2 _ Ha). lia.
Qed.

Lemma to_set_canon : forall l1 l2, (forall a, In a l1 <-> In a l2) -> to_set l1 = to_set l2.
Proof.
  intros l1 l2 H. apply sorted_canon; try apply to_set_sorted.
  intros a. rewrite !to_set_In. apply H.
Qed.

Lemma sorted_to_set_id : forall l, sorted l -> to_set l = l.
Proof.
  intros l H. apply sorted_canon; [apply to_set_sorted | exact H |].
  intros a. apply to_set_In.
Qed.

Section ClosureProofs.
  Context {P : Type}.
  Notation heap := (heap P).

  (* epsilon reachability *)
  Inductive eps_reach (h : heap) : nat -> nat -> Prop :=
  | er_refl s : eps_reach h s s
  | er_step s t u : In t (neps (get h s)) -> eps_reach h t u -> eps_reach h s u.

  Lemma eps_reach_trans h s t u : eps_reach h s t -> eps_reach h t u -> eps_reach h s u.
  Proof.
    intros H1 H2; induction H1 as [s|s t' u' He Hr IH]; [exact H2|].
    eapply er_step; [exact He | apply IH; exact H2].
  Qed.

  Lemma eps_reach_snoc h s t u : eps_reach h s t -> In u (neps (get h t)) -> eps_reach h s u.
  Proof.
    intros H1 H2. eapply eps_reach_trans; [exact H1|].
    eapply er_step; [exact H2 | apply er_refl].
  Qed.

  (* it is the reflexive-transitive closure of the epsilon-edge relation *)
  Lemma eps_reach_rt h s t :
    eps_reach h s t <-> clos_refl_trans nat (fun s t => In t (neps (get h s))) s t.
  Proof.
    split.
    - intros H; induction H as [s|s t u He Hr IH].
      + apply rt_refl.
      + eapply rt_trans; [apply rt_step; exact He | exact IH].
    - intros H; induction H as [s t He|s|s t u H1 IH1 H2 IH2].
      + eapply er_step; [exact He | apply er_refl].
      + apply er_refl.
      + eapply eps_reach_trans; eassumption.
  Qed.

  (* ---------- totality: a fuel measure ---------- *)
  Fixpoint rem_from (i : nat) (h : heap) (vis : list nat) : nat :=
    match h with
    | [] => 0
    | n :: h' => (if mem i vis then 0 else length (neps n)) + rem_from (S i) h' vis
    end.

  Lemma rem_from_nil : forall h i, rem_from i h [] = total_eps h.
  Proof.
    induction h as [|n h IH]; intros i; cbn [rem_from total_eps fold_right mem]; [reflexivity|].
    fold (total_eps h). rewrite IH. reflexivity.
  Qed.

  Lemma rem_from_visit : forall h i s vis, mem s vis = false ->
    rem_from i h vis =
    (if Nat.leb i s then length (neps (nth (s - i) h (@empty_node P))) else 0) + rem_from i h (s :: vis).
  Proof.
    induction h as [|n h IH]; intros i s vis Hm.
    - cbn [rem_from]. destruct (Nat.leb i s); [|reflexivity].
      destruct (s - i); reflexivity.
    - cbn [rem_from]. rewrite (IH (S i) s vis Hm). cbn [mem].
      destruct (Nat.eqb i s) eqn:Heq.
      + apply Nat.eqb_eq in Heq; subst i. rewrite Hm. cbn [orb].
        rewrite Nat.leb_refl. replace (s - s) with 0 by lia. cbn [nth].
        destruct (Nat.leb (S s) s) eqn:Hle; [apply Nat.leb_le in Hle; lia|]. lia.
      + apply Nat.eqb_neq in Heq. cbn [orb].
        destruct (Nat.leb i s) eqn:Hle.
        * apply Nat.leb_le in Hle.
          destruct (Nat.leb (S i) s) eqn:Hle2; [|apply Nat.leb_gt in Hle2; lia].
          replace (s - i) with (S (s - S i)) by lia. cbn [nth]. lia.
        * apply Nat.leb_gt in Hle.
          destruct (Nat.leb (S i) s) eqn:Hle2; [apply Nat.leb_le in Hle2; lia|]. lia.
  Qed.

  Lemma closure_fuel_total : forall fuel (h : heap) work vis,
    length work + rem_from 0 h vis <= fuel -> exists v, closure_fuel fuel h work vis = Some v.
  Proof.
    induction fuel as [|f IH]; intros h work vis Hle.
    - destruct work as [|s w]; [exists vis; reflexivity|]. cbn [length] in Hle. lia.
    - destruct work as [|s w]; [exists vis; reflexivity|].
      cbn [closure_fuel]. cbn [length] in Hle.
      destruct (mem s vis) eqn:Hm.
      + apply IH. lia.
      + apply IH. rewrite app_length.
        pose proof (rem_from_visit h 0 s vis Hm) as Hr.
        cbn [Nat.leb] in Hr. rewrite Nat.sub_0_r in Hr. unfold get. lia.
  Qed.

  Theorem closure_total : forall (h : heap) l, exists v, closure h l = OK v.
  Proof.
    intros h l. unfold closure.
    destruct (closure_fuel_total (S (length l + total_eps h)) h l []) as [v Hv].
    - rewrite rem_from_nil. lia.
    - rewrite Hv. eexists; reflexivity.
  Qed.

  (* ---------- specification ---------- *)
  Lemma closure_fuel_spec : forall fuel (h : heap) work vis v,
    closure_fuel fuel h work vis = Some v ->
    (forall s t, In s vis -> In t (neps (get h s)) -> In t vis \/ In t work) ->
    incl vis v /\ incl work v /\
    (forall s t, In s v -> In t (neps (get h s)) -> In t v) /\
    (forall a, In a v -> In a vis \/ exists s, In s work /\ eps_reach h s a).
  Proof.
    induction fuel as [|f IH]; intros h work vis v Hc Hinv.
    - destruct work as [|s w]; [|discriminate].
      cbn [closure_fuel] in Hc. inversion Hc; subst v.
      split; [apply incl_refl|]. split; [intros x []|]. split.
      + intros s t Hs Ht. destruct (Hinv s t Hs Ht) as [H|[]]; exact H.
      + intros a Ha; left; exact Ha.
    - destruct work as [|s w].
      + cbn [closure_fuel] in Hc. inversion Hc; subst v.
        split; [apply incl_refl|]. split; [intros x []|]. split.
        * intros s t Hs Ht. destruct (Hinv s t Hs Ht) as [H|[]]; exact H.
        * intros a Ha; left; exact Ha.
      + cbn [closure_fuel] in Hc. destruct (mem s vis) eqn:Hm.
        * apply mem_In in Hm.
          destruct (IH h w vis v Hc) as (Hv & Hw & Hcl & Hr).
          { intros s' t Hs' Ht. destruct (Hinv s' t Hs' Ht) as [H|[H|H]]; auto.
            subst t. left; exact Hm. }
          split; [exact Hv|]. split.
          { intros x [Hx|Hx]; [subst x; apply Hv; exact Hm | apply Hw; exact Hx]. }
          split; [exact Hcl|].
          intros a Ha. destruct (Hr a Ha) as [H|(s' & Hs' & Hre)]; [left; exact H|].
          right; exists s'; split; [right; exact Hs' | exact Hre].
        * destruct (IH h (neps (get h s) ++ w) (s :: vis) v Hc) as (Hv & Hw & Hcl & Hr).
          { intros s' t [Hs'|Hs'] Ht.
            - subst s'. right. apply in_or_app; left; exact Ht.
            - destruct (Hinv s' t Hs' Ht) as [H|[H|H]].
              + left; right; exact H.
              + subst t. left; left; reflexivity.
              + right. apply in_or_app; right; exact H. }
          split; [intros x Hx; apply Hv; right; exact Hx|]. split.
          { intros x [Hx|Hx]; [subst x; apply Hv; left; reflexivity|].
            apply Hw. apply in_or_app; right; exact Hx. }
          split; [exact Hcl|].
          intros a Ha. destruct (Hr a Ha) as [[H|H]|(s' & Hs' & Hre)].
          { subst a. right; exists s; split; [left; reflexivity | apply er_refl]. }
          { left; exact H. }
          apply in_app_or in Hs'. destruct Hs' as [Hs'|Hs'].
          { right; exists s; split; [left; reflexivity|]. eapply er_step; eassumption. }
          { right; exists s'; split; [right; exact Hs' | exact Hre]. }
  Qed.

  Theorem closure_spec : forall (h : heap) l v, closure h l = OK v ->
    (forall a, In a v <-> exists s, In s l /\ eps_reach h s a) /\ sorted v.
  Proof.
    intros h l v Hc. unfold closure in Hc.
    destruct (closure_fuel (S (length l + total_eps h)) h l []) as [v0|] eqn:Hf; [|discriminate].
    inversion Hc; subst v. split; [|apply to_set_sorted].
    destruct (closure_fuel_spec _ _ _ _ _ Hf) as (_ & Hw & Hcl & Hr).
    { intros s t []. }
    intros a. rewrite to_set_In. split.
    - intros Ha. destruct (Hr a Ha) as [[]|H]; exact H.
    - intros (s & Hs & Hre). apply Hw in Hs.
      induction Hre as [s|s t u He Hre IH]; [exact Hs|].
      apply IH. eapply Hcl; eassumption.
  Qed.

  (* derived facts used by the simulation proofs *)
  Definition eclosed (h : heap) (A : list nat) : Prop :=
    forall s t, In s A -> In t (neps (get h s)) -> In t A.

  Lemma eclosed_reach h A s t : eclosed h A -> In s A -> eps_reach h s t -> In t A.
  Proof.
    intros Hc Hs Hr; induction Hr as [s|s t u He Hr IH]; [exact Hs|].
    apply IH. eapply Hc; eassumption.
  Qed.

  Lemma closure_eclosed h l v : closure h l = OK v -> eclosed h v.
  Proof.
    intros Hc s t Hs Ht. destruct (closure_spec h l v Hc) as [Hspec _].
    apply Hspec in Hs. destruct Hs as (s0 & Hs0 & Hr).
    apply Hspec. exists s0; split; [exact Hs0|]. eapply eps_reach_snoc; eassumption.
  Qed.

  Lemma closure_canon (h : heap) l1 l2 v1 v2 :
    closure h l1 = OK v1 -> closure h l2 = OK v2 ->
    (forall a, In a l1 <-> In a l2) -> v1 = v2.
  Proof.
    intros H1 H2 Hin.
    destruct (closure_spec _ _ _ H1) as [S1 So1].
    destruct (closure_spec _ _ _ H2) as [S2 So2].
    apply sorted_canon; [exact So1 | exact So2|].
    intros a. rewrite S1, S2. split; intros (s & Hs & Hr); exists s; (split; [apply Hin; exact Hs | exact Hr]).
  Qed.
End ClosureProofs.
