(* ShiftProofsRelabel.v — property C04, part 2: relabelling the line numbers
   of the tokens by a strictly monotone map only relabels the lines of the
   reported measurements; names, order, columns and lengths are unchanged. *)
From Verif Require Import Base BaseProofs Regex Nfa Dfa Token TokEngine Lex Headers Blocks Pairing Fold ScanFile.
Open Scope Z_scope.

Definition relabel (phi : Z -> Z) (t : token) : token :=
  mkTok (t_kind t) (t_value t) (phi (t_line t)) (t_col t).
Definition mono (phi : Z -> Z) : Prop := forall a b, a < b -> phi a < phi b.
Definition shift_loc (phi : Z -> Z) (p : Location) : Location := mkLoc (phi (loc_line p)) (loc_column p).
Definition shift_meas (phi : Z -> Z) (m : Measurement) : Measurement :=
  mkMeas (m_unit_name m) (mkLoc (phi (loc_line (m_start m))) (loc_column (m_start m)))
         (mkLoc (phi (loc_line (m_end m))) (loc_column (m_end m))) (m_value m).

Fixpoint newlines_in (v : pystr) : Z :=
  match v with [] => 0 | c :: r => (if c =? 10 then 1 else 0) + newlines_in r end.

(* ---------- generic list facts ---------- *)
Lemma filter_map_comm {A B} (f : B -> bool) (g : A -> B) l :
  filter f (map g l) = map g (filter (fun x => f (g x)) l).
Proof.
  induction l as [|x l IH]; cbn [map filter]; [reflexivity|].
  destruct (f (g x)); cbn [map]; rewrite IH; reflexivity.
Qed.

Lemma nth_error_map' {A B} (f : A -> B) l n : nth_error (map f l) n = option_map f (nth_error l n).
Proof.
  revert n. induction l as [|x l IH]; intros [|n]; cbn; try reflexivity. apply IH.
Qed.

Lemma skipn_map' {A B} (f : A -> B) n l : skipn n (map f l) = map f (skipn n l).
Proof. revert l. induction n as [|n IH]; intros [|x l]; cbn; try reflexivity. apply IH. Qed.

Lemma firstn_map' {A B} (f : A -> B) n l : firstn n (map f l) = map f (firstn n l).
Proof. revert l. induction n as [|n IH]; intros [|x l]; cbn; try reflexivity. rewrite IH. reflexivity. Qed.

Lemma fold_left_ext {A B} (f g : A -> B -> A) : (forall a b, f a b = g a b) ->
  forall l a, fold_left f l a = fold_left g l a.
Proof. intros H l. induction l as [|x l IH]; intros a; cbn; [reflexivity|]. rewrite H. apply IH. Qed.

(* ---------- strictly monotone maps ---------- *)
Section Mono.
  Variable phi : Z -> Z.
  Hypothesis Hmono : mono phi.

  Lemma mono_ltb a b : (phi a <? phi b) = (a <? b).
  Proof.
    destruct (Z.ltb_spec a b) as [H|H].
    - apply Z.ltb_lt. apply Hmono, H.
    - apply Z.ltb_ge. destruct (Z.eq_dec a b) as [->|Hne]; [lia|].
      assert (b < a) by lia. pose proof (Hmono _ _ H0). lia.
  Qed.
  Lemma mono_inj a b : phi a = phi b -> a = b.
  Proof.
    intros H. destruct (Z.lt_trichotomy a b) as [L|[E|L]]; [|exact E|];
      apply Hmono in L; lia.
  Qed.
  Lemma mono_eqb a b : (phi a =? phi b) = (a =? b).
  Proof.
    destruct (Z.eqb_spec a b) as [->|Hne]; [apply Z.eqb_refl|].
    apply Z.eqb_neq. intros H. apply Hne, mono_inj, H.
  Qed.
  Lemma mono_leb a b : (phi a <=? phi b) = (a <=? b).
  Proof. rewrite !Z.leb_antisym, mono_ltb. reflexivity. Qed.

  Lemma existsb_eqb_map a l : existsb (Z.eqb (phi a)) (map phi l) = existsb (Z.eqb a) l.
  Proof.
    induction l as [|x l IH]; cbn [map existsb]; [reflexivity|]. rewrite mono_eqb, IH. reflexivity.
  Qed.
  Lemma dedupZ_map l : dedupZ (map phi l) = map phi (dedupZ l).
  Proof.
    induction l as [|x l IH]; cbn [map dedupZ]; [reflexivity|].
    rewrite existsb_eqb_map. destruct (existsb (Z.eqb x) l); cbn [map]; rewrite IH; reflexivity.
  Qed.
End Mono.

(* ---------- the sorts depend only on the comparisons between the elements ---------- *)
Section SortCongr.
  Context {A : Type} (k1 k2 k1' k2' : A -> Z).

  Lemma insert_asc2_congr x l :
    (forall y, In y l -> lt2 k1 k2 x y = lt2 k1' k2' x y) ->
    insert_asc2 k1 k2 x l = insert_asc2 k1' k2' x l.
  Proof.
    induction l as [|y t IH]; intros H; cbn [insert_asc2]; [reflexivity|].
    rewrite (H y) by (left; reflexivity). rewrite IH; [reflexivity|].
    intros z Hz. apply H. right. exact Hz.
  Qed.
  Lemma insert_desc2_congr x l :
    (forall y, In y l -> lt2 k1 k2 y x = lt2 k1' k2' y x) ->
    insert_desc2 k1 k2 x l = insert_desc2 k1' k2' x l.
  Proof.
    induction l as [|y t IH]; intros H; cbn [insert_desc2]; [reflexivity|].
    rewrite (H y) by (left; reflexivity). rewrite IH; [reflexivity|].
    intros z Hz. apply H. right. exact Hz.
  Qed.
  Lemma insert_asc2_In x l y : In y (insert_asc2 k1 k2 x l) -> y = x \/ In y l.
  Proof.
    induction l as [|z t IH]; cbn [insert_asc2].
    - intros [<-|[]]. left; reflexivity.
    - destruct (lt2 k1 k2 x z).
      + intros [<-|H]; [left; reflexivity | right; exact H].
      + intros [<-|H]; [right; left; reflexivity|].
        destruct (IH H) as [->|H']; [left; reflexivity | right; right; exact H'].
  Qed.
  Lemma insert_desc2_In x l y : In y (insert_desc2 k1 k2 x l) -> y = x \/ In y l.
  Proof.
    induction l as [|z t IH]; cbn [insert_desc2].
    - intros [<-|[]]. left; reflexivity.
    - destruct (lt2 k1 k2 z x).
      + intros [<-|H]; [left; reflexivity | right; exact H].
      + intros [<-|H]; [right; left; reflexivity|].
        destruct (IH H) as [->|H']; [left; reflexivity | right; right; exact H'].
  Qed.

  Variable S : A -> Prop.
  Hypothesis Hlt : forall x y, S x -> S y -> lt2 k1 k2 x y = lt2 k1' k2' x y.

  Lemma fold_insert_asc2_congr l : forall acc,
    (forall x, In x acc -> S x) -> (forall x, In x l -> S x) ->
    fold_left (fun acc x => insert_asc2 k1 k2 x acc) l acc =
    fold_left (fun acc x => insert_asc2 k1' k2' x acc) l acc.
  Proof.
    induction l as [|x l IH]; intros acc Ha Hl; cbn [fold_left]; [reflexivity|].
    rewrite <- (insert_asc2_congr x acc).
    - apply IH.
      + intros y Hy. apply insert_asc2_In in Hy. destruct Hy as [->|Hy]; [apply Hl; left; reflexivity | apply Ha, Hy].
      + intros y Hy. apply Hl. right. exact Hy.
    - intros y Hy. apply Hlt; [apply Hl; left; reflexivity | apply Ha, Hy].
  Qed.
  Lemma sort_asc2_congr l : (forall x, In x l -> S x) -> sort_asc2 k1 k2 l = sort_asc2 k1' k2' l.
  Proof. intros H. apply fold_insert_asc2_congr; [intros x []|exact H]. Qed.

  Lemma fold_insert_desc2_congr l : forall acc,
    (forall x, In x acc -> S x) -> (forall x, In x l -> S x) ->
    fold_left (fun acc x => insert_desc2 k1 k2 x acc) l acc =
    fold_left (fun acc x => insert_desc2 k1' k2' x acc) l acc.
  Proof.
    induction l as [|x l IH]; intros acc Ha Hl; cbn [fold_left]; [reflexivity|].
    rewrite <- (insert_desc2_congr x acc).
    - apply IH.
      + intros y Hy. apply insert_desc2_In in Hy. destruct Hy as [->|Hy]; [apply Hl; left; reflexivity | apply Ha, Hy].
      + intros y Hy. apply Hl. right. exact Hy.
    - intros y Hy. apply Hlt; [apply Ha, Hy | apply Hl; left; reflexivity].
  Qed.
  Lemma sort_desc2_congr l : (forall x, In x l -> S x) -> sort_desc2 k1 k2 l = sort_desc2 k1' k2' l.
  Proof. intros H. apply fold_insert_desc2_congr; [intros x []|exact H]. Qed.

  Lemma fold_insert_desc2_In l : forall acc y,
    In y (fold_left (fun acc x => insert_desc2 k1 k2 x acc) l acc) -> In y acc \/ In y l.
  Proof.
    induction l as [|x l IH]; intros acc y H; cbn [fold_left] in H; [left; exact H|].
    apply IH in H. destruct H as [H|H]; [|right; right; exact H].
    apply insert_desc2_In in H. destruct H as [->|H]; [right; left; reflexivity | left; exact H].
  Qed.
  Lemma sort_desc2_In l y : In y (sort_desc2 k1 k2 l) -> In y l.
  Proof. intros H. apply fold_insert_desc2_In in H. destruct H as [[]|H]; exact H. Qed.
End SortCongr.

(* ====================================================================== *)
Section Relabel.
  Variable phi : Z -> Z.
  Hypothesis Hmono : mono phi.
  Notation R := (relabel phi).

  Lemma lt2_relabel {A} (k1 k2 k1' k2' : A -> Z) x y :
    k1' x = phi (k1 x) -> k1' y = phi (k1 y) -> k2' x = k2 x -> k2' y = k2 y ->
    lt2 k1' k2' x y = lt2 k1 k2 x y.
  Proof.
    intros Hx Hy Hx2 Hy2. unfold lt2.
    rewrite Hx, Hy, Hx2, Hy2, (mono_ltb phi Hmono), (mono_eqb phi Hmono). reflexivity.
  Qed.

  (* ---------- token observations ---------- *)
  Lemma taccept_relabel p t : taccept p (R t) = taccept p t.
  Proof.
    induction p; cbn [taccept]; try reflexivity;
      try (rewrite IHp1, IHp2; reflexivity); try (rewrite IHp; reflexivity); try exact IHp1.
  Qed.
  Lemma taccept_st_relabel p d t : taccept_st p d (R t) = taccept_st p d t.
  Proof.
    destruct p; cbn [taccept_st]; rewrite ?taccept_relabel; reflexivity.
  Qed.
  Lemma keep_token_relabel b t : keep_token b (R t) = keep_token b t.
  Proof. reflexivity. Qed.
  Lemma is_nocl_token_relabel t : is_nocl_token (R t) = is_nocl_token t.
  Proof. reflexivity. Qed.
  Lemma is_symbol_relabel t s : is_symbol (R t) s = is_symbol t s.
  Proof. reflexivity. Qed.
  Lemma is_name_relabel t : is_name (R t) = is_name t.
  Proof. reflexivity. Qed.

  Lemma filter_tokens_relabel b toks : filter_tokens b (map R toks) = map R (filter_tokens b toks).
  Proof.
    unfold filter_tokens. rewrite filter_map_comm. reflexivity.
  Qed.
  Lemma nocl_lines_relabel toks :
    map t_line (filter_nocl_comment_tokens (map R toks)) = map phi (map t_line (filter_nocl_comment_tokens toks)).
  Proof.
    unfold filter_nocl_comment_tokens. rewrite filter_map_comm, !map_map.
    rewrite (filter_ext (fun x => is_nocl_token (R x)) is_nocl_token) by (intros t; reflexivity).
    reflexivity.
  Qed.

  Lemma tok_col_relabel ts i : tok_col (map R ts) i = tok_col ts i.
  Proof. unfold tok_col. rewrite nth_error_map'. destruct (nth_error ts i); reflexivity. Qed.
  Lemma tok_line_relabel ts i : (i < length ts)%nat -> tok_line (map R ts) i = phi (tok_line ts i).
  Proof.
    intros H. unfold tok_line. rewrite nth_error_map'.
    destruct (nth_error ts i) eqn:E; [reflexivity|]. apply nth_error_None in E. lia.
  Qed.

  (* ---------- the matcher ---------- *)
  Notation consume := (consume tpred_eqb taccept_st).
  Lemma consume_relabel a pt t : consume a pt (R t) = consume a pt t.
  Proof.
    unfold Dfa.consume.
    erewrite fold_left_ext; [reflexivity|].
    intros [[ds found]|k] p; [|reflexivity]. rewrite taccept_st_relabel. reflexivity.
  Qed.

  Lemma run_prefix_relabel a : forall w pt,
    run_prefix tpred_eqb taccept_st a pt (map R w) = run_prefix tpred_eqb taccept_st a pt w.
  Proof.
    induction w as [|x w IH]; intros pt; cbn [map run_prefix]; [reflexivity|].
    rewrite consume_relabel. destruct (consume a pt x) as [[pt'|]|k]; try reflexivity.
    rewrite IH. reflexivity.
  Qed.
  Lemma starts_with_dfa_relabel a w : tk_starts_with_dfa a (map R w) = tk_starts_with_dfa a w.
  Proof. apply run_prefix_relabel. Qed.

  Lemma step_active_relabel a idx t : forall active,
    step_active tpred_eqb taccept_st a idx (R t) active = step_active tpred_eqb taccept_st a idx t active.
  Proof.
    induction active as [|pt rest IH]; cbn [step_active]; [reflexivity|].
    rewrite consume_relabel, IH. reflexivity.
  Qed.
  Lemma scan_loop_relabel a : forall w idx active cands,
    scan_loop tpred_eqb taccept_st a idx (map R w) active cands = scan_loop tpred_eqb taccept_st a idx w active cands.
  Proof.
    induction w as [|x w IH]; intros idx active cands; cbn [map scan_loop]; [reflexivity|].
    rewrite step_active_relabel. destruct (step_active _ _ _ _ _ _) as [[act' cs]|k]; [apply IH|reflexivity].
  Qed.

  Lemma select_leftmost_ext (f g : cand -> res bool) : (forall c, f c = g c) ->
    forall cs le, select_leftmost f le cs = select_leftmost g le cs.
  Proof.
    intros H. induction cs as [|c rest IH]; intros le; cbn [select_leftmost]; [reflexivity|].
    rewrite H. destruct (g c) as [[|]|k]; try reflexivity; [|apply IH].
    destruct (Nat.leb le (fst c)); [|apply IH]. rewrite IH. reflexivity.
  Qed.
  Lemma find_all_dfa_relabel a w f g : (forall c, f c = g c) ->
    tk_find_all_dfa a (map R w) f = tk_find_all_dfa a w g.
  Proof.
    intros H. unfold tk_find_all_dfa, find_all_dfa, all_candidates. rewrite scan_loop_relabel.
    destruct (scan_loop _ _ _ _ _ _ _) as [cs|k]; [|reflexivity]. apply select_leftmost_ext, H.
  Qed.

  (* ---------- headers ---------- *)
  Lemma first_name_from_relabel : forall l i, first_name_from i (map R l) = first_name_from i l.
  Proof.
    induction l as [|t r IH]; intros i; cbn [map first_name_from]; [reflexivity|].
    rewrite is_name_relabel, IH. reflexivity.
  Qed.
  Lemma name_index_relabel ts s e : name_index (map R ts) s e = name_index ts s e.
  Proof. unfold name_index. rewrite skipn_map', firstn_map', first_name_from_relabel. reflexivity. Qed.
  Lemma mk_headers_relabel ts : forall ms, mk_headers (map R ts) ms = mk_headers ts ms.
  Proof.
    induction ms as [|[s e] r IH]; cbn [mk_headers]; [reflexivity|].
    rewrite name_index_relabel, IH. reflexivity.
  Qed.
  Lemma get_headers_relabel ts e fb : get_headers (map R ts) e fb = get_headers ts e fb.
  Proof.
    unfold get_headers. destruct (tk_to_dfa e) as [a|k]; [|reflexivity].
    assert (Hf : (match fb with
                  | None => tk_find_all_dfa a (map R ts) (fun _ => OK true)
                  | Some f =>
                      match tk_to_dfa f with
                      | Err k => Err k
                      | OK af => tk_find_all_dfa a (map R ts) (fun c =>
                          match tk_starts_with_dfa af (skipn (snd c) (map R ts)) with
                          | Err k => Err k | OK (Some _) => OK true | OK None => OK false end)
                      end
                  end) =
                 (match fb with
                  | None => tk_find_all_dfa a ts (fun _ => OK true)
                  | Some f =>
                      match tk_to_dfa f with
                      | Err k => Err k
                      | OK af => tk_find_all_dfa a ts (fun c =>
                          match tk_starts_with_dfa af (skipn (snd c) ts) with
                          | Err k => Err k | OK (Some _) => OK true | OK None => OK false end)
                      end
                  end)).
    { destruct fb as [f|].
      - destruct (tk_to_dfa f) as [af|k]; [|reflexivity].
        apply find_all_dfa_relabel. intros c. rewrite skipn_map', starts_with_dfa_relabel. reflexivity.
      - apply find_all_dfa_relabel. reflexivity. }
    rewrite Hf. clear Hf.
    match goal with |- match ?X with _ => _ end = _ => destruct X as [ms|k] end; [|reflexivity].
    apply mk_headers_relabel.
  Qed.
  Lemma headers_of_patterns_relabel ts : forall ps,
    headers_of_patterns (map R ts) ps = headers_of_patterns ts ps.
  Proof.
    induction ps as [|[e fb] r IH]; cbn [headers_of_patterns]; [reflexivity|].
    rewrite get_headers_relabel, IH. reflexivity.
  Qed.
  Lemma java_drop_relabel ts h : java_drop (map R ts) h = java_drop ts h.
  Proof.
    unfold java_drop. destruct (h_start h) as [|p]; [reflexivity|].
    rewrite nth_error_map'. destruct (nth_error ts p) as [t|]; cbn [option_map]; [|reflexivity].
    apply taccept_relabel.
  Qed.
  Theorem extract_headers_relabel l ts : extract_headers l (map R ts) = extract_headers l ts.
  Proof.
    unfold extract_headers. rewrite headers_of_patterns_relabel.
    destruct (headers_of_patterns ts (lang_patterns l)) as [hs|k]; [|reflexivity].
    destruct l; try reflexivity; f_equal; apply filter_ext; intros h; rewrite java_drop_relabel; reflexivity.
  Qed.

  (* ---------- brace blocks ---------- *)
  Lemma balanced_from_relabel op cl : forall ts i stack,
    balanced_from i (map R ts) op cl stack = balanced_from i ts op cl stack.
  Proof.
    induction ts as [|t r IH]; intros i stack; cbn [map balanced_from]; [reflexivity|].
    rewrite !is_symbol_relabel.
    destruct (is_symbol t op); [apply IH|].
    destruct (is_symbol t cl); [|apply IH].
    destruct stack as [|s stack']; [apply IH|]. rewrite IH. reflexivity.
  Qed.

  Lemma sort_ranges_relabel ts rs :
    (forall r, In r rs -> (fst r < length ts)%nat) -> sort_ranges (map R ts) rs = sort_ranges ts rs.
  Proof.
    intros H. unfold sort_ranges.
    apply (sort_asc2_congr _ _ _ _ (fun r : range => (fst r < length ts)%nat)); [|exact H].
    intros x y Hx Hy. apply lt2_relabel; try apply tok_line_relabel; try apply tok_col_relabel; assumption.
  Qed.

  Lemma balanced_from_valid op cl : forall ts i stack r,
    In r (balanced_from i ts op cl stack) -> In (fst r) stack \/ (i <= fst r < i + length ts)%nat.
  Proof.
    induction ts as [|t ts IH]; intros i stack r H; cbn [balanced_from] in H; [destruct H|].
    cbn [length].
    destruct (is_symbol t op).
    - apply IH in H. destruct H as [[<-|H]|H]; [right; lia | left; exact H | right; lia].
    - destruct (is_symbol t cl).
      + destruct stack as [|s stack'].
        * apply IH in H. destruct H as [[]|H]. right; lia.
        * destruct H as [<-|H]; [left; left; reflexivity|].
          apply IH in H. destruct H as [H|H]; [left; right; exact H | right; lia].
      + apply IH in H. destruct H as [H|H]; [left; exact H | right; lia].
  Qed.

  Lemma get_blocks_relabel ts : get_blocks (map R ts) = get_blocks ts.
  Proof.
    unfold get_blocks. rewrite balanced_from_relabel. apply sort_ranges_relabel.
    intros r H. apply balanced_from_valid in H. destruct H as [[]|H]. lia.
  Qed.

  (* ---------- Python blocks ---------- *)
  Lemma token_lines_from_relabel : forall ts i line cont nr nr',
    (line <> [] -> nr' = phi nr) ->
    token_lines_from i (map R ts) line cont nr' = token_lines_from i ts line cont nr.
  Proof.
    induction ts as [|t r IH]; intros i line cont nr nr' H; cbn [map token_lines_from]; [reflexivity|].
    destruct line as [|j line].
    - apply IH. intros _. reflexivity.
    - rewrite H by discriminate.
      change (t_line (R t)) with (phi (t_line t)). change (t_value (R t)) with (t_value t).
      destruct cont.
      + rewrite (mono_eqb phi Hmono). destruct (t_line t =? t_line t).
        * apply IH. intros _. reflexivity.
        * f_equal. apply IH. intros _. reflexivity.
      + rewrite (mono_eqb phi Hmono). destruct (t_line t =? nr).
        * apply IH. intros _. reflexivity.
        * f_equal. apply IH. intros _. reflexivity.
  Qed.
  Lemma token_lines_relabel ts : token_lines (map R ts) = token_lines ts.
  Proof. unfold token_lines. apply token_lines_from_relabel. intros H. exfalso. apply H. reflexivity. Qed.

  Lemma token_lines_from_valid N : forall ts i line cont nr,
    (i + length ts = N)%nat -> Forall (fun j => (j < N)%nat) line ->
    Forall (fun l => l <> [] /\ Forall (fun j => (j < N)%nat) l) (token_lines_from i ts line cont nr).
  Proof.
    induction ts as [|t r IH]; intros i line cont nr HN Hl; cbn [token_lines_from].
    - destruct line; constructor; [|constructor]. split; [discriminate|exact Hl].
    - cbn [length] in HN.
      assert (Hi : Forall (fun j => (j < N)%nat) [i]) by (constructor; [lia|constructor]).
      destruct line as [|j line].
      + apply IH; [lia|exact Hi].
      + destruct cont.
        * destruct (t_line t =? t_line t).
          -- apply IH; [lia|]. apply Forall_app. split; [|exact Hi]. apply Forall_app. split; assumption.
          -- constructor.
             ++ split; [destruct line; discriminate|]. apply Forall_app. split; assumption.
             ++ apply IH; [lia|exact Hi].
        * destruct (t_line t =? nr).
          -- apply IH; [lia|]. apply Forall_app. split; assumption.
          -- constructor; [split; [discriminate|exact Hl]|]. apply IH; [lia|exact Hi].
  Qed.
  Lemma token_lines_valid ts : Forall (fun l => (line_first l < length ts)%nat) (token_lines ts).
  Proof.
    eapply Forall_impl; [|apply (token_lines_from_valid (length ts) ts O [] false 0); [reflexivity|constructor]].
    intros l [Hne Hl]. destruct l as [|j l]; [congruence|]. inversion Hl; subst. exact H1.
  Qed.

  Lemma block_lines_relabel ts hindent : forall revl hline acc,
    Forall (fun p : nat * list nat => (line_first (snd p) < length ts)%nat) revl ->
    block_lines (map R ts) revl (phi hline) hindent acc = block_lines ts revl hline hindent acc.
  Proof.
    induction revl as [|[li l] r IH]; intros hline acc H; cbn [block_lines]; [reflexivity|].
    inversion H as [|? ? Hl Hr]; subst. cbn [snd] in Hl.
    rewrite tok_line_relabel by exact Hl. rewrite tok_col_relabel, (mono_leb phi Hmono).
    destruct (tok_line ts (line_first l) <=? hline); [reflexivity|].
    destruct (tok_col ts (line_first l) >? hindent); apply IH; exact Hr.
  Qed.

  Lemma token_eqb_relabel a b : token_eqb (R a) (R b) = token_eqb a b.
  Proof.
    unfold token_eqb. change (t_line (R a)) with (phi (t_line a)). change (t_line (R b)) with (phi (t_line b)).
    rewrite (mono_eqb phi Hmono). reflexivity.
  Qed.
  Lemma index_of_token_relabel t : forall ts i, index_of_token i (map R ts) (R t) = index_of_token i ts t.
  Proof.
    induction ts as [|x r IH]; intros i; cbn [map index_of_token]; [reflexivity|].
    rewrite token_eqb_relabel, IH. reflexivity.
  Qed.

  Lemma number_from_Forall {A} (Q : A -> Prop) : forall l i,
    Forall Q l -> Forall (fun p : nat * A => Q (snd p)) (number_from i l).
  Proof.
    induction l as [|x l IH]; intros i H; cbn [number_from]; constructor; inversion H; subst; auto.
  Qed.

  Lemma py_block_relabel ts lines h :
    Forall (fun l => (line_first l < length ts)%nat) lines ->
    py_block (map R ts) lines h = py_block ts lines h.
  Proof.
    intros Hv. unfold py_block. rewrite map_length.
    destruct (Nat.leb (length ts) (h_end h)) eqn:El; [reflexivity|].
    apply Nat.leb_gt in El.
    rewrite tok_line_relabel by exact El. rewrite tok_col_relabel.
    rewrite block_lines_relabel
      by (apply Forall_rev, (number_from_Forall (fun l => (line_first l < length ts)%nat)), Hv).
    destruct (block_lines ts _ _ _ _) as [|b bl]; [reflexivity|].
    destruct (flat_map _ _) as [|f st]; [reflexivity|].
    rewrite !nth_error_map'.
    destruct (nth_error ts f) as [tf|]; cbn [option_map]; [|reflexivity].
    destruct (nth_error ts (last (f :: st) f)) as [tl|]; cbn [option_map]; [|reflexivity].
    rewrite !index_of_token_relabel. reflexivity.
  Qed.
  Lemma py_blocks_rev_relabel ts lines :
    Forall (fun l => (line_first l < length ts)%nat) lines ->
    forall rh, py_blocks_rev (map R ts) lines rh = py_blocks_rev ts lines rh.
  Proof.
    intros Hv. induction rh as [|h r IH]; cbn [py_blocks_rev]; [reflexivity|].
    rewrite py_block_relabel by exact Hv. rewrite IH. reflexivity.
  Qed.
  Theorem extract_blocks_relabel l ts hs : extract_blocks l (map R ts) hs = extract_blocks l ts hs.
  Proof.
    assert (Hb : OK (get_blocks (map R ts)) = OK (get_blocks ts)) by (rewrite get_blocks_relabel; reflexivity).
    destruct l; cbn [extract_blocks]; try exact Hb.
    unfold py_extract_blocks. rewrite token_lines_relabel.
    rewrite py_blocks_rev_relabel by apply token_lines_valid. reflexivity.
  Qed.

  (* ---------- headers point into the token list ---------- *)
  Definition hvalid (n : nat) (h : header) : Prop := (h_start h <= h_name h < n)%nat.

  Lemma first_name_from_bounds : forall l i n,
    first_name_from i l = Some n -> (i <= n < i + length l)%nat.
  Proof.
    induction l as [|t r IH]; intros i n H; cbn [first_name_from] in H; [discriminate|].
    cbn [length]. destruct (is_name t).
    - inversion H; subst. lia.
    - apply IH in H. lia.
  Qed.
  Lemma name_index_bounds ts s e n : name_index ts s e = OK n -> (s <= n < length ts)%nat.
  Proof.
    unfold name_index. destruct (first_name_from _ _) as [i|] eqn:E; [|discriminate].
    intros H; inversion H; subst. apply first_name_from_bounds in E.
    rewrite firstn_length, skipn_length in E. lia.
  Qed.
  Lemma mk_headers_valid ts : forall ms hs, mk_headers ts ms = OK hs -> Forall (hvalid (length ts)) hs.
  Proof.
    induction ms as [|[s e] r IH]; intros hs H; cbn [mk_headers] in H.
    - inversion H; subst. constructor.
    - destruct (name_index ts s e) as [n|k] eqn:En; [|discriminate].
      destruct (mk_headers ts r) as [hs'|k]; [|discriminate].
      inversion H; subst. constructor; [|apply IH; reflexivity].
      apply name_index_bounds in En. exact En.
  Qed.
  Lemma get_headers_valid ts e fb hs : get_headers ts e fb = OK hs -> Forall (hvalid (length ts)) hs.
  Proof.
    unfold get_headers. destruct (tk_to_dfa e) as [a|k]; [|discriminate].
    match goal with |- match ?X with _ => _ end = _ -> _ => destruct X as [ms|k] end; [|discriminate].
    apply mk_headers_valid.
  Qed.
  Lemma headers_of_patterns_valid ts : forall ps hs,
    headers_of_patterns ts ps = OK hs -> Forall (hvalid (length ts)) hs.
  Proof.
    induction ps as [|[e fb] r IH]; intros hs H; cbn [headers_of_patterns] in H.
    - inversion H; subst. constructor.
    - destruct (get_headers ts e fb) as [h1|k] eqn:E1; [|discriminate].
      destruct (headers_of_patterns ts r) as [h2|k]; [|discriminate].
      inversion H; subst. apply Forall_app. split; [eapply get_headers_valid; exact E1 | apply IH; reflexivity].
  Qed.
  Lemma Forall_filter {A} (Q : A -> Prop) f l : Forall Q l -> Forall Q (filter f l).
  Proof.
    intros H. apply Forall_forall. intros x Hx. apply filter_In in Hx.
    rewrite Forall_forall in H. apply H, Hx.
  Qed.
  Theorem extract_headers_valid l ts hs : extract_headers l ts = OK hs -> Forall (hvalid (length ts)) hs.
  Proof.
    unfold extract_headers.
    destruct (headers_of_patterns ts (lang_patterns l)) as [h0|k] eqn:E; [|discriminate].
    apply headers_of_patterns_valid in E.
    destruct l; intros H; inversion H; subst; try exact E; apply Forall_filter, E.
  Qed.

  (* ---------- pairing ---------- *)
  Lemma sort_headers_desc_relabel ts hs :
    Forall (hvalid (length ts)) hs -> sort_headers_desc (map R ts) hs = sort_headers_desc ts hs.
  Proof.
    intros H. unfold sort_headers_desc.
    apply (sort_desc2_congr _ _ _ _ (hvalid (length ts))); [|apply Forall_forall, H].
    intros x y Hx Hy. unfold hvalid in *.
    apply lt2_relabel; try apply tok_line_relabel; try apply tok_col_relabel; lia.
  Qed.
  Lemma build_scopes_from_relabel ts hs blocks :
    Forall (hvalid (length ts)) hs -> build_scopes_from (map R ts) hs blocks = build_scopes_from ts hs blocks.
  Proof. intros H. unfold build_scopes_from. rewrite sort_headers_desc_relabel by exact H. reflexivity. Qed.

  Lemma build_scopes_loop_headers : forall rh blocks s,
    In s (build_scopes_loop rh blocks) -> In (s_header s) rh.
  Proof.
    induction rh as [|h r IH]; intros blocks s H; cbn [build_scopes_loop] in H; [destruct H|].
    destruct (find_scope_blocks_indices (hrange h) blocks) as [|i idx].
    - right. eapply IH, H.
    - destruct H as [<-|H]; [left; reflexivity | right; eapply IH, H].
  Qed.
  Lemma build_scopes_from_valid ts hs blocks :
    Forall (hvalid (length ts)) hs ->
    Forall (fun s => hvalid (length ts) (s_header s)) (build_scopes_from ts hs blocks).
  Proof.
    intros H. apply Forall_forall. intros s Hs. unfold build_scopes_from in Hs.
    apply in_rev, build_scopes_loop_headers in Hs. unfold sort_headers_desc in Hs.
    apply sort_desc2_In in Hs. rewrite Forall_forall in H. apply H, Hs.
  Qed.

  Lemma filter_nocl_scopes_relabel ts scopes nocl_lines :
    Forall (fun s => hvalid (length ts) (s_header s)) scopes ->
    filter_nocl_scopes (map R ts) scopes (map phi nocl_lines) = filter_nocl_scopes ts scopes nocl_lines.
  Proof.
    intros H. unfold filter_nocl_scopes. apply filter_ext_in. intros s Hs.
    rewrite Forall_forall in H. specialize (H s Hs). unfold hvalid in H.
    rewrite tok_line_relabel by lia. rewrite (existsb_eqb_map phi Hmono). reflexivity.
  Qed.

  (* ---------- fold / unfold only rearrange the given scopes ---------- *)
  Section FoldAll.
    Variable P : scope0 -> Prop.
    Inductive tree_ok : stree -> Prop :=
    | tree_ok_node : forall s cs, P s -> Forall tree_ok cs -> tree_ok (Node s cs).

    Fixpoint stree_ind2 (Q : stree -> Prop) (H : forall s cs, Forall Q cs -> Q (Node s cs)) (t : stree) : Q t :=
      match t with
      | Node s cs =>
          H s cs ((fix go (l : list stree) : Forall Q l :=
                     match l with
                     | [] => Forall_nil Q
                     | c :: r => Forall_cons c (stree_ind2 Q H c) (go r)
                     end) cs)
      end.

    Definition sc_ok (sc : scope0 * list scope0) : Prop := P (fst sc) /\ Forall P (snd sc).
    Definition frames_ok (frames : list frame) : Prop :=
      Forall (fun fr : frame => P (fst fr) /\ Forall tree_ok (snd fr)) frames.

    Lemma unfold_tree_ok t : tree_ok t -> Forall sc_ok (unfold_tree t).
    Proof.
      induction t as [s cs IH] using stree_ind2. intros Hok. inversion Hok as [s' cs' Hs Hcs]; subst.
      cbn [unfold_tree]. constructor.
      - split; [exact Hs|]. cbn [snd]. apply Forall_forall. intros x Hx.
        apply in_map_iff in Hx. destruct Hx as [c [<- Hc]].
        rewrite Forall_forall in Hcs. specialize (Hcs c Hc). inversion Hcs; subst. assumption.
      - clear Hok Hs. induction cs as [|c r IHr]; [constructor|].
        inversion IH; subst. inversion Hcs; subst.
        apply Forall_app. split; [auto | apply IHr; assumption].
    Qed.
    Lemma unfold_scopes_ok ts : Forall tree_ok ts -> Forall sc_ok (unfold_scopes ts).
    Proof.
      unfold unfold_scopes. induction 1 as [|t r Ht _ IH]; cbn [flat_map]; [constructor|].
      apply Forall_app. split; [apply unfold_tree_ok, Ht | exact IH].
    Qed.

    Lemma pop_until_ok sc : forall frames extra roots frames' roots',
      frames_ok frames -> Forall tree_ok extra -> Forall tree_ok roots ->
      pop_until frames extra sc roots = (frames', roots') ->
      frames_ok frames' /\ Forall tree_ok roots'.
    Proof.
      induction frames as [|[s cs] rest IH]; intros extra roots frames' roots' Hf He Hr H; cbn [pop_until] in H.
      - inversion H; subst. split; [constructor|]. apply Forall_app. split; assumption.
      - inversion Hf as [|? ? [Hs Hcs] Hrest]; subst. cbn [fst snd] in Hs, Hcs.
        assert (Hcs' : Forall tree_ok (rev extra ++ cs)).
        { apply Forall_app. split; [apply Forall_rev, He | exact Hcs]. }
        destruct (s_contains s sc).
        + inversion H; subst. split; [|exact Hr]. constructor; [split; assumption | exact Hrest].
        + eapply IH; [exact Hrest| |exact Hr|exact H].
          constructor; [|constructor]. constructor; [exact Hs | apply Forall_rev, Hcs'].
    Qed.
    Lemma flush_ok : forall frames extra roots,
      frames_ok frames -> Forall tree_ok extra -> Forall tree_ok roots -> Forall tree_ok (flush frames extra roots).
    Proof.
      induction frames as [|[s cs] rest IH]; intros extra roots Hf He Hr; cbn [flush].
      - apply Forall_app. split; assumption.
      - inversion Hf as [|? ? [Hs Hcs] Hrest]; subst. cbn [fst snd] in Hs, Hcs.
        apply IH; [exact Hrest| |exact Hr].
        constructor; [|constructor]. constructor; [exact Hs|].
        apply Forall_rev, Forall_app. split; [apply Forall_rev, He | exact Hcs].
    Qed.
    Lemma fold_loop_ok : forall scopes frames roots,
      Forall P scopes -> frames_ok frames -> Forall tree_ok roots -> Forall tree_ok (fold_loop scopes frames roots).
    Proof.
      induction scopes as [|sc r IH]; intros frames roots Hs Hf Hr; cbn [fold_loop].
      - apply flush_ok; [exact Hf|constructor|exact Hr].
      - inversion Hs; subst.
        destruct (pop_until frames [] sc roots) as [frames' roots'] eqn:E.
        apply pop_until_ok in E; [|exact Hf|constructor|exact Hr]. destruct E as [Hf' Hr'].
        apply IH; [assumption| |exact Hr']. constructor; [|exact Hf']. split; [assumption|constructor].
    Qed.
    Theorem unfold_fold_ok scopes : Forall P scopes -> Forall sc_ok (unfold_scopes (fold_scopes scopes)).
    Proof.
      intros H. apply unfold_scopes_ok. unfold fold_scopes. apply fold_loop_ok; [exact H|constructor|constructor].
    Qed.
  End FoldAll.

  (* ---------- measuring ---------- *)
  Lemma after_last_newline_fst : forall v nl cur, fst (after_last_newline v nl cur) = nl + newlines_in v.
  Proof.
    induction v as [|c r IH]; intros nl cur; cbn [after_last_newline newlines_in fst]; [lia|].
    destruct (c =? 10); rewrite IH; lia.
  Qed.
  Lemma newlines_in_nonneg v : 0 <= newlines_in v.
  Proof. induction v as [|c r IH]; cbn [newlines_in]; [lia|]. destruct (c =? 10); lia. Qed.
  Lemma newlines_in_none v : ~ In 10 v -> newlines_in v = 0.
  Proof.
    induction v as [|c r IH]; intros H; cbn [newlines_in]; [reflexivity|].
    destruct (Z.eqb_spec c 10) as [->|_]; [exfalso; apply H; left; reflexivity|].
    rewrite IH; [reflexivity|]. intros Hr. apply H. right. exact Hr.
  Qed.

  Definition line_ok (t : token) : Prop :=
    phi (t_line t + newlines_in (t_value t)) = phi (t_line t) + newlines_in (t_value t).

  Lemma end_location_relabel t : line_ok t -> end_location (R t) = shift_loc phi (end_location t).
  Proof.
    unfold line_ok, end_location. intros H. change (t_value (R t)) with (t_value t).
    pose proof (after_last_newline_fst (t_value t) 0 0) as Hn.
    destruct (after_last_newline (t_value t) 0 0) as [nl cur]. cbn [fst] in Hn.
    destruct (nl =? 0); unfold shift_loc; cbn [loc_line loc_column relabel t_line t_col]; [reflexivity|].
    replace nl with (newlines_in (t_value t)) by lia. rewrite H. reflexivity.
  Qed.

  Lemma scope_token_indices_In : forall idxs rs i, In i (scope_token_indices idxs rs) -> In i idxs.
  Proof.
    induction idxs as [|j r IH]; intros rs i H; cbn [scope_token_indices] in H; [destruct H|].
    destruct (drop_passed j rs) as [|c rs'] eqn:E.
    - destruct H as [<-|H]; [left; reflexivity | right; eapply IH, H].
    - destruct (Nat.ltb j (fst c)).
      + destruct H as [<-|H]; [left; reflexivity | right; eapply IH, H].
      + right. eapply IH, H.
  Qed.

  Definition children_ok (n : nat) (sc : scope0 * list scope0) : Prop :=
    Forall (fun c => hvalid n (s_header c)) (snd sc).

  Lemma own_token_indices_relabel ts s children :
    Forall (fun c => hvalid (length ts) (s_header c)) children ->
    own_token_indices (map R ts) s children = own_token_indices ts s children.
  Proof.
    intros H. unfold own_token_indices. rewrite sort_ranges_relabel; [reflexivity|].
    intros r Hr. apply in_map_iff in Hr. destruct Hr as [c [<- Hc]].
    rewrite Forall_forall in H. specialize (H c Hc). unfold hvalid in H. cbn [child_range fst]. lia.
  Qed.
  Lemma count_lines_relabel ts s children :
    (snd (s_block s) <= length ts)%nat ->
    Forall (fun c => hvalid (length ts) (s_header c)) children ->
    count_lines (map R ts) s children = count_lines ts s children.
  Proof.
    intros He Hc. unfold count_lines. rewrite own_token_indices_relabel by exact Hc.
    rewrite (map_ext_in (tok_line (map R ts)) (fun i => phi (tok_line ts i))).
    - rewrite <- (map_map (tok_line ts) phi), (dedupZ_map phi Hmono), map_length. reflexivity.
    - intros i Hi. apply tok_line_relabel. unfold own_token_indices in Hi.
      apply scope_token_indices_In, in_seq in Hi. lia.
  Qed.

  Definition shift_res (r : res (list Measurement)) : res (list Measurement) :=
    match r with OK ms => OK (map (shift_meas phi) ms) | Err k => Err k end.

  Lemma measure_relabel ts sc :
    (forall t, In t ts -> line_ok t) -> children_ok (length ts) sc ->
    measure (map R ts) sc = match measure ts sc with OK m => OK (shift_meas phi m) | Err k => Err k end.
  Proof.
    intros Hl Hc. destruct sc as [s children]. unfold children_ok in Hc. cbn [snd] in Hc.
    unfold measure. rewrite !nth_error_map'.
    destruct (nth_error ts (h_name (s_header s))) as [nm|]; cbn [option_map]; [|reflexivity].
    destruct (nth_error ts (h_start (s_header s))) as [st|]; cbn [option_map]; [|reflexivity].
    destruct (snd (s_block s)) as [|e'] eqn:Ee; [reflexivity|].
    rewrite nth_error_map'.
    destruct (nth_error ts e') as [lt|] eqn:El; cbn [option_map]; [|reflexivity].
    assert (Hlen : (e' < length ts)%nat) by (apply nth_error_Some; congruence).
    rewrite count_lines_relabel by (try rewrite Ee; try exact Hc; lia).
    rewrite end_location_relabel by (apply Hl; eapply nth_error_In; exact El).
    reflexivity.
  Qed.
  Lemma measure_all_relabel ts : (forall t, In t ts -> line_ok t) ->
    forall scs, Forall (children_ok (length ts)) scs ->
    measure_all (map R ts) scs = shift_res (measure_all ts scs).
  Proof.
    intros Hl. induction scs as [|sc r IH]; intros H; cbn [measure_all]; [reflexivity|].
    inversion H; subst. rewrite measure_relabel by assumption.
    destruct (measure ts sc) as [m|k]; [|reflexivity].
    rewrite IH by assumption. destruct (measure_all ts r) as [ms|k]; reflexivity.
  Qed.

  (* ---------- the whole pipeline ---------- *)
  (* only the end of the last code token of a function matters for the side condition *)
  Theorem scan_file_relabel_weak : forall l toks,
    (forall t, In t (filter_tokens false toks) -> line_ok t) ->
    scan_file l (map R toks) = shift_res (scan_file l toks).
  Proof.
    intros l toks Hl'. unfold scan_file, build_scopes.
    rewrite filter_tokens_relabel, nocl_lines_relabel, extract_headers_relabel.
    set (code := filter_tokens false toks) in *.
    destruct (extract_headers l code) as [hs|k] eqn:Eh; [|reflexivity].
    apply extract_headers_valid in Eh.
    rewrite extract_blocks_relabel.
    destruct (extract_blocks l code hs) as [blocks|k]; [|reflexivity].
    rewrite build_scopes_from_relabel by exact Eh.
    pose proof (build_scopes_from_valid code hs blocks Eh) as Hv.
    rewrite filter_nocl_scopes_relabel by exact Hv.
    set (nl := map t_line (filter_nocl_comment_tokens toks)).
    assert (Hv' : Forall (fun s => hvalid (length code) (s_header s))
                         (filter_nocl_scopes code (build_scopes_from code hs blocks) nl)).
    { unfold filter_nocl_scopes. apply Forall_filter, Hv. }
    destruct (lang_nested l).
    - apply measure_all_relabel; [exact Hl'|].
      eapply Forall_impl; [|apply (unfold_fold_ok _ _ Hv')]. intros sc [_ H]. exact H.
    - apply measure_all_relabel; [exact Hl'|].
      apply Forall_forall. intros sc Hsc. apply in_map_iff in Hsc. destruct Hsc as [s [<- _]].
      constructor.
  Qed.
End Relabel.

(* the statement of the property: no line is inserted inside a multi-line token *)
Theorem scan_file_relabel : forall l phi toks, mono phi ->
  (forall t, In t toks -> forall k, 0 <= k <= newlines_in (t_value t) -> phi (t_line t + k) = phi (t_line t) + k) ->
  scan_file l (map (relabel phi) toks) =
    match scan_file l toks with OK ms => OK (map (shift_meas phi) ms) | Err k => Err k end.
Proof.
  intros l phi toks Hm H. apply scan_file_relabel_weak; [exact Hm|].
  intros t Ht. apply filter_In in Ht. destruct Ht as [Ht _].
  apply H; [exact Ht|]. pose proof (newlines_in_nonneg (t_value t)). lia.
Qed.

Corollary scan_file_relabel_single_line : forall l phi toks, mono phi ->
  (forall t, In t toks -> ~ In 10 (t_value t)) ->
  scan_file l (map (relabel phi) toks) =
    match scan_file l toks with OK ms => OK (map (shift_meas phi) ms) | Err k => Err k end.
Proof.
  intros l phi toks Hm H. apply scan_file_relabel_weak; [exact Hm|].
  intros t Ht. apply filter_In in Ht. destruct Ht as [Ht _].
  unfold line_ok. rewrite (newlines_in_none _ (H t Ht)), !Z.add_0_r. reflexivity.
Qed.
