(* WfProofsBase.v — generic facts used by the well-formedness proofs (C05):
   strongly sorted lists, the two-key stable sorts, dedupZ, numbered lists. *)
From Verif Require Import Base Token Headers Blocks Pairing Fold.
From Coq Require Import Sorted Permutation.
Open Scope nat_scope.

(* ====================================================================== *)
(* 1. StronglySorted                                                       *)
(* ====================================================================== *)

Lemma SSf_filter {A} (R : A -> A -> Prop) (f : A -> bool) l :
  StronglySorted R l -> StronglySorted R (filter f l).
Proof.
  intros HS; induction HS as [|a l HS IH HF]; cbn [filter]; [constructor|].
  destruct (f a); auto. constructor; auto.
  apply Forall_forall. intros x Hx. apply filter_In in Hx as [Hx _].
  rewrite Forall_forall in HF. auto.
Qed.

Lemma SSf_impl {A} (R R' : A -> A -> Prop) l :
  (forall a b, In a l -> In b l -> R a b -> R' a b) -> StronglySorted R l -> StronglySorted R' l.
Proof.
  intros HI HS; induction HS as [|a l HS IH HF]; constructor.
  - apply IH. intros x y Hx Hy. apply HI; right; assumption.
  - apply Forall_forall. intros x Hx. rewrite Forall_forall in HF.
    apply HI; [left; reflexivity | right; exact Hx | apply HF, Hx].
Qed.

Lemma SSf_and {A} (R1 R2 : A -> A -> Prop) l :
  StronglySorted R1 l -> StronglySorted R2 l -> StronglySorted (fun a b => R1 a b /\ R2 a b) l.
Proof.
  intros H1; induction H1 as [|a l H1 IH HF]; intros H2; constructor.
  - inversion H2; subst. apply IH. assumption.
  - inversion H2 as [|? ? _ HF2]; subst. rewrite Forall_forall in *. intros x Hx. split; auto.
Qed.

Lemma SSf_map {A B} (R : B -> B -> Prop) (f : A -> B) l :
  StronglySorted (fun a b => R (f a) (f b)) l <-> StronglySorted R (map f l).
Proof.
  split.
  - intros HS; induction HS as [|a l HS IH HF]; cbn [map]; constructor; auto.
    apply Forall_forall. intros y Hy. apply in_map_iff in Hy as [x [<- Hx]].
    rewrite Forall_forall in HF. auto.
  - induction l as [|a l IH]; cbn [map]; intros HS; [constructor|].
    inversion HS as [|? ? HS' HF]; subst. constructor; [apply IH, HS'|].
    apply Forall_forall. intros x Hx. rewrite Forall_forall in HF. apply HF.
    apply in_map. exact Hx.
Qed.

Lemma SSf_app {A} (R : A -> A -> Prop) l1 l2 :
  StronglySorted R (l1 ++ l2) <->
  StronglySorted R l1 /\ StronglySorted R l2 /\ (forall a b, In a l1 -> In b l2 -> R a b).
Proof.
  induction l1 as [|x l1 IH]; cbn [app].
  - split; [intros H; repeat split; [constructor | exact H | intros a b []] | tauto].
  - split.
    + intros H. inversion H as [|? ? HS HF]; subst. apply IH in HS. destruct HS as (H1 & H2 & H3).
      rewrite Forall_forall in HF. repeat split.
      * constructor; [exact H1|]. apply Forall_forall. intros y Hy. apply HF. apply in_or_app. auto.
      * exact H2.
      * intros a b [<-|Ha] Hb; [apply HF; apply in_or_app; auto | auto].
    + intros (H1 & H2 & H3). inversion H1 as [|? ? HS HF]; subst. constructor.
      * apply IH. repeat split; auto. intros a b Ha Hb. apply H3; [right; exact Ha | exact Hb].
      * rewrite Forall_forall in *. intros y Hy. apply in_app_or in Hy. destruct Hy as [Hy|Hy]; auto.
        apply H3; [left; reflexivity | exact Hy].
Qed.

Lemma SSf_rev {A} (R : A -> A -> Prop) l :
  StronglySorted R l -> StronglySorted (fun a b => R b a) (rev l).
Proof.
  intros HS; induction HS as [|a l HS IH HF]; cbn [rev]; [constructor|].
  apply SSf_app. split; [exact IH|]. split; [repeat constructor|].
  intros x y Hx [<-|[]]. apply in_rev in Hx. rewrite Forall_forall in HF. auto.
Qed.

Lemma SSf_nth {A} (R : A -> A -> Prop) l :
  StronglySorted R l ->
  forall i j a b, i < j -> nth_error l i = Some a -> nth_error l j = Some b -> R a b.
Proof.
  intros HS; induction HS as [|x l HS IH HF]; intros i j a b Hij Ha Hb.
  - destruct i; discriminate.
  - destruct j as [|j]; [lia|]. cbn in Hb. destruct i as [|i].
    + cbn in Ha. inversion Ha; subst. rewrite Forall_forall in HF.
      apply HF. eapply nth_error_In; eauto.
    + cbn in Ha. apply (IH i j); auto. lia.
Qed.

Lemma SSf_split {A} (R : A -> A -> Prop) l1 a l2 :
  StronglySorted R (l1 ++ a :: l2) -> Forall (fun x => R x a) l1 /\ Forall (R a) l2.
Proof.
  intros H. apply SSf_app in H. destruct H as (_ & H2 & H3). split.
  - apply Forall_forall. intros x Hx. apply H3; [exact Hx | left; reflexivity].
  - inversion H2; subst. assumption.
Qed.

Lemma NoDup_map_SS {A B} (f : A -> B) l :
  NoDup (map f l) -> StronglySorted (fun a b => f a <> f b) l.
Proof.
  induction l as [|a l IH]; cbn [map]; intros H; [constructor|].
  inversion H as [|? ? Hn Hd]; subst. constructor; [apply IH, Hd|].
  apply Forall_forall. intros x Hx E. apply Hn. rewrite E. apply in_map. exact Hx.
Qed.

Lemma SS_lt_NoDup l : StronglySorted lt l -> NoDup l.
Proof.
  induction 1 as [|a l HS IH HF]; constructor; [|exact IH].
  intros Hin. rewrite Forall_forall in HF. specialize (HF a Hin). lia.
Qed.

(* ====================================================================== *)
(* 2. the two-key stable sorts produce sorted permutations                 *)
(* ====================================================================== *)

Section Sort2.
  Context {A : Type} (k1 k2 : A -> Z).
  Notation lt2 := (lt2 k1 k2).

  Lemma lt2_true x y : lt2 x y = true <-> (k1 x < k1 y \/ (k1 x = k1 y /\ k2 x < k2 y))%Z.
  Proof.
    unfold Base.lt2. rewrite orb_true_iff, andb_true_iff, !Z.ltb_lt, Z.eqb_eq. tauto.
  Qed.
  Lemma lt2_false x y : lt2 x y = false <-> (k1 y < k1 x \/ (k1 y = k1 x /\ k2 y <= k2 x))%Z.
  Proof.
    unfold Base.lt2. rewrite orb_false_iff, andb_false_iff, !Z.ltb_ge, Z.eqb_neq. lia.
  Qed.

  (* a is not after b *)
  Definition le2 (a b : A) : Prop := lt2 b a = false.

  Lemma insert_asc2_perm x l : Permutation (insert_asc2 k1 k2 x l) (x :: l).
  Proof.
    induction l as [|y t IH]; cbn [insert_asc2]; [reflexivity|].
    destruct (lt2 x y); [reflexivity|]. rewrite IH. apply perm_swap.
  Qed.
  Lemma insert_desc2_perm x l : Permutation (insert_desc2 k1 k2 x l) (x :: l).
  Proof.
    induction l as [|y t IH]; cbn [insert_desc2]; [reflexivity|].
    destruct (lt2 y x); [reflexivity|]. rewrite IH. apply perm_swap.
  Qed.
  Lemma sort_asc2_perm l : Permutation (sort_asc2 k1 k2 l) l.
  Proof.
    unfold sort_asc2.
    assert (H : forall acc, Permutation (fold_left (fun acc x => insert_asc2 k1 k2 x acc) l acc) (acc ++ l)).
    { induction l as [|x l IH]; intros acc; cbn [fold_left].
      - rewrite app_nil_r. reflexivity.
      - rewrite IH, insert_asc2_perm. change (x :: acc) with ([x] ++ acc).
        rewrite (Permutation_app_comm [x] acc), <- app_assoc. reflexivity. }
    rewrite H. reflexivity.
  Qed.
  Lemma sort_desc2_perm l : Permutation (sort_desc2 k1 k2 l) l.
  Proof.
    unfold sort_desc2.
    assert (H : forall acc, Permutation (fold_left (fun acc x => insert_desc2 k1 k2 x acc) l acc) (acc ++ l)).
    { induction l as [|x l IH]; intros acc; cbn [fold_left].
      - rewrite app_nil_r. reflexivity.
      - rewrite IH, insert_desc2_perm. change (x :: acc) with ([x] ++ acc).
        rewrite (Permutation_app_comm [x] acc), <- app_assoc. reflexivity. }
    rewrite H. reflexivity.
  Qed.

  Lemma insert_asc2_sorted x l :
    StronglySorted le2 l -> StronglySorted le2 (insert_asc2 k1 k2 x l).
  Proof.
    induction l as [|y t IH]; intros Hs; cbn [insert_asc2].
    - constructor; constructor.
    - inversion Hs as [|? ? Ht Hy]; subst.
      destruct (lt2 x y) eqn:E.
      + constructor; [exact Hs|]. rewrite Forall_forall in Hy.
        apply Forall_forall. intros z [<-|Hz]; unfold le2.
        * apply lt2_true in E. apply lt2_false. lia.
        * specialize (Hy z Hz). unfold le2 in Hy. apply lt2_true in E.
          apply lt2_false in Hy. apply lt2_false. lia.
      + constructor; [apply IH; exact Ht|].
        eapply Permutation_Forall; [symmetry; apply insert_asc2_perm|].
        constructor; [exact E | exact Hy].
  Qed.
  Theorem sort_asc2_sorted l : StronglySorted le2 (sort_asc2 k1 k2 l).
  Proof.
    unfold sort_asc2.
    assert (H : forall acc, StronglySorted le2 acc ->
              StronglySorted le2 (fold_left (fun acc x => insert_asc2 k1 k2 x acc) l acc)).
    { induction l as [|x l IH]; intros acc Hs; cbn [fold_left]; [exact Hs|].
      apply IH, insert_asc2_sorted, Hs. }
    apply H. constructor.
  Qed.

  (* a is not before b *)
  Definition ge2 (a b : A) : Prop := lt2 a b = false.

  Lemma insert_desc2_sorted x l :
    StronglySorted ge2 l -> StronglySorted ge2 (insert_desc2 k1 k2 x l).
  Proof.
    induction l as [|y t IH]; intros Hs; cbn [insert_desc2].
    - constructor; constructor.
    - inversion Hs as [|? ? Ht Hy]; subst.
      destruct (lt2 y x) eqn:E.
      + constructor; [exact Hs|]. rewrite Forall_forall in Hy.
        apply Forall_forall. intros z [<-|Hz]; unfold ge2.
        * apply lt2_true in E. apply lt2_false. lia.
        * specialize (Hy z Hz). unfold ge2 in Hy. apply lt2_true in E.
          apply lt2_false in Hy. apply lt2_false. lia.
      + constructor; [apply IH; exact Ht|].
        eapply Permutation_Forall; [symmetry; apply insert_desc2_perm|].
        constructor; [exact E | exact Hy].
  Qed.
  Theorem sort_desc2_sorted l : StronglySorted ge2 (sort_desc2 k1 k2 l).
  Proof.
    unfold sort_desc2.
    assert (H : forall acc, StronglySorted ge2 acc ->
              StronglySorted ge2 (fold_left (fun acc x => insert_desc2 k1 k2 x acc) l acc)).
    { induction l as [|x l IH]; intros acc Hs; cbn [fold_left]; [exact Hs|].
      apply IH, insert_desc2_sorted, Hs. }
    apply H. constructor.
  Qed.
End Sort2.

(* ====================================================================== *)
(* 3. dedupZ                                                               *)
(* ====================================================================== *)

Lemma existsb_Zeqb_In x l : existsb (Z.eqb x) l = true <-> In x l.
Proof.
  rewrite existsb_exists. split.
  - intros (y & Hy & E). apply Z.eqb_eq in E. subst. exact Hy.
  - intros H. exists x. split; [exact H | apply Z.eqb_refl].
Qed.

Lemma dedupZ_In x l : In x (dedupZ l) <-> In x l.
Proof.
  induction l as [|y l IH]; cbn [dedupZ]; [tauto|].
  destruct (existsb (Z.eqb y) l) eqn:E.
  - rewrite IH. apply existsb_Zeqb_In in E. cbn [In]. split; [tauto|]. intros [<-|H]; assumption.
  - cbn [In]. rewrite IH. tauto.
Qed.

Lemma dedupZ_NoDup l : NoDup (dedupZ l).
Proof.
  induction l as [|y l IH]; cbn [dedupZ]; [constructor|].
  destruct (existsb (Z.eqb y) l) eqn:E; [exact IH|].
  constructor; [|exact IH]. rewrite dedupZ_In. intros H. apply existsb_Zeqb_In in H. congruence.
Qed.

Lemma dedupZ_incl_length l1 l2 : incl l1 l2 -> length (dedupZ l1) <= length (dedupZ l2).
Proof.
  intros H. apply NoDup_incl_length; [apply dedupZ_NoDup|].
  intros x Hx. apply dedupZ_In. apply H. apply dedupZ_In. exact Hx.
Qed.

Lemma dedupZ_nonempty l : l <> [] -> 1 <= length (dedupZ l).
Proof.
  destruct l as [|x l]; [congruence|]. intros _.
  assert (H : In x (dedupZ (x :: l))) by (apply dedupZ_In; left; reflexivity).
  destruct (dedupZ (x :: l)); [destruct H | cbn; lia].
Qed.

(* ====================================================================== *)
(* 4. numbered lists, delete_indices                                       *)
(* ====================================================================== *)

Lemma number_from_In' {A} : forall (l : list A) i k x,
  In (k, x) (number_from i l) -> i <= k /\ nth_error l (k - i) = Some x.
Proof.
  induction l as [|y l IH]; intros i k x H; cbn [number_from] in H.
  - destruct H.
  - destruct H as [E|H].
    + inversion E; subst. split; [lia|]. rewrite Nat.sub_diag. reflexivity.
    + apply IH in H. destruct H as [H1 H2]. split; [lia|].
      replace (k - i) with (S (k - S i)) by lia. exact H2.
Qed.

Lemma number_from_sel {A} (l : list A) (d : A) (f : nat * A -> bool) i :
  In i (map fst (filter f (number_from 0 l))) -> In (nth i l d) l /\ f (i, nth i l d) = true.
Proof.
  intros H. apply in_map_iff in H. destruct H as ([k x] & Ek & H). cbn [fst] in Ek. subst k.
  apply filter_In in H. destruct H as [H Hf].
  apply number_from_In' in H. destruct H as [_ H]. rewrite Nat.sub_0_r in H.
  rewrite (nth_error_nth _ _ d H). split; [eapply nth_error_In; exact H | exact Hf].
Qed.

Lemma SS_number_filter {A} (R : A -> A -> Prop) (f : nat * A -> bool) : forall l i,
  StronglySorted R l -> StronglySorted R (map snd (filter f (number_from i l))).
Proof.
  induction l as [|x l IH]; intros i HS; cbn [number_from filter map]; [constructor|].
  inversion HS as [|? ? HS' HF]; subst.
  assert (Hall : Forall (R x) (map snd (filter f (number_from (S i) l)))).
  { apply Forall_forall. intros y Hy. apply in_map_iff in Hy. destruct Hy as ([k z] & <- & Hy).
    apply filter_In in Hy. destruct Hy as [Hy _]. apply number_from_In' in Hy.
    destruct Hy as [_ Hy]. apply nth_error_In in Hy. rewrite Forall_forall in HF. apply HF, Hy. }
  destruct (f (i, x)); cbn [map]; [constructor; [apply IH, HS' | exact Hall] | apply IH, HS'].
Qed.

Lemma delete_indices_SS {A} (R : A -> A -> Prop) (l : list A) idx :
  StronglySorted R l -> StronglySorted R (delete_indices l idx).
Proof. intros H. unfold delete_indices. apply SS_number_filter, H. Qed.

Lemma delete_indices_In' {A} (l : list A) idx x : In x (delete_indices l idx) -> In x l.
Proof.
  intros H. unfold delete_indices in H. apply in_map_iff in H.
  destruct H as ([k y] & E & H). cbn [snd] in E. subst y.
  apply filter_In in H. destruct H as [H _]. apply number_from_In' in H.
  destruct H as [_ H]. eapply nth_error_In, H.
Qed.

(* ====================================================================== *)
(* 5. max_list                                                             *)
(* ====================================================================== *)

Lemma max_list_ge' : forall l x, In x l -> x <= max_list l.
Proof.
  induction l as [|y l IH]; intros x H; [destruct H|].
  unfold max_list in *. cbn [fold_right]. destruct H as [<-|H].
  - apply Nat.le_max_l.
  - etransitivity; [apply IH; exact H | apply Nat.le_max_r].
Qed.

Lemma max_list_In : forall l, l <> [] -> In (max_list l) l.
Proof.
  induction l as [|y l IH]; intros H; [congruence|].
  unfold max_list in *. cbn [fold_right].
  destruct l as [|z l'].
  - cbn [fold_right]. rewrite Nat.max_0_r. left. reflexivity.
  - destruct (Nat.max_spec y (fold_right Nat.max 0 (z :: l'))) as [[_ E]|[_ E]]; rewrite E.
    + right. apply IH. discriminate.
    + left. reflexivity.
Qed.
