(* C12 — check and scan agree on every file.  Statements only; proofs in
   Fs/CheckProofs.v over Fs/CheckCmd.v (check_command with the working directory at
   the codebase root) and Fs/FsScan.v (scan_path): the same walk, the same exclusion
   test, the same analysis oracle (= same lexer, same decoding, same scan_file). *)
From Verif Require Import Base BaseProofs Codebase Exclude GenScan FsScan CheckCmd FsProofsWalk CheckProofs.
From Coq Require Import Permutation Sorted.
Open Scope Z_scope.

Section C12.
  Variable supported : pystr -> option pystr.
  Variable analyze : pystr -> Z -> analysis.

  (* a file that scan analyses, reached as a relative file path or through any directory above it
     (the root included): check lists exactly the functions longer than 30 lines of scan's result *)
  Theorem C12_listing : forall patterns children e arg, wf_tree children ->
    In (e, true) (scan_tree supported analyze patterns None children) ->
    arg = se_path e \/ strict_prefix arg (se_path e) ->
    In (se_path e, risks (se_result e)) (check_arg supported analyze patterns children arg) /\
    (forall rs, In (se_path e, rs) (check_arg supported analyze patterns children arg) -> rs = risks (se_result e)) /\
    NoDup (map fst (check_arg supported analyze patterns children arg)).
  Proof. intros patterns children e arg Hwf Hin. exact (CheckProofs.C12_listing supported analyze patterns children e Hwf Hin arg). Qed.

  Theorem C12_risks : forall a,
    Permutation (risks a) (filter (fun v => v >? 30) (a_meas a)) /\
    StronglySorted (fun x y => x >= y) (risks a) /\
    forall k, filter (fun v => v =? k) (risks a) = filter (fun v => v =? k) (filter (fun v => v >? 30) (a_meas a)).
  Proof. exact risks_spec. Qed.

  (* excluded: skipped however it is reached; hidden: skipped when reached through a directory above *)
  Theorem C12_excluded_skipped : forall patterns children comps, excluded patterns comps = true ->
    forall arg rs, ~ In (comps, rs) (check_arg supported analyze patterns children arg).
  Proof. exact (CheckProofs.C12_excluded_skipped supported analyze). Qed.
  Theorem C12_hidden_skipped_via_dir : forall patterns children arg comps, strict_prefix arg comps ->
    existsb is_hidden (skipn (length arg) comps) = true ->
    forall rs, ~ In (comps, rs) (check_arg supported analyze patterns children arg).
  Proof. exact (CheckProofs.C12_hidden_skipped_via_dir supported analyze). Qed.

  (* every file scan analyses is checked (from the root: literally the same list, same order) *)
  Theorem C12_scanned_is_checked : forall patterns children,
    map (fun eb => (se_path (fst eb), risks (se_result (fst eb)))) (scan_tree supported analyze patterns None children)
    = check_arg supported analyze patterns children [].
  Proof. exact (CheckProofs.C12_scanned_is_checked supported analyze). Qed.
End C12.

Theorem C12_exit : forall l,
  (check_exit l = 1 <-> exists p rs v, In (p, rs) l /\ In v rs /\ v > 60) /\
  (check_exit l = 0 <-> forall p rs v, In (p, rs) l -> In v rs -> v <= 60).
Proof. exact CheckProofs.C12_exit. Qed.

Print Assumptions C12_listing.
Print Assumptions C12_risks.
Print Assumptions C12_excluded_skipped.
Print Assumptions C12_hidden_skipped_via_dir.
Print Assumptions C12_scanned_is_checked.
Print Assumptions C12_exit.
