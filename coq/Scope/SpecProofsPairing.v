(* SpecProofsPairing.v — C01, part 2: pairing the descriptors' headers (in
   descending order) with the brace blocks gives every header exactly the
   block of its body. *)
From Verif Require Import Base Token Lex Headers Blocks Pairing Fold ScanFile Spec.
From Verif Require Import LexProofs TotalProofsBlocks TotalProofsScopes WfProofsBase WfProofsPairing.
From Verif Require Import SpecProofsDyck.
From Coq Require Import Sorted Permutation.
Open Scope nat_scope.

Definition body_of (d : fdesc) : range := (fd_open d, S (fd_close d)).
Definition scope_of (d : fdesc) : scope0 := mkScope0 (header_of d) (body_of d).

(* the shape of one descriptor, as in wf_descs *)
Definition wfd (ts : list token) (d : fdesc) : Prop :=
  (fd_start d <= fd_name d < fd_hend d) /\ (fd_hend d <= fd_open d) /\
  matched ts (fd_open d) (fd_close d) /\ (fd_close d < length ts) /\
  (forall k, (fd_hend d <= k < fd_open d) -> sym_at ts k lbrace = false /\ sym_at ts k rbrace = false).

(* d1 comes before d2 in source order; d2 is nested in d1 or lies after it *)
Definition d_before (d1 d2 : fdesc) : Prop :=
  fd_start d1 < fd_start d2 /\ (nested_in d2 d1 \/ after d2 d1).

Lemma nth_SS {A} (R : A -> A -> Prop) : forall l,
  (forall i j a b, i < j -> nth_error l i = Some a -> nth_error l j = Some b -> R a b) ->
  StronglySorted R l.
Proof.
  induction l as [|x l IH]; intros H; constructor.
  - apply IH. intros i j a b Hij Ha Hb. apply (H (S i) (S j)); auto. lia.
  - apply Forall_forall. intros y Hy. apply In_nth_error in Hy. destruct Hy as [n Hn].
    apply (H 0 (S n)); auto. lia.
Qed.

Lemma wf_descs_inv ts ds : wf_descs ts ds -> Forall (wfd ts) ds /\ StronglySorted d_before ds.
Proof.
  intros [H1 H2]. split; [exact H1|]. apply nth_SS. intros i j a b Hij Ha Hb.
  exact (H2 i j a b Hij Ha Hb).
Qed.

Lemma wfd_order ts d : wfd ts d ->
  fd_start d < fd_hend d /\ fd_hend d <= fd_open d /\ fd_open d < fd_close d /\ fd_close d < length ts.
Proof. intros (A & B & C & D & _). destruct C as [C _]. lia. Qed.

(* ====================================================================== *)
(* 1. the block list                                                       *)
(* ====================================================================== *)

Definition good_blocks (ts : list token) (bl : list range) : Prop :=
  StronglySorted (fun a b => fst a < fst b) bl /\
  (forall b, In b bl -> exists i j, b = (i, S j) /\ matched ts i j).

Lemma balanced_from_snd_sorted : forall ts k st,
  StronglySorted (fun a b : range => snd a < snd b) (balanced_from k ts lbrace rbrace st).
Proof.
  induction ts as [|t r IH]; intros k st; cbn [balanced_from]; [constructor|].
  destruct (is_symbol t lbrace); [apply IH|]. destruct (is_symbol t rbrace); [|apply IH].
  destruct st as [|s st']; [apply IH|]. constructor; [apply IH|].
  apply Forall_forall. intros x Hx. apply balanced_from_bounds in Hx. cbn [snd]. lia.
Qed.

Lemma SS_snd_NoDup (l : list range) : StronglySorted (fun a b => snd a < snd b) l -> NoDup l.
Proof.
  intros H. apply (NoDup_map_inv snd). apply SS_lt_NoDup.
  apply (SSf_map lt snd). exact H.
Qed.

Lemma get_blocks_good_blocks ts : StronglySorted pos_lt ts -> good_blocks ts (get_blocks ts).
Proof.
  intros HS.
  assert (Hin : forall b, In b (get_blocks ts) -> exists i j, b = (i, S j) /\ matched ts i j).
  { intros b Hb. apply get_blocks_In. exact Hb. }
  split; [|exact Hin].
  unfold get_blocks, sort_ranges in *.
  set (k1 := fun r : range => tok_line ts (fst r)) in *.
  set (k2 := fun r : range => tok_col ts (fst r)) in *.
  set (l := balanced_from 0 ts lbrace rbrace []) in *.
  pose proof (sort_asc2_sorted k1 k2 l) as H1.
  assert (H2 : StronglySorted (fun a b : range => a <> b) (sort_asc2 k1 k2 l)).
  { assert (Hnd : NoDup (sort_asc2 k1 k2 l)).
    { eapply Permutation_NoDup; [symmetry; apply sort_asc2_perm|].
      apply SS_snd_NoDup. apply balanced_from_snd_sorted. }
    rewrite <- (map_id (sort_asc2 k1 k2 l)) in Hnd.
    apply (NoDup_map_SS (fun x : range => x)) in Hnd. exact Hnd. }
  eapply SSf_impl; [|exact (SSf_and _ _ _ H1 H2)].
  intros a b Ha Hb [Hle Hne]. cbv beta in *.
  destruct (Hin a Ha) as (i & j & -> & Ma). destruct (Hin b Hb) as (i' & j' & -> & Mb).
  cbn [fst]. destruct (Nat.lt_trichotomy i i') as [H|[H|H]]; [exact H | |].
  - subst i'. rewrite (matched_fun _ _ _ _ Ma Mb) in Hne. congruence.
  - exfalso. unfold le2 in Hle. apply lt2_false in Hle. unfold k1, k2 in Hle. cbn [fst] in Hle.
    apply matched_syms in Ma. pose proof (sorted_pos ts i' i HS H). lia.
Qed.

(* ====================================================================== *)
(* 2. the nearest block                                                    *)
(* ====================================================================== *)

Lemma nb_step_ge h b r res : fst h < snd h -> snd h <= fst b ->
  nearest_block (b :: r) h res = nearest_block r h (Some b).
Proof.
  intros H1 H2. cbn [nearest_block]. unfold r_contains.
  replace (fst b <? fst h) with false by (symmetry; apply Nat.ltb_ge; lia). cbn [andb].
  replace (snd h <=? fst b) with true by (symmetry; apply Nat.leb_le; lia). reflexivity.
Qed.

Lemma nb_ge h b0 rest : fst h < snd h -> snd h <= fst b0 -> forall l res,
  Forall (fun b => snd h <= fst b) l ->
  nearest_block (l ++ b0 :: rest) h res = nearest_block rest h (Some b0).
Proof.
  intros H1 H2. induction l as [|a l IH]; intros res HF; cbn [app].
  - apply nb_step_ge; assumption.
  - inversion HF; subst. rewrite nb_step_ge by assumption. apply IH. assumption.
Qed.

Lemma nb_lt h x : forall l, Forall (fun b => fst b < snd h) l -> nearest_block l h (Some x) = Some x.
Proof.
  induction l as [|a l IH]; intros HF; cbn [nearest_block]; [reflexivity|].
  inversion HF; subst. destruct (r_contains a h); [reflexivity|].
  replace (snd h <=? fst a) with false by (symmetry; apply Nat.leb_gt; assumption).
  destruct (r_lt a h); [reflexivity | apply IH; assumption].
Qed.

Lemma block_not_in_gap ts d b : wfd ts d ->
  (exists i j, b = (i, S j) /\ matched ts i j) -> fd_hend d <= fst b -> fd_open d <= fst b.
Proof.
  intros (_ & _ & _ & _ & Hgap) (i & j & -> & M) H. cbn [fst] in *.
  destruct (Nat.le_gt_cases (fd_open d) i) as [Hc|Hc]; [exact Hc|].
  destruct (Hgap i (conj H Hc)) as [E _]. apply matched_syms in M. destruct M as (_ & _ & M & _).
  congruence.
Qed.

Lemma nearest_body ts bl d : good_blocks ts bl -> wfd ts d -> In (body_of d) bl ->
  get_nearest_block (hrange (header_of d)) bl = Some (body_of d).
Proof.
  intros [HS Hin] Hw Hb. pose proof (wfd_order _ _ Hw) as Ho.
  apply in_split in Hb. destruct Hb as (l1 & l2 & E). subst bl.
  apply SSf_split in HS as HS'. destruct HS' as [F1 F2].
  unfold get_nearest_block. rewrite rev_app_distr. cbn [rev]. rewrite <- app_assoc. cbn [app].
  set (h := hrange (header_of d)).
  assert (Hh1 : fst h = fd_start d) by reflexivity.
  assert (Hh2 : snd h = fd_hend d) by reflexivity.
  rewrite nb_ge.
  - apply nb_lt. apply Forall_rev. apply Forall_forall. intros b Hbl1.
    rewrite Forall_forall in F1. specialize (F1 b Hbl1). cbn [body_of fst] in F1. rewrite Hh2.
    destruct (Nat.lt_ge_cases (fst b) (fd_hend d)) as [Hc|Hc]; [exact Hc|].
    assert (Hbin : In b (l1 ++ body_of d :: l2)) by (apply in_or_app; left; exact Hbl1).
    pose proof (block_not_in_gap ts d b Hw (Hin b Hbin) Hc). lia.
  - lia.
  - rewrite Hh2. cbn [body_of fst]. lia.
  - apply Forall_rev. apply Forall_forall. intros b Hbl2.
    rewrite Forall_forall in F2. specialize (F2 b Hbl2). cbn [body_of fst] in F2. lia.
Qed.

(* ====================================================================== *)
(* 3. the selected blocks                                                  *)
(* ====================================================================== *)

Definition selp (d : fdesc) (b : range) : bool :=
  Nat.leb (fd_hend d) (fst b) && r_overlaps (body_of d) b.

Lemma fsbi_eq ts bl d : good_blocks ts bl -> wfd ts d -> In (body_of d) bl ->
  find_scope_blocks_indices (hrange (header_of d)) bl =
  map fst (filter (fun ib => selp d (snd ib)) (number_from 0 bl)).
Proof.
  intros Hg Hw Hb. unfold find_scope_blocks_indices. rewrite (nearest_body ts bl d Hg Hw Hb).
  pose proof (wfd_order _ _ Hw) as Ho.
  unfold r_contains at 1. cbn [body_of hrange header_of h_start h_end fst snd].
  replace (fd_open d <? fd_start d) with false by (symmetry; apply Nat.ltb_ge; lia).
  cbn [andb]. reflexivity.
Qed.

Lemma selp_body ts d : wfd ts d -> selp d (body_of d) = true.
Proof.
  intros Hw. pose proof (wfd_order _ _ Hw) as Ho. unfold selp, r_overlaps, body_of. cbn [fst snd].
  apply andb_true_iff. split; [apply Nat.leb_le; lia|]. apply orb_true_iff. left.
  apply andb_true_iff. split; apply Nat.leb_le; lia.
Qed.

Lemma selp_inside ts d b : wfd ts d -> (exists i j, b = (i, S j) /\ matched ts i j) ->
  selp d b = true -> fd_open d <= fst b /\ snd b <= S (fd_close d).
Proof.
  intros Hw Hb Hs. pose proof (wfd_order _ _ Hw) as Ho.
  unfold selp in Hs. apply andb_true_iff in Hs. destruct Hs as [H1 H2]. apply Nat.leb_le in H1.
  pose proof (block_not_in_gap ts d b Hw Hb H1) as Hge.
  destruct Hb as (i & j & -> & M). cbn [fst snd] in *. split; [exact Hge|].
  destruct Hw as (_ & _ & Md & _ & _).
  destruct (Nat.eq_dec i (fd_open d)) as [E|E].
  - subst i. rewrite (matched_fun _ _ _ _ M Md). lia.
  - destruct (matched_laminar _ _ _ _ _ Md M) as [C|C]; [lia | | lia].
    exfalso. unfold r_overlaps, body_of in H2. cbn [fst snd] in H2.
    pose proof (matched_syms _ _ _ M) as (Mij & _ & Mi & _).
    apply orb_true_iff in H2. destruct H2 as [H2|H2]; apply andb_true_iff in H2; destruct H2 as [A B];
      apply Nat.leb_le in A, B; lia.
Qed.

Lemma selp_earlier ts d' d : wfd ts d' -> wfd ts d -> d_before d' d -> selp d (body_of d') = false.
Proof.
  intros Hw' Hw [Hlt Hrel]. pose proof (wfd_order _ _ Hw) as Ho. pose proof (wfd_order _ _ Hw') as Ho'.
  unfold selp. apply andb_false_iff. left. apply Nat.leb_gt. cbn [body_of fst].
  unfold nested_in, after in Hrel. lia.
Qed.

(* ---------- selecting and deleting by index ---------- *)
Lemma number_from_nth {A} : forall (l : list A) k i x,
  nth_error l i = Some x -> In (k + i, x) (number_from k l).
Proof.
  induction l as [|y l IH]; intros k i x H; [destruct i; discriminate|].
  cbn [number_from]. destruct i as [|i].
  - cbn in H. inversion H; subst. left. f_equal. lia.
  - right. cbn in H. replace (k + S i) with (S k + i) by lia. apply IH, H.
Qed.

Section Sel.
  Context {A : Type} (f : A -> bool) (bl : list A) (d0 : A).
  Let idx := map fst (filter (fun ib : nat * A => f (snd ib)) (number_from 0 bl)).

  Lemma sel_In x : In x (map (fun i => nth i bl d0) idx) <-> In x bl /\ f x = true.
  Proof.
    split.
    - intros H. apply in_map_iff in H. destruct H as (i & <- & Hi).
      apply (number_from_sel bl d0 (fun ib => f (snd ib)) i) in Hi. exact Hi.
    - intros [Hin Hf]. apply In_nth_error in Hin. destruct Hin as [i Hi].
      apply in_map_iff. exists i. split; [apply nth_error_nth; exact Hi|].
      unfold idx. apply in_map_iff. exists (i, x). split; [reflexivity|].
      apply filter_In. split; [apply (number_from_nth bl 0 i x Hi) | exact Hf].
  Qed.

  Lemma del_In x : In x bl -> f x = false -> In x (delete_indices bl idx).
  Proof.
    intros Hin Hf. apply In_nth_error in Hin. destruct Hin as [i Hi].
    unfold delete_indices. apply in_map_iff. exists (i, x). split; [reflexivity|].
    apply filter_In. split; [apply (number_from_nth bl 0 i x Hi)|].
    cbn [fst]. apply negb_true_iff. destruct (existsb (Nat.eqb i) idx) eqn:E; [|reflexivity].
    exfalso. apply existsb_exists in E. destruct E as (k & Hk & E). apply Nat.eqb_eq in E. subst k.
    apply (number_from_sel bl d0 (fun ib => f (snd ib)) i) in Hk. destruct Hk as [_ Hk].
    cbn [snd] in Hk. rewrite (nth_error_nth _ _ d0 Hi) in Hk. congruence.
  Qed.
End Sel.

Lemma fold_min_spec m : forall l a, m <= a -> (forall x, In x l -> m <= x) -> (In m l \/ a = m) ->
  fold_right Nat.min a l = m.
Proof.
  induction l as [|y l IH]; intros a Ha Hall Hm; cbn [fold_right].
  - destruct Hm as [[]|Hm]. exact Hm.
  - assert (Hy : m <= y) by (apply Hall; left; reflexivity).
    destruct Hm as [[->|Hm]|Hm].
    + assert (m <= fold_right Nat.min a l).
      { clear IH. induction l as [|z l IHl]; cbn [fold_right]; [exact Ha|].
        apply Nat.min_glb; [apply Hall; right; left; reflexivity|].
        apply IHl. intros x [Hx|Hx]; apply Hall; [left | right; right]; assumption. }
      lia.
    + rewrite (IH a Ha); [lia | intros x Hx; apply Hall; right; exact Hx | left; exact Hm].
    + rewrite (IH a Ha); [lia | intros x Hx; apply Hall; right; exact Hx | right; exact Hm].
Qed.

Lemma min_list_spec m l : In m l -> (forall x, In x l -> m <= x) -> min_list l = m.
Proof.
  intros Hin Hall. unfold min_list. destruct l as [|y l]; [destruct Hin|]. cbn [hd].
  apply fold_min_spec; [apply Hall; left; reflexivity | exact Hall | left; exact Hin].
Qed.

Lemma max_list_spec m l : In m l -> (forall x, In x l -> x <= m) -> max_list l = m.
Proof.
  intros Hin Hall. apply Nat.le_antisymm.
  - apply Hall. apply max_list_In. intros ->. destruct Hin.
  - apply max_list_ge'. exact Hin.
Qed.

(* ====================================================================== *)
(* 4. the loop                                                             *)
(* ====================================================================== *)

Lemma loop_spec ts : forall dsr bl,
  Forall (wfd ts) dsr -> StronglySorted (fun a b => d_before b a) dsr ->
  good_blocks ts bl -> (forall d, In d dsr -> In (body_of d) bl) ->
  build_scopes_loop (map header_of dsr) bl = map scope_of dsr.
Proof.
  induction dsr as [|d rest IH]; intros bl Hw HS Hg Hb; cbn [map build_scopes_loop]; [reflexivity|].
  inversion Hw as [|? ? Hwd Hwr]; subst. inversion HS as [|? ? HSr HF]; subst.
  assert (Hbd : In (body_of d) bl) by (apply Hb; left; reflexivity).
  rewrite (fsbi_eq ts bl d Hg Hwd Hbd).
  set (idx := map fst (filter (fun ib : nat * range => selp d (snd ib)) (number_from 0 bl))).
  set (sel := map (fun i => nth i bl (0, 0)) idx).
  assert (Hsel : forall x, In x sel <-> In x bl /\ selp d x = true).
  { intros x. apply (sel_In (selp d) bl (0, 0)). }
  assert (Hbsel : In (body_of d) sel) by (apply Hsel; split; [exact Hbd | eapply selp_body; exact Hwd]).
  assert (Hins : forall x, In x sel -> fd_open d <= fst x /\ snd x <= S (fd_close d)).
  { intros x Hx. apply Hsel in Hx. destruct Hx as [Hx1 Hx2].
    apply (selp_inside ts d x Hwd); [apply Hg; exact Hx1 | exact Hx2]. }
  assert (Hmin : min_list (map fst sel) = fd_open d).
  { apply min_list_spec.
    - change (fd_open d) with (fst (body_of d)). apply in_map. exact Hbsel.
    - intros x Hx. apply in_map_iff in Hx. destruct Hx as (b & <- & Hx). apply Hins, Hx. }
  assert (Hmax : max_list (map snd sel) = S (fd_close d)).
  { apply max_list_spec.
    - change (S (fd_close d)) with (snd (body_of d)). apply in_map. exact Hbsel.
    - intros x Hx. apply in_map_iff in Hx. destruct Hx as (b & <- & Hx). apply Hins, Hx. }
  destruct idx as [|i0 idx'] eqn:Eidx.
  - exfalso. unfold sel in Hbsel. destruct Hbsel.
  - rewrite <- Eidx. fold sel. rewrite Hmin, Hmax. unfold scope_of at 1. unfold body_of at 1.
    f_equal. apply IH; [exact Hwr | exact HSr | |].
    + destruct Hg as [G1 G2]. split.
      * apply delete_indices_SS. exact G1.
      * intros b Hbin. apply G2. eapply delete_indices_In'. exact Hbin.
    + intros d' Hd'. unfold idx. apply (del_In (selp d) bl (0, 0)).
      * apply Hb. right. exact Hd'.
      * rewrite Forall_forall in HF, Hwr. eapply selp_earlier; [apply Hwr, Hd' | exact Hwd | apply HF, Hd'].
Qed.

(* ====================================================================== *)
(* 5. sorting the headers                                                  *)
(* ====================================================================== *)

Lemma SS_perm_eq {A} (R : A -> A -> Prop) : (forall a b, R a b -> R b a -> False) ->
  forall l1 l2, StronglySorted R l1 -> StronglySorted R l2 -> Permutation l1 l2 -> l1 = l2.
Proof.
  intros Hasym. induction l1 as [|a l1 IH]; intros l2 H1 H2 Hp.
  - apply Permutation_nil in Hp. congruence.
  - destruct l2 as [|b l2]; [apply Permutation_sym, Permutation_nil in Hp; discriminate|].
    inversion H1 as [|? ? S1 F1]; subst. inversion H2 as [|? ? S2 F2]; subst.
    rewrite Forall_forall in F1, F2.
    assert (E : a = b).
    { assert (Ha : In a (b :: l2)) by (eapply Permutation_in; [exact Hp | left; reflexivity]).
      assert (Hb : In b (a :: l1)) by (eapply Permutation_in; [symmetry; exact Hp | left; reflexivity]).
      destruct Ha as [Ha|Ha]; [congruence|]. destruct Hb as [Hb|Hb]; [congruence|].
      exfalso. apply (Hasym a b); auto. }
    subst b. f_equal. apply IH; auto. eapply Permutation_cons_inv. exact Hp.
Qed.

Lemma sort_headers_eq ts ds hs :
  StronglySorted pos_lt ts -> Forall (wfd ts) ds -> StronglySorted d_before ds ->
  Permutation hs (map header_of ds) ->
  sort_headers_desc ts hs = map header_of (rev ds).
Proof.
  intros HS Hw Hd Hp.
  apply (SS_perm_eq (fun a b : header => h_start b < h_start a)).
  - intros a b. lia.
  - apply sort_headers_desc_strict; [exact HS | |].
    + apply Forall_forall. intros h Hh. apply (Permutation_in _ Hp) in Hh.
      apply in_map_iff in Hh. destruct Hh as (d & <- & Hdin). rewrite Forall_forall in Hw.
      pose proof (wfd_order _ _ (Hw d Hdin)). cbn [header_of h_start]. lia.
    + eapply Permutation_NoDup; [apply Permutation_map; symmetry; exact Hp|].
      rewrite map_map. cbn [header_of h_start]. apply SS_lt_NoDup.
      apply (SSf_map lt fd_start). eapply SSf_impl; [|exact Hd]. intros a b _ _ [H _]. exact H.
  - rewrite map_rev. apply (SSf_rev (fun a b : header => h_start a < h_start b)).
    apply (SSf_map (fun a b : header => h_start a < h_start b) header_of).
    eapply SSf_impl; [|exact Hd]. intros a b _ _ [H _]. exact H.
  - unfold sort_headers_desc. rewrite sort_desc2_perm, Hp, map_rev. apply Permutation_rev.
Qed.

(* deliverable 2 *)
Theorem pairing_spec ts ds hs :
  StronglySorted pos_lt ts -> wf_descs ts ds -> Permutation hs (map header_of ds) ->
  build_scopes_from ts hs (get_blocks ts) = map scope_of ds.
Proof.
  intros HS Hwf Hp. destruct (wf_descs_inv _ _ Hwf) as [Hw Hd].
  unfold build_scopes_from. rewrite (sort_headers_eq ts ds hs HS Hw Hd Hp).
  rewrite (loop_spec ts (rev ds) (get_blocks ts)).
  - rewrite <- map_rev, rev_involutive. reflexivity.
  - apply Forall_rev. exact Hw.
  - apply (SSf_rev d_before). exact Hd.
  - apply get_blocks_good_blocks. exact HS.
  - intros d Hdin. apply in_rev in Hdin. rewrite Forall_forall in Hw.
    destruct (Hw d Hdin) as (_ & _ & M & _). apply get_blocks_In. exists (fd_open d), (fd_close d).
    split; [reflexivity | exact M].
Qed.

Print Assumptions pairing_spec.
