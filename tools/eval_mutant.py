"""Apply a seeded change to /repo, confirm it (suite passes, demo fails with / passes without), run the given
checks against it, undo it.  usage: eval_mutant.py <patch.diff> <demo.py> <Cnn> [more checks...]"""
import json
import os
import subprocess
import sys

REPO = "/repo"


def sh(cmd, **kw):
    return subprocess.run(cmd, shell=True, capture_output=True, text=True, **kw)


def main():
    patch, demo, checks = sys.argv[1], sys.argv[2], sys.argv[3:]
    # the demonstrations assert that codelimit is imported from their scratch worktree: point them at /repo
    import re
    text = re.sub(r"/tmp/wt_C\d+", REPO, open(demo).read())
    os.makedirs("/tmp/_demo_dir", exist_ok=True)
    demo = "/tmp/_demo_dir/demo_under_test.py"
    open(demo, "w").write(text)
    assert sh(f"git -C {REPO} status --porcelain").stdout.strip() == "", "/repo not clean"
    env = dict(os.environ, PYTHONPATH=REPO, LC_ALL="C")
    out = {"patch": patch}
    d0 = sh(f"cd {REPO} && /venv/bin/python {demo}", env=env)
    out["demo_without"] = d0.returncode
    sh("rm -rf /tmp/evidence_backup && cp -r /verif/evidence /tmp/evidence_backup")
    a = sh(f"git -C {REPO} apply {patch}")
    if a.returncode != 0:
        print("patch does not apply:", a.stderr)
        sys.exit(2)
    try:
        t = sh(f"cd {REPO} && /venv/bin/python -m pytest -q -p no:cacheprovider 2>&1 | tail -1", env=env)
        out["suite"] = t.stdout.strip()
        d1 = sh(f"cd {REPO} && /venv/bin/python {demo}", env=env)
        out["demo_with"] = d1.returncode
        out["demo_output"] = (d1.stdout + d1.stderr).strip()[-300:]
        out["checks"] = {}
        for c in checks:
            r = sh(f"cd /verif && ./check {c} --tier quick", env=dict(os.environ))
            viol = [l for l in r.stdout.splitlines() if l.startswith("VIOLATION")]
            what = [l.strip() for l in r.stdout.splitlines() if l.strip().startswith("what:")]
            out["checks"][c] = {"exit": r.returncode, "violations": len(viol), "first": (viol[:1] + what[:1])}
    finally:
        sh(f"git -C {REPO} checkout -- .")
        sh(f"git -C {REPO} clean -fdq -- codelimit")
        sh("rm -rf /verif/evidence && mv /tmp/evidence_backup /verif/evidence; rm -f /verif/replays/*.json")
        sh("cd /verif && PYTHONPATH=/repo /venv/bin/python translate/gen.py")
    print(json.dumps(out, indent=1))


if __name__ == "__main__":
    main()
