(* C04 — comments, blank lines and white space never change what is measured.
   Statements only; proofs in Scope/ShiftProofs{Noise,Relabel,}.v. *)
From Verif Require Import Base Token Lex Headers ScanFile ShiftProofsNoise ShiftProofsRelabel ShiftProofs.
Open Scope Z_scope.

(* noise = white-space tokens and comment tokens that are not suppression markers *)
(* 1. inserting or deleting noise tokens anywhere changes nothing *)
Theorem C04_noise_irrelevant : forall l toks toks',
  strip_noise toks' = strip_noise toks -> scan_file l toks' = scan_file l toks.
Proof. exact C04_noise_only. Qed.

Theorem C04_insert_one_comment_or_blank : forall l t toks1 toks2,
  noise t -> scan_file l (toks1 ++ t :: toks2) = scan_file l (toks1 ++ toks2).
Proof. intros l t toks1 toks2 H. exact (scan_file_insert_noise l toks1 t toks2 H). Qed.

(* 2. moving the code tokens to other lines by a strictly monotone line map (with noise inserted or
      removed anywhere) reports the same functions, names, order and lengths; lines are mapped *)
Theorem C04_shift : forall l phi toks toks', mono phi ->
  (forall t, In t (filter_tokens false toks) -> line_ok phi t) ->     (* no line inserted inside a multi-line token *)
  strip_noise toks' = map (relabel phi) (strip_noise toks) ->
  (forall k, scan_file l toks = Err k -> scan_file l toks' = Err k) /\
  (forall ms, scan_file l toks = OK ms ->
     exists ms', scan_file l toks' = OK ms' /\
       ms' = map (shift_meas phi) ms /\
       length ms' = length ms /\
       map m_unit_name ms' = map m_unit_name ms /\
       map m_value ms' = map m_value ms /\
       map (fun m => loc_line (m_start m)) ms' = map (fun m => phi (loc_line (m_start m))) ms /\
       map (fun m => loc_line (m_end m)) ms' = map (fun m => phi (loc_line (m_end m))) ms /\
       map (fun m => loc_column (m_start m)) ms' = map (fun m => loc_column (m_start m)) ms /\
       map (fun m => loc_column (m_end m)) ms' = map (fun m => loc_column (m_end m)) ms).
Proof. exact C04_same_functions. Qed.

(* 3. inserting k blank / comment-only lines before line n shifts exactly the lines at or below n by k *)
Theorem C04_insert_lines : forall l n k toks toks', 0 <= k ->
  (forall t, In t (filter_tokens false toks) -> t_line t + newlines_in (t_value t) < n \/ n <= t_line t) ->
  strip_noise toks' = map (relabel (insert_lines n k)) (strip_noise toks) ->
  scan_file l toks' = shift_res (insert_lines n k) (scan_file l toks).
Proof. exact ShiftProofs.C04_insert_lines. Qed.
Theorem C04_lines_below_and_above : forall n k m,
  (n <= loc_line (m_start m) ->
     loc_line (m_start (shift_meas (insert_lines n k) m)) = loc_line (m_start m) + k /\
     m_value (shift_meas (insert_lines n k) m) = m_value m) /\
  (loc_line (m_start m) < n -> loc_line (m_end m) < n -> shift_meas (insert_lines n k) m = m).
Proof. intros n k m. split; [apply insert_lines_below | apply insert_lines_above]. Qed.

Print Assumptions C04_noise_irrelevant.
Print Assumptions C04_insert_one_comment_or_blank.
Print Assumptions C04_shift.
Print Assumptions C04_insert_lines.
Print Assumptions C04_lines_below_and_above.
