(* GrammarAllProofs.v — C01 for the programs of the canonical grammar of Scope/GrammarAll.v, all six
   brace languages: every generated stream, with the generated descriptors, satisfies wf_descs
   (GrammarAllProofsWf.v) and lexically_canonical_of (C, C++, C#: the C-family shape; Java: with the
   follow-up "throws ... {", GrammarAllProofsJava.v; JavaScript, TypeScript: the function shape and the
   arrow shape, GrammarAllProofsItems.v / GrammarAllProofsTS.v); hence C01 holds with no hypothesis about
   headers or descriptors left.  Scope/GrammarAllProofsCex.v records why the grammar excludes the
   `throws` keyword from conditions and parenthesis texts from return types. *)
From Verif Require Import Base Regex Token TokEngine Lex LexProofs Headers Blocks Pairing Fold ScanFile Spec HeaderSpec
  LexShapes ShapeProofs Grammar GrammarAll.
From Verif Require Import GrammarProofsParen GrammarProofsBrace GrammarProofsHeaders.
From Verif Require Import GrammarAllProofsTok GrammarAllProofsCit GrammarAllProofsWf GrammarAllProofsSel GrammarAllProofsCand GrammarAllProofsCb GrammarAllProofsItems GrammarAllProofsJava GrammarAllProofsTS.
From Verif Require Import SpecCheck SpecCheckAll.
From Coq Require Import Sorted Permutation.
Open Scope nat_scope.

(* C, C++, C#: the C-family shape (C#: with the headers of `new Name (…) {` statements, dropped by the language's rule) *)
Lemma canonical_cfamily_shape l ts ds : is_cfamily l = true -> l <> LJava -> canonical_program_of l ts ds ->
  exists xs, Permutation (lexical_headers ts) (map header_of ds ++ xs) /\ Forall (newhdr 0 ts) xs /\
             ((l = LJava \/ l = LCSharp) \/ xs = []).
Proof.
  intros Hl HnJ H.
  destruct (canonical_two_shapes no_throws_kw any_tokens l cand_plain follow_brace cand_never follow_brace
              (good_oksel _ _ _ _ (good_plain l) (fun w => fsuf_plain follow_brace w fshift_brace frejects_brace))
              (good_oksel _ _ _ _ (good_never l) (fun _ _ => eq_refl))
              (head_split_cfamily l Hl HnJ) (new_split_cfamily l) ts ds (items_of_citems l 0 ts ds H)) as (xs & HP & HX & HL).
  unfold shape_headers at 2 in HP. rewrite select_never, app_nil_r in HP.
  rewrite lexical_headers_shape. exists xs. auto.
Qed.

Lemma canonical_c_shape l ts ds : is_cfamily l = true -> l <> LJava -> l <> LCSharp -> canonical_program_of l ts ds ->
  Permutation (lexical_headers ts) (map header_of ds).
Proof.
  intros Hl H1 H2 H. destruct (canonical_cfamily_shape l ts ds Hl H1 H) as (xs & HP & _ & [[E|E]| ->]); try congruence.
  rewrite app_nil_r in HP. exact HP.
Qed.

Lemma canonical_javascript_shape ts ds : canonical_program_of LJavaScript ts ds ->
  Permutation (lexical_headers_JavaScript ts) (map header_of ds).
Proof.
  intros H. unfold lexical_headers_JavaScript.
  refine (canonical_two_shapes_plain no_throws_kw any_tokens LJavaScript cand_function follow_brace cand_arrow follow_brace
           (good_oksel _ _ _ _ (good_function LJavaScript) (fun w => fsuf_function follow_brace w fshift_brace frejects_brace))
           (good_oksel _ _ _ _ (good_arrow LJavaScript) fsuf_arrow)
           head_split_javascript (new_split_none _ _ _ _ _ _ _) ts ds _ _ (items_of_citems LJavaScript 0 ts ds H)); discriminate.
Qed.

Theorem canonical_of_lexical : forall l ts ds, l <> LPython ->
  canonical_program_of l ts ds -> lexically_canonical_of l ts ds.
Proof.
  intros l ts ds Hl H. unfold lexically_canonical_of.
  destruct l; cbn [lexical_headers_of].
  - apply (canonical_c_shape LC); [reflexivity | discriminate | discriminate | exact H].
  - apply (canonical_c_shape LCpp); [reflexivity | discriminate | discriminate | exact H].
  - destruct (canonical_cfamily_shape LCSharp ts ds eq_refl ltac:(discriminate) H) as (xs & HP & HX & _).
    unfold lexical_headers_CSharp.
    exact (canonical_filtered _ _ LCSharp ts ds _ xs (items_of_citems LCSharp 0 ts ds H) HP HX).
  - apply canonical_java. exact H.
  - apply canonical_javascript_shape. exact H.
  - congruence.
  - apply canonical_typescript. exact H.
Qed.

(* end to end for every brace language: no hypothesis about headers or descriptors is left *)
Theorem C01_brace_grammar : forall (l : language) toks ds, l <> LPython ->
  let code := filter_tokens false toks in
  canonical_program_of l code ds -> StronglySorted pos_lt code -> filter_nocl_comment_tokens toks = [] ->
  scan_file l toks = expected_all code ds ds.
Proof.
  intros l toks ds HnP code Hcan HS Hnocl.
  pose proof (canonical_of_wf l code ds HnP Hcan) as Hwf.
  pose proof (canonical_of_lexical l code ds HnP Hcan) as Hlex.
  destruct (lang_nested l) eqn:En.
  - apply C01_brace_lexical; assumption.
  - apply C01_flat_lexical; try assumption. apply (canonical_of_flat l code ds En Hcan).
Qed.

Print Assumptions canonical_of_wf.
Print Assumptions canonical_of_flat.
Print Assumptions canonical_of_lexical.
Print Assumptions C01_brace_grammar.

(* ---------- non-vacuity ---------- *)
Lemma inner_of_plains_all l : forallb plain l = true -> inner l.
Proof.
  induction l as [|t l IH]; intros H; [constructor|].
  cbn [forallb] in H. apply andb_prop in H as [Ht Hl]. apply inner_plain; [exact Ht | apply IH; exact Hl].
Qed.

Lemma one_group o g c : is_lparen o = true -> forallb plain g = true -> is_rparen c = true -> groups (o :: g ++ [c]).
Proof. intros Ho Hg Hc. apply groups_one. apply group_intro; [exact Ho | apply inner_of_plains_all; exact Hg | exact Hc]. Qed.

Lemma one_bgroup o g c : is_lparen o = true -> forallb plain g = true -> is_rparen c = true -> bgroups (o :: g ++ [c]).
Proof. intros Ho Hg Hc. apply groups_bgroups, one_group; assumption. Qed.

Lemma binner_of_plains ok l : forallb plain l = true -> binner ok l.
Proof. intros H. apply inner_binner, inner_of_plains_all, H. Qed.

Lemma one_stmt x semi : plain x = true -> is_symbol semi semicolon = true -> simple_stmt [x; semi].
Proof.
  intros Hx Hs. exists [x], semi. split; [reflexivity|]. split; [|exact Hs].
  apply inner_of_plains_all. cbn [forallb]. rewrite Hx. reflexivity.
Qed.

Fixpoint type_toks_ok (ty : list token) : bool :=
  match ty with [] => true | t :: r => type_tok t && type_next_ok t r && type_toks_ok r end.
Lemma type_seq_of_toks ty : type_toks_ok ty = true -> type_seq ty.
Proof.
  induction ty as [|t r IH]; intros H; [constructor|].
  cbn [type_toks_ok] in H. apply andb_prop in H as [H H3]. apply andb_prop in H as [H1 H2].
  apply tsq_tok; [exact H1 | exact H2 | apply IH; exact H3].
Qed.

Open Scope Z_scope.
(* TypeScript:  exp function f ( a ) : T < U > { x ; } const g = async ( a ) => { y ; } *)
Definition ts1 : list token :=
  toks [(0,[101;120;112]);(0,s_function);(1,[102]);(2,[40]);(1,[97]);(2,[41]);(3,s_colon);(1,[84]);(3,[60]);(1,[85]);(3,[62]);
        (2,[123]);(1,[120]);(2,[59]);(2,[125]);
        (0,s_const);(1,[103]);(3,s_eq);(0,s_async);(2,[40]);(1,[97]);(2,[41]);(2,s_arrow);(2,[123]);(1,[121]);(2,[59]);(2,[125])].
Definition ds1 : list fdesc := [mkFd 2 1 6 11 14; mkFd 16 15 23 23 26].
(* Java:  p v f ( ) throws A , B { x ; } *)
Definition java1 : list token :=
  toks [(0,[112]);(0,[118]);(1,[102]);(2,[40]);(2,[41]);(0,s_throws);(1,[65]);(2,[44]);(1,[66]);(2,[123]);(1,[120]);(2,[59]);(2,[125])].
Definition java1_ds : list fdesc := [mkFd 2 2 5 9 12].
(* JavaScript:  exp function f ( a ) { x ; } const g = async ( a ) => { y ; } *)
Definition js1 : list token :=
  toks [(0,[101;120;112]);(0,s_function);(1,[102]);(2,[40]);(1,[97]);(2,[41]);(2,[123]);(1,[120]);(2,[59]);(2,[125]);
        (0,s_const);(1,[103]);(3,s_eq);(0,s_async);(2,[40]);(1,[97]);(2,[41]);(2,s_arrow);(2,[123]);(1,[121]);(2,[59]);(2,[125])].
Definition js1_ds : list fdesc := [mkFd 2 1 6 6 9; mkFd 11 10 18 18 21].
Close Scope Z_scope.

Example ts1_canonical : canonical_program_of LTypeScript ts1 ds1.
Proof.
  unfold canonical_program_of, ds1.
  let s := eval vm_compute in ts1 in change ts1 with s.
  (* exp function f ( a ) : T < U > { x ; } *)
  apply (io_func LTypeScript 0 [_] [_; _; _; _; _; _; _; _; _; _] 1 5 _ [_; _] _ _ [] [_]);
    [reflexivity | | reflexivity | reflexivity | | discriminate | ].
  - apply (fh_function_ret LTypeScript _ _ [_; _; _] _ [_; _; _; _]);
      [reflexivity | reflexivity | reflexivity | | reflexivity | apply type_seq_of_toks; reflexivity].
    apply (one_bgroup _ [_] _); reflexivity.
  - apply (io_stmt LTypeScript _ [_; _] [] []); [apply one_stmt; reflexivity | constructor].
  - (* const g = async ( a ) => { y ; } *)
    cbn [length Nat.add].
    apply (io_func LTypeScript 15 [] [_; _; _; _; _; _; _; _] 1 8 _ [_; _] _ [] [] []);
      [reflexivity | | reflexivity | reflexivity | | discriminate | constructor].
    + apply (fh_const_arrow_async LTypeScript _ _ _ _ [_; _; _] _);
        [reflexivity | reflexivity | reflexivity | reflexivity | reflexivity | | reflexivity].
      apply (one_bgroup _ [_] _); reflexivity.
    + apply (io_stmt LTypeScript _ [_; _] [] []); [apply one_stmt; reflexivity | constructor].
Qed.

Example java1_canonical : canonical_program_of LJava java1 java1_ds.
Proof.
  unfold canonical_program_of, java1_ds.
  let s := eval vm_compute in java1 in change java1 with s.
  apply (io_func LJava 0 [_; _] [_; _; _; _; _; _; _] 0 3 _ [_; _] _ [] [] []);
    [reflexivity | | reflexivity | reflexivity | | discriminate | constructor].
  - apply (fh_throws LJava _ [_; _] _ [_; _; _]); [reflexivity | reflexivity | | reflexivity | reflexivity].
    apply (one_group _ [] _); reflexivity.
  - apply (io_stmt LJava _ [_; _] [] []); [apply one_stmt; reflexivity | constructor].
Qed.

Example js1_canonical : canonical_program_of LJavaScript js1 js1_ds.
Proof.
  unfold canonical_program_of, js1_ds.
  let s := eval vm_compute in js1 in change js1 with s.
  apply (io_func LJavaScript 0 [_] [_; _; _; _; _] 1 5 _ [_; _] _ _ [] [_]);
    [reflexivity | | reflexivity | reflexivity | | discriminate | ].
  - apply (fh_function LJavaScript _ _ [_; _; _]); [reflexivity | reflexivity | reflexivity |].
    apply (one_bgroup _ [_] _); reflexivity.
  - apply (io_stmt LJavaScript _ [_; _] [] []); [apply one_stmt; reflexivity | constructor].
  - cbn [length Nat.add].
    apply (io_func LJavaScript 10 [] [_; _; _; _; _; _; _; _] 1 8 _ [_; _] _ [] [] []);
      [reflexivity | | reflexivity | reflexivity | | discriminate | constructor].
    + apply (fh_const_arrow_async LJavaScript _ _ _ _ [_; _; _] _);
        [reflexivity | reflexivity | reflexivity | reflexivity | reflexivity | | reflexivity].
      apply (one_bgroup _ [_] _); reflexivity.
    + apply (io_stmt LJavaScript _ [_; _] [] []); [apply one_stmt; reflexivity | constructor].
Qed.

(* a control statement (rule io_ctrl with its premise no_throws_kw):  f ( ) { if ( x ) { y ; } } *)
Definition java2 : list token :=
  toks [(1,[102]);(2,[40]);(2,[41]);(2,[123]);(0,[105;102]);(2,[40]);(1,[120]);(2,[41]);(2,[123]);(1,[121]);(2,[59]);(2,[125]);(2,[125])]%Z.
Definition java2_ds : list fdesc := [mkFd 0 0 3 3 12].

Example java2_canonical : canonical_program_of LJava java2 java2_ds.
Proof.
  unfold canonical_program_of, java2_ds.
  let s := eval vm_compute in java2 in change java2 with s.
  apply (io_func LJava 0 [] [_; _; _] 0 3 _ [_; _; _; _; _; _; _; _] _ [] [] []);
    [reflexivity | | reflexivity | reflexivity | | discriminate | constructor].
  - apply (fh_plain LJava _ [_; _]); [reflexivity | reflexivity |]. apply (one_group _ [] _); reflexivity.
  - apply (io_ctrl LJava _ _ [] [_; _; _] _ [_; _] _ [] [] []);
      [reflexivity | reflexivity | right; split; [apply (one_group _ [_] _); reflexivity | reflexivity]
       | | reflexivity | reflexivity | | constructor].
    + unfold no_throws_kw. repeat (apply Forall_cons; [reflexivity|]). apply Forall_nil.
    + apply (io_stmt LJava _ [_; _] [] []); [apply one_stmt; reflexivity | constructor].
Qed.

Example java2_hypotheses : wf_descs java2 java2_ds /\ lexically_canonical_of LJava java2 java2_ds.
Proof.
  split; [apply (canonical_of_wf LJava) | apply (canonical_of_lexical LJava)];
    (discriminate || exact java2_canonical).
Qed.

(* declarations with a braced body that are not functions (rule io_ctrl with words):
   public class A extends B { void f ( ) { x ; } } else if ( x ) { y ; } *)
Definition java3 : list token :=
  toks [(0,[112;117;98;108;105;99]);(0,[99;108;97;115;115]);(1,[65]);(0,[101;120;116;101;110;100;115]);(1,[66]);(2,[123]);
        (0,[118;111;105;100]);(1,[102]);(2,[40]);(2,[41]);(2,[123]);(1,[120]);(2,[59]);(2,[125]);(2,[125]);
        (0,[101;108;115;101]);(0,[105;102]);(2,[40]);(1,[120]);(2,[41]);(2,[123]);(1,[121]);(2,[59]);(2,[125])]%Z.
Definition java3_ds : list fdesc := [mkFd 7 7 10 10 13].

Lemma no_throws_of_b ts : forallb (fun t => negb (kw_is t s_throws)) ts = true -> no_throws_kw ts.
Proof.
  intros H. apply Forall_forall. intros t Ht. rewrite forallb_forall in H. apply H in Ht. apply negb_true_iff in Ht. exact Ht.
Qed.

Example java3_items : forall l, is_cfamily l = true -> lang_nested l = true -> canonical_program_of l java3 java3_ds.
Proof.
  intros l Hl Hn. unfold canonical_program_of, java3_ds.
  let s := eval vm_compute in java3 in change java3 with s.
  (* public class A extends B { ... } *)
  apply (io_ctrl l 0 _ [_; _; _; _] [] _ [_; _; _; _; _; _; _; _] _ [_; _; _; _; _; _; _; _; _] [_] []);
    [reflexivity | reflexivity | left; reflexivity | apply no_throws_of_b; reflexivity | reflexivity | reflexivity | | ].
  - (* void f ( ) { x ; } *)
    cbn [length Nat.add].
    apply (io_func l 6 [_] [_; _; _] 0 3 _ [_; _] _ [] [] []);
      [reflexivity | | reflexivity | reflexivity | | intros E; congruence | constructor].
    + apply (fh_plain l _ [_; _]); [exact Hl | reflexivity |]. apply (one_group _ [] _); reflexivity.
    + apply (io_stmt l _ [_; _] [] []); [apply one_stmt; reflexivity | constructor].
  - (* else if ( x ) { y ; } *)
    cbn [length Nat.add].
    apply (io_ctrl l 15 _ [_] [_; _; _] _ [_; _] _ [] [] []);
      [reflexivity | reflexivity | right; split; [apply (one_group _ [_] _); reflexivity | reflexivity]
       | apply no_throws_of_b; reflexivity | reflexivity | reflexivity | | constructor].
    apply (io_stmt l _ [_; _] [] []); [apply one_stmt; reflexivity | constructor].
Qed.

Example java3_canonical : canonical_program_of LJava java3 java3_ds.
Proof. apply java3_items; reflexivity. Qed.

Example java3_hypotheses :
  (wf_descs java3 java3_ds /\ lexically_canonical_of LJava java3 java3_ds) /\
  lexically_canonical_of LCpp java3 java3_ds /\ lexically_canonical_of LCSharp java3 java3_ds.
Proof.
  split; [split; [apply (canonical_of_wf LJava) | apply (canonical_of_lexical LJava)];
          (discriminate || exact java3_canonical)|].
  split; apply canonical_of_lexical; try discriminate; apply java3_items; reflexivity.
Qed.

(* statements with a brace initialiser (rule io_init), at top level and inside a body:
   int a [ ] = { 1 , 2 } ; void f ( ) { int b [ ] = { 3 } ; x ; } *)
Definition c4 : list token :=
  toks [(0,[105;110;116]);(1,[97]);(2,[91]);(2,[93]);(3,[61]);(2,[123]);(7,[49]);(2,[44]);(7,[50]);(2,[125]);(2,[59]);
        (0,[118;111;105;100]);(1,[102]);(2,[40]);(2,[41]);(2,[123]);
        (0,[105;110;116]);(1,[98]);(2,[91]);(2,[93]);(3,[61]);(2,[123]);(7,[51]);(2,[125]);(2,[59]);
        (1,[120]);(2,[59]);(2,[125])]%Z.
Definition c4_ds : list fdesc := [mkFd 12 12 15 15 27].

Example c4_items : forall l, is_cfamily l = true -> canonical_program_of l c4 c4_ds.
Proof.
  intros l Hl. unfold canonical_program_of, c4_ds.
  let s := eval vm_compute in c4 in change c4 with s.
  (* int a [ ] = { 1 , 2 } ; *)
  apply (io_init l 0 [_; _; _; _; _] _ [_; _; _] _ [] _ _ _);
    [reflexivity | reflexivity | apply inner_of_plains_all; reflexivity | reflexivity | constructor | reflexivity | ].
  cbn [length Nat.add].
  (* void f ( ) { ... } *)
  apply (io_func l 11 [_] [_; _; _] 0 3 _ [_; _; _; _; _; _; _; _; _; _; _] _ [] [] []);
    [reflexivity | | reflexivity | reflexivity | | reflexivity | constructor].
  - apply (fh_plain l _ [_; _]); [exact Hl | reflexivity |]. apply (one_group _ [] _); reflexivity.
  - cbn [length Nat.add].
    (* int b [ ] = { 3 } ; *)
    apply (io_init l 16 [_; _; _; _; _] _ [_] _ [] _ _ _);
      [reflexivity | reflexivity | apply inner_of_plains_all; reflexivity | reflexivity | constructor | reflexivity | ].
    cbn [length Nat.add].
    apply (io_stmt l _ [_; _] [] []); [apply one_stmt; reflexivity | constructor].
Qed.

Example c4_hypotheses :
  (wf_descs c4 c4_ds /\ lexically_canonical_of LC c4 c4_ds) /\
  lexically_canonical_of LJava c4 c4_ds /\ (forall c d, In c c4_ds -> In d c4_ds -> ~ nested_in c d).
Proof.
  split; [split; [apply (canonical_of_wf LC) | apply (canonical_of_lexical LC)];
          (discriminate || (apply c4_items; reflexivity))|].
  split; [apply canonical_of_lexical; [discriminate | apply c4_items; reflexivity]|].
  apply (canonical_of_flat LC c4 c4_ds); [reflexivity | apply c4_items; reflexivity].
Qed.

(* TypeScript return types with parenthesis groups (type_seq):
   function f ( a ) : ( x : T ) => void { y ; }   m ( ) : Promise < ( e : E ) => void > { y ; } *)
Definition ts5 : list token :=
  toks [(0,s_function);(1,[102]);(2,[40]);(1,[97]);(2,[41]);(3,s_colon);
        (2,[40]);(1,[120]);(3,s_colon);(1,[84]);(2,[41]);(2,s_arrow);(0,[118;111;105;100]);
        (2,[123]);(1,[121]);(2,[59]);(2,[125]);
        (1,[109]);(2,[40]);(2,[41]);(3,s_colon);
        (1,[80;114;111;109;105;115;101]);(3,[60]);(2,[40]);(1,[101]);(3,s_colon);(1,[69]);(2,[41]);(2,s_arrow);(0,[118;111;105;100]);(3,[62]);
        (2,[123]);(1,[121]);(2,[59]);(2,[125])]%Z.
Definition ts5_ds : list fdesc := [mkFd 1 0 5 13 16; mkFd 17 17 20 31 34].

Example ts5_canonical : canonical_program_of LTypeScript ts5 ts5_ds.
Proof.
  unfold canonical_program_of, ts5_ds.
  let s := eval vm_compute in ts5 in change ts5 with s.
  (* function f ( a ) : ( x : T ) => void { y ; } *)
  apply (io_func LTypeScript 0 [] [_; _; _; _; _; _; _; _; _; _; _; _; _] 1 5 _ [_; _] _ _ [] [_]);
    [reflexivity | | reflexivity | reflexivity | | discriminate | ].
  - apply (fh_function_ret LTypeScript _ _ [_; _; _] _ [_; _; _; _; _; _; _]);
      [reflexivity | reflexivity | reflexivity | apply (one_bgroup _ [_] _); reflexivity | reflexivity | ].
    apply (tsq_group _ [_; _; _] _ [_; _]);
      [reflexivity | apply inner_of_plains_all; reflexivity | reflexivity | apply type_seq_of_toks; reflexivity].
  - apply (io_stmt LTypeScript _ [_; _] [] []); [apply one_stmt; reflexivity | constructor].
  - (* m ( ) : Promise < ( e : E ) => void > { y ; } *)
    cbn [length Nat.add].
    apply (io_func LTypeScript 17 [] [_; _; _; _; _; _; _; _; _; _; _; _; _; _] 0 3 _ [_; _] _ [] [] []);
      [reflexivity | | reflexivity | reflexivity | | discriminate | constructor].
    + apply (fh_method_ret LTypeScript _ [_; _] _ [_; _; _; _; _; _; _; _; _; _]);
        [reflexivity | reflexivity | apply (one_bgroup _ [] _); reflexivity | reflexivity | ].
      apply tsq_tok; [reflexivity | reflexivity |]. apply tsq_tok; [reflexivity | reflexivity |].
      apply (tsq_group _ [_; _; _] _ [_; _; _]);
        [reflexivity | apply inner_of_plains_all; reflexivity | reflexivity | apply type_seq_of_toks; reflexivity].
    + apply (io_stmt LTypeScript _ [_; _] [] []); [apply one_stmt; reflexivity | constructor].
Qed.

Example ts5_hypotheses : wf_descs ts5 ts5_ds /\ lexically_canonical_of LTypeScript ts5 ts5_ds.
Proof.
  split; [apply (canonical_of_wf LTypeScript) | apply (canonical_of_lexical LTypeScript)];
    (discriminate || exact ts5_canonical).
Qed.

(* parameter lists with flat brace groups (bgroups):
   function a ( { x , y } , p = { } ) { z ; }          (JavaScript)
   const f = ( { a , b } : Opts , c ) => { z ; }        (TypeScript) *)
Definition js6 : list token :=
  toks [(0,s_function);(1,[97]);(2,[40]);(2,[123]);(1,[120]);(2,[44]);(1,[121]);(2,[125]);(2,[44]);(1,[112]);(3,s_eq);(2,[123]);(2,[125]);(2,[41]);
        (2,[123]);(1,[122]);(2,[59]);(2,[125])]%Z.
Definition js6_ds : list fdesc := [mkFd 1 0 14 14 17].
Definition ts6 : list token :=
  toks [(0,s_const);(1,[102]);(3,s_eq);(2,[40]);(2,[123]);(1,[97]);(2,[44]);(1,[98]);(2,[125]);(3,s_colon);(1,[79;112;116;115]);(2,[44]);(1,[99]);(2,[41]);(2,s_arrow);
        (2,[123]);(1,[122]);(2,[59]);(2,[125])]%Z.
Definition ts6_ds : list fdesc := [mkFd 1 0 15 15 18].

Example js6_canonical : canonical_program_of LJavaScript js6 js6_ds.
Proof.
  unfold canonical_program_of, js6_ds.
  let s := eval vm_compute in js6 in change js6 with s.
  apply (io_func LJavaScript 0 [] [_; _; _; _; _; _; _; _; _; _; _; _; _; _] 1 14 _ [_; _] _ [] [] []);
    [reflexivity | | reflexivity | reflexivity | | discriminate | constructor].
  - apply (fh_function LJavaScript _ _ [_; _; _; _; _; _; _; _; _; _; _; _]); [reflexivity | reflexivity | reflexivity |].
    apply bgroups_one. apply (bgroup_intro _ [_; _; _; _; _; _; _; _; _; _] _); [reflexivity | | reflexivity].
    (* { x , y } , p = { } *)
    apply (bi_brace _ [_; _; _] _ [_; _; _; _; _]); [reflexivity | reflexivity | reflexivity |].
    apply bi_plain; [reflexivity|]. apply bi_plain; [reflexivity|]. apply bi_plain; [reflexivity|].
    apply (bi_brace _ [] _ []); [reflexivity | reflexivity | reflexivity | apply bi_nil].
  - apply (io_stmt LJavaScript _ [_; _] [] []); [apply one_stmt; reflexivity | constructor].
Qed.

Example ts6_canonical : canonical_program_of LTypeScript ts6 ts6_ds.
Proof.
  unfold canonical_program_of, ts6_ds.
  let s := eval vm_compute in ts6 in change ts6 with s.
  apply (io_func LTypeScript 0 [] [_; _; _; _; _; _; _; _; _; _; _; _; _; _; _] 1 15 _ [_; _] _ [] [] []);
    [reflexivity | | reflexivity | reflexivity | | discriminate | constructor].
  - apply (fh_const_arrow LTypeScript _ _ _ [_; _; _; _; _; _; _; _; _; _; _] _);
      [reflexivity | reflexivity | reflexivity | reflexivity | | reflexivity].
    apply bgroups_one. apply (bgroup_intro _ [_; _; _; _; _; _; _; _; _] _); [reflexivity | | reflexivity].
    (* { a , b } : Opts , c *)
    apply (bi_brace _ [_; _; _] _ [_; _; _; _]); [reflexivity | reflexivity | reflexivity |].
    apply binner_of_plains. reflexivity.
  - apply (io_stmt LTypeScript _ [_; _] [] []); [apply one_stmt; reflexivity | constructor].
Qed.

Example brace_params_hypotheses :
  (wf_descs js6 js6_ds /\ lexically_canonical_of LJavaScript js6 js6_ds) /\
  (wf_descs ts6 ts6_ds /\ lexically_canonical_of LTypeScript ts6 ts6_ds).
Proof.
  split; split.
  - apply (canonical_of_wf LJavaScript); [discriminate | exact js6_canonical].
  - apply (canonical_of_lexical LJavaScript); [discriminate | exact js6_canonical].
  - apply (canonical_of_wf LTypeScript); [discriminate | exact ts6_canonical].
  - apply (canonical_of_lexical LTypeScript); [discriminate | exact ts6_canonical].
Qed.

(* on these streams the scan equals the specification (computed) *)
Example brace_params_scan :
  scan_file LJavaScript js6 = expected_all js6 js6_ds js6_ds /\
  scan_file LTypeScript ts6 = expected_all ts6 ts6_ds ts6_ds.
Proof. vm_compute. split; reflexivity. Qed.

(* callback statements (rule io_cb):
   function outer ( ) { run ( "x" , function ( ) { y ; } ) ; }                            (JavaScript)
   items . forEach ( ( item ) => { y ; function inner ( ) { z ; } } ) ;                    (TypeScript) *)
Definition js7 : list token :=
  toks [(0,s_function);(1,[111;117;116;101;114]);(2,[40]);(2,[41]);(2,[123]);
        (1,[114;117;110]);(2,[40]);(7,[34;120;34]);(2,[44]);(0,s_function);(2,[40]);(2,[41]);(2,[123]);(1,[121]);(2,[59]);(2,[125]);(2,[41]);(2,[59]);
        (2,[125])]%Z.
Definition js7_ds : list fdesc := [mkFd 1 0 4 4 18].
Definition ts7 : list token :=
  toks [(1,[105;116;101;109;115]);(3,[46]);(1,[102;111;114;69;97;99;104]);(2,[40]);(2,[40]);(1,[105;116;101;109]);(2,[41]);(2,s_arrow);(2,[123]);
        (1,[121]);(2,[59]);(0,s_function);(1,[105;110;110;101;114]);(2,[40]);(2,[41]);(2,[123]);(1,[122]);(2,[59]);(2,[125]);
        (2,[125]);(2,[41]);(2,[59])]%Z.
Definition ts7_ds : list fdesc := [mkFd 12 11 15 15 18].

Example js7_canonical : canonical_program_of LJavaScript js7 js7_ds.
Proof.
  unfold canonical_program_of, js7_ds.
  let s := eval vm_compute in js7 in change js7 with s.
  apply (io_func LJavaScript 0 [] [_; _; _; _] 1 4 _ [_; _; _; _; _; _; _; _; _; _; _; _; _] _ [] [] []);
    [reflexivity | | reflexivity | reflexivity | | discriminate | constructor].
  - apply (fh_function LJavaScript _ _ [_; _]); [reflexivity | reflexivity | reflexivity | apply (one_bgroup _ [] _); reflexivity].
  - (* run ( "x" , function ( ) { y ; } ) ; *)
    cbn [length Nat.add].
    apply (io_cb LJavaScript 5 [_; _; _; _] [_; _; _] _ [_; _] _ [_] _ [] [] []);
      [reflexivity | discriminate | apply open_prefix_of_b; reflexivity | right; reflexivity | | reflexivity | reflexivity
       | reflexivity | reflexivity | | constructor].
    + apply (cbt_function _ [_; _]); [reflexivity | apply (one_group _ [] _); reflexivity].
    + apply (io_stmt LJavaScript _ [_; _] [] []); [apply one_stmt; reflexivity | constructor].
Qed.

Example ts7_canonical : canonical_program_of LTypeScript ts7 ts7_ds.
Proof.
  unfold canonical_program_of, ts7_ds.
  let s := eval vm_compute in ts7 in change ts7 with s.
  apply (io_cb LTypeScript 0 [_; _; _; _] [_; _; _; _] _ [_; _; _; _; _; _; _; _; _; _] _ [_] _ [] [_] []);
    [reflexivity | discriminate | apply open_prefix_of_b; reflexivity | left; reflexivity | | reflexivity | reflexivity
     | reflexivity | reflexivity | | constructor].
  - apply (cbt_arrow [_; _; _] _); [apply (one_group _ [_] _); reflexivity | reflexivity].
  - (* y ; function inner ( ) { z ; } *)
    cbn [length Nat.add].
    apply (io_stmt LTypeScript _ [_; _] _ _); [apply one_stmt; reflexivity|].
    cbn [length Nat.add].
    apply (io_func LTypeScript 11 [] [_; _; _; _] 1 4 _ [_; _] _ [] [] []);
      [reflexivity | | reflexivity | reflexivity | | discriminate | constructor].
    + apply (fh_function LTypeScript _ _ [_; _]); [reflexivity | reflexivity | reflexivity | apply (one_bgroup _ [] _); reflexivity].
    + apply (io_stmt LTypeScript _ [_; _] [] []); [apply one_stmt; reflexivity | constructor].
Qed.

Example callback_hypotheses :
  (wf_descs js7 js7_ds /\ lexically_canonical_of LJavaScript js7 js7_ds) /\
  (wf_descs ts7 ts7_ds /\ lexically_canonical_of LTypeScript ts7 ts7_ds).
Proof.
  split; split.
  - apply (canonical_of_wf LJavaScript); [discriminate | exact js7_canonical].
  - apply (canonical_of_lexical LJavaScript); [discriminate | exact js7_canonical].
  - apply (canonical_of_wf LTypeScript); [discriminate | exact ts7_canonical].
  - apply (canonical_of_lexical LTypeScript); [discriminate | exact ts7_canonical].
Qed.

(* on these streams the scan equals the specification (computed) *)
Example callback_scan :
  scan_file LJavaScript js7 = expected_all js7 js7_ds js7_ds /\
  scan_file LTypeScript ts7 = expected_all ts7 ts7_ds ts7_ds.
Proof. vm_compute. split; reflexivity. Qed.

(* `new Name (…) { … } ;` (rule io_new): an anonymous class whose method is reported, an object initialiser
   void m ( ) { Runnable r = new Runnable ( ) { void run ( ) { x ; } } ; }           (Java)
   void m ( ) { var v = new Holder ( ) { A = 1 , B = 2 } ; y ; }                     (C#) *)
Definition java8 : list token :=
  toks [(0,[118;111;105;100]);(1,[109]);(2,[40]);(2,[41]);(2,[123]);
        (1,[82;117;110]);(1,[114]);(3,[61]);(0,kw_new);(1,[82;117;110]);(2,[40]);(2,[41]);(2,[123]);
        (0,[118;111;105;100]);(1,[114;117;110]);(2,[40]);(2,[41]);(2,[123]);(1,[120]);(2,[59]);(2,[125]);
        (2,[125]);(2,[59]);(2,[125])]%Z.
Definition java8_ds : list fdesc := [mkFd 1 1 4 4 23; mkFd 14 14 17 17 20].
Definition cs8 : list token :=
  toks [(0,[118;111;105;100]);(1,[109]);(2,[40]);(2,[41]);(2,[123]);
        (0,[118;97;114]);(1,[118]);(3,[61]);(0,kw_new);(1,[72]);(2,[40]);(2,[41]);(2,[123]);
        (1,[65]);(3,[61]);(7,[49]);(2,[44]);(1,[66]);(3,[61]);(7,[50]);(2,[125]);(2,[59]);
        (1,[121]);(2,[59]);(2,[125])]%Z.
Definition cs8_ds : list fdesc := [mkFd 1 1 4 4 24].

Example java8_canonical : canonical_program_of LJava java8 java8_ds.
Proof.
  unfold canonical_program_of, java8_ds.
  let s := eval vm_compute in java8 in change java8 with s.
  apply (io_func LJava 0 [_] [_; _; _] 0 3 _ [_; _; _; _; _; _; _; _; _; _; _; _; _; _; _; _; _; _] _ [] [_] []);
    [reflexivity | | reflexivity | reflexivity | | discriminate | constructor].
  - apply (fh_plain LJava _ [_; _]); [reflexivity | reflexivity | apply (one_group _ [] _); reflexivity].
  - cbn [length Nat.add].
    apply (io_new LJava 5 [_; _; _] _ _ [_; _] _ [_; _; _; _; _; _; _; _] _ [] _ [] [_] []);
      [left; reflexivity | reflexivity | reflexivity | reflexivity | apply (one_group _ [] _); reflexivity | reflexivity | reflexivity
       | left | constructor | reflexivity | constructor].
    cbn [length Nat.add].
    apply (io_func LJava 13 [_] [_; _; _] 0 3 _ [_; _] _ [] [] []);
      [reflexivity | | reflexivity | reflexivity | | discriminate | constructor].
    + apply (fh_plain LJava _ [_; _]); [reflexivity | reflexivity | apply (one_group _ [] _); reflexivity].
    + apply (io_stmt LJava _ [_; _] [] []); [apply one_stmt; reflexivity | constructor].
Qed.

Example cs8_canonical : canonical_program_of LCSharp cs8 cs8_ds.
Proof.
  unfold canonical_program_of, cs8_ds.
  let s := eval vm_compute in cs8 in change cs8 with s.
  apply (io_func LCSharp 0 [_] [_; _; _] 0 3 _ [_; _; _; _; _; _; _; _; _; _; _; _; _; _; _; _; _; _; _] _ [] [] []);
    [reflexivity | | reflexivity | reflexivity | | discriminate | constructor].
  - apply (fh_plain LCSharp _ [_; _]); [reflexivity | reflexivity | apply (one_group _ [] _); reflexivity].
  - cbn [length Nat.add].
    apply (io_new LCSharp 5 [_; _; _] _ _ [_; _] _ [_; _; _; _; _; _; _] _ [] _ [_; _] [] []);
      [right; reflexivity | reflexivity | reflexivity | reflexivity | apply (one_group _ [] _); reflexivity | reflexivity | reflexivity
       | right; split; reflexivity | constructor | reflexivity | ].
    cbn [length Nat.add].
    apply (io_stmt LCSharp _ [_; _] [] []); [apply one_stmt; reflexivity | constructor].
Qed.

Example new_hypotheses :
  (wf_descs java8 java8_ds /\ lexically_canonical_of LJava java8 java8_ds) /\
  (wf_descs cs8 cs8_ds /\ lexically_canonical_of LCSharp cs8 cs8_ds).
Proof.
  split; split.
  - apply (canonical_of_wf LJava); [discriminate | exact java8_canonical].
  - apply (canonical_of_lexical LJava); [discriminate | exact java8_canonical].
  - apply (canonical_of_wf LCSharp); [discriminate | exact cs8_canonical].
  - apply (canonical_of_lexical LCSharp); [discriminate | exact cs8_canonical].
Qed.

(* the header `Runnable ( )` / `Holder ( )` after `new` is recognised and dropped; the scan equals the specification *)
Example new_scan :
  shape_headers cand_plain follow_throws java8 = [mkHeader 1 1 4; mkHeader 9 9 12; mkHeader 14 14 17] /\
  lexical_headers_of LJava java8 = [mkHeader 1 1 4; mkHeader 14 14 17] /\
  lexical_headers_of LCSharp cs8 = [mkHeader 1 1 4] /\
  scan_file LJava java8 = expected_all java8 java8_ds java8_ds /\
  scan_file LCSharp cs8 = expected_all cs8 cs8_ds cs8_ds.
Proof. vm_compute. repeat split; reflexivity. Qed.

(* `async` as a prefix word, and bare blocks (rule io_block) inside a body and right after a function body:
   async function f ( ) { { y ; } x ; }                 (JavaScript)
   public async Task F ( ) { x ; } { y ; }              (C#) *)
Definition js9 : list token :=
  toks [(0,s_async);(0,s_function);(1,[102]);(2,[40]);(2,[41]);(2,[123]);(2,[123]);(1,[121]);(2,[59]);(2,[125]);(1,[120]);(2,[59]);(2,[125])]%Z.
Definition js9_ds : list fdesc := [mkFd 2 1 5 5 12].
Definition cs9 : list token :=
  toks [(0,[112;117;98]);(0,s_async);(1,[84;97;115;107]);(1,[70]);(2,[40]);(2,[41]);(2,[123]);(1,[120]);(2,[59]);(2,[125]);
        (2,[123]);(1,[121]);(2,[59]);(2,[125])]%Z.
Definition cs9_ds : list fdesc := [mkFd 3 3 6 6 9].

Example js9_canonical : canonical_program_of LJavaScript js9 js9_ds.
Proof.
  unfold canonical_program_of, js9_ds.
  let s := eval vm_compute in js9 in change js9 with s.
  apply (io_func LJavaScript 0 [_] [_; _; _; _] 1 4 _ [_; _; _; _; _; _] _ [] [] []);
    [reflexivity | | reflexivity | reflexivity | | discriminate | constructor].
  - apply (fh_function LJavaScript _ _ [_; _]); [reflexivity | reflexivity | reflexivity | apply (one_bgroup _ [] _); reflexivity].
  - cbn [length Nat.add].
    apply (io_block LJavaScript 6 _ [_; _] _ [_; _] [] []); [reflexivity | reflexivity | | ].
    + apply (io_stmt LJavaScript _ [_; _] [] []); [apply one_stmt; reflexivity | constructor].
    + apply (io_stmt LJavaScript _ [_; _] [] []); [apply one_stmt; reflexivity | constructor].
Qed.

Example cs9_canonical : canonical_program_of LCSharp cs9 cs9_ds.
Proof.
  unfold canonical_program_of, cs9_ds.
  let s := eval vm_compute in cs9 in change cs9 with s.
  apply (io_func LCSharp 0 [_; _; _] [_; _; _] 0 3 _ [_; _] _ [_; _; _; _] [] []);
    [reflexivity | | reflexivity | reflexivity | | discriminate | ].
  - apply (fh_plain LCSharp _ [_; _]); [reflexivity | reflexivity | apply (one_group _ [] _); reflexivity].
  - apply (io_stmt LCSharp _ [_; _] [] []); [apply one_stmt; reflexivity | constructor].
  - cbn [length Nat.add].
    apply (io_block LCSharp 10 _ [_; _] _ [] [] []); [reflexivity | reflexivity | | constructor].
    apply (io_stmt LCSharp _ [_; _] [] []); [apply one_stmt; reflexivity | constructor].
Qed.

Example block_hypotheses :
  (wf_descs js9 js9_ds /\ lexically_canonical_of LJavaScript js9 js9_ds) /\
  (wf_descs cs9 cs9_ds /\ lexically_canonical_of LCSharp cs9 cs9_ds).
Proof.
  split; split.
  - apply (canonical_of_wf LJavaScript); [discriminate | exact js9_canonical].
  - apply (canonical_of_lexical LJavaScript); [discriminate | exact js9_canonical].
  - apply (canonical_of_wf LCSharp); [discriminate | exact cs9_canonical].
  - apply (canonical_of_lexical LCSharp); [discriminate | exact cs9_canonical].
Qed.

Example block_scan :
  scan_file LJavaScript js9 = expected_all js9 js9_ds js9_ds /\
  scan_file LCSharp cs9 = expected_all cs9 cs9_ds cs9_ds.
Proof. vm_compute. split; reflexivity. Qed.

(* an initialiser with a parenthesis group inside its braces, and labels (rule io_label):
   const obj = { a : 1 , b : call ( 2 ) } ; function g ( ) { x ; }          (TypeScript)
   public : void f ( ) { default : x ; }                                     (C++) *)
Definition ts10 : list token :=
  toks [(0,s_const);(1,[111;98;106]);(3,s_eq);(2,[123]);(1,[97]);(3,s_colon);(7,[49]);(2,[44]);(1,[98]);(3,s_colon);(1,[99;97;108;108]);
        (2,[40]);(7,[50]);(2,[41]);(2,[125]);(2,[59]);
        (0,s_function);(1,[103]);(2,[40]);(2,[41]);(2,[123]);(1,[120]);(2,[59]);(2,[125])]%Z.
Definition ts10_ds : list fdesc := [mkFd 17 16 20 20 23].
Definition cpp10 : list token :=
  toks [(0,[112;117;98;108;105;99]);(3,s_colon);(0,[118;111;105;100]);(1,[102]);(2,[40]);(2,[41]);(2,[123]);
        (0,[100;101;102]);(3,s_colon);(1,[120]);(2,[59]);(2,[125])]%Z.
Definition cpp10_ds : list fdesc := [mkFd 3 3 6 6 11].

Example ts10_items : forall l, is_jsts l = true -> canonical_program_of l ts10 ts10_ds.
Proof.
  intros l Hl. unfold canonical_program_of, ts10_ds.
  let s := eval vm_compute in ts10 in change ts10 with s.
  apply (io_init l 0 [_; _; _] _ [_; _; _; _; _; _; _; _; _; _] _ [] _ _ _);
    [reflexivity | reflexivity | | reflexivity | constructor | reflexivity | ].
  - do 7 (apply inner_plain; [reflexivity|]).
    apply (inner_group _ [_] _ []); [reflexivity | apply inner_of_plains_all; reflexivity | reflexivity | constructor].
  - cbn [length Nat.add].
    apply (io_func l 16 [] [_; _; _; _] 1 4 _ [_; _] _ [] [] []);
      [reflexivity | | reflexivity | reflexivity | | intros E; destruct l; discriminate | constructor].
    + apply (fh_function l _ _ [_; _]); [exact Hl | reflexivity | reflexivity | apply (one_bgroup _ [] _); reflexivity].
    + apply (io_stmt l _ [_; _] [] []); [apply one_stmt; reflexivity | constructor].
Qed.

Example cpp10_canonical : canonical_program_of LCpp cpp10 cpp10_ds.
Proof.
  unfold canonical_program_of, cpp10_ds.
  let s := eval vm_compute in cpp10 in change cpp10 with s.
  apply (io_label LCpp 0); [reflexivity | reflexivity |].
  cbn [Nat.add].
  apply (io_func LCpp 2 [_] [_; _; _] 0 3 _ [_; _; _; _] _ [] [] []);
    [reflexivity | | reflexivity | reflexivity | | discriminate | constructor].
  - apply (fh_plain LCpp _ [_; _]); [reflexivity | reflexivity | apply (one_group _ [] _); reflexivity].
  - cbn [length Nat.add].
    apply (io_label LCpp 7); [reflexivity | reflexivity |].
    apply (io_stmt LCpp _ [_; _] [] []); [apply one_stmt; reflexivity | constructor].
Qed.

Example init_label_hypotheses :
  (wf_descs ts10 ts10_ds /\ lexically_canonical_of LTypeScript ts10 ts10_ds /\ lexically_canonical_of LJavaScript ts10 ts10_ds) /\
  (wf_descs cpp10 cpp10_ds /\ lexically_canonical_of LCpp cpp10 cpp10_ds).
Proof.
  split; [split; [|split]|split].
  - apply (canonical_of_wf LTypeScript); [discriminate | apply ts10_items; reflexivity].
  - apply (canonical_of_lexical LTypeScript); [discriminate | apply ts10_items; reflexivity].
  - apply (canonical_of_lexical LJavaScript); [discriminate | apply ts10_items; reflexivity].
  - apply (canonical_of_wf LCpp); [discriminate | exact cpp10_canonical].
  - apply (canonical_of_lexical LCpp); [discriminate | exact cpp10_canonical].
Qed.

Example init_label_scan :
  scan_file LTypeScript ts10 = expected_all ts10 ts10_ds ts10_ds /\
  scan_file LCpp cpp10 = expected_all cpp10 cpp10_ds cpp10_ds.
Proof. vm_compute. split; reflexivity. Qed.

(* brace groups in a parameter list after a ")" at the same depth, allowed by the state machine of binner:
   function f ( p0 = ( ) => 0 , { a , b } , p1 = mk ( 2 ) , { c } : Opts ) { z ; }          (TypeScript) *)
Definition ts11 : list token :=
  toks [(0,s_function);(1,[102]);(2,[40]);(1,[112;48]);(3,s_eq);(2,[40]);(2,[41]);(2,s_arrow);(7,[48]);(2,[44]);
        (2,[123]);(1,[97]);(2,[44]);(1,[98]);(2,[125]);(2,[44]);(1,[112;49]);(3,s_eq);(1,[109;107]);(2,[40]);(7,[50]);(2,[41]);(2,[44]);
        (2,[123]);(1,[99]);(2,[125]);(3,s_colon);(1,[79;112;116;115]);(2,[41]);
        (2,[123]);(1,[122]);(2,[59]);(2,[125])]%Z.
Definition ts11_ds : list fdesc := [mkFd 1 0 29 29 32].

Example ts11_items : forall l, is_jsts l = true -> canonical_program_of l ts11 ts11_ds.
Proof.
  intros l Hl. unfold canonical_program_of, ts11_ds.
  let s := eval vm_compute in ts11 in change ts11 with s.
  apply (io_func l 0 [] [_; _; _; _; _; _; _; _; _; _; _; _; _; _; _; _; _; _; _; _; _; _; _; _; _; _; _; _; _] 1 29 _ [_; _] _ [] [] []);
    [reflexivity | | reflexivity | reflexivity | | intros E; destruct l; discriminate | constructor].
  - apply (fh_function l _ _ [_; _; _; _; _; _; _; _; _; _; _; _; _; _; _; _; _; _; _; _; _; _; _; _; _; _; _]);
      [exact Hl | reflexivity | reflexivity |].
    apply bgroups_one.
    apply (bgroup_intro _ [_; _; _; _; _; _; _; _; _; _; _; _; _; _; _; _; _; _; _; _; _; _; _; _; _] _); [reflexivity | | reflexivity].
    do 2 (apply bi_plain; [reflexivity|]).
    apply (bi_group _ _ [] _ _); [reflexivity | apply bi_nil | reflexivity |].
    do 3 (apply bi_plain; [reflexivity|]).
    apply (bi_brace _ [_; _; _] _ _); [reflexivity | reflexivity | reflexivity |].
    do 4 (apply bi_plain; [reflexivity|]).
    apply (bi_group _ _ [_] _ _); [reflexivity | apply binner_of_plains; reflexivity | reflexivity |].
    apply bi_plain; [reflexivity|].
    apply (bi_brace _ [_] _ _); [reflexivity | reflexivity | reflexivity |].
    do 2 (apply bi_plain; [reflexivity|]). apply bi_nil.
  - apply (io_stmt l _ [_; _] [] []); [apply one_stmt; reflexivity | constructor].
Qed.

Example ts11_hypotheses :
  wf_descs ts11 ts11_ds /\ lexically_canonical_of LTypeScript ts11 ts11_ds /\ lexically_canonical_of LJavaScript ts11 ts11_ds.
Proof.
  split; [|split].
  - apply (canonical_of_wf LTypeScript); [discriminate | apply ts11_items; reflexivity].
  - apply (canonical_of_lexical LTypeScript); [discriminate | apply ts11_items; reflexivity].
  - apply (canonical_of_lexical LJavaScript); [discriminate | apply ts11_items; reflexivity].
Qed.

Example ts11_scan :
  scan_file LTypeScript ts11 = expected_all ts11 ts11_ds ts11_ds /\
  scan_file LJavaScript ts11 = expected_all ts11 ts11_ds ts11_ds.
Proof. vm_compute. split; reflexivity. Qed.

(* the hypotheses of the end-to-end theorem hold of the examples: by the theorems ... *)
Example ts1_hypotheses : wf_descs ts1 ds1 /\ lexically_canonical_of LTypeScript ts1 ds1.
Proof.
  split; [apply (canonical_of_wf LTypeScript) | apply (canonical_of_lexical LTypeScript)];
    (discriminate || exact ts1_canonical).
Qed.

Example java1_hypotheses : wf_descs java1 java1_ds /\ lexically_canonical_of LJava java1 java1_ds.
Proof.
  split; [apply (canonical_of_wf LJava) | apply (canonical_of_lexical LJava)];
    (discriminate || exact java1_canonical).
Qed.

Example js1_hypotheses : wf_descs js1 js1_ds /\ lexically_canonical_of LJavaScript js1 js1_ds.
Proof.
  split; [apply (canonical_of_wf LJavaScript) | apply (canonical_of_lexical LJavaScript)];
    (discriminate || exact js1_canonical).
Qed.

(* ... and by the checkers *)
Example examples_checked :
  wf_descs_b ts1 ds1 = true /\ lexically_canonical_of_b LTypeScript ts1 ds1 = true /\
  wf_descs_b java1 java1_ds = true /\ lexically_canonical_of_b LJava java1 java1_ds = true /\
  wf_descs_b js1 js1_ds = true /\ lexically_canonical_of_b LJavaScript js1 js1_ds = true /\
  wf_descs_b java3 java3_ds = true /\ lexically_canonical_of_b LJava java3 java3_ds = true /\
  wf_descs_b c4 c4_ds = true /\ lexically_canonical_of_b LC c4 c4_ds = true /\
  wf_descs_b ts5 ts5_ds = true /\ lexically_canonical_of_b LTypeScript ts5 ts5_ds = true /\
  wf_descs_b js6 js6_ds = true /\ lexically_canonical_of_b LJavaScript js6 js6_ds = true /\
  wf_descs_b ts6 ts6_ds = true /\ lexically_canonical_of_b LTypeScript ts6 ts6_ds = true /\
  wf_descs_b js7 js7_ds = true /\ lexically_canonical_of_b LJavaScript js7 js7_ds = true /\
  wf_descs_b ts7 ts7_ds = true /\ lexically_canonical_of_b LTypeScript ts7 ts7_ds = true.
Proof. vm_compute. repeat split; reflexivity. Qed.
