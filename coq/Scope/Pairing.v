(* Pairing.v — scope_utils._build_scopes_from_headers_and_blocks,
   _find_scope_blocks_indices, _get_nearest_block (after the GD12 repair),
   TokenRange.{lt,gt,contains,overlaps}, utils.delete_indices. *)
From Verif Require Import Base Token Headers Blocks.
Open Scope Z_scope.

Definition r_lt (a b : range) : bool := Nat.ltb (fst a) (fst b).
Definition r_contains (a b : range) : bool := Nat.ltb (fst a) (fst b) && Nat.ltb (snd b) (snd a).
Definition r_overlaps (a b : range) : bool :=
  (Nat.leb (fst a) (fst b) && Nat.ltb (fst b) (snd a)) || (Nat.ltb (fst a) (snd b) && Nat.leb (snd b) (snd a)).

Record scope0 := mkScope0 { s_header : header; s_block : range }.
Definition hrange (h : header) : range := (h_start h, h_end h).

(* loop over blocks[::-1] *)
Fixpoint nearest_block (rev_blocks : list range) (h : range) (result : option range) : option range :=
  match rev_blocks with
  | [] => result
  | b :: r =>
      if r_contains b h then (match result with None => Some b | Some x => Some x end)
      else if Nat.leb (snd h) (fst b) then nearest_block r h (Some b)
      else if r_lt b h then result
      else nearest_block r h result
  end.
Definition get_nearest_block (h : range) (blocks : list range) : option range := nearest_block (rev blocks) h None.

Definition find_scope_blocks_indices (h : range) (blocks : list range) : list nat :=
  match get_nearest_block h blocks with
  | None => []
  | Some body =>
      if r_contains body h then
        map fst (filter (fun ib => Nat.leb (snd h) (fst (snd ib)) && r_contains body (snd ib)) (number_from O blocks))
      else
        map fst (filter (fun ib => Nat.leb (snd h) (fst (snd ib)) && r_overlaps body (snd ib)) (number_from O blocks))
  end.

Definition delete_indices {A} (l : list A) (idx : list nat) : list A :=
  map snd (filter (fun ia => negb (existsb (Nat.eqb (fst ia)) idx)) (number_from O l)).

Definition min_list (l : list nat) : nat := fold_right Nat.min (hd O l) l.
Definition max_list (l : list nat) : nat := fold_right Nat.max O l.

Fixpoint build_scopes_loop (rev_headers : list header) (blocks : list range) : list scope0 :=
  match rev_headers with
  | [] => []
  | h :: r =>
      let idx := find_scope_blocks_indices (hrange h) blocks in
      match idx with
      | [] => build_scopes_loop r blocks
      | _ =>
          let sel := map (fun i => nth i blocks (O, O)) idx in
          mkScope0 h (min_list (map fst sel), max_list (map snd sel))
            :: build_scopes_loop r (delete_indices blocks idx)
      end
  end.

(* sort_headers(reverse=True) then result.reverse() *)
Definition sort_headers_desc (ts : list token) (hs : list header) : list header :=
  sort_desc2 (fun h => tok_line ts (h_start h)) (fun h => tok_col ts (h_start h)) hs.
Definition build_scopes_from (ts : list token) (hs : list header) (blocks : list range) : list scope0 :=
  rev (build_scopes_loop (sort_headers_desc ts hs) blocks).

Definition enc_scope0 (s : scope0) : tree := T [enc_header (s_header s); enc_range (s_block s)].
