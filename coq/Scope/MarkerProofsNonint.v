(* MarkerProofsNonint.v — property C17, part C: suppressing a function that
   neither encloses nor is nested in another one changes nothing else: every
   other function keeps its direct children (hence name, span and length) and
   the suppressed one simply disappears from the result. *)
From Verif Require Import Base Token Lex Headers Blocks Pairing Fold ScanFile TotalProofsScopes.
From Verif Require Import MarkerProofsFold.
From Coq Require Import Sorted.
Open Scope Z_scope.

(* ---------- decidable equality of scopes ---------- *)
Definition header_eqb (a b : header) : bool :=
  Nat.eqb (h_name a) (h_name b) && Nat.eqb (h_start a) (h_start b) && Nat.eqb (h_end a) (h_end b).
Definition scope_eqb (a b : scope0) : bool :=
  header_eqb (s_header a) (s_header b)
  && Nat.eqb (fst (s_block a)) (fst (s_block b)) && Nat.eqb (snd (s_block a)) (snd (s_block b)).

Lemma header_eqb_spec a b : header_eqb a b = true <-> a = b.
Proof.
  unfold header_eqb. rewrite !andb_true_iff, !Nat.eqb_eq. destruct a, b; cbn. split.
  - intros [[-> ->] ->]. reflexivity.
  - intros E. inversion E. auto.
Qed.
Lemma scope_eqb_spec a b : scope_eqb a b = true <-> a = b.
Proof.
  unfold scope_eqb. rewrite !andb_true_iff, !Nat.eqb_eq, header_eqb_spec.
  destruct a as [ha [a1 a2]], b as [hb [b1 b2]]; cbn. split.
  - intros [[-> ->] ->]. reflexivity.
  - intros E. inversion E. auto.
Qed.
Lemma scope_eqb_refl a : scope_eqb a a = true.
Proof. apply scope_eqb_spec. reflexivity. Qed.
Lemma scope_eqb_neq a b : a <> b -> scope_eqb a b = false.
Proof. intros H. apply not_true_iff_false. rewrite scope_eqb_spec. exact H. Qed.

(* ---------- finished roots are never touched again ---------- *)
Lemma pop_until_roots : forall frames extra sc r0 roots,
  pop_until frames extra sc (r0 ++ roots) =
  (fst (pop_until frames extra sc roots), r0 ++ snd (pop_until frames extra sc roots)).
Proof.
  induction frames as [|[s cs] rest IH]; intros extra sc r0 roots; cbn [pop_until].
  - cbn [fst snd]. rewrite app_assoc. reflexivity.
  - destruct (s_contains s sc); [reflexivity | apply IH].
Qed.

Lemma flush_roots : forall frames extra r0 roots,
  flush frames extra (r0 ++ roots) = r0 ++ flush frames extra roots.
Proof.
  induction frames as [|[s cs] rest IH]; intros extra r0 roots; cbn [flush].
  - rewrite app_assoc. reflexivity.
  - apply IH.
Qed.

Lemma fold_loop_roots : forall scopes frames r0 roots,
  fold_loop scopes frames (r0 ++ roots) = r0 ++ fold_loop scopes frames roots.
Proof.
  induction scopes as [|sc r IH]; intros frames r0 roots; cbn [fold_loop].
  - apply flush_roots.
  - rewrite pop_until_roots. destruct (pop_until frames [] sc roots) as [frames' roots'].
    cbn [fst snd]. apply IH.
Qed.

(* ---------- a scope contained in no open scope closes them all ---------- *)
Lemma pop_until_none : forall frames extra sc roots,
  (forall f, In f frames -> s_contains (fst f) sc = false) ->
  pop_until frames extra sc roots = ([], flush frames extra roots).
Proof.
  induction frames as [|[s cs] rest IH]; intros extra sc roots H; cbn [pop_until flush].
  - reflexivity.
  - pose proof (H (s, cs) (or_introl eq_refl)) as Hs. cbn [fst] in Hs. rewrite Hs. apply IH.
    intros f Hf. apply H. right. exact Hf.
Qed.

(* the open scopes that survive a pop were open before *)
Lemma pop_until_frames_fst : forall frames extra sc roots f,
  In f (fst (pop_until frames extra sc roots)) -> exists f', In f' frames /\ fst f' = fst f.
Proof.
  induction frames as [|[s cs] rest IH]; intros extra sc roots f H; cbn [pop_until] in H.
  - destruct H.
  - destruct (s_contains s sc).
    + cbn [fst] in H. destruct H as [<-|H].
      * exists (s, cs). split; [left; reflexivity | reflexivity].
      * exists f. split; [right; exact H | reflexivity].
    + apply IH in H. destruct H as (f' & Hf' & E). exists f'. split; [right; exact Hf' | exact E].
Qed.

(* ---------- the forest splits in front of a scope nobody before it contains ---------- *)
Lemma fold_loop_split : forall l1 frames roots x l2,
  (forall a, In a l1 -> s_contains a x = false) ->
  (forall f, In f frames -> s_contains (fst f) x = false) ->
  fold_loop (l1 ++ x :: l2) frames roots = fold_loop l1 frames roots ++ fold_scopes (x :: l2).
Proof.
  induction l1 as [|a l1 IH]; intros frames roots x l2 Hl Hf.
  - cbn [app]. unfold fold_scopes. cbn [fold_loop pop_until app].
    rewrite pop_until_none by exact Hf.
    rewrite <- (app_nil_r (flush frames [] roots)) at 1. apply fold_loop_roots.
  - cbn [app fold_loop].
    pose proof (pop_until_frames_fst frames [] a roots) as Hsub.
    destruct (pop_until frames [] a roots) as [frames' roots']. cbn [fst] in Hsub.
    apply IH.
    + intros b Hb. apply Hl. right. exact Hb.
    + intros f [<-|Hfr].
      * cbn [fst]. apply Hl. left. reflexivity.
      * destruct (Hsub f Hfr) as (f' & Hf' & E). rewrite <- E. apply Hf. exact Hf'.
Qed.

Theorem fold_scopes_split : forall l1 l2,
  (forall a x, In a l1 -> hd_error l2 = Some x -> s_contains a x = false) ->
  fold_scopes (l1 ++ l2) = fold_scopes l1 ++ fold_scopes l2.
Proof.
  intros l1 [|x l2] H.
  - rewrite app_nil_r. unfold fold_scopes at 3. cbn [fold_loop flush app]. rewrite app_nil_r. reflexivity.
  - unfold fold_scopes at 1 2. apply fold_loop_split.
    + intros a Ha. apply H; [exact Ha | reflexivity].
    + intros f [].
Qed.

Lemma fold_scopes_single s : fold_scopes [s] = [Node s []].
Proof. reflexivity. Qed.

(* ---------- the hypotheses ---------- *)
(* s neither encloses nor is nested in any of the others *)
Definition unrelated (s : scope0) (others : list scope0) : Prop :=
  forall x, In x others -> s_contains s x = false /\ s_contains x s = false.

(* candidate scopes come in the order of the first token of their header *)
Definition start_lt (a b : scope0) : Prop := (h_start (s_header a) < h_start (s_header b))%nat.
Definition starts_increasing (l : list scope0) : Prop := StronglySorted start_lt l.

(* no scope before the marked one contains the scope right after it *)
Definition no_straddle (l1 l2 : list scope0) : Prop :=
  forall a x, In a l1 -> hd_error l2 = Some x -> s_contains a x = false.

Lemma StronglySorted_app_inv {A} (R : A -> A -> Prop) : forall l1 l2,
  StronglySorted R (l1 ++ l2) ->
  StronglySorted R l1 /\ StronglySorted R l2 /\ (forall a b, In a l1 -> In b l2 -> R a b).
Proof.
  induction l1 as [|x l1 IH]; intros l2 H; cbn [app] in H.
  - split; [constructor|]. split; [exact H|]. intros a b [].
  - inversion H as [|? ? Hs Hall]; subst. destruct (IH l2 Hs) as (H1 & H2 & H3).
    rewrite Forall_forall in Hall. split; [|split].
    + constructor; [exact H1|]. apply Forall_forall. intros y Hy. apply Hall. apply in_or_app. auto.
    + exact H2.
    + intros a b [<-|Ha] Hb; [apply Hall; apply in_or_app; auto | apply H3; assumption].
Qed.

Lemma starts_increasing_mid l1 s l2 :
  starts_increasing (l1 ++ s :: l2) ->
  (forall a, In a l1 -> start_lt a s) /\ (forall x, In x l2 -> start_lt s x) /\ ~ In s (l1 ++ l2).
Proof.
  intros H. apply StronglySorted_app_inv in H. destruct H as (_ & H2 & H3).
  inversion H2 as [|? ? _ Hall]; subst. rewrite Forall_forall in Hall.
  split; [|split].
  - intros a Ha. apply H3; [exact Ha | left; reflexivity].
  - exact Hall.
  - intros Hin. apply in_app_or in Hin. destruct Hin as [Hin|Hin].
    + specialize (H3 s s Hin (or_introl eq_refl)). unfold start_lt in H3. lia.
    + specialize (Hall s Hin). unfold start_lt in Hall. lia.
Qed.

(* with increasing starts, an unrelated s cannot be straddled: a scope that
   starts before s and does not contain it ends before s does, and a scope
   that starts after s and is not contained in it ends after s does *)
Lemma unrelated_no_straddle l1 s l2 :
  starts_increasing (l1 ++ s :: l2) -> unrelated s (l1 ++ l2) -> no_straddle l1 l2.
Proof.
  intros Hs Hu a x Ha Hx.
  destruct (starts_increasing_mid _ _ _ Hs) as (H1 & H2 & _).
  assert (Hx' : In x l2) by (destruct l2; inversion Hx; left; reflexivity).
  specialize (H1 a Ha). specialize (H2 x Hx'). unfold start_lt in *.
  destruct (Hu a (in_or_app _ _ _ (or_introl Ha))) as [_ Has].
  destruct (Hu x (in_or_app _ _ _ (or_intror Hx'))) as [Hsx _].
  unfold s_contains in *. apply andb_false_iff in Has. apply andb_false_iff in Hsx.
  apply andb_false_iff. right. apply Nat.leb_gt.
  destruct Has as [Has|Has]; [apply Nat.ltb_ge in Has; lia|]. apply Nat.leb_gt in Has.
  destruct Hsx as [Hsx|Hsx]; [apply Nat.ltb_ge in Hsx; lia|]. apply Nat.leb_gt in Hsx.
  lia.
Qed.

(* ---------- C: shape of the two forests ---------- *)
Theorem fold_scopes_unrelated : forall l1 s l2,
  unrelated s (l1 ++ l2) -> no_straddle l1 l2 ->
  fold_scopes (l1 ++ s :: l2) = fold_scopes l1 ++ Node s [] :: fold_scopes l2 /\
  fold_scopes (l1 ++ l2) = fold_scopes l1 ++ fold_scopes l2.
Proof.
  intros l1 s l2 Hu Hn. split.
  - rewrite fold_scopes_split.
    + f_equal. change (s :: l2) with ([s] ++ l2). rewrite fold_scopes_split; [reflexivity|].
      intros a x [<-|[]] Hx. apply Hu. apply in_or_app. right.
      destruct l2; inversion Hx. left. reflexivity.
    + intros a x Ha Hx. inversion Hx; subst x. apply Hu. apply in_or_app. left. exact Ha.
  - apply fold_scopes_split. exact Hn.
Qed.

Theorem unfold_fold_unrelated : forall l1 s l2,
  unrelated s (l1 ++ l2) -> no_straddle l1 l2 ->
  unfold_scopes (fold_scopes (l1 ++ s :: l2))
    = unfold_scopes (fold_scopes l1) ++ (s, []) :: unfold_scopes (fold_scopes l2) /\
  unfold_scopes (fold_scopes (l1 ++ l2))
    = unfold_scopes (fold_scopes l1) ++ unfold_scopes (fold_scopes l2).
Proof.
  intros l1 s l2 Hu Hn. destruct (fold_scopes_unrelated l1 s l2 Hu Hn) as [E1 E2].
  rewrite E1, E2. rewrite !unfold_scopes_app. split; reflexivity.
Qed.

Lemma filter_all_true {A} (f : A -> bool) l : (forall x, In x l -> f x = true) -> filter f l = l.
Proof.
  induction l as [|x l IH]; intros H; [reflexivity|]. cbn [filter].
  rewrite H by (left; reflexivity). f_equal. apply IH. intros y Hy. apply H. right. exact Hy.
Qed.

Lemma filter_not_s_unfold s l :
  ~ In s l ->
  filter (fun p : scope0 * list scope0 => negb (scope_eqb (fst p) s)) (unfold_scopes (fold_scopes l))
  = unfold_scopes (fold_scopes l).
Proof.
  intros H. apply filter_all_true. intros p Hp. apply negb_true_iff. apply scope_eqb_neq.
  intros E. apply H. rewrite <- E. rewrite <- (unfold_fold_fst l). apply in_map. exact Hp.
Qed.

(* core statement, weakest hypotheses *)
Theorem C17_noninterference_core : forall l1 s l2,
  unrelated s (l1 ++ l2) -> ~ In s (l1 ++ l2) -> no_straddle l1 l2 ->
  unfold_scopes (fold_scopes (l1 ++ l2))
  = filter (fun p => negb (scope_eqb (fst p) s)) (unfold_scopes (fold_scopes (l1 ++ s :: l2))).
Proof.
  intros l1 s l2 Hu Hni Hn. destruct (unfold_fold_unrelated l1 s l2 Hu Hn) as [E1 E2].
  rewrite E1, E2, filter_app. cbn [filter fst]. rewrite scope_eqb_refl. cbn [negb].
  rewrite !filter_not_s_unfold; [reflexivity | |]; intros H; apply Hni; apply in_or_app; auto.
Qed.

(* the candidate list is ordered by header start (strictly): nothing else is needed *)
Theorem C17_noninterference : forall l1 s l2,
  starts_increasing (l1 ++ s :: l2) -> unrelated s (l1 ++ l2) ->
  unfold_scopes (fold_scopes (l1 ++ l2))
  = filter (fun p => negb (scope_eqb (fst p) s)) (unfold_scopes (fold_scopes (l1 ++ s :: l2))).
Proof.
  intros l1 s l2 Hs Hu. apply C17_noninterference_core.
  - exact Hu.
  - apply (starts_increasing_mid _ _ _ Hs).
  - apply (unrelated_no_straddle _ _ _ Hs Hu).
Qed.

(* Variant for lists that are only weakly ordered by header start but laminar:
   of two scopes, the later one is nested in the earlier one or starts at or
   after its end; every scope is non-empty. *)
Definition scope_wf (a : scope0) : Prop := (h_start (s_header a) < snd (s_block a))%nat.
Definition laminar_pair (a b : scope0) : Prop :=
  (h_start (s_header a) <= h_start (s_header b))%nat /\
  (s_contains a b = true \/ (snd (s_block a) <= h_start (s_header b))%nat).
Definition laminar_sorted (l : list scope0) : Prop := StronglySorted laminar_pair l /\ Forall scope_wf l.

Lemma laminar_pair_irrefl a : scope_wf a -> ~ laminar_pair a a.
Proof.
  unfold scope_wf, laminar_pair, s_contains. intros Hw [_ [H|H]]; [|lia].
  apply andb_true_iff in H. destruct H as [H _]. apply Nat.ltb_lt in H. lia.
Qed.

Theorem C17_noninterference_laminar : forall l1 s l2,
  laminar_sorted (l1 ++ s :: l2) -> unrelated s (l1 ++ l2) ->
  unfold_scopes (fold_scopes (l1 ++ l2))
  = filter (fun p => negb (scope_eqb (fst p) s)) (unfold_scopes (fold_scopes (l1 ++ s :: l2))).
Proof.
  intros l1 s l2 [Hs Hw] Hu. rewrite Forall_forall in Hw.
  apply StronglySorted_app_inv in Hs. destruct Hs as (_ & H2 & H3).
  inversion H2 as [|? ? _ Hall]; subst. rewrite Forall_forall in Hall.
  assert (Hws : scope_wf s) by (apply Hw; apply in_or_app; right; left; reflexivity).
  apply C17_noninterference_core.
  - exact Hu.
  - intros Hin. apply in_app_or in Hin. destruct Hin as [Hin|Hin].
    + apply (laminar_pair_irrefl s Hws). apply H3; [exact Hin | left; reflexivity].
    + apply (laminar_pair_irrefl s Hws). apply Hall. exact Hin.
  - intros a x Ha Hx.
    assert (Hx' : In x l2) by (destruct l2; inversion Hx; left; reflexivity).
    assert (Hwx : scope_wf x) by (apply Hw; apply in_or_app; right; right; exact Hx').
    destruct (H3 a s Ha (or_introl eq_refl)) as [_ Has].
    destruct (Hall x Hx') as [Hsx _].
    destruct (Hu a (in_or_app _ _ _ (or_introl Ha))) as [_ Hc].
    destruct Has as [Has|Has]; [congruence|].
    unfold scope_wf, s_contains in *. apply andb_false_iff. right. apply Nat.leb_gt. lia.
Qed.

(* symmetrically: in the result for the full list, s has no children and is nobody's child *)
Theorem C17_unrelated_childless : forall l1 s l2 sc ch,
  starts_increasing (l1 ++ s :: l2) -> unrelated s (l1 ++ l2) ->
  In (sc, ch) (unfold_scopes (fold_scopes (l1 ++ s :: l2))) ->
  (sc = s -> ch = []) /\ ~ In s ch.
Proof.
  intros l1 s l2 sc ch Hs Hu Hin.
  destruct (starts_increasing_mid _ _ _ Hs) as (_ & _ & Hni).
  destruct (unfold_fold_unrelated l1 s l2 Hu (unrelated_no_straddle _ _ _ Hs Hu)) as [E1 _].
  rewrite E1 in Hin. apply in_app_or in Hin. destruct Hin as [Hin | [Hin | Hin]].
  - apply unfold_fold_In in Hin. destruct Hin as [H1 H2]. split.
    + intros ->. exfalso. apply Hni. apply in_or_app. auto.
    + intros H. apply Hni. apply in_or_app. left. apply H2. exact H.
  - inversion Hin; subst. split; [reflexivity | intros []].
  - apply unfold_fold_In in Hin. destruct Hin as [H1 H2]. split.
    + intros ->. exfalso. apply Hni. apply in_or_app. auto.
    + intros H. apply Hni. apply in_or_app. right. apply H2. exact H.
Qed.

(* the ordering hypothesis cannot be dropped: a = [0,10), s = [5,20), x = [3,4) listed as
   a, s, x.  s is unrelated to both, but with s present x is cut off from its parent a. *)
Definition ex_a := mkScope0 (mkHeader 0 0 1) (1, 10)%nat.
Definition ex_s := mkScope0 (mkHeader 5 5 6) (6, 20)%nat.
Definition ex_x := mkScope0 (mkHeader 3 3 4) (3, 4)%nat.
Example ex_unsorted_unrelated : unrelated ex_s ([ex_a] ++ [ex_x]).
Proof. intros y [<-|[<-|[]]]; split; reflexivity. Qed.
Example ex_unsorted_differs :
  unfold_scopes (fold_scopes ([ex_a] ++ [ex_x])) = [(ex_a, [ex_x]); (ex_x, [])] /\
  filter (fun p => negb (scope_eqb (fst p) ex_s)) (unfold_scopes (fold_scopes ([ex_a] ++ ex_s :: [ex_x])))
    = [(ex_a, []); (ex_x, [])].
Proof. split; reflexivity. Qed.

(* ---------- lift to measurements ---------- *)
Lemma measure_all_app code : forall a b,
  measure_all code (a ++ b) =
  match measure_all code a with
  | Err k => Err k
  | OK x => match measure_all code b with Err k => Err k | OK y => OK (x ++ y) end
  end.
Proof.
  induction a as [|p a IH]; intros b; cbn [app measure_all].
  - destruct (measure_all code b); reflexivity.
  - destruct (measure code p); [|reflexivity]. rewrite IH.
    destruct (measure_all code a); [|reflexivity]. destruct (measure_all code b); reflexivity.
Qed.

Lemma measure_all_length code : forall scs ms, measure_all code scs = OK ms -> length ms = length scs.
Proof.
  induction scs as [|p r IH]; intros ms H; cbn [measure_all] in H.
  - inversion H. reflexivity.
  - destruct (measure code p); [|discriminate]. destruct (measure_all code r) eqn:E; [|discriminate].
    inversion H; subst. cbn [length]. f_equal. apply IH. reflexivity.
Qed.

(* the measurements of the run with s are those of the run without s, with the
   measurement of s (taken with no children) inserted at the position of s *)
Theorem C17_noninterference_measure : forall code l1 s l2 ms,
  starts_increasing (l1 ++ s :: l2) -> unrelated s (l1 ++ l2) ->
  measure_all code (unfold_scopes (fold_scopes (l1 ++ s :: l2))) = OK ms ->
  exists ms1 m ms2,
    ms = ms1 ++ m :: ms2 /\ length ms1 = length l1 /\ length ms2 = length l2 /\
    measure code (s, []) = OK m /\
    measure_all code (unfold_scopes (fold_scopes (l1 ++ l2))) = OK (ms1 ++ ms2).
Proof.
  intros code l1 s l2 ms Hs Hu H.
  destruct (unfold_fold_unrelated l1 s l2 Hu (unrelated_no_straddle _ _ _ Hs Hu)) as [E1 E2].
  rewrite E1 in H. rewrite E2. rewrite measure_all_app in *.
  destruct (measure_all code (unfold_scopes (fold_scopes l1))) as [ms1|] eqn:M1; [|discriminate].
  cbn [measure_all] in H. destruct (measure code (s, [])) as [m|] eqn:Mm; [|discriminate].
  destruct (measure_all code (unfold_scopes (fold_scopes l2))) as [ms2|] eqn:M2; [|discriminate].
  inversion H; subst ms. exists ms1, m, ms2.
  apply measure_all_length in M1. apply measure_all_length in M2.
  rewrite unfold_fold_length in M1, M2. auto.
Qed.

Theorem C17_noninterference_measure_conv : forall code l1 s l2 ms' m,
  starts_increasing (l1 ++ s :: l2) -> unrelated s (l1 ++ l2) ->
  measure_all code (unfold_scopes (fold_scopes (l1 ++ l2))) = OK ms' ->
  measure code (s, []) = OK m ->
  measure_all code (unfold_scopes (fold_scopes (l1 ++ s :: l2)))
  = OK (firstn (length l1) ms' ++ m :: skipn (length l1) ms').
Proof.
  intros code l1 s l2 ms' m Hs Hu H Hm.
  destruct (unfold_fold_unrelated l1 s l2 Hu (unrelated_no_straddle _ _ _ Hs Hu)) as [E1 E2].
  rewrite E2 in H. rewrite E1. rewrite measure_all_app in *.
  destruct (measure_all code (unfold_scopes (fold_scopes l1))) as [ms1|] eqn:M1; [|discriminate].
  cbn [measure_all]. rewrite Hm.
  destruct (measure_all code (unfold_scopes (fold_scopes l2))) as [ms2|] eqn:M2; [|discriminate].
  inversion H; subst ms'. apply measure_all_length in M1. rewrite unfold_fold_length in M1.
  rewrite <- M1, firstn_app, skipn_app, Nat.sub_diag, firstn_all, skipn_all. cbn [firstn skipn].
  rewrite app_nil_r. reflexivity.
Qed.

(* an error while measuring another scope is unaffected, too *)
Theorem C17_noninterference_measure_err : forall code l1 s l2 m,
  starts_increasing (l1 ++ s :: l2) -> unrelated s (l1 ++ l2) ->
  measure code (s, []) = OK m ->
  forall k, measure_all code (unfold_scopes (fold_scopes (l1 ++ s :: l2))) = Err k <->
            measure_all code (unfold_scopes (fold_scopes (l1 ++ l2))) = Err k.
Proof.
  intros code l1 s l2 m Hs Hu Hm k.
  destruct (unfold_fold_unrelated l1 s l2 Hu (unrelated_no_straddle _ _ _ Hs Hu)) as [E1 E2].
  rewrite E1, E2, !measure_all_app. cbn [measure_all]. rewrite Hm.
  destruct (measure_all code (unfold_scopes (fold_scopes l1))); [|reflexivity].
  destruct (measure_all code (unfold_scopes (fold_scopes l2))); [|reflexivity].
  split; discriminate.
Qed.

(* ---------- end to end: adding one marker ---------- *)
Lemma filter_filter2 {A} (g h : A -> bool) l :
  filter g (filter h l) = filter (fun x => h x && g x) l.
Proof.
  induction l as [|x l IH]; [reflexivity|]. cbn [filter].
  destruct (h x); cbn [filter andb]; [destruct (g x)|]; rewrite IH; reflexivity.
Qed.

(* a new marker comment on line ln removes exactly the candidates named on that line *)
Lemma filter_nocl_scopes_add_line : forall code scopes lines lines' ln,
  (forall z, In z lines' <-> z = ln \/ In z lines) ->
  filter_nocl_scopes code scopes lines'
  = filter (fun x => negb (name_line code x =? ln)) (filter_nocl_scopes code scopes lines).
Proof.
  intros code scopes lines lines' ln H.
  rewrite (filter_nocl_scopes_ext code scopes lines' (ln :: lines))
    by (intros z; rewrite H; cbn [In]; intuition congruence).
  unfold filter_nocl_scopes, name_line. rewrite filter_filter2. apply filter_ext. intros x.
  cbn [existsb]. rewrite negb_orb. apply andb_comm.
Qed.

Lemma filter_remove_mid {A} (f : A -> bool) l1 s l2 :
  (forall x, In x (l1 ++ l2) -> f x = true) -> f s = false -> filter f (l1 ++ s :: l2) = l1 ++ l2.
Proof.
  intros H Hs. rewrite filter_app. cbn [filter]. rewrite Hs.
  rewrite !filter_all_true; [reflexivity | |]; intros x Hx; apply H; apply in_or_app; auto.
Qed.

(* Two token streams with the same code; the second has marker comments on one
   more line ln.  The function s named on that line is the only one there and
   is unrelated to the other reported functions.  Then the second result is
   the first one without s; nothing else changes. *)
Theorem C17_mark_one_function : forall l toks toks' ln l1 s l2 scs,
  lang_nested l = true ->
  filter_tokens false toks' = filter_tokens false toks ->
  (forall z, In z (marker_lines toks') <-> z = ln \/ In z (marker_lines toks)) ->
  build_scopes l toks = OK scs ->
  map fst scs = l1 ++ s :: l2 ->
  name_line (filter_tokens false toks) s = ln ->
  (forall x, In x (l1 ++ l2) -> name_line (filter_tokens false toks) x <> ln) ->
  starts_increasing (l1 ++ s :: l2) -> unrelated s (l1 ++ l2) ->
  build_scopes l toks' = OK (filter (fun p => negb (scope_eqb (fst p) s)) scs).
Proof.
  intros l toks toks' ln l1 s l2 scs Hn Hc Hl Hb Hm Hln Hothers Hs Hu.
  unfold build_scopes in *. rewrite Hc. set (code := filter_tokens false toks) in *.
  destruct (extract_headers l code) as [headers|]; [|discriminate].
  destruct (extract_blocks l code headers) as [blocks|]; [|discriminate].
  rewrite Hn in *. inversion Hb as [Hscs]. clear Hb.
  fold (marker_lines toks'). fold (marker_lines toks) in Hscs |- *.
  rewrite <- Hscs in Hm. rewrite unfold_fold_fst in Hm.
  rewrite (filter_nocl_scopes_add_line code _ (marker_lines toks) (marker_lines toks') ln Hl).
  rewrite !Hm. rewrite filter_remove_mid.
  - f_equal. apply C17_noninterference; assumption.
  - intros x Hx. apply negb_true_iff. apply Z.eqb_neq. apply Hothers. exact Hx.
  - apply negb_false_iff. apply Z.eqb_eq. exact Hln.
Qed.

Corollary C17_mark_one_function_scan : forall l toks toks' ln l1 s l2 scs ms,
  lang_nested l = true ->
  filter_tokens false toks' = filter_tokens false toks ->
  (forall z, In z (marker_lines toks') <-> z = ln \/ In z (marker_lines toks)) ->
  build_scopes l toks = OK scs ->
  map fst scs = l1 ++ s :: l2 ->
  name_line (filter_tokens false toks) s = ln ->
  (forall x, In x (l1 ++ l2) -> name_line (filter_tokens false toks) x <> ln) ->
  starts_increasing (l1 ++ s :: l2) -> unrelated s (l1 ++ l2) ->
  scan_file l toks = OK ms ->
  exists ms1 m ms2,
    ms = ms1 ++ m :: ms2 /\ length ms1 = length l1 /\ length ms2 = length l2 /\
    measure (filter_tokens false toks) (s, []) = OK m /\
    scan_file l toks' = OK (ms1 ++ ms2).
Proof.
  intros l toks toks' ln l1 s l2 scs ms Hn Hc Hl Hb Hm Hln Hothers Hs Hu Hscan.
  pose proof (C17_mark_one_function l toks toks' ln l1 s l2 scs Hn Hc Hl Hb Hm Hln Hothers Hs Hu) as Hb'.
  unfold scan_file in *. rewrite Hb'. rewrite Hb in Hscan. rewrite Hc.
  assert (Escs : scs = unfold_scopes (fold_scopes (l1 ++ s :: l2))).
  { unfold build_scopes in Hb.
    destruct (extract_headers l (filter_tokens false toks)) as [headers|]; [|discriminate].
    destruct (extract_blocks l (filter_tokens false toks) headers) as [blocks|]; [|discriminate].
    rewrite Hn in Hb. inversion Hb as [E]. rewrite <- E in Hm. rewrite unfold_fold_fst in Hm.
    rewrite Hm. reflexivity. }
  rewrite Escs in *. rewrite <- C17_noninterference by assumption.
  destruct (C17_noninterference_measure _ _ _ _ _ Hs Hu Hscan) as (ms1 & m & ms2 & H1 & H2 & H3 & H4 & H5).
  exists ms1, m, ms2. auto.
Qed.
