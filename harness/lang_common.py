"""Language table, lexing through the real Pygments lexers, implementation runners and
Gallina literal emitters shared by the scope-level checks."""
import os
import sys

LANGS = ["C", "Cpp", "CSharp", "Java", "JavaScript", "Python", "TypeScript"]
LANG_NAME = {"C": "C", "Cpp": "C++", "CSharp": "C#", "Java": "Java", "JavaScript": "JavaScript",
             "Python": "Python", "TypeScript": "TypeScript"}
EXT = {"C": "c", "Cpp": "cpp", "CSharp": "cs", "Java": "java", "JavaScript": "js", "TypeScript": "ts", "Python": "py"}
_lexers = {}


def lexer_for(lang):
    if lang not in _lexers:
        from pygments.lexers import get_lexer_for_filename
        _lexers[lang] = get_lexer_for_filename("x." + EXT[lang])
        assert _lexers[lang].__class__.name == LANG_NAME[lang], (lang, _lexers[lang].__class__.name)
    return _lexers[lang]


def kind_code(tt):
    from pygments.token import Keyword, Name, Punctuation, Operator, Comment, Text, Whitespace
    if tt in Keyword:
        return 0
    if tt in Name:
        return 1
    if tt in Punctuation:
        return 2
    if tt in Operator:
        return 3
    if tt in Comment:
        return 4
    if tt == Text:
        return 5
    if tt == Whitespace:
        return 6
    return 7


def raw_lex_padded(lang, text):
    """the lexer oracle's answer on the text with a final line break ensured (what lex() hands to Pygments since
    GD24), with the contract checked against the padded text"""
    padded = text if text.endswith("\n") else text + "\n"
    out = list(lexer_for(lang).get_tokens_unprocessed(padded))
    pos = 0
    for off, tt, val in out:
        assert off == pos and padded[off:off + len(val)] == val, ("lexer contract broken", lang, off, pos, val)
        pos += len(val)
    assert pos == len(padded), ("lexer contract: text not covered", lang, pos, len(padded))
    return out


def raw_lex(lang, text):
    """the oracle's tokens of the text itself: the padding dropped again"""
    return [(off, tt, val[:max(len(text) - off, 0)]) for off, tt, val in raw_lex_padded(lang, text)]


def impl_lex(lang, text, keep_comments=True):
    from codelimit.common.lexer_utils import lex
    return lex(lexer_for(lang), text, not keep_comments)


def impl_scan_tokens(lang, tokens):
    from codelimit.common.Scanner import scan_file
    from codelimit.languages import Languages
    return scan_file(tokens, Languages.by_name[LANG_NAME[lang]])


def impl_scan(lang, text):
    """measurements as [name, [sl, sc], [el, ec], length] or raises"""
    ms = impl_scan_tokens(lang, impl_lex(lang, text))
    return [[m.unit_name, [m.start.line, m.start.column], [m.end.line, m.end.column], m.value] for m in ms]


ERRK = {"IndexError": 1, "StopIteration": 2, "ValueError": 3, "KeyError": 5, "RecursionError": 7}


def guarded(fn):
    try:
        return [0, fn()]
    except RecursionError:
        return [1, 7]
    except (IndexError, ValueError, KeyError, StopIteration) as ex:
        return [1, ERRK[type(ex).__name__]]
    except RuntimeError as ex:           # generator raised StopIteration
        if isinstance(ex.__cause__, StopIteration):
            return [1, 2]
        raise


def pystr(s):
    return "[" + "; ".join(str(ord(c)) for c in s) + "]"


def tokens_lit(tokens):
    """Gallina list of tokens from implementation Token objects"""
    return "[" + "; ".join(
        f"mkTok (kind_of_code {kind_code(t.token_type)}) {pystr(t.value)} {t.location.line} {t.location.column}"
        for t in tokens) + "]"
