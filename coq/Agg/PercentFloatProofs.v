(* PercentFloatProofs.v — C19 for EVERY admissible outcome of Report.quality_profile_percentage
   (PercentFloat.may_show: the three ceilings taken of values within 10^-12 of the exact ones):
   the exact model is admissible, the decision procedure may_show_b is sound and complete, and
   range / accuracy / never-hidden / empty hold for every admissible outcome. *)
From Verif Require Import Base GenPercent Percent PercentFloat.
From Coq Require Import ZArith Lia ZifyBool List Bool.
Import ListNotations.
Open Scope Z_scope.

(* ---------- ceilings ---------- *)

Lemma cdiv_mono n m d : 0 < d -> n <= m -> cdiv n d <= cdiv m d.
Proof.
  intros Hd Hnm. pose proof (cdiv_spec n d Hd) as A. pose proof (cdiv_spec m d Hd) as B.
  set (a := cdiv n d) in *. set (b := cdiv m d) in *. nia.
Qed.

Lemma cdiv_scale n d k : 0 < d -> 0 < k -> cdiv (n * k) (d * k) = cdiv n d.
Proof.
  intros Hd Hk. unfold cdiv. replace (- (n * k)) with ((- n) * k) by lia.
  rewrite Z.div_mul_cancel_r by lia. reflexivity.
Qed.

Lemma tol_pos : 0 < tol_den.
Proof. unfold tol_den. lia. Qed.

(* the exact ceiling lies between the two extreme admissible ceilings *)
Lemma ceil_within_exact num den : 0 < den -> ceil_within num den (cdiv num den).
Proof.
  intros Hd. unfold ceil_within, ceil_lo, ceil_hi. pose proof tol_pos as Ht.
  rewrite <- (cdiv_scale num den tol_den Hd Ht).
  split; apply cdiv_mono; nia.
Qed.

(* the two extreme ceilings are ordered and at most one apart *)
Lemma ceil_lo_hi num den : 0 < den -> ceil_lo num den <= ceil_hi num den <= ceil_lo num den + 1.
Proof.
  intros Hd. unfold ceil_lo, ceil_hi.
  assert (HD : 0 < den * tol_den) by (pose proof tol_pos; nia).
  pose proof (cdiv_spec (num * tol_den - den) (den * tol_den) HD) as A.
  pose proof (cdiv_spec (num * tol_den + den) (den * tol_den) HD) as B.
  set (lo := cdiv (num * tol_den - den) _) in *. set (hi := cdiv (num * tol_den + den) _) in *.
  assert (E : den * tol_den = 1000000000000 * den) by (unfold tol_den; lia).
  set (D := den * tol_den) in *. set (N := num * tol_den) in *.
  split; nia.
Qed.

(* what membership of the admissible set means, without ceilings *)
Lemma ceil_within_bounds num den r : 0 < den -> ceil_within num den r ->
  num * tol_den - den <= den * tol_den * r /\ den * tol_den * (r - 1) < num * tol_den + den.
Proof.
  intros Hd [L H]. unfold ceil_lo in L. unfold ceil_hi in H.
  assert (HD : 0 < den * tol_den) by (pose proof tol_pos; nia).
  pose proof (cdiv_spec (num * tol_den - den) (den * tol_den) HD) as A.
  pose proof (cdiv_spec (num * tol_den + den) (den * tol_den) HD) as B.
  set (lo := cdiv (num * tol_den - den) _) in *. set (hi := cdiv (num * tol_den + den) _) in *.
  set (D := den * tol_den) in *. split; nia.
Qed.

(* ---------- the decision procedure ---------- *)

Lemma out_eqb_spec a b : out_eqb a b = true <-> a = b.
Proof.
  destruct a as [[[a1 a2] a3] a4]. destruct b as [[[b1 b2] b3] b4]. unfold out_eqb.
  rewrite !andb_true_iff, !Z.eqb_eq. split.
  - intros [[[-> ->] ->] ->]. reflexivity.
  - intros E. inversion E. auto.
Qed.

Lemma cands_spec num den r : 0 < den -> (In r (cands num den) <-> ceil_within num den r).
Proof.
  intros Hd. pose proof (ceil_lo_hi num den Hd) as LH. unfold cands, ceil_within. cbv zeta.
  destruct (Z.eqb_spec (ceil_lo num den) (ceil_hi num den)) as [E|E]; cbn [In]; lia.
Qed.

Lemma adjust_empty p cv ch cu : sumZ p <= 0 -> quality_profile_adjust p cv ch cu = quality_profile_adjust p 0 0 0.
Proof.
  intros Hs. unfold quality_profile_adjust. cbv zeta.
  destruct (Z.gtb_spec (sumZ p) 0) as [G|G]; [lia|reflexivity].
Qed.

Lemma den_pos_1 p t : 0 < t -> 0 < share_expr_den_1 p t.
Proof. unfold share_expr_den_1. lia. Qed.
Lemma den_pos_2 p t : 0 < t -> 0 < share_expr_den_2 p t.
Proof. unfold share_expr_den_2. lia. Qed.
Lemma den_pos_3 p t : 0 < t -> 0 < share_expr_den_3 p t.
Proof. unfold share_expr_den_3. lia. Qed.

Theorem may_show_b_spec : forall p out, may_show_b p out = true <-> may_show p out.
Proof.
  intros p out. unfold may_show_b, may_show. cbv zeta.
  destruct (Z.ltb_spec 0 (sumZ p)) as [Ht|Ht].
  - pose proof (den_pos_1 p _ Ht) as D1. pose proof (den_pos_2 p _ Ht) as D2. pose proof (den_pos_3 p _ Ht) as D3.
    split.
    + intros H. apply existsb_exists in H. destruct H as [cv [Iv H]].
      apply existsb_exists in H. destruct H as [ch [Ih H]].
      apply existsb_exists in H. destruct H as [cu [Iu H]].
      apply out_eqb_spec in H.
      exists cv, ch, cu. split; [|exact H]. intros _.
      split; [|split]; apply cands_spec; assumption.
    + intros [cv [ch [cu [W E]]]]. destruct (W Ht) as [Wv [Wh Wu]].
      apply existsb_exists. exists cv. split; [apply cands_spec; assumption|].
      apply existsb_exists. exists ch. split; [apply cands_spec; assumption|].
      apply existsb_exists. exists cu. split; [apply cands_spec; assumption|].
      apply out_eqb_spec. exact E.
  - rewrite out_eqb_spec. split.
    + intros E. exists 0, 0, 0. split; [lia|exact E].
    + intros [cv [ch [cu [_ E]]]]. rewrite E. apply adjust_empty. lia.
Qed.

(* ---------- the exact model is admissible (any profile) ---------- *)

Theorem exact_is_admissible_gen : forall p, may_show p (quality_profile_percentage p).
Proof.
  intros p. unfold may_show. cbv zeta.
  exists (cdiv (share_expr_num_1 p (sumZ p)) (share_expr_den_1 p (sumZ p))),
         (cdiv (share_expr_num_2 p (sumZ p)) (share_expr_den_2 p (sumZ p))),
         (cdiv (share_expr_num_3 p (sumZ p)) (share_expr_den_3 p (sumZ p))).
  split.
  - intros Ht. split; [|split]; apply ceil_within_exact.
    + apply den_pos_1; assumption.
    + apply den_pos_2; assumption.
    + apply den_pos_3; assumption.
  - unfold quality_profile_percentage, quality_profile_adjust,
      share_expr_num_1, share_expr_den_1, share_expr_num_2, share_expr_den_2, share_expr_num_3, share_expr_den_3.
    reflexivity.
Qed.

Theorem exact_is_admissible : forall p0 p1 p2 p3, 0 <= p0 -> 0 <= p1 -> 0 <= p2 -> 0 <= p3 ->
  may_show [p0; p1; p2; p3] (quality_profile_percentage [p0; p1; p2; p3]).
Proof. intros. apply exact_is_admissible_gen. Qed.

(* ---------- the C19 clauses for every admissible outcome ---------- *)

Section Profile.
  Variables p0 p1 p2 p3 : Z.
  Hypothesis H0 : 0 <= p0. Hypothesis H1 : 0 <= p1. Hypothesis H2 : 0 <= p2. Hypothesis H3 : 0 <= p3.
  Let total := p0 + p1 + p2 + p3.

  (* an admissible ceiling r for the category with x lines:
     share - 0.001 - 10^-12 <= r < share - 0.001 + 10^-12 + 1   (share = 100 x / total) *)
  Definition adm (x r : Z) : Prop :=
    (100000 * x - total) * 1000000000000 - 1000 * total <= 1000000000000000 * (total * r) /\
    1000000000000000 * (total * r) - 1000000000000000 * total < (100000 * x - total) * 1000000000000 + 1000 * total.

  Lemma adm_of_within x r : 0 < total ->
    ceil_within (x * 1 * 100 * 1000 - 1 * (1 * total * 1)) (1 * total * 1 * 1000) r -> adm x r.
  Proof.
    intros Ht W. apply ceil_within_bounds in W; [|lia]. unfold tol_den in W. unfold adm.
    destruct W as [A B]. set (tr := total * r). assert (Etr : tr = total * r) by reflexivity.
    clearbody tr. split; nia.
  Qed.

  Lemma adm_range x r : 0 < total -> 0 <= x <= total -> adm x r -> 0 <= r <= 100.
  Proof. intros Ht Hx [A B]. split; nia. Qed.

  Lemma adm_pair r2 r3 : 0 < total -> adm p2 r2 -> adm p3 r3 -> r2 + r3 <= 101.
  Proof.
    intros Ht [A2 B2] [A3 B3]. assert (p2 + p3 <= total) by (unfold total; lia). nia.
  Qed.

  Lemma shown_adjust_eq cv ch cu :
    shown_of (quality_profile_adjust [p0; p1; p2; p3] cv ch cu) =
    if total >? 0 then
      let '(u, h) := if cu + ch >? 100 then (if cu >=? ch then (cu - 1, ch) else (cu, ch - 1)) else (cu, ch) in
      (100 - u - h, h, u)
    else (100, 0, 0).
  Proof.
    unfold shown_of, quality_profile_adjust. cbv zeta. rewrite sum_total. fold total.
    destruct (total >? 0); [|reflexivity].
    destruct (cu + ch >? 100); [destruct (cu >=? ch)|]; f_equal; f_equal; lia.
  Qed.

  (* an admissible outcome, opened *)
  Lemma may_show_inv out : may_show [p0; p1; p2; p3] out ->
    exists cv ch cu, (0 < total -> adm p2 ch /\ adm p3 cu) /\ out = quality_profile_adjust [p0; p1; p2; p3] cv ch cu.
  Proof.
    unfold may_show. cbv zeta. rewrite sum_total. fold total.
    intros [cv [ch [cu [W E]]]]. exists cv, ch, cu. split; [|exact E].
    intros Ht. destruct (W Ht) as [_ [Wh Wu]].
    unfold share_expr_num_2, share_expr_den_2 in Wh. unfold share_expr_num_3, share_expr_den_3 in Wu.
    cbn [nthZ nth] in Wh, Wu. split; apply adm_of_within; assumption.
  Qed.

  Theorem robust_range_s out : may_show [p0; p1; p2; p3] out ->
    let '(ev, h, u) := shown_of out in 0 <= ev <= 100 /\ 0 <= h <= 100 /\ 0 <= u <= 100 /\ ev + h + u = 100.
  Proof.
    intros M. apply may_show_inv in M. destruct M as [cv [ch [cu [W ->]]]].
    rewrite shown_adjust_eq. destruct (Z.gtb_spec total 0) as [Ht|Ht]; [|lia].
    destruct (W Ht) as [Ah Au].
    pose proof (adm_range p2 ch Ht ltac:(unfold total; lia) Ah) as R2.
    pose proof (adm_range p3 cu Ht ltac:(unfold total; lia) Au) as R3.
    pose proof (adm_pair ch cu Ht Ah Au) as RP.
    destruct (Z.gtb_spec (cu + ch) 100); [destruct (Z.geb_spec cu ch)|]; lia.
  Qed.

  Theorem robust_accuracy_s out : 0 < total -> may_show [p0; p1; p2; p3] out ->
    let '(ev, h, u) := shown_of out in
    - 2 * total < 100 * (p0 + p1) - ev * total < 2 * total /\
    - 2 * total < 100 * p2 - h * total < 2 * total /\
    - 2 * total < 100 * p3 - u * total < 2 * total.
  Proof.
    intros Ht M. apply may_show_inv in M. destruct M as [cv [ch [cu [W ->]]]].
    rewrite shown_adjust_eq. destruct (Z.gtb_spec total 0) as [_|]; [|lia].
    destruct (W Ht) as [Ah Au].
    pose proof (adm_range p2 ch Ht ltac:(unfold total; lia) Ah) as R2.
    pose proof (adm_range p3 cu Ht ltac:(unfold total; lia) Au) as R3.
    destruct Ah as [A2 B2]. destruct Au as [A3 B3].
    assert (E : 100 * (p0 + p1) = 100 * total - 100 * p2 - 100 * p3) by (unfold total; lia).
    destruct (Z.gtb_spec (cu + ch) 100); [destruct (Z.geb_spec cu ch)|];
      (split; [|split]); nia.
  Qed.

  Theorem robust_never_hidden_s out : 0 < total -> total < 1000000000 -> may_show [p0; p1; p2; p3] out ->
    let '(ev, h, u) := shown_of out in
    (100000 * p2 > total -> 0 < h) /\ (100000 * p3 > total -> 0 < u).
  Proof.
    intros Ht Hbig M. apply may_show_inv in M. destruct M as [cv [ch [cu [W ->]]]].
    rewrite shown_adjust_eq. destruct (Z.gtb_spec total 0) as [_|]; [|lia].
    destruct (W Ht) as [Ah Au].
    pose proof (adm_range p2 ch Ht ltac:(unfold total; lia) Ah) as R2.
    pose proof (adm_range p3 cu Ht ltac:(unfold total; lia) Au) as R3.
    destruct Ah as [A2 B2]. destruct Au as [A3 B3].
    destruct (Z.gtb_spec (cu + ch) 100); [destruct (Z.geb_spec cu ch)|];
      split; intros; nia.
  Qed.

  Theorem robust_empty_s out : total = 0 -> may_show [p0; p1; p2; p3] out -> shown_of out = (100, 0, 0).
  Proof.
    intros E M. apply may_show_inv in M. destruct M as [cv [ch [cu [_ ->]]]].
    rewrite shown_adjust_eq. destruct (Z.gtb_spec total 0); [lia|reflexivity].
  Qed.
End Profile.

Theorem robust_range : forall p0 p1 p2 p3 out, 0 <= p0 -> 0 <= p1 -> 0 <= p2 -> 0 <= p3 ->
  may_show [p0; p1; p2; p3] out ->
  let '(ev, h, u) := shown_of out in 0 <= ev <= 100 /\ 0 <= h <= 100 /\ 0 <= u <= 100 /\ ev + h + u = 100.
Proof. intros p0 p1 p2 p3 out H0 H1 H2 H3 M. exact (robust_range_s p0 p1 p2 p3 H0 H1 H2 H3 out M). Qed.

Theorem robust_accuracy : forall p0 p1 p2 p3 out, 0 <= p0 -> 0 <= p1 -> 0 <= p2 -> 0 <= p3 -> 0 < p0 + p1 + p2 + p3 ->
  may_show [p0; p1; p2; p3] out ->
  let total := p0 + p1 + p2 + p3 in
  let '(ev, h, u) := shown_of out in
  - 2 * total < 100 * (p0 + p1) - ev * total < 2 * total /\
  - 2 * total < 100 * p2 - h * total < 2 * total /\
  - 2 * total < 100 * p3 - u * total < 2 * total.
Proof. intros p0 p1 p2 p3 out H0 H1 H2 H3 Ht M. exact (robust_accuracy_s p0 p1 p2 p3 H0 H1 H2 H3 out Ht M). Qed.

Theorem robust_never_hidden : forall p0 p1 p2 p3 out, 0 <= p0 -> 0 <= p1 -> 0 <= p2 -> 0 <= p3 -> 0 < p0 + p1 + p2 + p3 ->
  p0 + p1 + p2 + p3 < 1000000000 ->
  may_show [p0; p1; p2; p3] out ->
  let total := p0 + p1 + p2 + p3 in
  let '(ev, h, u) := shown_of out in
  (100000 * p2 > total -> 0 < h) /\ (100000 * p3 > total -> 0 < u).
Proof. intros p0 p1 p2 p3 out H0 H1 H2 H3 Ht Hb M. exact (robust_never_hidden_s p0 p1 p2 p3 H0 H1 H2 H3 out Ht Hb M). Qed.

Theorem robust_empty : forall p0 p1 p2 p3 out, p0 + p1 + p2 + p3 = 0 -> may_show [p0; p1; p2; p3] out -> shown_of out = (100, 0, 0).
Proof. intros p0 p1 p2 p3 out E M. exact (robust_empty_s p0 p1 p2 p3 out E M). Qed.

Print Assumptions exact_is_admissible.
Print Assumptions exact_is_admissible_gen.
Print Assumptions may_show_b_spec.
Print Assumptions robust_range.
Print Assumptions robust_accuracy.
Print Assumptions robust_never_hidden.
Print Assumptions robust_empty.
