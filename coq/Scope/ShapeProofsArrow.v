(* ShapeProofsArrow.v — the second JavaScript / TypeScript header pattern
   [const] Name = [async] groups =>   with the follow-up "{". *)
From Verif Require Import Base Regex Nfa Dfa Token TokEngine GenPatterns Headers Blocks Spec HeaderSpec Scan ScanProofs.
From Verif Require Import Unamb UnambProofs LexShapes HeaderProofsDfa HeaderProofsSelect ShapeProofsGen ShapeProofsFollow.
Open Scope Z_scope.

Definition Arrow : tpred := PSymbol s_arrow.
Definition arrow_pattern : expr tpred :=
  [Opt [Atom (PKeyword s_const)]; Atom PName; Atom (POperator s_eq); Opt [Atom (PKeyword s_async)];
   Plus [Atom Bal]; Atom Arrow].

Definition aA : automaton tpred :=
  Eval vm_compute in match tk_to_dfa arrow_pattern with OK a => a | Err _ => mkAut [] [] 0%nat end.
Lemma to_dfa_arrow : tk_to_dfa arrow_pattern = OK aA.
Proof. vm_compute. reflexivity. Qed.
Lemma okheap_aA : okheap aA = true.
Proof. vm_compute. reflexivity. Qed.

(* reachable states: start, after const, after the name, after "=", after async,
   in / between the groups, after "=>" *)
Definition A0 := [0; 1; 3]%nat.
Definition A1 := [2; 3]%nat.
Definition A2 := [5]%nat.
Definition A3 := [7; 9; 11; 13]%nat.
Definition A4 := [10; 11; 13]%nat.
Definition AG := [13; 14; 15]%nat.
Definition AF := [17]%nat.

Lemma kw_not_symbol x s s' : kwt x s = true -> is_symbol x s' = false.
Proof.
  intros H. destruct (is_symbol x s') eqn:E; [|reflexivity].
  rewrite (symbol_not_kw x s' s E) in H. discriminate.
Qed.

Lemma symbol_excl x s s' : pystr_eqb s s' = false -> is_symbol x s = true -> is_symbol x s' = false.
Proof.
  unfold is_symbol. intros Hne H. apply andb_true_iff in H. destruct H as [Hk Hv].
  apply pystr_eqb_spec in Hv. rewrite Hk, Hv, Hne. reflexivity.
Qed.

Lemma aconsume_A0 x : aconsume aA A0 0 x =
  if kwt x s_const then OK (Some (A1, 0)) else if is_name x then OK (Some (A2, 0)) else OK None.
Proof.
  unfold aconsume. cbv zeta.
  change (dtrans tpred_eqb (a_heap aA) A0) with [PKeyword s_const; PName].
  cbn [filter tpred_eqb Bal]. cbn [pfold tpred_eqb Bal taccept]. fold (kwt x s_const).
  destruct (kwt x s_const) eqn:E1.
  - rewrite (kwt_not_name x s_const E1). reflexivity.
  - destruct (is_name x); reflexivity.
Qed.

Lemma aconsume_A1 x : aconsume aA A1 0 x = if is_name x then OK (Some (A2, 0)) else OK None.
Proof.
  unfold aconsume. cbv zeta.
  change (dtrans tpred_eqb (a_heap aA) A1) with [PName].
  cbn [filter tpred_eqb Bal]. cbn [pfold tpred_eqb Bal taccept].
  destruct (is_name x); reflexivity.
Qed.

Lemma aconsume_A2 x : aconsume aA A2 0 x = if is_operator x s_eq then OK (Some (A3, 0)) else OK None.
Proof.
  unfold aconsume. cbv zeta.
  change (dtrans tpred_eqb (a_heap aA) A2) with [POperator s_eq].
  cbn [filter tpred_eqb Bal]. cbn [pfold tpred_eqb Bal taccept].
  destruct (is_operator x s_eq); reflexivity.
Qed.

Lemma aconsume_A3 x : aconsume aA A3 0 x =
  if kwt x s_async then OK (Some (A4, 0)) else if is_symbol x lparen then OK (Some (AG, 1)) else OK None.
Proof.
  unfold aconsume. cbv zeta.
  change (dtrans tpred_eqb (a_heap aA) A3) with [PKeyword s_async; Bal].
  cbn [filter]. rewrite eqb_Bal_Bal. change (0 <? 0) with false.
  cbn [tpred_eqb Bal]. cbv iota. cbn [pfold]. rewrite eqb_Bal_Bal. cbn [tpred_eqb Bal taccept].
  fold Bal. fold (kwt x s_async). rewrite (bal_step 0 x (Z.le_refl 0)).
  destruct (kwt x s_async) eqn:E1.
  - rewrite (kw_not_symbol x s_async lparen E1), (kw_not_symbol x s_async rparen E1). reflexivity.
  - destruct (is_symbol x lparen); [reflexivity|]. destruct (is_symbol x rparen); reflexivity.
Qed.

Lemma aconsume_A4 x : aconsume aA A4 0 x = if is_symbol x lparen then OK (Some (AG, 1)) else OK None.
Proof.
  unfold aconsume. cbv zeta.
  change (dtrans tpred_eqb (a_heap aA) A4) with [Bal].
  cbn [filter]. rewrite eqb_Bal_Bal. change (0 <? 0) with false. cbv iota.
  cbn [pfold]. rewrite eqb_Bal_Bal. rewrite (bal_step 0 x (Z.le_refl 0)).
  destruct (is_symbol x lparen); [reflexivity|]. destruct (is_symbol x rparen); reflexivity.
Qed.

(* in the groups (d > 0) everything is consumed; between groups (d = 0) "(" opens the next
   group and "=>" ends the pattern *)
Lemma aconsume_AG d x : 0 <= d -> aconsume aA AG d x =
  if 0 <? d then
    OK (Some (AG, if is_symbol x lparen then d + 1 else if is_symbol x rparen then d - 1 else d))
  else if is_symbol x lparen then OK (Some (AG, 1))
  else if is_symbol x s_arrow then OK (Some (AF, 0)) else OK None.
Proof.
  intros Hd. unfold aconsume. cbv zeta.
  change (dtrans tpred_eqb (a_heap aA) AG) with [Bal; Arrow].
  cbn [filter]. rewrite eqb_Bal_Bal. change (tpred_eqb Arrow Bal) with false. cbv iota.
  destruct (Z.ltb_spec 0 d) as [Hp|Hz].
  - cbn [pfold]. rewrite eqb_Bal_Bal, (bal_step d x Hd).
    destruct (is_symbol x lparen); [reflexivity|].
    destruct (Z.ltb_spec 0 d) as [_|]; [|lia].
    destruct (is_symbol x rparen); reflexivity.
  - assert (d = 0) by lia. subst d.
    cbn [pfold]. rewrite eqb_Bal_Bal, (bal_step 0 x (Z.le_refl 0)).
    change (tpred_eqb Arrow Bal) with false. cbv iota.
    change (taccept Arrow x) with (is_symbol x s_arrow).
    destruct (is_symbol x lparen) eqn:El.
    + rewrite (symbol_excl x lparen s_arrow eq_refl El). reflexivity.
    + destruct (is_symbol x rparen) eqn:Er.
      * rewrite (symbol_excl x rparen s_arrow eq_refl Er). reflexivity.
      * change (0 <? 0) with false. cbv iota. destruct (is_symbol x s_arrow); reflexivity.
Qed.

Lemma arun_AF d n w : arun aA AF d n w = OK (Some n).
Proof. destruct w as [|x w]; reflexivity. Qed.

(* after the groups: the next token is "=>" *)
Definition arrow_at (w : list token) (k : nat) : option nat :=
  match nth_error w k with
  | Some x => if is_symbol x s_arrow then Some (S k) else None
  | None => None
  end.

Lemma arun_AG : forall w d n, 0 <= d ->
  arun aA AG d n w = OK (match arrow_at w (groups_len w d) with Some k => Some (n + k)%nat | None => None end).
Proof.
  induction w as [|x w IH]; intros d n Hd; [reflexivity|].
  cbn [arun groups_len]. rewrite (aconsume_AG d x Hd).
  destruct (Z.ltb_spec 0 d) as [Hp|Hz].
  - destruct (is_symbol x lparen); [|destruct (is_symbol x rparen)];
      rewrite IH by lia; unfold arrow_at; cbn [nth_error];
      match goal with |- context [nth_error w ?k] => destruct (nth_error w k) as [y|] end;
      try reflexivity; destruct (is_symbol y s_arrow); try reflexivity; f_equal; f_equal; lia.
  - assert (d = 0) by lia. subst d.
    destruct (is_symbol x lparen).
    + rewrite IH by lia. unfold arrow_at; cbn [nth_error].
      destruct (nth_error w (groups_len w 1)) as [y|]; [|reflexivity].
      destruct (is_symbol y s_arrow); [|reflexivity]. f_equal. f_equal. lia.
    + unfold arrow_at. cbn [nth_error]. destruct (is_symbol x s_arrow); [|reflexivity].
      rewrite arun_AF. f_equal. f_equal. lia.
Qed.

(* the tails of the pattern, as lengths *)
Definition omap (f : nat -> nat) (o : option nat) : option nat :=
  match o with Some k => Some (f k) | None => None end.

Definition arrow_groups (w : list token) : option nat :=
  match groups_opt w with Some k => arrow_at w k | None => None end.
Definition async_groups (w : list token) : option nat :=
  match w with
  | x :: r => if kwt x s_async then omap S (arrow_groups r) else arrow_groups w
  | [] => None
  end.
Definition eq_tail (w : list token) : option nat :=
  match w with
  | x :: r => if is_operator x s_eq then omap S (async_groups r) else None
  | [] => None
  end.
Definition name_tail (w : list token) : option nat :=
  match w with
  | x :: r => if is_name x then omap S (eq_tail r) else None
  | [] => None
  end.
Definition arrow_len (w : list token) : option nat :=
  match w with
  | x :: r => if kwt x s_const then omap S (name_tail r) else name_tail w
  | [] => None
  end.

Lemma arun_A4 n w : arun aA A4 0 n w = OK (omap (fun k => n + k)%nat (arrow_groups w)).
Proof.
  destruct w as [|x w]; [reflexivity|]. cbn [arun]. rewrite aconsume_A4.
  unfold arrow_groups, groups_opt. destruct (is_symbol x lparen) eqn:El; [|reflexivity].
  rewrite arun_AG by lia. cbn [groups_len]. rewrite El. change (0 <? 0) with false. cbv iota.
  unfold arrow_at. cbn [nth_error]. destruct (nth_error w (groups_len w 1)) as [y|]; [|reflexivity].
  destruct (is_symbol y s_arrow); [|reflexivity]. cbn [omap]. f_equal. f_equal. lia.
Qed.

Lemma arun_A3 n w : arun aA A3 0 n w = OK (omap (fun k => n + k)%nat (async_groups w)).
Proof.
  destruct w as [|x w]; [reflexivity|]. cbn [arun async_groups]. rewrite aconsume_A3.
  destruct (kwt x s_async) eqn:Ea.
  - rewrite arun_A4. destruct (arrow_groups w); [|reflexivity]. cbn [omap]. f_equal. f_equal. lia.
  - unfold arrow_groups, groups_opt. destruct (is_symbol x lparen) eqn:El; [|reflexivity].
    rewrite arun_AG by lia. cbn [groups_len]. rewrite El. change (0 <? 0) with false. cbv iota.
    unfold arrow_at. cbn [nth_error]. destruct (nth_error w (groups_len w 1)) as [y|]; [|reflexivity].
    destruct (is_symbol y s_arrow); [|reflexivity]. cbn [omap]. f_equal. f_equal. lia.
Qed.

Lemma arun_A2 n w : arun aA A2 0 n w = OK (omap (fun k => n + k)%nat (eq_tail w)).
Proof.
  destruct w as [|x w]; [reflexivity|]. cbn [arun eq_tail]. rewrite aconsume_A2.
  destruct (is_operator x s_eq); [|reflexivity].
  rewrite arun_A3. destruct (async_groups w); [|reflexivity]. cbn [omap]. f_equal. f_equal. lia.
Qed.

Lemma arun_A1 n w : arun aA A1 0 n w = OK (omap (fun k => n + k)%nat (name_tail w)).
Proof.
  destruct w as [|x w]; [reflexivity|]. cbn [arun name_tail]. rewrite aconsume_A1.
  destruct (is_name x); [|reflexivity].
  rewrite arun_A2. destruct (eq_tail w); [|reflexivity]. cbn [omap]. f_equal. f_equal. lia.
Qed.

Lemma arun_A0 w : arun aA A0 0 0 w = OK (arrow_len w).
Proof.
  destruct w as [|x w]; [reflexivity|]. cbn [arun arrow_len]. rewrite aconsume_A0.
  destruct (kwt x s_const) eqn:Ec.
  - rewrite arun_A1. destruct (name_tail w); reflexivity.
  - cbn [name_tail]. destruct (is_name x); [|reflexivity].
    rewrite arun_A2. destruct (eq_tail w); reflexivity.
Qed.

(* ---------- the specification's candidate, on the suffix ---------- *)
Lemma groups_arrow_spec (pre w : list token) (n : nat) :
  match groups_end (pre ++ w) (length pre) with
  | Some j => if sym_at (pre ++ w) j s_arrow then Some (n, S j) else None
  | None => None
  end = match arrow_groups w with Some k => Some (n, (length pre + k)%nat) | None => None end.
Proof.
  rewrite groups_end_opt. rewrite skipn_app, skipn_all, Nat.sub_diag. cbn [skipn app].
  unfold arrow_groups. destruct (groups_opt w) as [k|]; [|reflexivity].
  unfold sym_at, arrow_at. rewrite nth_error_app2 by lia.
  replace (length pre + k - length pre)%nat with k by lia.
  destruct (nth_error w k) as [y|]; [|reflexivity].
  destruct (is_symbol y s_arrow); [|reflexivity]. f_equal. f_equal. lia.
Qed.

Lemma cand_arrow_len w : cand_end_of cand_arrow w 0 = arrow_len w.
Proof.
  unfold cand_end_of, cand_arrow, kw_at, name_at, op_at.
  destruct w as [|t w]; [reflexivity|]. cbn [nth_error arrow_len]. unfold kwt.
  destruct (is_keyword t && pystr_eqb (t_value t) s_const) eqn:Ec.
  - destruct w as [|u w]; cbn [nth_error name_tail]; [reflexivity|].
    destruct (is_name u); cbn [andb]; [|reflexivity].
    destruct w as [|e w]; cbn [nth_error eq_tail]; [reflexivity|].
    destruct (is_operator e s_eq); [|reflexivity].
    destruct w as [|y w]; cbn [nth_error async_groups]; [reflexivity|]. unfold kwt.
    destruct (is_keyword y && pystr_eqb (t_value y) s_async).
    + pose proof (groups_arrow_spec [t; u; e; y] w 1) as H; cbn [app length] in H; rewrite H; clear H. destruct (arrow_groups w); reflexivity.
    + pose proof (groups_arrow_spec [t; u; e] (y :: w) 1) as H; cbn [app length] in H; rewrite H; clear H. destruct (arrow_groups (y :: w)); reflexivity.
  - cbn [nth_error name_tail].
    destruct (is_name t); cbn [andb]; [|reflexivity].
    destruct w as [|e w]; cbn [nth_error eq_tail]; [reflexivity|].
    destruct (is_operator e s_eq); [|reflexivity].
    destruct w as [|y w]; cbn [nth_error async_groups]; [reflexivity|]. unfold kwt.
    destruct (is_keyword y && pystr_eqb (t_value y) s_async).
    + pose proof (groups_arrow_spec [t; e; y] w 0) as H; cbn [app length] in H; rewrite H; clear H. destruct (arrow_groups w); reflexivity.
    + pose proof (groups_arrow_spec [t; e] (y :: w) 0) as H; cbn [app length] in H; rewrite H; clear H. destruct (arrow_groups (y :: w)); reflexivity.
Qed.

Lemma groups_end_cons t ts p :
  groups_end (t :: ts) (S p) = match groups_end ts p with Some j => Some (S j) | None => None end.
Proof.
  unfold groups_end. change (sym_at (t :: ts) (S p) lparen) with (sym_at ts p lparen).
  destruct (sym_at ts p lparen); reflexivity.
Qed.

Ltac shift_blocks t ts :=
  repeat match goal with
  | |- context [kw_at (t :: ts) (S ?k) ?s] => change (kw_at (t :: ts) (S k) s) with (kw_at ts k s)
  | |- context [name_at (t :: ts) (S ?k)] => change (name_at (t :: ts) (S k)) with (name_at ts k)
  | |- context [op_at (t :: ts) (S ?k) ?s] => change (op_at (t :: ts) (S k) s) with (op_at ts k s)
  | |- context [sym_at (t :: ts) (S ?k) ?s] => change (sym_at (t :: ts) (S k) s) with (sym_at ts k s)
  | |- context [groups_end (t :: ts) (S ?k)] => rewrite (groups_end_cons t ts k)
  end.

Lemma shift_inv_arrow : shift_inv cand_arrow.
Proof.
  split.
  - intros t ts i. unfold cand_arrow. shift_blocks t ts.
    destruct (kw_at ts i s_const); shift_blocks t ts;
      (match goal with |- context [if ?b then _ else None] => destruct b end; [|reflexivity]);
      (match goal with |- context [if ?b then _ else _] => destruct b end; shift_blocks t ts);
      (match goal with |- context [groups_end ts ?k] => destruct (groups_end ts k) as [j|] end; [|reflexivity]);
      shift_blocks t ts; destruct (sym_at ts j s_arrow); reflexivity.
  - intros i. unfold cand_arrow, kw_at, name_at. rewrite !nth_error_nil_any. reflexivity.
Qed.

Theorem greedy_aA ts i : greedy tpred_eqb taccept_st aA ts i = OK (cand_end_of cand_arrow ts i).
Proof.
  apply (greedy_of_arun aA cand_arrow okheap_aA shift_inv_arrow).
  intros w. change (a_start aA) with A0. rewrite arun_A0, cand_arrow_len. reflexivity.
Qed.

Lemma name_index_arrow ts i n j : cand_arrow ts i = Some (n, j) -> name_index ts i j = OK n.
Proof.
  unfold cand_arrow. destruct (kw_at ts i s_const) eqn:Ec.
  - destruct (name_at ts (S i)) eqn:En; [|discriminate]. cbn [andb].
    destruct (op_at ts (S (S i)) s_eq); [|discriminate].
    destruct (groups_end ts _) as [j'|] eqn:Eg; [|discriminate].
    destruct (sym_at ts j' s_arrow); [|discriminate]. intros [= <- <-].
    apply groups_end_lt in Eg.
    assert (S (S (S i)) < j')%nat by (destruct (kw_at ts (S (S (S i))) s_async); lia).
    rewrite (name_index_kw ts i (S j') s_const Ec) by lia.
    apply name_index_0; [exact En | lia].
  - destruct (name_at ts i) eqn:En; [|discriminate]. cbn [andb].
    destruct (op_at ts (S i) s_eq); [|discriminate].
    destruct (groups_end ts _) as [j'|] eqn:Eg; [|discriminate].
    destruct (sym_at ts j' s_arrow); [|discriminate]. intros [= <- <-].
    apply groups_end_lt in Eg.
    assert (S (S i) < j')%nat by (destruct (kw_at ts (S (S i)) s_async); lia).
    apply name_index_0; [exact En | lia].
Qed.

Theorem arrow_headers_spec : forall ts : list token,
  get_headers ts arrow_pattern (Some cfamily_followup) = OK (shape_headers cand_arrow follow_brace ts).
Proof.
  intros ts.
  apply (get_headers_shape_some arrow_pattern cfamily_followup aA af cand_arrow follow_brace ts
           to_dfa_arrow to_dfa_followup).
  - apply greedy_aA.
  - apply follow_brace_decides.
  - apply name_index_arrow.
Qed.

Print Assumptions arrow_headers_spec.
