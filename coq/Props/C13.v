(* C13 — the pattern engine implements regular-expression semantics.
   Statements only; proofs are in Gsm/{ClosureProofs,NfaProofs,DfaProofs}.v
   about the structural model Gsm/{Regex,Nfa,Dfa}.v (tie H: differential
   correspondence with codelimit.common.gsm on every run). *)
From Verif Require Import Base Regex Nfa Dfa ClosureProofs NfaProofs DfaProofs.

Section C13.
  Context {P I : Type}.
  Variable peqb : P -> P -> bool.
  Hypothesis peqb_spec : forall p q, peqb p q = true <-> p = q.
  Variable accepts : P -> I -> bool.

  (* the non-deterministic matcher decides language membership, for any predicates *)
  Theorem C13_nfa_match : forall (e : expr P) w, wf e = true ->
    (exists b, nfa_match accepts e w = OK b) /\
    (nfa_match accepts e w = OK true <-> lang accepts e w).
  Proof. exact (C13_nfa_match accepts). Qed.

  (* the deterministic matcher: full match <-> membership, never an error, for pairwise-disjoint predicates *)
  Theorem C13_match : forall (e : expr P) w, wf e = true -> disjoint accepts (preds_seq e) ->
    (exists b, match_ peqb (accept_st accepts) e w = OK b) /\
    (match_ peqb (accept_st accepts) e w = OK true <-> lang accepts e w).
  Proof. exact (C13_match peqb peqb_spec accepts). Qed.

  (* prefix matching reports exactly the shortest non-empty matching prefix *)
  Theorem C13_starts_with : forall (e : expr P) w, wf e = true -> disjoint accepts (preds_seq e) ->
    (exists r, starts_with peqb (accept_st accepts) e w = OK r) /\
    (forall k, starts_with peqb (accept_st accepts) e w = OK (Some k) <->
       (1 <= k <= length w)%nat /\ lang accepts e (firstn k w) /\
       forall j, (1 <= j < k)%nat -> ~ lang accepts e (firstn j w)).
  Proof. exact (C13_starts_with peqb peqb_spec accepts). Qed.
End C13.

(* building a matcher terminates for every pattern: the closure's fuel always suffices,
   also on epsilon cycles (repetitions of nullable patterns) *)
Theorem C13_closure_total : forall P (h : heap P) l, exists v, closure h l = OK v.
Proof. exact (@closure_total). Qed.
Theorem C13_closure_is_reachability : forall P (h : heap P) l v, closure h l = OK v ->
  (forall a, In a v <-> exists s, In s l /\ eps_reach h s a) /\ sorted v.
Proof. exact (@closure_spec). Qed.
Theorem C13_build_total : forall P (e : expr P), wf e = true -> exists h s a, expression_to_nfa e = OK (h, (s, a)).
Proof. exact (@build_total). Qed.
Theorem C13_build_dfa_total : forall P (e : expr P), wf e = true -> exists a, to_dfa e = OK a.
Proof. exact (@C13_build_dfa_total). Qed.

Print Assumptions C13_nfa_match.
Print Assumptions C13_match.
Print Assumptions C13_starts_with.
Print Assumptions C13_closure_total.
Print Assumptions C13_closure_is_reachability.
Print Assumptions C13_build_total.
Print Assumptions C13_build_dfa_total.

(* non-vacuity: a well-formed pattern with a repetition of a nullable pattern, over disjoint Identity atoms *)
Open Scope Z_scope.
Example C13_example :
  wf [Atom 1; Star [Opt [Atom 2]]; Plus [Union [Atom 3] [Atom 1; Atom 2]]] = true /\
  match_ id_peqb id_accept_st [Atom 1; Star [Opt [Atom 2]]; Plus [Union [Atom 3] [Atom 1; Atom 2]]] [1; 2; 2; 1; 2; 3] = OK true /\
  starts_with id_peqb id_accept_st [Atom 1; Star [Opt [Atom 2]]; Plus [Union [Atom 3] [Atom 1; Atom 2]]] [1; 2; 3; 3] = OK (Some 3%nat).
Proof. vm_compute. repeat split. Qed.
