(* FsProofsCache.v — C09 / C10: cache-assisted scans equal fresh scans over any
   edit history; damaged, missing, foreign-version or partial caches never
   break or taint the next scan. *)
From Verif Require Import Base Codebase Exclude GenScan FsScan Cache CodebaseProofsStr.
Open Scope Z_scope.

(* ---------- path_eqb decides equality; cache look-up ---------- *)
Lemma path_eqb_eq a : forall b, path_eqb a b = true <-> a = b.
Proof.
  induction a as [|x a IH]; intros [|y b]; cbn [path_eqb]; split; intros H;
    try discriminate; try reflexivity.
  - apply andb_true_iff in H. destruct H as [H1 H2].
    apply pystr_eqb_eq in H1. apply IH in H2. subst. reflexivity.
  - inversion H; subst. apply andb_true_iff. split; [apply pystr_eqb_refl|apply IH; reflexivity].
Qed.
Lemma path_eqb_refl a : path_eqb a a = true.
Proof. apply path_eqb_eq. reflexivity. Qed.

Lemma cache_get_In ca p v : cache_get ca p = Some v -> In (p, v) ca.
Proof.
  induction ca as [|[q w] r IH]; cbn [cache_get]; [discriminate|].
  destruct (cache_get r p) eqn:E.
  - intros H. inversion H; subst. right. apply IH. reflexivity.
  - destruct (path_eqb p q) eqn:Ep; [|discriminate].
    intros H. inversion H; subst. apply path_eqb_eq in Ep. subst. left. reflexivity.
Qed.

(* ---------- usable_cache: the version guard ---------- *)
Lemma usable_cache_Some cf es : usable_cache cf = Some es <-> cf = CDoc tool_version es.
Proof.
  split.
  - destruct cf as [| |v es']; cbn [usable_cache]; try discriminate.
    destruct (pystr_eqb v tool_version) eqn:E; [|discriminate].
    intros H. inversion H; subst. apply pystr_eqb_eq in E. subst. reflexivity.
  - intros ->. cbn [usable_cache]. rewrite pystr_eqb_refl. reflexivity.
Qed.

(* B6, first half *)
Theorem C09_version_guard v es : v <> tool_version -> usable_cache (CDoc v es) = None.
Proof. intros H. cbn [usable_cache]. rewrite (pystr_eqb_neq _ _ H). reflexivity. Qed.

Lemma usable_cache_tool es : usable_cache (CDoc tool_version es) = Some es.
Proof. apply usable_cache_Some. reflexivity. Qed.

Section CacheProofs.
  Variable supported : pystr -> option pystr.
  Variable analyze : pystr -> Z -> analysis.

  Notation scan_files := (scan_files supported analyze).
  Notation fresh_scan := (fresh_scan supported analyze).
  Notation step := (step supported analyze).
  Notation run := (run supported analyze).

  (* every entry is the analysis of the content with that checksum under the
     language of that path name *)
  Definition entries_ok (es : cache) : Prop :=
    forall p ck res, In (p, (ck, res)) es ->
      forall lang, supported (last p []) = Some lang -> res = analyze lang ck.

  Definition CacheOK (cf : cache_file) : Prop :=
    forall es, usable_cache cf = Some es -> forall p ck res, In (p, (ck, res)) es ->
      forall lang, supported (last p []) = Some lang -> res = analyze lang ck.

  Lemma CacheOK_entries cf : CacheOK cf <-> (forall es, usable_cache cf = Some es -> entries_ok es).
  Proof. reflexivity. Qed.

  Lemma CacheOK_tool es : CacheOK (CDoc tool_version es) <-> entries_ok es.
  Proof.
    split.
    - intros H. exact (H es (usable_cache_tool es)).
    - intros H es' Hu. rewrite usable_cache_tool in Hu. inversion Hu; subst. exact H.
  Qed.

  Lemma CacheOK_unusable cf : usable_cache cf = None -> CacheOK cf.
  Proof. intros H es Hu. rewrite H in Hu. discriminate. Qed.

  Definition good_op (o : op) : Prop :=
    match o with
    | ReplaceCache v es => v <> tool_version \/ entries_ok es
    | _ => True
    end.

  Lemma entries_ok_incl es es' : incl es' es -> entries_ok es -> entries_ok es'.
  Proof. intros Hi H p ck res Hin. apply (H p ck res). apply Hi. exact Hin. Qed.

  (* ---------- one file ---------- *)
  Lemma scan_one_None (f : list pystr * Z) :
    scan_one supported analyze None f =
    (mkSentry (fst f) (snd f)
       (analyze (match supported (last (fst f) []) with Some l => l | None => [] end) (snd f)), true).
  Proof. reflexivity. Qed.

  Lemma scan_one_good es (f : list pystr * Z) :
    entries_ok es -> supported (last (fst f) []) <> None ->
    fst (scan_one supported analyze (Some es) f) = fst (scan_one supported analyze None f).
  Proof.
    intros Hok Hs. unfold scan_one.
    destruct (supported (last (fst f) [])) as [lang|] eqn:El; [|congruence].
    destruct (cache_get es (fst f)) as [[ck res]|] eqn:Eg; [|reflexivity].
    destruct (ck =? snd f) eqn:Ec; [|reflexivity].
    apply Z.eqb_eq in Ec. apply cache_get_In in Eg. cbn [fst].
    f_equal. subst ck. eapply Hok; eassumption.
  Qed.

  Lemma qualifies_supported patterns (f : list pystr * Z) :
    qualifies supported patterns f = true -> supported (last (fst f) []) <> None.
  Proof.
    unfold qualifies. intros H. apply andb_true_iff in H. destruct H as [_ H].
    destruct (supported (last (fst f) [])); [discriminate|discriminate].
  Qed.

  (* ---------- a whole scan ---------- *)
  Lemma scan_files_good st es : entries_ok es -> map fst (scan_files st (Some es)) = fresh_scan st.
  Proof.
    intros Hok. unfold Cache.fresh_scan, Cache.scan_files. rewrite !map_map.
    apply map_ext_in. intros f Hf. apply filter_In in Hf. destruct Hf as [_ Hq].
    apply scan_one_good; [exact Hok|]. eapply qualifies_supported; exact Hq.
  Qed.

  (* B3 *)
  Theorem scan_with_good_cache st :
    CacheOK (st_cache st) ->
    map fst (scan_files st (usable_cache (st_cache st))) = fresh_scan st.
  Proof.
    intros H. destruct (usable_cache (st_cache st)) as [es|] eqn:Eu.
    - apply scan_files_good. exact (H es Eu).
    - reflexivity.
  Qed.

  Lemma fresh_entries_ok st : entries_ok (to_cache (fresh_scan st)).
  Proof.
    intros p ck res Hin lang Hl. unfold to_cache, Cache.fresh_scan, Cache.scan_files in Hin.
    rewrite !map_map in Hin. apply in_map_iff in Hin. destruct Hin as [f [Hf _]].
    rewrite scan_one_None in Hf. cbn in Hf. inversion Hf; subst.
    rewrite Hl. reflexivity.
  Qed.

  (* so putting back the cache written by a scan of ANY earlier (or other) state
     of the file system -- a stale cache -- or any part of it, is a good_op *)
  Lemma good_op_stale_cache st' es :
    incl es (to_cache (fresh_scan st')) -> good_op (ReplaceCache tool_version es).
  Proof. intros Hi. right. eapply entries_ok_incl; [exact Hi|apply fresh_entries_ok]. Qed.

  Lemma scan_files_None_flags st : Forall (fun eb => snd eb = true) (scan_files st None).
  Proof.
    unfold Cache.scan_files. apply Forall_forall. intros eb H. apply in_map_iff in H.
    destruct H as [f [Hf _]]. subst eb. reflexivity.
  Qed.

  Lemma step_Scan st :
    step st Scan =
    (mkState (st_files st) (st_excludes st)
       (CDoc tool_version (to_cache (map fst (scan_files st (usable_cache (st_cache st)))))),
     scan_files st (usable_cache (st_cache st))).
  Proof. reflexivity. Qed.

  (* ---------- the invariant ---------- *)
  (* B1 *)
  Theorem CacheOK_init : CacheOK (st_cache init).
  Proof. apply CacheOK_unusable. reflexivity. Qed.

  (* C2, first half: whatever the cache was (CacheOK assumed when usable), after
     Scan it is the complete cache of the fresh scan *)
  Theorem C10_cache_after_scan_is_complete st :
    CacheOK (st_cache st) ->
    st_cache (fst (step st Scan)) = CDoc tool_version (to_cache (fresh_scan st)) /\
    CacheOK (st_cache (fst (step st Scan))).
  Proof.
    intros H. rewrite step_Scan. cbn [fst st_cache].
    rewrite (scan_with_good_cache st H). split; [reflexivity|].
    apply CacheOK_tool. apply fresh_entries_ok.
  Qed.

  (* B2 *)
  Theorem CacheOK_step st o :
    good_op o -> CacheOK (st_cache st) -> CacheOK (st_cache (fst (step st o))).
  Proof.
    intros Hg H. destruct o; try (cbn; exact H).
    - (* Rename *) cbn. destruct (fs_get (st_files st) a); cbn; exact H.
    - (* Swap *) cbn. destruct (fs_get (st_files st) a); [destruct (fs_get (st_files st) b)|]; cbn; exact H.
    - (* ReplaceCache *) cbn. cbn in Hg. destruct Hg as [Hv|Hes].
      + apply CacheOK_unusable. apply C09_version_guard. exact Hv.
      + intros es' Hu. apply usable_cache_Some in Hu. inversion Hu; subst. exact Hes.
    - (* DropCacheEntries *) cbn. destruct (st_cache st) as [| |v es] eqn:Ec; cbn; try (rewrite Ec; exact H).
      intros es' Hu. apply usable_cache_Some in Hu. inversion Hu; subst.
      intros p ck res Hin. apply filter_In in Hin. destruct Hin as [Hin _].
      eapply H; [apply usable_cache_tool|exact Hin].
    - (* Damage *) apply CacheOK_unusable. reflexivity.
    - (* RemoveCache *) apply CacheOK_unusable. reflexivity.
    - (* Scan *) apply C10_cache_after_scan_is_complete. exact H.
  Qed.

  Lemma run_cons st o r :
    run st (o :: r) =
    (fst (run (fst (step st o)) r),
     match o with Scan => snd (step st o) :: snd (run (fst (step st o)) r)
               | _ => snd (run (fst (step st o)) r) end).
  Proof.
    cbn [Cache.run]. destruct (step st o) as [st' out]. cbn [fst snd].
    destruct (run st' r) as [st'' outs]. reflexivity.
  Qed.

  Lemma run_app_fst st ops1 : forall ops2,
    fst (run st (ops1 ++ ops2)) = fst (run (fst (run st ops1)) ops2).
  Proof.
    revert st. induction ops1 as [|o r IH]; intros st ops2; [reflexivity|].
    rewrite <- app_comm_cons, !run_cons. cbn [fst]. apply IH.
  Qed.

  Lemma CacheOK_run ops : forall st,
    Forall good_op ops -> CacheOK (st_cache st) -> CacheOK (st_cache (fst (run st ops))).
  Proof.
    induction ops as [|o r IH]; intros st Hg H; [exact H|].
    inversion Hg; subst. rewrite run_cons. cbn [fst]. apply IH; [assumption|].
    apply CacheOK_step; assumption.
  Qed.

  (* C2, second half: faults interleaved with scans always recover *)
  Theorem C10_fault_sequences ops :
    Forall good_op ops -> CacheOK (st_cache (fst (run init ops))).
  Proof. intros H. apply CacheOK_run; [exact H|apply CacheOK_init]. Qed.

  (* ---------- B4 ---------- *)
  (* the fresh scans of the file system at the moment of every Scan of the history *)
  Fixpoint fresh_outs (st : fstate) (ops : list op) : list (list sentry) :=
    match ops with
    | [] => []
    | o :: r =>
        match o with
        | Scan => fresh_scan st :: fresh_outs (fst (step st o)) r
        | _ => fresh_outs (fst (step st o)) r
        end
    end.

  Lemma C09_equal_from ops : forall st,
    Forall good_op ops -> CacheOK (st_cache st) ->
    map (map fst) (snd (run st ops)) = fresh_outs st ops.
  Proof.
    induction ops as [|o r IH]; intros st Hg H; [reflexivity|].
    inversion Hg; subst. rewrite run_cons. cbn [snd fresh_outs].
    assert (Hn : CacheOK (st_cache (fst (step st o)))) by (apply CacheOK_step; assumption).
    specialize (IH _ H3 Hn).
    destruct o; try exact IH.
    cbn [map]. rewrite IH. f_equal. rewrite step_Scan. cbn [snd].
    apply scan_with_good_cache. exact H.
  Qed.

  (* the outputs of all the Scans of a history are the fresh scans at those moments *)
  Theorem C09_equal_all ops :
    Forall good_op ops -> map (map fst) (snd (run init ops)) = fresh_outs init ops.
  Proof. intros H. apply C09_equal_from; [exact H|apply CacheOK_init]. Qed.

  (* the same, for each individual Scan *)
  Theorem C09_equal ops ops1 ops2 :
    ops = ops1 ++ Scan :: ops2 -> Forall good_op ops ->
    let st := fst (run init ops1) in
    map fst (snd (step st Scan)) = fresh_scan st.
  Proof.
    intros -> Hg st. apply Forall_app in Hg. destruct Hg as [Hg1 _].
    rewrite step_Scan. cbn [snd]. apply scan_with_good_cache.
    apply C10_fault_sequences. exact Hg1.
  Qed.

  (* fresh_scan looks at the files and the exclusions only, never at the cache *)
  Lemma fresh_scan_cache_irrelevant fs xs cf1 cf2 :
    fresh_scan (mkState fs xs cf1) = fresh_scan (mkState fs xs cf2).
  Proof. reflexivity. Qed.

  (* ---------- B5 ---------- *)
  Lemma scan_one_reused c (f : list pystr * Z) e :
    scan_one supported analyze c f = (e, false) ->
    exists es res, c = Some es /\ In (fst f, (snd f, res)) es /\
                   e = mkSentry (fst f) (snd f) res.
  Proof.
    unfold scan_one. destruct c as [es|]; [|discriminate].
    destruct (cache_get es (fst f)) as [[ck res]|] eqn:Eg; [|discriminate].
    destruct (ck =? snd f) eqn:Ec; [|discriminate].
    intros H. inversion H; subst. apply Z.eqb_eq in Ec. subst ck.
    apply cache_get_In in Eg. exists es, res. auto.
  Qed.

  Theorem C09_reuse_only_unchanged st e :
    In (e, false) (snd (step st Scan)) ->
    exists es,
      st_cache st = CDoc tool_version es /\
      In (se_path e, (se_checksum e, se_result e)) es /\
      In (se_path e, se_checksum e) (st_files st).
  Proof.
    rewrite step_Scan. cbn [snd]. unfold Cache.scan_files. intros H.
    apply in_map_iff in H. destruct H as [f [Hf Hin]].
    apply scan_one_reused in Hf. destruct Hf as [es [res [Hu [Hes He]]]].
    apply usable_cache_Some in Hu. exists es. subst e. cbn.
    split; [exact Hu|]. split; [exact Hes|].
    apply filter_In in Hin. destruct Hin as [Hin _]. apply filter_In in Hin.
    destruct Hin as [Hin _]. destruct f; exact Hin.
  Qed.

  (* ---------- C1 ---------- *)
  Lemma tolerant_unusable st :
    st_cache st = CMissing \/ st_cache st = CGarbage \/
    (exists v es, st_cache st = CDoc v es /\ v <> tool_version) ->
    usable_cache (st_cache st) = None.
  Proof.
    intros [H|[H|[v [es [H Hv]]]]]; rewrite H; [reflexivity|reflexivity|].
    apply C09_version_guard. exact Hv.
  Qed.

  Theorem C10_tolerant st :
    st_cache st = CMissing \/ st_cache st = CGarbage \/
    (exists v es, st_cache st = CDoc v es /\ v <> tool_version) ->
    let '(st', out) := step st Scan in
    map fst out = fresh_scan st /\
    Forall (fun eb => snd eb = true) out /\
    st_cache st' = CDoc tool_version (to_cache (fresh_scan st)).
  Proof.
    intros H. apply tolerant_unusable in H. rewrite step_Scan, H.
    split; [reflexivity|]. split; [apply scan_files_None_flags|reflexivity].
  Qed.

  (* ---------- B6, second half ---------- *)
  Theorem C09_other_version_rescans st v es :
    v <> tool_version ->
    let st1 := fst (step st (ReplaceCache v es)) in
    let '(st2, out) := step st1 Scan in
    map fst out = fresh_scan st /\
    Forall (fun eb => snd eb = true) out /\
    st_cache st2 = CDoc tool_version (to_cache (fresh_scan st)).
  Proof.
    intros Hv st1.
    assert (Hf : fresh_scan st = fresh_scan st1) by reflexivity.
    rewrite Hf. apply C10_tolerant. right. right. exists v, es. split; [reflexivity|exact Hv].
  Qed.

  (* and a partial cache (entries dropped from a good one) is harmless too *)
  Theorem C10_partial_cache st ps :
    CacheOK (st_cache st) ->
    let st1 := fst (step st (DropCacheEntries ps)) in
    map fst (snd (step st1 Scan)) = fresh_scan st /\
    st_cache (fst (step st1 Scan)) = CDoc tool_version (to_cache (fresh_scan st)).
  Proof.
    intros H st1.
    assert (H1 : CacheOK (st_cache st1)) by (apply CacheOK_step; [exact I|exact H]).
    assert (Hf : fresh_scan st = fresh_scan st1).
    { unfold st1. cbn. destruct (st_cache st); reflexivity. }
    rewrite Hf. split.
    - rewrite step_Scan. cbn [snd]. apply scan_with_good_cache. exact H1.
    - apply C10_cache_after_scan_is_complete. exact H1.
  Qed.
End CacheProofs.
