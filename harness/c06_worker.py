"""Sub-process of the C06 check: analyse the given files in the given order (each `reps` times) in ONE process
and print a digest per file.  Run under different PYTHONHASHSEED values."""
import hashlib
import json
import os
import sys
import warnings

warnings.simplefilter("ignore")
sys.path.insert(0, os.environ.get("VERIF_REPO", "/repo"))
sys.path.insert(0, os.path.dirname(os.path.abspath(__file__)))
import lang_common as LC  # noqa: E402


def main():
    spec = json.load(sys.stdin)
    out = {}
    for lang, path, reps in spec["items"]:
        with open(path, encoding="utf8", errors="surrogateescape") as f:
            text = f.read()
        res = []
        for _ in range(reps):
            r = LC.guarded(lambda: LC.impl_scan(lang, text))
            res.append(hashlib.md5(json.dumps(r).encode()).hexdigest())
        out.setdefault(path, []).extend(res)
    print(json.dumps(out))


if __name__ == "__main__":
    main()
