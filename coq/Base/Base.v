(* Base.v — shared vocabulary of every model: Python-like values, errors,
   the output encoding used by the correspondence check, stable sorts,
   decimal formatting.  Definitions only; proofs live in BaseProofs.v. *)
From Coq Require Export List ZArith Bool Arith Lia.
Export ListNotations.
Open Scope Z_scope.

(* ---------- strings: lists of Unicode code points ---------- *)
Definition pystr := list Z.

Fixpoint pystr_eqb (a b : pystr) : bool :=
  match a, b with
  | [], [] => true
  | x :: a', y :: b' => (x =? y) && pystr_eqb a' b'
  | _, _ => false
  end.

Fixpoint starts_with_str (pre s : pystr) : bool :=
  match pre, s with
  | [], _ => true
  | x :: p', y :: s' => (x =? y) && starts_with_str p' s'
  | _ :: _, [] => false
  end.

(* ---------- errors ---------- *)
Inductive errkind :=
| IndexError | StopIteration | ValueErrorAmbiguous | ValueErrorPath
| KeyError | DecodeError | Recursion | OutOfFuel | JsonError.

Inductive res (A : Type) := OK (a : A) | Err (k : errkind).
Arguments OK {A} a.
Arguments Err {A} k.

Definition bind {A B} (r : res A) (f : A -> res B) : res B :=
  match r with OK a => f a | Err k => Err k end.
Notation "'do' x <- r ; k" := (bind r (fun x => k))
  (at level 200, x pattern, r at level 100, k at level 200).

Definition errcode (k : errkind) : Z :=
  match k with
  | IndexError => 1 | StopIteration => 2 | ValueErrorAmbiguous => 3
  | ValueErrorPath => 4 | KeyError => 5 | DecodeError => 6
  | Recursion => 7 | OutOfFuel => 8 | JsonError => 9
  end.

(* ---------- canonical output trees (correspondence check) ---------- *)
Inductive tree := L (z : Z) | T (l : list tree).

Fixpoint tree_eqb (a b : tree) {struct a} : bool :=
  match a, b with
  | L x, L y => x =? y
  | T xs, T ys =>
      (fix go (xs ys : list tree) {struct xs} : bool :=
         match xs, ys with
         | [], [] => true
         | x :: xs', y :: ys' => tree_eqb x y && go xs' ys'
         | _, _ => false
         end) xs ys
  | _, _ => false
  end.

Definition enc_Z (z : Z) : tree := L z.
Definition enc_nat (n : nat) : tree := L (Z.of_nat n).
Definition enc_bool (b : bool) : tree := L (if b then 1 else 0).
Definition enc_str (s : pystr) : tree := T (map L s).
Definition enc_list {A} (f : A -> tree) (l : list A) : tree := T (map f l).
Definition enc_option {A} (f : A -> tree) (o : option A) : tree :=
  match o with Some a => T [f a] | None => T [] end.
Definition enc_pair {A B} (f : A -> tree) (g : B -> tree) (p : A * B) : tree :=
  T [f (fst p); g (snd p)].
Definition enc_res {A} (f : A -> tree) (r : res A) : tree :=
  match r with OK a => T [L 0; f a] | Err k => T [L 1; L (errcode k)] end.

(* indices (0-based) of the cases whose model output differs from the
   implementation's recorded output *)
Fixpoint mismatches_from (i : nat) (l : list (tree * tree)) : list nat :=
  match l with
  | [] => []
  | (a, b) :: l' =>
      if tree_eqb a b then mismatches_from (S i) l' else i :: mismatches_from (S i) l'
  end.
Definition mismatches := mismatches_from 0.

(* ---------- list helpers ---------- *)
Fixpoint upd {A} (n : nat) (x : A) (l : list A) : list A :=
  match l, n with
  | [], _ => []
  | _ :: t, O => x :: t
  | h :: t, S n' => h :: upd n' x t
  end.

Definition nthZ (n : nat) (l : list Z) : Z := nth n l 0.

Definition sumZ (l : list Z) : Z := fold_left Z.add l 0.

Fixpoint nth_res {A} (n : nat) (l : list A) : res A :=
  match l, n with
  | [], _ => Err IndexError
  | h :: _, O => OK h
  | _ :: t, S n' => nth_res n' t
  end.

Definition countb {A} (f : A -> bool) (l : list A) : Z :=
  Z.of_nat (length (filter f l)).

(* stable insertion sorts = CPython's sorted(key=..) / sorted(key=.., reverse=True):
   reverse=True keeps the original order of equal keys *)
Section Sorts.
  Context {A : Type} (key : A -> Z).
  Fixpoint insert_asc (x : A) (l : list A) : list A :=
    match l with
    | [] => [x]
    | y :: t => if key x <? key y then x :: l else y :: insert_asc x t
    end.
  (* insert x AFTER all elements with key <= key x (x came later in the input) *)
  Fixpoint insert_desc (x : A) (l : list A) : list A :=
    match l with
    | [] => [x]
    | y :: t => if key y <? key x then x :: l else y :: insert_desc x t
    end.
  (* fold from the left, inserting each later element after its equals *)
  Definition sort_asc (l : list A) : list A :=
    fold_left (fun acc x => insert_asc x acc) l [].
  Definition sort_desc (l : list A) : list A :=
    fold_left (fun acc x => insert_desc x acc) l [].
End Sorts.

(* lexicographic (line, column) keys *)
Section Sorts2.
  Context {A : Type} (k1 k2 : A -> Z).
  Definition lt2 (x y : A) : bool :=
    (k1 x <? k1 y) || ((k1 x =? k1 y) && (k2 x <? k2 y)).
  Fixpoint insert_asc2 (x : A) (l : list A) : list A :=
    match l with
    | [] => [x]
    | y :: t => if lt2 x y then x :: l else y :: insert_asc2 x t
    end.
  Fixpoint insert_desc2 (x : A) (l : list A) : list A :=
    match l with
    | [] => [x]
    | y :: t => if lt2 y x then x :: l else y :: insert_desc2 x t
    end.
  Definition sort_asc2 (l : list A) : list A :=
    fold_left (fun acc x => insert_asc2 x acc) l [].
  Definition sort_desc2 (l : list A) : list A :=
    fold_left (fun acc x => insert_desc2 x acc) l [].
End Sorts2.

(* ---------- decimal formatting (C locale: "%n" == "%d") ---------- *)
Fixpoint digits_fuel (fuel : nat) (n : Z) (acc : pystr) : pystr :=
  match fuel with
  | O => acc
  | S f => if n <? 10 then (48 + n) :: acc
           else digits_fuel f (n / 10) ((48 + n mod 10) :: acc)
  end.
Definition digits (n : Z) : pystr :=      (* n >= 0 *)
  digits_fuel (S (Z.to_nat (Z.log2 n))) n [].
Definition fmt_d (z : Z) : pystr :=
  if z <? 0 then 45 :: digits (- z) else digits z.
Definition fmt_n := fmt_d.
Definition fmt_plus_n (z : Z) : pystr :=
  if z <? 0 then 45 :: digits (- z) else 43 :: digits z.
(* f"{x:3}": right-aligned in width 3 *)
Definition fmt_w3 (z : Z) : pystr :=
  let s := fmt_d z in
  repeat 32 (3 - length s)%nat ++ s.

(* ---------- domain records shared by several models ---------- *)
Record Location := mkLoc { loc_line : Z; loc_column : Z }.
Record Measurement := mkMeas
  { m_unit_name : pystr; m_start : Location; m_end : Location; m_value : Z }.
Record FileEntry := mkEntry
  { e_path : pystr; e_checksum : pystr; e_language : pystr; e_loc : Z;
    e_profile : list Z; e_measurements : list Measurement }.
Record LanguageTotals := mkLT
  { lt_language : pystr; lt_files : Z; lt_loc : Z; lt_functions : Z;
    lt_hard_to_maintain : Z; lt_unmaintainable : Z }.

Definition enc_loc (l : Location) : tree := T [L (loc_line l); L (loc_column l)].
Definition enc_meas (m : Measurement) : tree :=
  T [enc_str (m_unit_name m); enc_loc (m_start m); enc_loc (m_end m); L (m_value m)].
Definition enc_lt (t : LanguageTotals) : tree :=
  T [enc_str (lt_language t); L (lt_files t); L (lt_loc t); L (lt_functions t);
     L (lt_hard_to_maintain t); L (lt_unmaintainable t)].
Definition enc_entry (e : FileEntry) : tree :=
  T [enc_str (e_path e); enc_str (e_checksum e); enc_str (e_language e); L (e_loc e);
     enc_list L (e_profile e); enc_list enc_meas (e_measurements e)].

(* attribute projections the translator emits (Python `obj.attr`) *)
Class Has_value (A : Type) := f_value : A -> Z.
Class Has_loc (A : Type) := f_loc : A -> Z.
Class Has_files (A : Type) := f_files : A -> Z.
Class Has_functions (A : Type) := f_functions : A -> Z.
Class Has_hard_to_maintain (A : Type) := f_hard_to_maintain : A -> Z.
Class Has_unmaintainable (A : Type) := f_unmaintainable : A -> Z.
Class Has_measurements (A : Type) := f_measurements : A -> list Measurement.
Class Has_line (A : Type) := f_line : A -> Z.
Class Has_column (A : Type) := f_column : A -> Z.
Class Has_start (A : Type) := f_start : A -> Z.
Class Has_end (A : Type) := f_end : A -> Z.
#[export] Instance meas_value : Has_value Measurement := m_value.
#[export] Instance entry_loc : Has_loc FileEntry := e_loc.
#[export] Instance entry_meas : Has_measurements FileEntry := e_measurements.
#[export] Instance lt_has_files : Has_files LanguageTotals := lt_files.
#[export] Instance lt_has_loc : Has_loc LanguageTotals := lt_loc.
#[export] Instance lt_has_functions : Has_functions LanguageTotals := lt_functions.
#[export] Instance lt_has_htm : Has_hard_to_maintain LanguageTotals := lt_hard_to_maintain.
#[export] Instance lt_has_unm : Has_unmaintainable LanguageTotals := lt_unmaintainable.
#[export] Instance loc_has_line : Has_line Location := loc_line.
#[export] Instance loc_has_column : Has_column Location := loc_column.

Record ReportUnit := mkReportUnit { ru_file : pystr; ru_measurement : Measurement }.
Record CheckCounts := mkCC { cc_hard_to_maintain : Z; cc_unmaintainable : Z }.
Class Has_measurement (A : Type) := f_measurement : A -> Measurement.
#[export] Instance ru_has_measurement : Has_measurement ReportUnit := ru_measurement.
#[export] Instance cc_has_htm : Has_hard_to_maintain CheckCounts := cc_hard_to_maintain.
#[export] Instance cc_has_unm : Has_unmaintainable CheckCounts := cc_unmaintainable.

(* ceil(n / d) for d > 0 (exact rational ceiling) *)
Definition cdiv (n d : Z) : Z := - ((- n) / d).
