(* ShiftProofsNoise.v — property C04, part 1: scan_file looks at the token
   stream only through (a) the code tokens `filter_tokens false` and (b) the
   lines of the suppression-marker comments.  Hence white-space tokens and
   comments that are not markers can be inserted or deleted anywhere without
   changing the result. *)
From Verif Require Import Base Token Lex Headers Blocks Pairing Fold ScanFile.
Open Scope Z_scope.

Theorem scan_file_depends_on_code_and_markers : forall l toks toks',
  filter_tokens false toks = filter_tokens false toks' ->
  map t_line (filter_nocl_comment_tokens toks) = map t_line (filter_nocl_comment_tokens toks') ->
  scan_file l toks = scan_file l toks'.
Proof.
  intros l toks toks' Hc Hn. unfold scan_file, build_scopes. rewrite Hc, Hn. reflexivity.
Qed.

(* ---------- noise tokens ---------- *)
Definition noiseb (t : token) : bool :=
  is_whitespace t || (is_comment t && negb (is_nocl_token t)).
Definition noise (t : token) : Prop :=
  is_whitespace t = true \/ (is_comment t = true /\ is_nocl_token t = false).

Lemma noiseb_spec t : noiseb t = true <-> noise t.
Proof.
  unfold noiseb, noise. rewrite orb_true_iff, andb_true_iff, negb_true_iff. tauto.
Qed.

Lemma whitespace_not_comment t : is_whitespace t = true -> is_comment t = false.
Proof.
  unfold is_whitespace, is_comment. destruct (t_kind t); cbn; intros H; try reflexivity; discriminate.
Qed.

Lemma noise_not_kept t : noise t -> keep_token false t = false.
Proof.
  unfold keep_token. intros [Hw|[Hc _]].
  - rewrite Hw. reflexivity.
  - rewrite Hc. destruct (is_whitespace t); reflexivity.
Qed.

Lemma noise_not_nocl t : noise t -> is_nocl_token t = false.
Proof.
  intros [Hw|[_ Hn]]; [|exact Hn].
  unfold is_nocl_token. rewrite (whitespace_not_comment t Hw). reflexivity.
Qed.

Lemma filter_drop {A} (f : A -> bool) l1 x l2 :
  f x = false -> filter f (l1 ++ x :: l2) = filter f (l1 ++ l2).
Proof.
  intros H. rewrite !filter_app. cbn [filter]. rewrite H. reflexivity.
Qed.

(* a single insertion / deletion *)
Theorem scan_file_insert_noise : forall l toks1 t toks2,
  noise t -> scan_file l (toks1 ++ t :: toks2) = scan_file l (toks1 ++ toks2).
Proof.
  intros l toks1 t toks2 Hn. apply scan_file_depends_on_code_and_markers.
  - unfold filter_tokens. apply filter_drop, noise_not_kept, Hn.
  - unfold filter_nocl_comment_tokens. f_equal. apply filter_drop, noise_not_nocl, Hn.
Qed.

Corollary scan_file_insert_whitespace : forall l toks1 t toks2,
  is_whitespace t = true -> scan_file l (toks1 ++ t :: toks2) = scan_file l (toks1 ++ toks2).
Proof. intros. apply scan_file_insert_noise. left. assumption. Qed.

Corollary scan_file_insert_comment : forall l toks1 t toks2,
  is_comment t = true -> is_nocl_token t = false ->
  scan_file l (toks1 ++ t :: toks2) = scan_file l (toks1 ++ toks2).
Proof. intros. apply scan_file_insert_noise. right. split; assumption. Qed.

(* any number of insertions and deletions, anywhere *)
Inductive noise_equiv : list token -> list token -> Prop :=
| ne_refl : forall l, noise_equiv l l
| ne_ins : forall l1 t l2, noise t -> noise_equiv (l1 ++ l2) (l1 ++ t :: l2)
| ne_sym : forall a b, noise_equiv a b -> noise_equiv b a
| ne_trans : forall a b c, noise_equiv a b -> noise_equiv b c -> noise_equiv a c.

Theorem scan_file_noise_equiv : forall l toks toks',
  noise_equiv toks toks' -> scan_file l toks = scan_file l toks'.
Proof.
  intros l toks toks' H. induction H.
  - reflexivity.
  - symmetry. apply scan_file_insert_noise. assumption.
  - symmetry. assumption.
  - etransitivity; eassumption.
Qed.

(* the relation is exactly "same tokens once the noise is removed" *)
Definition strip_noise (toks : list token) : list token := filter (fun t => negb (noiseb t)) toks.

Lemma noise_equiv_strip toks : noise_equiv (strip_noise toks) toks.
Proof.
  induction toks as [|t r IH]; cbn [strip_noise filter]; [apply ne_refl|].
  fold (strip_noise r).
  assert (Hcons : forall x a b, noise_equiv a b -> noise_equiv (x :: a) (x :: b)).
  { intros x a b H. induction H.
    - apply ne_refl.
    - apply (ne_ins (x :: l1) t0 l2). assumption.
    - apply ne_sym. assumption.
    - eapply ne_trans; eassumption. }
  destruct (noiseb t) eqn:E; cbn [negb].
  - eapply ne_trans; [exact IH|]. apply (ne_ins [] t r). apply noiseb_spec, E.
  - apply Hcons, IH.
Qed.

Theorem noise_equiv_iff toks toks' :
  noise_equiv toks toks' <-> strip_noise toks = strip_noise toks'.
Proof.
  split.
  - intros H. induction H.
    + reflexivity.
    + unfold strip_noise. symmetry. apply filter_drop.
      apply noiseb_spec in H. rewrite H. reflexivity.
    + symmetry. assumption.
    + etransitivity; eassumption.
  - intros H. eapply ne_trans; [apply ne_sym, noise_equiv_strip|]. rewrite H. apply noise_equiv_strip.
Qed.

Corollary scan_file_strip_noise : forall l toks, scan_file l (strip_noise toks) = scan_file l toks.
Proof. intros. apply scan_file_noise_equiv, noise_equiv_strip. Qed.
