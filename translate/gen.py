"""Regenerate coq/Gen/*.v from /repo's current working tree (tie T).

Each target names a function (or a slice / expression of one) in the source,
its Gallina signature, and translator options.  Fail-closed: any Unsupported
aborts generation of that file and is reported by the caller as a broken tie.
"""
import ast
import os
import re
import sys

sys.path.insert(0, os.path.dirname(__file__))
from pytocoq import FuncTr, Unsupported, find_func, ident  # noqa: E402

REPO = os.environ.get("VERIF_REPO", "/repo")
OUT = os.path.join(os.path.dirname(os.path.dirname(os.path.abspath(__file__))), "coq", "Gen")

HEADER = "(* GENERATED from {src} by translate/gen.py — do not edit *)\n"


def parse(rel):
    with open(os.path.join(REPO, rel)) as f:
        return ast.parse(f.read())


def sig(params):
    return " ".join(f"({n} : {t})" for n, t in params)


def t_func(rel, qual, name, params, ret, **opt):
    """whole function / method; params are given in Gallina order"""
    fn = find_func(parse(rel), qual)
    tr = FuncTr(**opt)
    body = tr.block(fn.body, None)
    return f"Definition {name} {sig(params)} : {ret} :=\n{body}.\n"


def t_mutator(rel, qual, name, params, ret, result_vars, **opt):
    """method that updates self fields: returns the tuple of result_vars"""
    fn = find_func(parse(rel), qual)
    tr = FuncTr(**opt)
    tail = "(" + ", ".join(result_vars) + ")" if len(result_vars) > 1 else result_vars[0]
    body = tr.block(fn.body, tail)
    return f"Definition {name} {sig(params)} : {ret} :=\n{body}.\n"


def t_slice(rel, qual, name, params, ret, select, result_vars, **opt):
    """the statements of `qual` chosen by select(list_of_stmts) -> list_of_stmts"""
    fn = find_func(parse(rel), qual)
    stmts = select(fn.body)
    if not stmts:
        raise Unsupported(f"{qual}: slice selector found nothing")
    tr = FuncTr(**opt)
    tail = "(" + ", ".join(result_vars) + ")" if len(result_vars) > 1 else result_vars[0]
    body = tr.block(stmts, tail)
    return f"Definition {name} {sig(params)} : {ret} :=\n{body}.\n"


def t_expr(rel, qual, name, params, ret, pick, cond=False, **opt):
    """one expression of `qual`: pick(funcdef) -> ast expression"""
    fn = find_func(parse(rel), qual)
    e = pick(fn)
    if e is None:
        raise Unsupported(f"{qual}: expression selector found nothing")
    tr = FuncTr(**opt)
    body = tr.cond(e) if cond else tr.expr(e)
    return f"Definition {name} {sig(params)} : {ret} :=\n{body}.\n"


# ---------- selectors ----------
def assign_value(var, nth=0):
    def pick(fn):
        hits = [n for n in ast.walk(fn) if isinstance(n, ast.Assign) and len(n.targets) == 1
                and isinstance(n.targets[0], ast.Name) and n.targets[0].id == var]
        hits.sort(key=lambda n: (n.lineno, n.col_offset))
        return hits[nth].value if len(hits) > nth else None
    return pick


def if_test(nth=0, must_mention=None):
    def pick(fn):
        hits = [n for n in ast.walk(fn) if isinstance(n, ast.If)]
        if must_mention:
            hits = [n for n in hits if must_mention in ast.unparse(n.test)]
        hits.sort(key=lambda n: (n.lineno, n.col_offset))
        return hits[nth].test if len(hits) > nth else None
    return pick


def first_if_assigning(var):
    def select(stmts):
        for s in stmts:
            if isinstance(s, ast.If) and any(isinstance(n, ast.Assign) and isinstance(n.targets[0], ast.Name)
                                             and n.targets[0].id == var for n in ast.walk(s)):
                return [s]
        return []
    return select


def stmts_until_assign(var_last):
    """prefix of the body up to and including the last top-level statement that assigns var_last"""
    def select(stmts):
        idx = -1
        for i, s in enumerate(stmts):
            for n in ast.walk(s):
                if isinstance(n, ast.Assign) and isinstance(n.targets[0], ast.Name) and n.targets[0].id == var_last:
                    idx = i
        return stmts[: idx + 1] if idx >= 0 else []
    return select


U = "codelimit/common/utils.py"
M = "list Measurement"


def gen_thresholds():
    out = [HEADER.format(src="utils.py, CheckResult.py, check.py, LanguageTotals.py, Report.py, format_*.py"),
           "From Verif Require Import Base.\nOpen Scope Z_scope.\n"]
    out.append(t_func(U, "make_profile", "make_profile", [("measurements", M)], "list Z"))
    out.append(t_func(U, "make_count_profile", "make_count_profile", [("measurements", M)], "list Z"))
    out.append(t_func(U, "merge_profiles", "merge_profiles", [("rc1", "list Z"), ("rc2", "list Z")], "list Z"))
    out.append(t_func(U, "get_style_for_measurement", "get_style_for_measurement", [("value", "Z")], "pystr"))
    out.append(t_func(U, "get_emoji_for_measurement", "get_emoji_for_measurement", [("value", "Z")], "pystr"))
    out.append(t_slice(U, "format_unit", "format_unit_color", [("length_", "Z")], "pystr",
                       first_if_assigning("color"), ["color"]))
    # CheckResult.add: the two counters
    out.append(t_mutator("codelimit/common/CheckResult.py", "CheckResult.add", "check_result_add",
                         [("self_file_list", "list (pystr * list Measurement)"), ("self_hard_to_maintain", "Z"),
                          ("self_unmaintainable", "Z"), ("file", "pystr"), ("measurements", M)],
                         "list (pystr * list Measurement) * Z * Z",
                         ["self_file_list", "self_hard_to_maintain", "self_unmaintainable"],
                         self_fields=["file_list", "hard_to_maintain", "unmaintainable"]))
    out.append(t_expr("codelimit/common/CheckResult.py", "CheckResult.report", "check_report_needs_refactoring",
                      [("self_hard_to_maintain", "Z"), ("self_unmaintainable", "Z")], "bool",
                      if_test(0, "hard_to_maintain"), cond=True,
                      self_fields=["file_list", "hard_to_maintain", "unmaintainable"]))
    C = "codelimit/commands/check.py"
    out.append(t_expr(C, "check_command", "check_exit_code", [("check_result", "CheckCounts")], "Z",
                      assign_value("exit_code")))
    out.append(t_expr(C, "check_command", "check_should_report", [("quiet", "bool"), ("check_result", "CheckCounts")],
                      "bool", if_test(0, "quiet"), cond=True))
    out.append(t_expr(C, "check_file", "check_risks", [("measurements", M)], M, assign_value("risks")))
    out.append(t_mutator("codelimit/common/LanguageTotals.py", "LanguageTotals.add", "language_totals_add",
                         [("self_files", "Z"), ("self_loc", "Z"), ("self_functions", "Z"),
                          ("self_hard_to_maintain", "Z"), ("self_unmaintainable", "Z"), ("entry", "FileEntry")],
                         "Z * Z * Z * Z * Z",
                         ["self_files", "self_loc", "self_functions", "self_hard_to_maintain", "self_unmaintainable"],
                         self_fields=["language", "files", "loc", "functions", "hard_to_maintain", "unmaintainable"],
                         known_funcs=["make_count_profile"], method_proj=["measurements"]))
    R = "codelimit/common/report/Report.py"
    out.append(t_mutator(R, "Report.all_report_units_sorted_by_length_asc", "all_report_units",
                         [("self_codebase_files", "list (pystr * FileEntry)"), ("threshold", "Z")], "list ReportUnit",
                         ["result"], ctors={"ReportUnit": "mkReportUnit"}, method_proj=["measurements"],
                         aliases={"self.codebase.files": "self_codebase_files"}))
    for mod, fname in (("format_text", "text"), ("format_markdown", "md")):
        rel = f"codelimit/common/report/{mod}.py"
        out.append(t_expr(rel, "print_findings", f"findings_threshold_{fname}", [], "Z",
                          lambda fn: next((n.args[0] for n in ast.walk(fn) if isinstance(n, ast.Call)
                                           and isinstance(n.func, ast.Attribute)
                                           and n.func.attr == "all_report_units_sorted_by_length_asc"
                                           and len(n.args) == 1), None)))
        out.append(t_expr(rel, "print_findings", f"findings_truncate_{fname}",
                          [("full", "bool"), ("total_findings", "Z")], "bool", if_test(0, "full"), cond=True))
        out.append(t_expr(rel, "print_findings", f"findings_more_rows_{fname}",
                          [("full", "bool"), ("total_findings", "Z")], "bool", if_test(-1, "full"), cond=True))
        out.append(t_expr(rel, "print_findings", f"findings_shown_{fname}", [("functions", "list ReportUnit")],
                          "list ReportUnit",
                          lambda fn: next((n.value for n in ast.walk(fn) if isinstance(n, ast.Assign)
                                           and isinstance(n.value, ast.Subscript)
                                           and isinstance(n.targets[0], ast.Name)
                                           and n.targets[0].id == "functions"), None)))
        out.append(t_expr(rel, "print_findings", f"findings_omitted_{fname}", [("total_findings", "Z")], "Z",
                          lambda fn: next((n for n in ast.walk(fn) if isinstance(n, ast.BinOp)
                                           and isinstance(n.op, ast.Sub)
                                           and ast.unparse(n.left) == "total_findings"), None)))
    MD = "codelimit/common/report/format_markdown.py"
    out.append(t_expr(MD, "_print_findings_without_repository", "md_icon_plain", [("unit", "ReportUnit")], "pystr",
                      assign_value("type")))
    out.append(t_expr(MD, "_print_findings_with_repository", "md_icon_repo", [("unit", "ReportUnit")], "pystr",
                      assign_value("violation_type")))
    return "\n".join(out)


def gen_percent():
    R = "codelimit/common/report/Report.py"
    out = [HEADER.format(src="Report.py, SummaryTable.py, format_text.py, format_markdown.py"),
           "From Verif Require Import Base.\nOpen Scope Z_scope.\n",
           "(* `/` and the constant 0.001 are exact rationals here; ceil(n/d) = cdiv n d for d > 0 *)\n"]
    out.append(t_func(R, "Report.quality_profile_percentage", "quality_profile_percentage",
                      [("self_quality_profile", "list Z")], "Z * Z * Z * Z",
                      aliases={"self.quality_profile()": "self_quality_profile"}))
    # the same function with the three float computations `ceil(share * 100 - 0.001)` taken as INPUTS (what the
    # floating-point evaluation of each may return is constrained separately, see Agg/Percent.v), and the exact
    # rational value of each of those three expressions
    fn = find_func(parse(R), "Report.quality_profile_percentage")
    ceils = sorted([n for n in ast.walk(fn) if isinstance(n, ast.Call) and isinstance(n.func, ast.Name) and n.func.id == "ceil"
                    and len(n.args) == 1], key=lambda n: (n.lineno, n.col_offset))
    idx = {}
    for n in ceils:
        subs = [x for x in ast.walk(n) if isinstance(x, ast.Subscript) and ast.unparse(x.value) == "profile"
                and isinstance(x.slice, ast.Constant)]
        if len(subs) != 1:
            raise Unsupported("ceil argument does not mention exactly one profile entry: " + ast.unparse(n))
        idx[subs[0].slice.value] = n
    if sorted(idx) != [1, 2, 3]:
        raise Unsupported("expected one ceil(...) per profile entry 1, 2, 3")
    names = {1: "c_verbose", 2: "c_hard", 3: "c_unm"}
    out.append(t_func(R, "Report.quality_profile_percentage", "quality_profile_adjust",
                      [("self_quality_profile", "list Z"), ("c_verbose", "Z"), ("c_hard", "Z"), ("c_unm", "Z")], "Z * Z * Z * Z",
                      aliases=dict({"self.quality_profile()": "self_quality_profile"},
                                   **{ast.unparse(n): names[i] for i, n in idx.items()})))
    for i, n in sorted(idx.items()):
        tr = FuncTr(aliases={"total": "total"})
        num, den = tr.rat(n.args[0])
        out.append(f"Definition share_expr_num_{i} (profile : list Z) (total : Z) : Z :=\n{num}.\n")
        out.append(f"Definition share_expr_den_{i} (profile : list Z) (total : Z) : Z :=\n{den}.\n")
    for rel, qual, nm in (("codelimit/common/report/format_text.py", "print_summary", "text"),
                          ("codelimit/common/report/format_markdown.py", "print_summary", "md")):
        out.append(t_expr(rel, qual, f"verdict_unm_{nm}", [("unmaintainable", "Z")], "bool", if_test(0), cond=True))
        out.append(t_expr(rel, qual, f"verdict_htm_{nm}", [("hard_to_maintain", "Z")], "bool", if_test(1), cond=True))
    S = "codelimit/common/SummaryTable.py"
    ps = [("unmaintainable", "Z"), ("hard_to_maintain", "Z")]
    out.append(t_expr(S, "SummaryTable.__init__", "summary_red", ps, "bool", if_test(0), cond=True))
    out.append(t_expr(S, "SummaryTable.__init__", "summary_orange", ps, "bool", if_test(1), cond=True))
    out.append(t_expr(S, "SummaryTable.__init__", "summary_green", ps, "bool", if_test(2), cond=True))
    return "\n".join(out)


def gen_delta():
    out = [HEADER.format(src="LanguageTotalsDelta.py, ScanTotalsDelta.py, ScanTotals.py"),
           "From Verif Require Import Base.\nOpen Scope Z_scope.\n"]
    L = "codelimit/common/LanguageTotalsDelta.py"
    al = {"self._language_totals_current": "cur", "self._language_totals_previous": "prev"}
    for m in ("files", "functions", "loc", "hard_to_maintain", "unmaintainable"):
        out.append(t_func(L, f"LanguageTotalsDelta.{m}", f"ltd_{m}",
                          [("cur", "LanguageTotals"), ("prev", "option LanguageTotals")], "pystr",
                          aliases=al, option_exprs=["self._language_totals_previous"]))
    S = "codelimit/common/ScanTotalsDelta.py"
    for m in ("total_files", "total_functions", "total_loc", "total_hard_to_maintain", "total_unmaintainable"):
        out.append(t_func(S, f"ScanTotalsDelta.{m}", f"std_{m}", [("cur", "Z"), ("prev", "Z")], "pystr",
                          aliases={f"self._scan_totals_current.{m}()": "cur", f"self._scan_totals_previous.{m}()": "prev"}))
    T = "codelimit/common/ScanTotals.py"
    vals = {"self._languages_totals.values()": "values"}
    out.append(t_func(T, "ScanTotals.languages_totals", "languages_totals", [("values", "list LanguageTotals")],
                      "list LanguageTotals", aliases=vals))
    for m in ("total_files", "total_functions", "total_loc", "total_hard_to_maintain", "total_unmaintainable"):
        out.append(t_func(T, f"ScanTotals.{m}", f"st_{m}", [("values", "list LanguageTotals")], "Z", aliases=vals))
    return "\n".join(out)


def gen_scan():
    """module-level constants of Scanner.py"""
    tree = parse("codelimit/common/Scanner.py")
    node = next((n for n in tree.body if isinstance(n, ast.Assign) and isinstance(n.targets[0], ast.Name)
                 and n.targets[0].id == "DEFAULT_EXCLUDES"), None)
    if node is None or not isinstance(node.value, ast.List) or not all(
            isinstance(e, ast.Constant) and isinstance(e.value, str) for e in node.value.elts):
        raise Unsupported("DEFAULT_EXCLUDES is not a literal list of strings")
    items = ";\n   ".join("[" + "; ".join(str(ord(c)) for c in e.value) + "]  (* " + e.value + " *)" for e in node.value.elts)
    items = items.replace("*)", "*)")
    vt = parse("codelimit/version.py")
    vnode = next((n for n in vt.body if isinstance(n, ast.Assign) and n.targets[0].id == "version"), None)
    if vnode is None or not isinstance(vnode.value, ast.Constant):
        raise Unsupported("version is not a literal")
    v = vnode.value.value
    return (HEADER.format(src="Scanner.py, version.py") + "From Verif Require Import Base.\nOpen Scope Z_scope.\n\n"
            "Definition default_excludes : list pystr :=\n  [" + re.sub(r"\]  \(\* (.*?) \*\);", r"];  (* \1 *)", items) + "].\n\n"
            f"Definition tool_version : pystr := [{'; '.join(str(ord(c)) for c in v)}].   (* {v} *)\n")


def _compare_conditions():
    out=[]
    B="codelimit/common/token_matching/predicate/Balanced.py"
    try:
        out.append(t_mutator(B, "Balanced.accept", "balanced_accept", [("is_left","bool"),("is_right","bool"),("self_depth","Z"),("self_satisfied","bool")], "bool * Z * bool",
              ["self_depth","self_satisfied"], self_fields=["depth","satisfied","left","right"], return_state=["self_depth","self_satisfied"],
              aliases={"self.left.accept(token)":"is_left","self.right.accept(token)":"is_right"}))
    except Exception as e:
        out.append("FAIL balanced: %r" % (e,))
    S="codelimit/common/scope/scope_utils.py"
    def nth_compare(text):
        def pick(fn):
            for n in ast.walk(fn):
                if isinstance(n,(ast.Compare,ast.BoolOp,ast.BinOp,ast.Call,ast.Subscript,ast.UnaryOp)) and ast.unparse(n)==text: return n
            return None
        return pick
    out.append(t_expr(S,"_get_nearest_block","nearest_block_is_later",[("bs","Z"),("he","Z")],"bool",nth_compare("block.start >= header.end"),cond=True,aliases={"block.start":"bs","header.end":"he"}))
    out.append(t_expr(S,"_find_scope_blocks_indices","scope_block_after_header",[("bs","Z"),("he","Z")],"bool",nth_compare("blocks[i].start >= header.end"),cond=True,aliases={"blocks[i].start":"bs","header.end":"he"}))
    out.append(t_expr(S,"_scope_tokens","child_range_passed",[("index","Z"),("ce","Z")],"bool",nth_compare("index >= children_token_ranges[0].end"),cond=True,aliases={"children_token_ranges[0].end":"ce"}))
    out.append(t_expr(S,"_scope_tokens","before_child_range",[("index","Z"),("cs","Z")],"bool",nth_compare("index < children_token_ranges[0].start"),cond=True,aliases={"children_token_ranges[0].start":"cs"}))
    L="codelimit/common/lexer_utils.py"
    out.append(t_expr(L,"lex","lex_past_newline",[("off","Z"),("nl","Z")],"bool",nth_compare("t[0] > indices[newline_index]"),cond=True,aliases={"t[0]":"off","indices[newline_index]":"nl"}))
    PY="codelimit/languages/Python.py"
    out.append(t_expr(PY,"Python.extract_blocks","py_header_at_end",[("he","Z"),("n","Z")],"bool",nth_compare("header.token_range.end >= len(tokens)"),cond=True,aliases={"header.token_range.end":"he","len(tokens)":"n"}))
    out.append(t_expr(PY,"Python.extract_blocks","py_line_not_below_header",[("line_nr","Z"),("header_line_nr","Z")],"bool",nth_compare("line_nr <= header_line_nr"),cond=True))
    out.append(t_expr(PY,"Python.extract_blocks","py_line_deeper",[("line_indentation","Z"),("header_indentation","Z")],"bool",nth_compare("line_indentation > header_indentation"),cond=True))
    MA="codelimit/common/gsm/matcher.py"
    out.append(t_expr(MA,"find_all","find_all_after_last",[("ps","Z"),("me","Z")],"bool",nth_compare("pattern.start >= matches[-1].end"),cond=True,aliases={"pattern.start":"ps","matches[-1].end":"me"}))
    PA="codelimit/common/gsm/Pattern.py"
    out.append(t_expr(PA,"Pattern.consume","group_is_open",[("depth","Z")],"bool",nth_compare("getattr(self._predicate(t), 'depth', 0) > 0"),cond=True,aliases={"getattr(self._predicate(t), 'depth', 0)":"depth"}))
    # ---- third batch: the hidden-name rule of scan and check, the totals-row test of both overviews
    SCN = "codelimit/common/Scanner.py"
    CHK = "codelimit/commands/check.py"
    dot = {"f[0]": "c0", "d[0]": "c0", "'.'": "46"}
    out.append(t_expr(SCN, "scan_path", "scan_keeps_file", [("c0", "Z")], "bool", nth_compare("not f[0] == '.'"), cond=True, aliases=dot))
    out.append(t_expr(SCN, "scan_path", "scan_keeps_dir", [("c0", "Z")], "bool", nth_compare("not d[0] == '.'"), cond=True, aliases=dot))
    out.append(t_expr(CHK, "check_command", "check_keeps_file", [("c0", "Z")], "bool", nth_compare("not f[0] == '.'"), cond=True, aliases=dot))
    out.append(t_expr(CHK, "check_command", "check_keeps_dir", [("c0", "Z")], "bool", nth_compare("not d[0] == '.'"), cond=True, aliases=dot))
    out.append(t_expr("codelimit/common/ScanResultTable.py", "ScanResultTable.__init__", "text_totals_row", [("n", "Z")], "bool",
                      nth_compare("len(scan_totals_current.languages()) > 1"), cond=True, aliases={"len(scan_totals_current.languages())": "n"}))
    out.append(t_expr("codelimit/common/report/format_markdown.py", "_print_totals", "md_totals_row", [("n", "Z")], "bool",
                      nth_compare("len(scan_totals_current.languages_totals()) > 1"), cond=True, aliases={"len(scan_totals_current.languages_totals())": "n"}))
    # ---- the version gate of the cache: only a report written by this very version is reused
    out.append(t_expr("codelimit/commands/scan.py", "_read_cached_report", "cache_version_accepted",
                      [("has_report", "bool"), ("v", "pystr"), ("cur", "pystr")], "bool",
                      nth_compare("cached_report and cached_report.version == Report.VERSION"), cond=True,
                      aliases={"cached_report": "has_report", "cached_report.version": "v", "Report.VERSION": "cur"},
                      str_exprs=["cached_report.version", "Report.VERSION"]))
    # ---- second batch: cache reuse, lexer arithmetic, brace matching
    SC="codelimit/common/Scanner.py"
    out.append(t_expr(SC,"_scan_file","reuse_cached_entry",[("has_entry","bool"),("cached_ck","Z"),("checksum","Z")],"bool",
        nth_compare("cached_entry and cached_entry.checksum() == checksum"),cond=True,aliases={"cached_entry":"has_entry","cached_entry.checksum()":"cached_ck"}))
    CM="codelimit/commands/scan.py"
    L="codelimit/common/lexer_utils.py"
    out.append(t_expr(L,"lex","lex_line_number",[("newline_index","Z")],"Z",nth_compare("newline_index + 1")))
    out.append(t_expr(L,"lex","lex_column",[("off","Z"),("line_start","Z")],"Z",nth_compare("t[0] - line_start + 1"),aliases={"t[0]":"off"}))
    out.append(t_expr(L,"lex","lex_next_line_start",[("nl","Z")],"Z",nth_compare("indices[newline_index] + 1"),aliases={"indices[newline_index]":"nl"}))
    out.append(t_expr(L,"lex","lex_single_line_column",[("off","Z")],"Z",nth_compare("t[0] + 1"),aliases={"t[0]":"off"}))
    out.append(t_expr(L,"lex","lex_trim_length",[("n","Z"),("i","Z")],"Z",nth_compare("max(len(code) - i, 0)"),aliases={"len(code)":"n"}))
    TU="codelimit/common/token_utils.py"
    out.append(t_expr(TU,"get_balanced_symbol_token_ranges","balanced_has_open",[("n_open","Z")],"bool",nth_compare("len(start_indices) > 0"),cond=True,aliases={"len(start_indices)":"n_open"}))
    out.append(t_expr(TU,"get_balanced_symbol_token_ranges","balanced_range_end",[("index","Z")],"Z",nth_compare("index + 1")))
    return "\n".join(out)


def gen_compare():
    out = [HEADER.format(src="TokenRange.py, Location.py, scope/Scope.py, scope/scope_utils.py"),
           "From Verif Require Import Base.\nOpen Scope Z_scope.\n",
           "(* the comparison operators of the scope pipeline, as the source states them (ranges and positions as integers) *)\n"]
    TR = "codelimit/common/TokenRange.py"
    al = {"self.start": "s1", "self.end": "e1", "other.start": "s2", "other.end": "e2"}
    ps = [("s1", "Z"), ("e1", "Z"), ("s2", "Z"), ("e2", "Z")]
    out.append(t_func(TR, "TokenRange.lt", "token_range_lt", ps, "bool", aliases=al))
    out.append(t_func(TR, "TokenRange.contains", "token_range_contains", ps, "bool", aliases=al))
    out.append(t_func(TR, "TokenRange.overlaps", "token_range_overlaps", ps, "bool", aliases=al))
    LO = "codelimit/common/Location.py"
    al = {"self.line": "l1", "self.column": "c1", "other.line": "l2", "other.column": "c2"}
    ps = [("l1", "Z"), ("c1", "Z"), ("l2", "Z"), ("c2", "Z")]
    for m in ("lt", "le", "gt", "ge"):
        out.append(t_func(LO, f"Location.{m}", f"location_{m}", ps, "bool", aliases=al))
    SC = "codelimit/common/scope/Scope.py"
    out.append(t_func(SC, "Scope.contains", "scope_contains", [("hs1", "Z"), ("be1", "Z"), ("hs2", "Z"), ("be2", "Z")], "bool",
                      aliases={"self.header.token_range.start": "hs1", "other.header.token_range.start": "hs2",
                               "self.block.end": "be1", "other.block.end": "be2"}))
    out.append(_compare_conditions())
    return "\n".join(out)


def gen_patterns():
    import capture
    return capture.gen_patterns()


TARGETS = {"GenCompare": gen_compare, "GenThresholds": gen_thresholds, "GenPatterns": gen_patterns, "GenPercent": gen_percent, "GenDelta": gen_delta, "GenScan": gen_scan}


def main(names=None):
    os.makedirs(OUT, exist_ok=True)
    status = 0
    for name, fn in TARGETS.items():
        if names and name not in names:
            continue
        path = os.path.join(OUT, name + ".v")
        try:
            text = fn()
        except Exception as e:  # fail closed on anything
            print(f"TRANSLATE-FAIL {name}: {type(e).__name__}: {e}")
            # leave a file that cannot compile so no stale model is used
            text = f"(* translation failed: {type(e).__name__}: {str(e)[:200]} *)\nDefinition translation_failed : False := I.\n"
            status = 2
        old = open(path).read() if os.path.exists(path) else None
        if old != text:
            with open(path, "w") as f:
                f.write(text)
            print(f"GEN {name}: updated")
        else:
            print(f"GEN {name}: unchanged")
    return status


if __name__ == "__main__":
    sys.exit(main(sys.argv[1:] or None))
