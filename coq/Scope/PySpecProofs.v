(* PySpecProofs.v — property C01 for Python: given the headers, the rest of the
   pipeline (token lines, blocks, pairing, fold/unfold, counting) reports
   exactly the measurements prescribed by PySpec.v. *)
From Verif Require Import Base Token Lex Headers Blocks Pairing Fold ScanFile Spec PySpec.
From Verif Require Import LexProofs TotalProofsBlocks TotalProofsScopes WfProofsBase WfProofsBlocks
  WfProofsFold WfProofsHeaders WfProofsPairing.
From Verif Require Import SpecProofsPairing SpecProofsFold SpecProofsCount SpecProofs PySpecProofsLines.
From Coq Require Import Sorted Permutation.
Open Scope nat_scope.

(* ====================================================================== *)
(* 1. descriptors                                                          *)
(* ====================================================================== *)

Definition py_scope_of (d : pydesc) : scope0 := mkScope0 (py_header_of d) (py_body_of d).

Definition py_before (d1 d2 : pydesc) : Prop :=
  pd_start d1 < pd_start d2 /\ (py_nested_in d2 d1 \/ py_after d2 d1).

Lemma py_wf_inv ts ds : py_wf_descs ts ds ->
  nocont ts /\ Forall (py_shape ts) ds /\ StronglySorted py_before ds.
Proof.
  intros [H0 H1 H2]. split; [exact H0|]. split; [exact H1|]. apply nth_SS.
  intros i j a b Hij Ha Hb. exact (H2 i j a b Hij Ha Hb).
Qed.

Lemma py_order ts d : py_shape ts d ->
  pd_start d < pd_hend d /\ pd_hend d < pd_bstart d /\ pd_bstart d < pd_bend d /\ pd_bend d <= length ts.
Proof. intros (A & B & C & _). lia. Qed.

(* an earlier descriptor's suite starts before a later header ends *)
Lemma py_before_bstart ts d' d : py_shape ts d' -> py_shape ts d -> py_before d' d ->
  pd_bstart d' < pd_hend d /\ pd_bstart d' < pd_bstart d.
Proof.
  intros Hw' Hw [Hlt Hrel]. pose proof (py_order _ _ Hw). pose proof (py_order _ _ Hw').
  unfold py_nested_in, py_after in Hrel. lia.
Qed.

Lemma py_scope_of_inj a b : py_scope_of a = py_scope_of b -> a = b.
Proof.
  destruct a, b. unfold py_scope_of, py_header_of, py_body_of. cbn. intros E. inversion E. reflexivity.
Qed.

(* ====================================================================== *)
(* 2. pairing                                                              *)
(* ====================================================================== *)

Definition py_selp (d : pydesc) (b : range) : bool :=
  Nat.leb (pd_hend d) (fst b) && r_overlaps (py_body_of d) b.

Lemma py_nearest_body ts bl d rest :
  py_shape ts d -> Forall (py_shape ts) rest -> Forall (fun d' => py_before d' d) rest ->
  StronglySorted (fun a b : range => fst a < fst b) bl ->
  (forall b, In b bl -> exists d', In d' (d :: rest) /\ b = py_body_of d') ->
  In (py_body_of d) bl ->
  get_nearest_block (hrange (py_header_of d)) bl = Some (py_body_of d).
Proof.
  intros Hw Hwr Hbef HS Hin Hb. pose proof (py_order _ _ Hw) as Ho.
  apply in_split in Hb. destruct Hb as (l1 & l2 & E). subst bl.
  apply SSf_split in HS as HS'. destruct HS' as [F1 F2].
  unfold get_nearest_block. rewrite rev_app_distr. cbn [rev]. rewrite <- app_assoc. cbn [app].
  set (h := hrange (py_header_of d)).
  assert (Hh1 : fst h = pd_start d) by reflexivity.
  assert (Hh2 : snd h = pd_hend d) by reflexivity.
  rewrite nb_ge.
  - apply nb_lt. apply Forall_rev. apply Forall_forall. intros b Hbl1.
    rewrite Forall_forall in F1. specialize (F1 b Hbl1). cbn [py_body_of fst] in F1. rewrite Hh2.
    destruct (Hin b) as (d' & Hd' & ->); [apply in_or_app; left; exact Hbl1|].
    cbn [py_body_of fst] in *. destruct Hd' as [<-|Hd']; [lia|].
    rewrite Forall_forall in Hwr, Hbef.
    apply (py_before_bstart ts d' d (Hwr d' Hd') Hw (Hbef d' Hd')).
  - lia.
  - rewrite Hh2. cbn [py_body_of fst]. lia.
  - apply Forall_rev. apply Forall_forall. intros b Hbl2.
    rewrite Forall_forall in F2. specialize (F2 b Hbl2). cbn [py_body_of fst] in F2. lia.
Qed.

Lemma py_selp_body ts d : py_shape ts d -> py_selp d (py_body_of d) = true.
Proof.
  intros Hw. pose proof (py_order _ _ Hw) as Ho. unfold py_selp, r_overlaps, py_body_of. cbn [fst snd].
  apply andb_true_iff. split; [apply Nat.leb_le; lia|]. apply orb_true_iff. left.
  apply andb_true_iff. split; apply Nat.leb_le; lia.
Qed.

Lemma py_selp_earlier ts d' d : py_shape ts d' -> py_shape ts d -> py_before d' d ->
  py_selp d (py_body_of d') = false.
Proof.
  intros Hw' Hw Hb. unfold py_selp. apply andb_false_iff. left. apply Nat.leb_gt. cbn [py_body_of fst].
  apply (py_before_bstart ts d' d Hw' Hw Hb).
Qed.

Lemma del_In_inv {A} (f : A -> bool) (bl : list A) x :
  In x (delete_indices bl (map fst (filter (fun ib : nat * A => f (snd ib)) (number_from 0 bl)))) ->
  In x bl /\ f x = false.
Proof.
  intros H. split; [eapply delete_indices_In'; exact H|].
  unfold delete_indices in H. apply in_map_iff in H. destruct H as ([k y] & E & H). cbn [snd] in E. subst y.
  apply filter_In in H. destruct H as [Hin Hneg]. cbn [fst] in Hneg.
  destruct (f x) eqn:Ef; [|reflexivity]. exfalso.
  apply negb_true_iff in Hneg.
  assert (Hex : existsb (Nat.eqb k)
                  (map fst (filter (fun ib : nat * A => f (snd ib)) (number_from 0 bl))) = true).
  { apply existsb_exists. exists k. split; [|apply Nat.eqb_refl].
    apply in_map_iff. exists (k, x). split; [reflexivity|]. apply filter_In. split; [exact Hin | exact Ef]. }
  congruence.
Qed.

Lemma py_loop_spec ts : forall dsr bl,
  Forall (py_shape ts) dsr -> StronglySorted (fun a b => py_before b a) dsr ->
  StronglySorted (fun a b : range => fst a < fst b) bl ->
  (forall b, In b bl -> exists d, In d dsr /\ b = py_body_of d) ->
  (forall d, In d dsr -> In (py_body_of d) bl) ->
  build_scopes_loop (map py_header_of dsr) bl = map py_scope_of dsr.
Proof.
  induction dsr as [|d rest IH]; intros bl Hw HS Hsb Hin Hb; cbn [map build_scopes_loop]; [reflexivity|].
  inversion Hw as [|? ? Hwd Hwr]; subst. inversion HS as [|? ? HSr HF]; subst.
  pose proof (py_order _ _ Hwd) as Ho.
  assert (Hbd : In (py_body_of d) bl) by (apply Hb; left; reflexivity).
  assert (Hfs : find_scope_blocks_indices (hrange (py_header_of d)) bl =
                map fst (filter (fun ib => py_selp d (snd ib)) (number_from 0 bl))).
  { unfold find_scope_blocks_indices.
    rewrite (py_nearest_body ts bl d rest Hwd Hwr HF Hsb Hin Hbd).
    unfold r_contains at 1. cbn [py_body_of hrange py_header_of h_start h_end fst snd].
    replace (pd_bstart d <? pd_start d) with false by (symmetry; apply Nat.ltb_ge; lia).
    cbn [andb]. reflexivity. }
  rewrite Hfs.
  set (idx := map fst (filter (fun ib : nat * range => py_selp d (snd ib)) (number_from 0 bl))).
  set (sel := map (fun i => nth i bl (0, 0)) idx).
  assert (Hsel : forall x, In x sel <-> In x bl /\ py_selp d x = true).
  { intros x. apply (sel_In (py_selp d) bl (0, 0)). }
  assert (Hbsel : In (py_body_of d) sel) by (apply Hsel; split; [exact Hbd | eapply py_selp_body; exact Hwd]).
  assert (Hins : forall x, In x sel -> x = py_body_of d).
  { intros x Hx. apply Hsel in Hx. destruct Hx as [Hx1 Hx2].
    destruct (Hin x Hx1) as (d' & [<-|Hd'] & ->); [reflexivity|]. exfalso.
    rewrite Forall_forall in Hwr, HF.
    rewrite (py_selp_earlier ts d' d (Hwr d' Hd') Hwd (HF d' Hd')) in Hx2. discriminate. }
  assert (Hmin : min_list (map fst sel) = pd_bstart d).
  { apply min_list_spec.
    - change (pd_bstart d) with (fst (py_body_of d)). apply in_map. exact Hbsel.
    - intros x Hx. apply in_map_iff in Hx. destruct Hx as (b & <- & Hx). rewrite (Hins b Hx). cbn. lia. }
  assert (Hmax : max_list (map snd sel) = pd_bend d).
  { apply max_list_spec.
    - change (pd_bend d) with (snd (py_body_of d)). apply in_map. exact Hbsel.
    - intros x Hx. apply in_map_iff in Hx. destruct Hx as (b & <- & Hx). rewrite (Hins b Hx). cbn. lia. }
  destruct idx as [|i0 idx'] eqn:Eidx.
  - exfalso. unfold sel in Hbsel. destruct Hbsel.
  - rewrite <- Eidx. fold sel. rewrite Hmin, Hmax. unfold py_scope_of at 1. unfold py_body_of at 1.
    f_equal. rewrite Forall_forall in Hwr, HF. apply IH.
    + apply Forall_forall. exact Hwr.
    + exact HSr.
    + apply delete_indices_SS. exact Hsb.
    + intros b Hbin. unfold idx in Hbin. apply (del_In_inv (py_selp d) bl b) in Hbin.
      destruct Hbin as [Hb1 Hb2]. destruct (Hin b Hb1) as (d' & [<-|Hd'] & ->).
      * rewrite (py_selp_body ts d Hwd) in Hb2. discriminate.
      * exists d'. split; [exact Hd' | reflexivity].
    + intros d' Hd'. unfold idx. apply (del_In (py_selp d) bl (0, 0)).
      * apply Hb. right. exact Hd'.
      * eapply py_selp_earlier; [apply Hwr, Hd' | exact Hwd | apply HF, Hd'].
Qed.

Lemma py_sort_headers_eq ts ds hs :
  StronglySorted pos_lt ts -> Forall (py_shape ts) ds -> StronglySorted py_before ds ->
  Permutation hs (map py_header_of ds) ->
  sort_headers_desc ts hs = map py_header_of (rev ds).
Proof.
  intros HS Hw Hd Hp.
  apply (SS_perm_eq (fun a b : header => h_start b < h_start a)).
  - intros a b. lia.
  - apply sort_headers_desc_strict; [exact HS | |].
    + apply Forall_forall. intros h Hh. apply (Permutation_in _ Hp) in Hh.
      apply in_map_iff in Hh. destruct Hh as (d & <- & Hdin). rewrite Forall_forall in Hw.
      pose proof (py_order _ _ (Hw d Hdin)). cbn [py_header_of h_start]. lia.
    + eapply Permutation_NoDup; [apply Permutation_map; symmetry; exact Hp|].
      rewrite map_map. cbn [py_header_of h_start]. apply SS_lt_NoDup.
      apply (SSf_map lt pd_start). eapply SSf_impl; [|exact Hd]. intros a b _ _ [H _]. exact H.
  - rewrite map_rev. apply (SSf_rev (fun a b : header => h_start a < h_start b)).
    apply (SSf_map (fun a b : header => h_start a < h_start b) py_header_of).
    eapply SSf_impl; [|exact Hd]. intros a b _ _ [H _]. exact H.
  - unfold sort_headers_desc. rewrite sort_desc2_perm, Hp, map_rev. apply Permutation_rev.
Qed.

(* deliverable 3: every header is paired with exactly the block of its own suite
   (the order of hs is irrelevant HERE, the block list is the one computed from
   the headers in source order) *)
Theorem py_pairing_spec ts ds hs :
  StronglySorted pos_lt ts -> Forall (py_shape ts) ds -> StronglySorted py_before ds ->
  Permutation hs (map py_header_of ds) ->
  build_scopes_from ts hs (map py_body_of ds) = map py_scope_of ds.
Proof.
  intros HS Hw Hd Hp. unfold build_scopes_from. rewrite (py_sort_headers_eq ts ds hs HS Hw Hd Hp).
  rewrite (py_loop_spec ts (rev ds) (map py_body_of ds)).
  - rewrite <- map_rev, rev_involutive. reflexivity.
  - apply Forall_rev. exact Hw.
  - apply (SSf_rev py_before). exact Hd.
  - apply (SSf_map (fun a b : range => fst a < fst b) py_body_of).
    eapply SSf_impl; [|exact Hd]. intros a b Ha Hb Hab. cbn [py_body_of fst].
    rewrite Forall_forall in Hw. apply (py_before_bstart ts a b (Hw a Ha) (Hw b Hb) Hab).
  - intros b Hb. apply in_map_iff in Hb. destruct Hb as (d & <- & Hdin). exists d.
    split; [apply -> in_rev; exact Hdin | reflexivity].
  - intros d Hdin. apply in_map. apply in_rev. exact Hdin.
Qed.

(* ====================================================================== *)
(* 3. fold                                                                 *)
(* ====================================================================== *)

Lemma py_scopes_lam_sorted code ds :
  Forall (py_shape code) ds -> StronglySorted py_before ds -> lam_sorted (map py_scope_of ds).
Proof.
  intros Hw Hd. split.
  - apply (SSf_map lam py_scope_of). eapply SSf_impl; [|exact Hd].
    intros a b _ _ [H1 H2]. unfold lam, sc_start, sc_end.
    cbn [py_scope_of py_header_of py_body_of s_header s_block h_start snd].
    unfold py_nested_in, py_after in H2. split; [exact H1 | lia].
  - apply Forall_forall. intros s Hs. apply in_map_iff in Hs. destruct Hs as (d & <- & Hdin).
    rewrite Forall_forall in Hw. pose proof (py_order _ _ (Hw d Hdin)).
    unfold swf, sc_start, sc_end. cbn [py_scope_of py_header_of py_body_of s_header s_block h_start snd]. lia.
Qed.

Lemma py_s_contains c d :
  s_contains (py_scope_of d) (py_scope_of c) = true <-> pd_start d < pd_start c /\ pd_bend c <= pd_bend d.
Proof.
  rewrite s_contains_iff. unfold sc_start, sc_end.
  cbn [py_scope_of py_header_of py_body_of s_header s_block h_start snd]. lia.
Qed.

Lemma py_contains_nested code ds c d :
  Forall (py_shape code) ds -> StronglySorted py_before ds -> In c ds -> In d ds ->
  s_contains (py_scope_of d) (py_scope_of c) = true -> py_nested_in c d.
Proof.
  intros Hw Hd Hc Hdin H. apply py_s_contains in H. rewrite Forall_forall in Hw.
  pose proof (py_order _ _ (Hw c Hc)).
  destruct (SS_total py_before ds Hd c d Hc Hdin) as [->|[[A _]|[_ [B|B]]]]; try lia; [exact B|].
  unfold py_after in B. lia.
Qed.

Lemma py_nested_contains code c d : py_shape code d -> py_nested_in c d ->
  s_contains (py_scope_of d) (py_scope_of c) = true.
Proof.
  intros Hw [A B]. pose proof (py_order _ _ Hw). apply py_s_contains. lia.
Qed.

(* ====================================================================== *)
(* 4. counting                                                             *)
(* ====================================================================== *)

Definition py_child_ok (code : list token) (ds : list pydesc) (d : pydesc) (ch : list scope0) : Prop :=
  (forall c, In c ch -> exists d', In d' ds /\ c = py_scope_of d' /\ py_nested_in d' d /\ pd_start d' < length code) /\
  (forall d', In d' ds -> py_nested_in d' d ->
     exists d'', In (py_scope_of d'') ch /\ pd_start d'' <= pd_start d' /\ pd_bend d' <= pd_bend d'').

Theorem py_count_spec code ds d ch :
  StronglySorted pos_lt code -> py_shape code d -> py_child_ok code ds d ch ->
  own_token_indices code (py_scope_of d) ch = py_own_indices ds d.
Proof.
  intros HS Hw [H1 H2]. pose proof (py_order _ _ Hw) as Ho. unfold own_token_indices, py_own_indices.
  cbn [py_scope_of py_header_of py_body_of s_header s_block h_start snd].
  rewrite sti_filter.
  - apply filter_ext_in. intros k Hk. f_equal.
    rewrite (existsb_ext_In (inr k) _ (map child_range ch)) by (intros x; apply sort_ranges_In).
    apply eq_true_iff_eq. rewrite !existsb_exists. split.
    + intros (r & Hr & Hk'). apply in_map_iff in Hr. destruct Hr as (c & <- & Hc).
      destruct (H1 c Hc) as (d' & Hd' & -> & [N1 N2] & _). exists d'. split; [exact Hd'|].
      unfold inr, child_range in Hk'.
      cbn [py_scope_of py_header_of py_body_of s_header s_block h_start fst snd] in Hk'.
      apply andb_true_iff in Hk'. destruct Hk' as [A B]. apply Nat.leb_le in A. apply Nat.ltb_lt in B.
      rewrite !andb_true_iff, negb_true_iff, Nat.eqb_neq, !Nat.ltb_lt, !Nat.leb_le. lia.
    + intros (d' & Hd' & Hk').
      rewrite !andb_true_iff, negb_true_iff, Nat.eqb_neq, !Nat.ltb_lt, !Nat.leb_le in Hk'.
      destruct (H2 d' Hd') as (d'' & Hc & A & B); [unfold py_nested_in; lia|].
      exists (child_range (py_scope_of d'')). split; [apply in_map; exact Hc|].
      unfold inr, child_range. cbn [py_scope_of py_header_of py_body_of s_header s_block h_start fst snd].
      rewrite andb_true_iff, Nat.ltb_lt, Nat.leb_le. lia.
  - eapply SSf_impl; [|apply seq_SS]. intros a b _ _ H. lia.
  - apply sort_ranges_fst_sorted; [exact HS|]. apply Forall_forall. intros r Hr.
    apply in_map_iff in Hr. destruct Hr as (c & <- & Hc).
    destruct (H1 c Hc) as (d' & _ & -> & _ & Hlt). exact Hlt.
Qed.

Lemma py_measure_expected code ds d ch :
  StronglySorted pos_lt code -> py_shape code d -> py_child_ok code ds d ch ->
  measure code (py_scope_of d, ch) = py_expected code ds d.
Proof.
  intros HS Hw Hc. pose proof (py_order _ _ Hw) as Ho. unfold measure, py_expected, count_lines.
  rewrite (py_count_spec code ds d ch HS Hw Hc).
  cbn [py_scope_of py_header_of py_body_of s_header s_block h_name h_start snd].
  destruct (nth_error code (pd_name d)); [|reflexivity].
  destruct (nth_error code (pd_start d)); [|reflexivity].
  destruct (pd_bend d) as [|e'] eqn:Ee; [lia|].
  replace (S e' - 1) with e' by lia.
  destruct (nth_error code e'); reflexivity.
Qed.

Lemma py_measure_all_expected code ds : forall U ds',
  map fst U = map py_scope_of ds' ->
  (forall d ch, In d ds' -> In (py_scope_of d, ch) U ->
     measure code (py_scope_of d, ch) = py_expected code ds d) ->
  measure_all code U = py_expected_all code ds' ds.
Proof.
  induction U as [|[sc ch] U IH]; intros ds' Hm Hall; destruct ds' as [|d ds'']; try discriminate; [reflexivity|].
  cbn [map fst] in Hm. inversion Hm as [[E1 E2]]. subst sc.
  cbn [measure_all py_expected_all].
  rewrite (Hall d ch (or_introl eq_refl) (or_introl eq_refl)).
  destruct (py_expected code ds d); [|reflexivity].
  rewrite (IH ds'' E2); [reflexivity|].
  intros d' ch' Hd' Hin. apply Hall; right; assumption.
Qed.

Lemma py_unfold_child_ok code ds d ch :
  Forall (py_shape code) ds -> StronglySorted py_before ds -> In d ds ->
  In (py_scope_of d, ch) (unfold_scopes (fold_scopes (map py_scope_of ds))) ->
  py_child_ok code ds d ch.
Proof.
  intros Hw Hd Hdin Hin.
  destruct (children_cover _ (py_scopes_lam_sorted code ds Hw Hd) _ _ Hin) as [C1 C2].
  pose proof Hw as Hw'. rewrite Forall_forall in Hw'. split.
  - intros c Hc. destruct (C1 c Hc) as [Hcin Hcc]. apply in_map_iff in Hcin.
    destruct Hcin as (d' & <- & Hd'). exists d'. split; [exact Hd'|]. split; [reflexivity|].
    split; [eapply py_contains_nested; eassumption|]. pose proof (py_order _ _ (Hw' d' Hd')). lia.
  - intros d' Hd' Hn.
    destruct (C2 (py_scope_of d') (in_map _ _ _ Hd') (py_nested_contains code d' d (Hw' d Hdin) Hn))
      as (c & Hc & Hce).
    destruct (C1 c Hc) as [Hcin _]. apply in_map_iff in Hcin. destruct Hcin as (d'' & <- & Hd'').
    exists d''. split; [exact Hc|]. destruct Hce as [E|E].
    + apply py_scope_of_inj in E. subst d''. lia.
    + apply py_s_contains in E. lia.
Qed.

(* ====================================================================== *)
(* 5. the order of the recognised headers                                  *)
(* ====================================================================== *)

(* Python has a single pattern: find_all returns its matches in source order *)
Lemma py_headers_sorted code hs : extract_headers LPython code = OK hs ->
  StronglySorted (fun a b : header => h_start a < h_start b) hs.
Proof.
  intros H. pose proof (extract_headers_wf _ _ _ H) as Hw.
  destruct single_pattern_Python as (e & fb & Ep).
  unfold extract_headers in H. rewrite Ep in H. cbn [headers_of_patterns] in H.
  destruct (get_headers code e fb) as [h1|k] eqn:E1; [|discriminate].
  apply get_headers_spec in E1. destruct E1 as [_ Hd]. rewrite app_nil_r in H.
  inversion H; subst. eapply SSf_impl; [|exact Hd].
  intros a b Ha Hb Hab. cbv beta in Hab. rewrite Forall_forall in Hw.
  destruct (Hw a Ha) as [Hwa _]. lia.
Qed.

Lemma py_headers_eq code ds hs :
  extract_headers LPython code = OK hs -> StronglySorted py_before ds ->
  Permutation hs (map py_header_of ds) -> hs = map py_header_of ds.
Proof.
  intros H Hd Hp. apply (SS_perm_eq (fun a b : header => h_start a < h_start b)).
  - intros a b. lia.
  - apply py_headers_sorted with (code := code). exact H.
  - apply (SSf_map (fun a b : header => h_start a < h_start b) py_header_of).
    eapply SSf_impl; [|exact Hd]. intros a b _ _ [Hlt _]. exact Hlt.
  - exact Hp.
Qed.

(* ====================================================================== *)
(* 6. C01 (Python, given the headers)                                      *)
(* ====================================================================== *)

Theorem C01_python_pipeline : forall toks ds,
  let code := filter_tokens false toks in
  StronglySorted pos_lt code ->
  filter_nocl_comment_tokens toks = [] ->
  py_wf_descs code ds ->
  (exists hs, extract_headers LPython code = OK hs /\ Permutation hs (map py_header_of ds)) ->
  scan_file LPython toks = py_expected_all code ds ds.
Proof.
  intros toks ds code HS Hnocl Hwf (hs & Hh & Hp).
  destruct (py_wf_inv _ _ Hwf) as (Hnc & Hw & Hd).
  pose proof (py_headers_eq code ds hs Hh Hd Hp) as Ehs. subst hs.
  unfold scan_file, build_scopes. fold code.
  rewrite Hh, (py_extract_blocks_spec code ds HS Hnc Hw), Hnocl.
  change (lang_nested LPython) with true. cbn [map].
  rewrite filter_nocl_nil, (py_pairing_spec code ds _ HS Hw Hd (Permutation_refl _)).
  apply py_measure_all_expected.
  - apply WfProofsFold.unfold_fold_fst.
  - intros d ch Hdin Hin. rewrite Forall_forall in Hw. apply py_measure_expected; [exact HS | apply Hw, Hdin |].
    apply py_unfold_child_ok; [apply Forall_forall; exact Hw | assumption..].
Qed.

Print Assumptions py_pairing_spec.
Print Assumptions py_count_spec.
Print Assumptions C01_python_pipeline.
