(* TotalProofs.v — the analysis is total: under the finite per-pattern
   certificate [pattern_total_ok] no token list whatsoever (any kinds, texts,
   positions) can make scan_file fail.  The certificate is evaluated on the
   patterns captured from the Python source in Scope/TotalCerts.v. *)
From Verif Require Import Base Regex Nfa Dfa Token TokEngine Unamb HasName GenPatterns
  Lex Headers Blocks Pairing Fold ScanFile
  TotalProofsHeaders TotalProofsBlocks TotalProofsScopes.
Open Scope nat_scope.

Definition pattern_total_ok (ef : expr tpred * option (expr tpred)) : bool :=
  unambiguous_check (fst ef) && has_name_check (fst ef) &&
  match snd ef with Some f => unambiguous_check f | None => true end.

Lemma pattern_total_ok_prop : forall ps,
  forallb pattern_total_ok ps = true -> Forall pattern_ok_prop ps.
Proof.
  intros ps H. rewrite forallb_forall in H. apply Forall_forall. intros ef Hin.
  specialize (H ef Hin). unfold pattern_total_ok in H.
  apply andb_true_iff in H. destruct H as [H H3].
  apply andb_true_iff in H. destruct H as [H1 H2].
  unfold pattern_ok_prop. split; [exact H1|]. split; [exact H2|].
  destruct (snd ef); [exact H3 | exact I].
Qed.

(* ====================================================================== *)
(* 1. build_scopes                                                         *)
(* ====================================================================== *)

Theorem build_scopes_ok : forall l tokens,
  forallb pattern_total_ok (lang_patterns l) = true ->
  exists scs, build_scopes l tokens = OK scs /\
    Forall (fun sc => good_scope (length (filter_tokens false tokens)) (fst sc)) scs.
Proof.
  intros l tokens Hcert. unfold build_scopes.
  set (code := filter_tokens false tokens).
  destruct (extract_headers_ok l code (pattern_total_ok_prop _ Hcert)) as (hs & Eh & Hhs).
  rewrite Eh.
  destruct (extract_blocks_ok l code hs) as (bs & Eb & Hbs). rewrite Eb.
  pose proof (build_scopes_from_good code hs bs Hhs Hbs) as Hsc.
  rewrite Forall_forall in Hsc.
  set (filtered := filter_nocl_scopes code (build_scopes_from code hs bs)
                     (map t_line (filter_nocl_comment_tokens tokens))).
  assert (Hfilt : forall s, In s filtered -> good_scope (length code) s).
  { intros s Hs. apply Hsc. eapply filter_nocl_scopes_In. exact Hs. }
  destruct (lang_nested l); eexists; (split; [reflexivity|]); apply Forall_forall.
  - intros [sc ch] Hin. cbn [fst]. apply unfold_fold_In in Hin. apply Hfilt. tauto.
  - intros [sc ch] Hin. cbn [fst]. apply in_map_iff in Hin. destruct Hin as (s & E & Hin).
    inversion E; subst. apply Hfilt. apply filter_scopes_nested_functions_In. exact Hin.
Qed.

(* ====================================================================== *)
(* 2. measure                                                              *)
(* ====================================================================== *)

Lemma measure_ok : forall code sc,
  good_scope (length code) (fst sc) -> exists m, measure code sc = OK m.
Proof.
  intros code [s ch] ((Hn & Hs) & (Hb1 & Hb2)). cbn [fst] in *. unfold measure.
  destruct (nth_error code (h_name (s_header s))) as [nm|] eqn:En;
    [|apply nth_error_None in En; lia].
  destruct (nth_error code (h_start (s_header s))) as [st|] eqn:Es;
    [|apply nth_error_None in Es; lia].
  destruct (snd (s_block s)) as [|e'] eqn:Ee; [lia|].
  destruct (nth_error code e') as [lt|] eqn:El; [|apply nth_error_None in El; lia].
  eexists. reflexivity.
Qed.

Lemma measure_all_ok : forall code scs,
  Forall (fun sc => good_scope (length code) (fst sc)) scs ->
  exists ms, measure_all code scs = OK ms.
Proof.
  intros code. induction scs as [|sc r IH]; intros H; cbn [measure_all].
  - eexists. reflexivity.
  - inversion H as [|? ? H1 Hr]; subst.
    destruct (measure_ok code sc H1) as [m Em]. rewrite Em.
    destruct (IH Hr) as [ms Ems]. rewrite Ems. eexists. reflexivity.
Qed.

(* ====================================================================== *)
(* 3. scan_file                                                            *)
(* ====================================================================== *)

Theorem scan_file_total : forall (l : language) (toks : list token),
  forallb pattern_total_ok (lang_patterns l) = true ->
  exists ms, scan_file l toks = OK ms.
Proof.
  intros l toks Hcert. unfold scan_file.
  destruct (build_scopes_ok l toks Hcert) as (scs & E & Hall). rewrite E.
  apply measure_all_ok. exact Hall.
Qed.

(* the same for the entry point that starts from the lexer's output *)
Corollary analyze_total : forall (l : language) (code : pystr) (lts : list ltok),
  forallb pattern_total_ok (lang_patterns l) = true ->
  exists r, analyze l code lts = OK r.
Proof.
  intros l code lts Hcert. unfold analyze.
  destruct (scan_file_total l (lex code lts false) Hcert) as [ms E]. rewrite E.
  eexists. reflexivity.
Qed.

Print Assumptions build_scopes_ok.
Print Assumptions scan_file_total.
Print Assumptions analyze_total.
