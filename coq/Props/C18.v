(* C18 — interim *)
From Verif Require Import Base GenDelta Render.
Open Scope Z_scope.
Example C18_ex : ov_rows (overview_text [mkLT [80] 1 10 2 0 0] (Some [mkLT [80] 1 7 2 0 0])) = [[[80]; [49]; [50]; [49;48;32;40;43;51;41]; [48]; [48]]].
Proof. vm_compute. reflexivity. Qed.
