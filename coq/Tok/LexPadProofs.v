(* LexPadProofs.v — lex() hands the lexer the text with a final line break ensured
   ([pad_nl]) and drops the padding from the tokens again ([trim_pad]).  Trimming a
   lexing of the padded text gives a lexing of the text, so every C16 theorem of
   LexProofs.v holds for [lex_file]. *)
From Verif Require Import Base Token Lex LexProofs.
From Coq Require Import Sorted.
Open Scope Z_scope.

(* ---------- small facts ---------- *)
Lemma ltok_eta t : mkLtok (lt_off t) (lt_kind t) (lt_val t) = t.
Proof. destruct t; reflexivity. Qed.

(* a token that ends at or before n is not touched by the trimming *)
Lemma trim_tok_id n t : lt_off t + Z.of_nat (length (lt_val t)) <= n -> trim_tok n t = t.
Proof.
  intros H. unfold trim_tok. rewrite firstn_all2 by lia. apply ltok_eta.
Qed.

Lemma app_tail_split {A} (c v rest : list A) (x : A) :
  c ++ [x] = v ++ rest ->
  (exists c', c = v ++ c' /\ rest = c' ++ [x]) \/ (v = c ++ [x] /\ rest = []).
Proof.
  intros H. induction rest as [|y r' _] using rev_ind.
  - right. rewrite app_nil_r in H. auto.
  - left. rewrite app_assoc in H. apply app_inj_tail in H. destruct H as [H1 H2].
    subst y. exists r'. auto.
Qed.

(* after the end of the text every lexer token is empty, hence dropped *)
Lemma contract_from_nil_trim : forall lts off n, contract_from off [] lts ->
  filter nonempty (map (trim_tok n) lts) = [].
Proof.
  induction lts as [|t r IH]; intros off n H; cbn [map filter]; auto.
  cbn [contract_from] in H. destruct H as [_ [rest [Hc Hr]]].
  symmetry in Hc. apply app_eq_nil in Hc. destruct Hc as [Hv Hrest]. subst rest.
  unfold nonempty at 1. cbn [trim_tok lt_val]. rewrite Hv, firstn_nil.
  eapply IH; eauto.
Qed.

(* ---------- trimming without padding: only empty tokens are dropped ---------- *)
Lemma contract_from_trim_nopad : forall lts off c, contract_from off c lts ->
  contract_from off c (filter nonempty (map (trim_tok (off + Z.of_nat (length c))) lts)).
Proof.
  induction lts as [|t r IH]; intros off c H; cbn [map filter].
  - exact H.
  - cbn [contract_from] in H. destruct H as [Ho [rest [Hc Hr]]].
    assert (Hn : off + Z.of_nat (length c)
                 = off + Z.of_nat (length (lt_val t)) + Z.of_nat (length rest)).
    { subst c. rewrite app_length. lia. }
    rewrite trim_tok_id by (rewrite Ho, Hn; lia).
    apply IH in Hr. rewrite <- Hn in Hr.
    unfold nonempty at 1. destruct (lt_val t) as [|x v] eqn:Ev.
    + cbn [app] in Hc. subst rest. cbn [length] in Hr.
      replace (off + Z.of_nat 0) with off in Hr by lia. exact Hr.
    + cbn [contract_from]. split; [exact Ho|]. exists rest. rewrite Ev. split; [exact Hc|exact Hr].
Qed.

(* ---------- trimming the padding ---------- *)
Lemma contract_from_trim_pad : forall lts off c, contract_from off (c ++ [10]) lts ->
  contract_from off c (filter nonempty (map (trim_tok (off + Z.of_nat (length c))) lts)).
Proof.
  induction lts as [|t r IH]; intros off c H; cbn [map filter].
  - cbn [contract_from] in H. destruct c; discriminate.
  - cbn [contract_from] in H. destruct H as [Ho [rest [Hc Hr]]].
    apply app_tail_split in Hc. destruct Hc as [[c' [Hc Hrest]] | [Hv Hrest]].
    + (* the head token lies within the text *)
      subst rest.
      assert (Hn : off + Z.of_nat (length c)
                   = off + Z.of_nat (length (lt_val t)) + Z.of_nat (length c')).
      { subst c. rewrite app_length. lia. }
      rewrite trim_tok_id by (rewrite Ho, Hn; lia).
      apply IH in Hr. rewrite <- Hn in Hr.
      unfold nonempty at 1. destruct (lt_val t) as [|x v] eqn:Ev.
      * cbn [app] in Hc. subst c'. cbn [length] in Hr.
        replace (off + Z.of_nat 0) with off in Hr by lia. exact Hr.
      * cbn [contract_from]. split; [exact Ho|]. exists c'. rewrite Ev.
        split; [exact Hc|exact Hr].
    + (* the head token reaches the padding: it is cut back to the text, nothing follows *)
      subst rest.
      rewrite (contract_from_nil_trim r _ _ Hr).
      assert (Ht : trim_tok (off + Z.of_nat (length c)) t = mkLtok off (lt_kind t) c).
      { unfold trim_tok. rewrite Ho, Hv.
        replace (Z.to_nat (Z.max (off + Z.of_nat (length c) - off) 0)) with (length c) by lia.
        rewrite firstn_app, Nat.sub_diag, firstn_all. cbn [firstn]. rewrite app_nil_r.
        reflexivity. }
      rewrite Ht. unfold nonempty. cbn [lt_val].
      destruct c as [|x c0] eqn:Ec.
      * cbn [contract_from]. reflexivity.
      * cbn [contract_from lt_off lt_val]. split; [reflexivity|].
        exists []. rewrite app_nil_r. split; reflexivity.
Qed.

(* ---------- the three statements about trim_pad ---------- *)

(* key lemma: trimming the padding from a lexing of the padded text gives a lexing of the text *)
Theorem contract_trim_pad : forall code lts,
  contract (pad_nl code) lts -> contract code (trim_pad code lts).
Proof.
  intros code lts H. unfold contract, trim_pad, pad_nl in *.
  change (Z.of_nat (length code)) with (0 + Z.of_nat (length code)).
  destruct (ends_with_nl code).
  - apply contract_from_trim_nopad. exact H.
  - apply contract_from_trim_pad. exact H.
Qed.

(* nothing but the padding is lost: a non-empty token that ends within the text is kept unchanged *)
Theorem trim_pad_keeps : forall code lts t,
  contract (pad_nl code) lts -> In t lts -> nonempty t = true ->
  lt_off t + Z.of_nat (length (lt_val t)) <= Z.of_nat (length code) -> In t (trim_pad code lts).
Proof.
  intros code lts t _ Hin Hne Hend. unfold trim_pad.
  apply filter_In. split; [|exact Hne].
  apply in_map_iff. exists t. split; [apply trim_tok_id; exact Hend|exact Hin].
Qed.

(* a lexing of the text itself is only stripped of its empty tokens *)
Lemma trim_pad_contract_id : forall code lts, contract code lts ->
  trim_pad code lts = filter nonempty lts.
Proof.
  intros code lts H. unfold trim_pad. f_equal.
  destruct (contract_facts code lts H) as [_ FA]. rewrite Forall_forall in FA.
  rewrite <- (map_id lts) at 2. apply map_ext_in. intros t Ht.
  destruct (FA t Ht) as [_ [B _]]. apply trim_tok_id. lia.
Qed.

(* when the text already ends in a line break nothing is trimmed *)
Theorem trim_pad_id : forall code lts, ends_with_nl code = true -> contract code lts ->
  trim_pad code lts = filter nonempty lts.
Proof. intros code lts _. apply trim_pad_contract_id. Qed.

(* ---------- C16 for lex_file ---------- *)
Theorem C16F_line_and_column : forall code lts lt t,
  contract (pad_nl code) lts -> kept_pair code (trim_pad code lts) lt t ->
  t_kind t = lt_kind lt /\ t_value t = lt_val lt /\
  t_line t = 1 + count_nl (firstn (Z.to_nat (lt_off lt)) code) /\
  t_col t = lt_off lt - line_start (firstn (Z.to_nat (lt_off lt)) code) + 1.
Proof.
  intros code lts lt t H. apply C16_line_is_count. apply contract_trim_pad. exact H.
Qed.

Theorem C16F_position_faithful : forall code lts lt t,
  contract (pad_nl code) lts -> kept_pair code (trim_pad code lts) lt t ->
  location_to_index code (t_line t) (t_col t) = OK (lt_off lt).
Proof.
  intros code lts lt t H. apply C16_position. apply contract_trim_pad. exact H.
Qed.

Theorem C16F_text_at_position : forall code lts fc t,
  contract (pad_nl code) lts -> In t (lex_file code lts fc) ->
  exists off, location_to_index code (t_line t) (t_col t) = OK off /\ 0 <= off /\
    off + Z.of_nat (length (t_value t)) <= Z.of_nat (length code) /\
    firstn (length (t_value t)) (skipn (Z.to_nat off) code) = t_value t.
Proof.
  intros code lts fc t H. unfold lex_file.
  apply (C16_text_lex code (trim_pad code lts) fc t). apply contract_trim_pad. exact H.
Qed.

Theorem C16F_strictly_increasing : forall code lts fc,
  contract (pad_nl code) lts -> StronglySorted pos_lt (lex_file code lts fc).
Proof.
  intros code lts fc H. unfold lex_file.
  apply C16_strictly_increasing_lex. apply contract_trim_pad. exact H.
Qed.

Theorem C16F_no_overlap : forall code lts fc, contract (pad_nl code) lts ->
  StronglySorted (fun t1 t2 => disjoint_on_line t1 t2 /\ disjoint_offsets code t1 t2)
                 (lex_file code lts fc).
Proof.
  intros code lts fc H. unfold lex_file.
  apply C16_disjoint_lex. apply contract_trim_pad. exact H.
Qed.

Theorem C16F_filtering : forall code lts fc t,
  In t (lex_file code lts fc) <->
  In t (locate code (trim_pad code lts)) /\ is_whitespace t = false /\
  (fc = true -> is_comment t = false).
Proof. intros code lts fc t. unfold lex_file. apply C16_lex_In. Qed.

Print Assumptions contract_trim_pad.
Print Assumptions trim_pad_keeps.
Print Assumptions trim_pad_id.
Print Assumptions C16F_line_and_column.
Print Assumptions C16F_position_faithful.
Print Assumptions C16F_text_at_position.
Print Assumptions C16F_strictly_increasing.
Print Assumptions C16F_no_overlap.
Print Assumptions C16F_filtering.

(* non-vacuity: "a//b" lexed as "a//b\n" — the comment token is cut back, the trailing
   empty token is dropped *)
Example lex_file_example :
  lex_file [97; 47; 47; 98] [mkLtok 0 KName [97]; mkLtok 1 KComment [47; 47; 98; 10]; mkLtok 5 KText []] false
  = [mkTok KName [97] 1 1; mkTok KComment [47; 47; 98] 1 2].
Proof. vm_compute. reflexivity. Qed.
