(* PySpecCheck.v — boolean checker for py_wf_descs (hypothesis of the Python C01 theorem), proved sound. *)
From Verif Require Import Base Token Lex Headers Blocks Pairing Fold ScanFile Spec PySpec.
Open Scope Z_scope.

Definition py_shape_b (ts : list token) (d : pydesc) : bool :=
  Nat.leb (pd_start d) (pd_name d) && Nat.ltb (pd_name d) (pd_hend d) && Nat.ltb (pd_hend d) (pd_bstart d) &&
  Nat.ltb (pd_bstart d) (pd_bend d) && Nat.leb (pd_bend d) (length ts) &&
  forallb (fun k => tok_line ts k <=? tok_line ts (pd_hend d)) (seq (pd_hend d) (pd_bstart d - pd_hend d)) &&
  (tok_line ts (pd_hend d) <? tok_line ts (pd_bstart d)) &&
  forallb (fun k => tok_col ts (pd_start d) <? line_indent ts k) (seq (pd_bstart d) (pd_bend d - pd_bstart d)) &&
  (negb (Nat.ltb (pd_bend d) (length ts)) ||
   ((tok_line ts (pd_bend d - 1) <? tok_line ts (pd_bend d)) && (tok_col ts (pd_bend d) <=? tok_col ts (pd_start d)))).

Definition py_nested_in_b (c d : pydesc) : bool := Nat.leb (pd_bstart d) (pd_start c) && Nat.leb (pd_bend c) (pd_bend d).
Definition py_after_b (c d : pydesc) : bool := Nat.leb (pd_bend d) (pd_start c).

Fixpoint py_sorted_b (ds : list pydesc) : bool :=
  match ds with
  | [] => true
  | d :: r => forallb (fun d' => Nat.ltb (pd_start d) (pd_start d') && (py_nested_in_b d' d || py_after_b d' d)) r && py_sorted_b r
  end.

Definition py_wf_descs_b (ts : list token) (ds : list pydesc) : bool :=
  forallb (fun t => negb (ends_with_str [92; 10] (t_value t))) ts && forallb (py_shape_b ts) ds && py_sorted_b ds.

Lemma py_sorted_b_sound : forall ds, py_sorted_b ds = true ->
  forall i j di dj, (i < j)%nat -> nth_error ds i = Some di -> nth_error ds j = Some dj ->
    (pd_start di < pd_start dj)%nat /\ (py_nested_in dj di \/ py_after dj di).
Proof.
  induction ds as [|d r IH]; intros H i j di dj Hij Hi Hj.
  - destruct i; discriminate.
  - cbn [py_sorted_b] in H. apply andb_prop in H as [Hh Hr].
    destruct j as [|j]; [lia|]. cbn [nth_error] in Hj.
    destruct i as [|i].
    + cbn [nth_error] in Hi. injection Hi as <-.
      rewrite forallb_forall in Hh. apply nth_error_In in Hj. apply Hh in Hj.
      apply andb_prop in Hj as [Ha Hb]. apply Nat.ltb_lt in Ha. split; [exact Ha|].
      apply orb_prop in Hb as [Hb|Hb].
      * left. unfold py_nested_in_b in Hb. apply andb_prop in Hb as [Hb1 Hb2].
        apply Nat.leb_le in Hb1. apply Nat.leb_le in Hb2. split; assumption.
      * right. unfold py_after_b in Hb. apply Nat.leb_le in Hb. exact Hb.
    + cbn [nth_error] in Hi. apply (IH Hr i j); [lia|assumption|assumption].
Qed.

Theorem py_wf_descs_b_sound ts ds : py_wf_descs_b ts ds = true -> py_wf_descs ts ds.
Proof.
  unfold py_wf_descs_b. intros H. apply andb_prop in H as [H Ho]. apply andb_prop in H as [Hc Hs]. constructor.
  - apply Forall_forall. intros t Ht. rewrite forallb_forall in Hc. apply Hc in Ht. apply negb_true_iff in Ht. exact Ht.
  - apply Forall_forall. intros d Hd. rewrite forallb_forall in Hs. apply Hs in Hd. unfold py_shape_b in Hd.
    apply andb_prop in Hd as [Hd H9]. apply andb_prop in Hd as [Hd H8]. apply andb_prop in Hd as [Hd H7].
    apply andb_prop in Hd as [Hd H6]. apply andb_prop in Hd as [Hd H5]. apply andb_prop in Hd as [Hd H4].
    apply andb_prop in Hd as [Hd H3]. apply andb_prop in Hd as [H1 H2].
    apply Nat.leb_le in H1. apply Nat.ltb_lt in H2. apply Nat.ltb_lt in H3. apply Nat.ltb_lt in H4.
    apply Nat.leb_le in H5. apply Z.ltb_lt in H7.
    split; [lia|]. split; [exact H3|]. split; [lia|]. split; [|split; [exact H7|split]].
    + intros k Hk. rewrite forallb_forall in H6.
      assert (Hin : In k (seq (pd_hend d) (pd_bstart d - pd_hend d))) by (apply in_seq; lia).
      apply H6 in Hin. apply Z.leb_le in Hin. exact Hin.
    + intros k Hk. rewrite forallb_forall in H8.
      assert (Hin : In k (seq (pd_bstart d) (pd_bend d - pd_bstart d))) by (apply in_seq; lia).
      apply H8 in Hin. apply Z.ltb_lt in Hin. exact Hin.
    + intros Hlt. apply orb_prop in H9 as [H9|H9].
      * apply negb_true_iff in H9. apply Nat.ltb_ge in H9. lia.
      * apply andb_prop in H9 as [Ha Hb]. apply Z.ltb_lt in Ha. apply Z.leb_le in Hb. split; assumption.
  - apply py_sorted_b_sound. exact Ho.
Qed.
