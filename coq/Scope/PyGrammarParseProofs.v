(* PyGrammarParseProofs.v — soundness of the executable recogniser of PyGrammarParse.v with respect to the
   inductive grammar of PyGrammar.v:  py_parse_program ts = Some ds -> py_canonical_program ts ds. *)
From Verif Require Import Base Regex Token TokEngine Lex Headers Blocks Spec HeaderSpec LexShapes PySpec Grammar GrammarAll
  GrammarParse GrammarParseProofs PyGrammar PyGrammarParse.
Open Scope nat_scope.

(* ------------------------------------------------------------------------------------------------ *)
(* 1. take_line, split_lines                                                                         *)
(* ------------------------------------------------------------------------------------------------ *)

Lemma take_line_spec : forall ln ts l rest,
  take_line ln ts = (l, rest) -> ts = l ++ rest /\ Forall (fun t => t_line t = ln) l.
Proof.
  intros ln. induction ts as [| t r IHr]; intros l rest H; simpl in H.
  - inversion H. split; [reflexivity | constructor].
  - destruct (t_line t =? ln)%Z eqn:Hln.
    + destruct (take_line ln r) as [l' rest'] eqn:Htl. inversion H; subst l rest.
      destruct (IHr l' rest' eq_refl) as [Er Hf]. split.
      * simpl. rewrite <- Er. reflexivity.
      * constructor; [apply Z.eqb_eq; exact Hln | exact Hf].
    + inversion H. split; [reflexivity | constructor].
Qed.

(* the first token always belongs to its own line *)
Lemma take_line_head : forall t r,
  exists l' rest, take_line (t_line t) (t :: r) = (t :: l', rest) /\ r = l' ++ rest.
Proof.
  intros t r. simpl. rewrite Z.eqb_refl.
  destruct (take_line (t_line t) r) as [l' rest'] eqn:Htl.
  exists l', rest'. split; [reflexivity |].
  apply take_line_spec in Htl. destruct Htl as [Er _]. exact Er.
Qed.

Lemma split_lines_concat : forall fuel ts, length ts <= fuel -> concat (split_lines fuel ts) = ts.
Proof.
  induction fuel as [| f IHf]; intros ts Hlen.
  - destruct ts as [| t r]; [reflexivity | simpl in Hlen; lia].
  - destruct ts as [| t r]; [reflexivity |].
    cbn [split_lines].
    destruct (take_line_head t r) as (l' & rest & Htl & Er).
    rewrite Htl. cbn [concat].
    rewrite IHf.
    + rewrite Er. reflexivity.
    + simpl in Hlen. rewrite Er, app_length in Hlen. lia.
Qed.

Lemma split_lines_nonempty : forall fuel ts, Forall (fun l => l <> []) (split_lines fuel ts).
Proof.
  induction fuel as [| f IHf]; intros ts; [constructor |].
  destruct ts as [| t r]; [constructor |].
  cbn [split_lines].
  destruct (take_line_head t r) as (l' & rest & Htl & Er).
  rewrite Htl. constructor; [discriminate | apply IHf].
Qed.

(* ------------------------------------------------------------------------------------------------ *)
(* 2. line_ok, no_def_b                                                                              *)
(* ------------------------------------------------------------------------------------------------ *)

Lemma no_def_b_sound : forall l, no_def_b l = true -> no_def l.
Proof.
  intros l H. unfold no_def_b in H. unfold no_def. apply Forall_forall. intros x Hx.
  rewrite forallb_forall in H. apply negb_true_iff. apply H. exact Hx.
Qed.

Lemma line_ok_body : forall c ln l,
  line_ok c ln l = true ->
  l <> [] /\
  forallb (fun t => t_line t =? ln)%Z l && (line_col l =? c)%Z
    && forallb (fun t => negb (ends_with_str [92%Z; 10%Z] (t_value t))) l
    && negb (kw_is (last l dummy_tok) s_async) = true.
Proof.
  intros c ln l H. destruct l as [| t r]; [discriminate |].
  split; [discriminate | exact H].
Qed.

Lemma line_ok_sound : forall c ln l, line_ok c ln l = true -> line_at c ln l.
Proof.
  intros c ln l H. apply line_ok_body in H. destruct H as [Hne H].
  apply andb_true_iff in H. destruct H as [H Hlast].
  apply andb_true_iff in H. destruct H as [H Hcont].
  apply andb_true_iff in H. destruct H as [Hline Hcol].
  unfold line_at. split; [exact Hne |]. split; [| split; [| split]].
  - apply Forall_forall. intros x Hx. rewrite forallb_forall in Hline.
    apply Z.eqb_eq. apply Hline. exact Hx.
  - apply Z.eqb_eq in Hcol. exact Hcol.
  - unfold no_continuation. apply Forall_forall. intros x Hx. rewrite forallb_forall in Hcont.
    apply negb_true_iff. apply Hcont. exact Hx.
  - apply negb_true_iff in Hlast. exact Hlast.
Qed.

(* ------------------------------------------------------------------------------------------------ *)
(* 3. pwalk, pgroups_b                                                                               *)
(* ------------------------------------------------------------------------------------------------ *)

Lemma pplain_of_flags : forall t, is_lparen t = false -> is_rparen t = false -> pplain t = true.
Proof. intros t Hl Hr. unfold pplain. rewrite Hl, Hr. reflexivity. Qed.

(* leaving a parenthesis opened before ts: ts splits at the matching close parenthesis *)
Lemma pwalk_split : forall n top ts d res,
  length ts <= n -> pwalk top ts (S d) = Some res -> res <= d ->
  exists g c r, ts = g ++ c :: r /\ is_rparen c = true /\ pinner g /\ pwalk top r d = Some res.
Proof.
  induction n as [| n IHn]; intros top ts d res Hlen Hw Hres.
  - destruct ts as [| t r]; simpl in Hlen; [| lia].
    simpl in Hw. inversion Hw. lia.
  - destruct ts as [| t r].
    + simpl in Hw. inversion Hw. lia.
    + simpl in Hlen. simpl in Hw.
      destruct (is_lparen t) eqn:Hl.
      * destruct (IHn top r (S d) res) as (g1 & c1 & r1 & Er & Hc1 & Hg1 & Hw1); [lia | exact Hw | lia |].
        assert (Hlen1 : length r1 <= n).
        { subst r. rewrite app_length in Hlen. simpl in Hlen. lia. }
        destruct (IHn top r1 d res) as (g2 & c2 & r2 & Er1 & Hc2 & Hg2 & Hw2); [lia | exact Hw1 | lia |].
        exists (t :: g1 ++ c1 :: g2), c2, r2. repeat split.
        -- subst r r1. simpl. rewrite <- app_assoc. reflexivity.
        -- exact Hc2.
        -- apply pinner_group; assumption.
        -- exact Hw2.
      * destruct (is_rparen t) eqn:Hr.
        -- exists [], t, r. repeat split; [exact Hr | constructor | exact Hw].
        -- destruct (IHn top r d res) as (g1 & c1 & r1 & Er & Hc1 & Hg1 & Hw1); [lia | exact Hw | lia |].
           exists (t :: g1), c1, r1. repeat split.
           ++ subst r. reflexivity.
           ++ exact Hc1.
           ++ apply pinner_plain; [apply pplain_of_flags; assumption | exact Hg1].
           ++ exact Hw1.
Qed.

Lemma pwalk_false_groups : forall n ts,
  length ts <= n -> pwalk false ts 0 = Some 0 -> ts = [] \/ pgroups ts.
Proof.
  induction n as [| n IHn]; intros ts Hlen Hw.
  - destruct ts; [left; reflexivity | simpl in Hlen; lia].
  - destruct ts as [| t r]; [left; reflexivity |]. right.
    simpl in Hlen. simpl in Hw.
    destruct (is_lparen t) eqn:Hl.
    + destruct (pwalk_split (length r) false r 0 0) as (g & c & r2 & Er & Hc & Hg & Hw2);
        [lia | exact Hw | lia |].
      subst r.
      assert (Hgrp : pgroup (t :: g ++ [c])) by (apply pgroup_intro; assumption).
      destruct (IHn r2) as [E2 | G2]; [| exact Hw2 | |].
      * rewrite app_length in Hlen. simpl in Hlen. lia.
      * subst r2. apply pgroups_one. exact Hgrp.
      * replace (t :: g ++ c :: r2) with ((t :: g ++ [c]) ++ r2).
        -- apply pgroups_more; assumption.
        -- simpl. rewrite <- app_assoc. reflexivity.
    + destruct (is_rparen t) eqn:Hr; discriminate.
Qed.

Lemma pgroups_b_sound : forall ts, pgroups_b ts = true -> pgroups ts.
Proof.
  intros ts H. unfold pgroups_b in H.
  destruct ts as [| t r]; [discriminate |].
  destruct (pwalk false (t :: r) 0) as [[| k] |] eqn:Hw; try discriminate.
  destruct (pwalk_false_groups (length (t :: r)) (t :: r)) as [E | G]; [lia | exact Hw | discriminate | exact G].
Qed.

(* ------------------------------------------------------------------------------------------------ *)
(* 3b. def_shape, join_def, head_ok                                                                  *)
(* ------------------------------------------------------------------------------------------------ *)

(* the local function of def_shape, named *)
Definition def_go (pre : nat) (r : list token) : option (nat * nat) :=
  match r with
  | d :: nm :: r2 =>
      if kw_is d s_def && is_name nm then
        let n := groups_len r2 0%Z in
        let gs := firstn n r2 in
        let rest := skipn n r2 in
        match rest with
        | [] => None
        | x :: _ =>
            if pgroups_b gs && no_def_b gs && negb (is_lparen x) && no_def_b rest
            then Some (pre + 1, pre + 2 + n) else None
        end
      else None
  | _ => None
  end.

Lemma def_shape_unfold : forall l,
  def_shape l = match l with
                | a :: r => if kw_is a s_async then def_go 1 r else def_go 0 l
                | [] => None
                end.
Proof. intros l. reflexivity. Qed.

Lemma def_go_sound : forall pre r nmo heo,
  def_go pre r = Some (nmo, heo) ->
  exists d nm gs rest,
    r = d :: nm :: gs ++ rest /\ kw_is d s_def = true /\ is_name nm = true /\ pgroups gs /\ no_def gs /\
    rest <> [] /\ is_lparen (hd nm rest) = false /\ no_def rest /\
    nmo = pre + 1 /\ heo = pre + 2 + length gs.
Proof.
  intros pre r nmo heo H. unfold def_go in H.
  destruct r as [| d [| nm r2]]; try discriminate.
  destruct (kw_is d s_def && is_name nm) eqn:Hdn; [| discriminate].
  apply andb_true_iff in Hdn. destruct Hdn as [Hd Hnm].
  cbv zeta in H.
  pose proof (firstn_skipn (groups_len r2 0%Z) r2) as Hfs.
  assert (Hlen : skipn (groups_len r2 0%Z) r2 <> [] -> length (firstn (groups_len r2 0%Z) r2) = groups_len r2 0%Z).
  { intros Hne. apply firstn_length_le.
    destruct (le_lt_dec (groups_len r2 0%Z) (length r2)) as [Hle | Hlt]; [exact Hle |].
    exfalso. apply Hne. apply skipn_all2. lia. }
  set (n := groups_len r2 0%Z) in *. clearbody n.
  set (gs := firstn n r2) in *. set (after := skipn n r2) in *. clearbody gs after.
  destruct after as [| x after']; [discriminate |].
  destruct (pgroups_b gs && no_def_b gs && negb (is_lparen x) && no_def_b (x :: after')) eqn:Hchk; [| discriminate].
  apply andb_true_iff in Hchk. destruct Hchk as [Hchk Hndr].
  apply andb_true_iff in Hchk. destruct Hchk as [Hchk Hlp].
  apply andb_true_iff in Hchk. destruct Hchk as [Hgs Hndg].
  inversion H; subst nmo heo. clear H.
  exists d, nm, gs, (x :: after'). repeat split.
  - rewrite Hfs. reflexivity.
  - exact Hd.
  - exact Hnm.
  - apply pgroups_b_sound. exact Hgs.
  - apply no_def_b_sound. exact Hndg.
  - discriminate.
  - apply negb_true_iff in Hlp. exact Hlp.
  - apply no_def_b_sound. exact Hndr.
  - rewrite Hlen; [reflexivity | discriminate].
Qed.

Lemma def_shape_sound : forall hl l nmo heo,
  def_shape l = Some (nmo, heo) -> Forall (fun t => t_line t = hl) (skipn heo l) -> def_line hl l nmo heo.
Proof.
  intros hl l nmo heo H Hrest. rewrite def_shape_unfold in H.
  destruct l as [| a r]; [discriminate |].
  destruct (kw_is a s_async) eqn:Ha.
  - apply def_go_sound in H.
    destruct H as (d & nm & gs & rest & Er & Hd & Hnm & Hgs & Hndg & Hne & Hlp & Hndr & Enmo & Eheo).
    subst r nmo heo.
    change (1 + 2 + length gs) with (S (S (S (length gs)))) in Hrest. cbn [skipn] in Hrest.
    rewrite skipn_app_exact in Hrest.
    apply dl_async; assumption.
  - apply def_go_sound in H.
    destruct H as (d & nm & gs & rest & Er & Hd & Hnm & Hgs & Hndg & Hne & Hlp & Hndr & Enmo & Eheo).
    rewrite Er in *. subst nmo heo.
    change (0 + 2 + length gs) with (S (S (length gs))) in Hrest. cbn [skipn] in Hrest.
    rewrite skipn_app_exact in Hrest.
    apply dl_def; assumption.
Qed.

Lemma join_def_spec : forall fuel acc lines hdr rest1,
  join_def fuel acc lines = Some (hdr, rest1) ->
  exists front, lines = front ++ rest1 /\ hdr = acc ++ concat front.
Proof.
  induction fuel as [| f IHf]; intros acc lines hdr rest1 H; cbn [join_def] in H.
  - destruct (def_shape acc) as [p |]; [| discriminate].
    inversion H; subst hdr rest1. exists []. split; [reflexivity | cbn [concat]; rewrite app_nil_r; reflexivity].
  - destruct (def_shape acc) as [p |].
    + inversion H; subst hdr rest1. exists []. split; [reflexivity | cbn [concat]; rewrite app_nil_r; reflexivity].
    + destruct lines as [| l r]; [discriminate |].
      apply IHf in H. destruct H as (front & Er & Ehdr).
      exists (l :: front). split.
      * rewrite Er. reflexivity.
      * cbn [concat]. rewrite Ehdr, app_assoc. reflexivity.
Qed.

Lemma mono_ok_sound : forall c l, mono_ok c l = true ->
  forall i a b, nth_error l i = Some a -> nth_error l (S i) = Some b ->
    (t_line a <= t_line b)%Z /\ ((t_line a < t_line b)%Z -> (c < t_col b)%Z).
Proof.
  intros c. induction l as [| x r IHr]; intros H i a b Ha Hb.
  - destruct i; discriminate.
  - destruct r as [| y r'].
    + destruct i; simpl in Hb; [discriminate | destruct i; discriminate].
    + cbn [mono_ok] in H.
      apply andb_true_iff in H. destruct H as [H Hrest].
      apply andb_true_iff in H. destruct H as [Hle Hcol].
      destruct i as [| i'].
      * simpl in Ha, Hb. inversion Ha; subst a. inversion Hb; subst b.
        apply Z.leb_le in Hle. split; [exact Hle |].
        intros Hlt. apply orb_true_iff in Hcol. destruct Hcol as [Hn | Hc].
        -- apply negb_true_iff in Hn. apply Z.ltb_ge in Hn. lia.
        -- apply Z.ltb_lt in Hc. exact Hc.
      * apply (IHr Hrest i' a b); [exact Ha | exact Hb].
Qed.

Lemma head_ok_body : forall c ln hl l,
  head_ok c ln hl l = true ->
  l <> [] /\
  (line_no l =? ln)%Z && (line_col l =? c)%Z && (t_line (last l dummy_tok) =? hl)%Z && mono_ok c l
    && forallb (fun t => negb (ends_with_str [92%Z; 10%Z] (t_value t))) l
    && negb (kw_is (last l dummy_tok) s_async) = true.
Proof.
  intros c ln hl l H. destruct l as [| t r]; [discriminate |].
  split; [discriminate | exact H].
Qed.

Lemma head_ok_sound : forall c ln hl l, head_ok c ln hl l = true -> head_at c ln hl l.
Proof.
  intros c ln hl l H. apply head_ok_body in H. destruct H as [Hne H].
  apply andb_true_iff in H. destruct H as [H Hlast].
  apply andb_true_iff in H. destruct H as [H Hcont].
  apply andb_true_iff in H. destruct H as [H Hmono].
  apply andb_true_iff in H. destruct H as [H Hhl].
  apply andb_true_iff in H. destruct H as [Hln Hcol].
  unfold head_at. split; [exact Hne |]. split; [| split; [| split; [| split; [| split]]]].
  - apply Z.eqb_eq in Hln. exact Hln.
  - apply Z.eqb_eq in Hcol. exact Hcol.
  - apply Z.eqb_eq in Hhl. exact Hhl.
  - apply mono_ok_sound. exact Hmono.
  - unfold no_continuation. apply Forall_forall. intros x Hx. rewrite forallb_forall in Hcont.
    apply negb_true_iff. apply Hcont. exact Hx.
  - apply negb_true_iff in Hlast. exact Hlast.
Qed.

(* ------------------------------------------------------------------------------------------------ *)
(* 4. py_block                                                                                       *)
(* ------------------------------------------------------------------------------------------------ *)

Lemma py_block_sound : forall fuel c off lo lines ds rest hi used,
  py_block fuel c off lo lines = Some (ds, rest, hi, used) ->
  exists front,
    lines = front ++ rest /\ front <> [] /\ used = length (concat front) /\
    pblock c off lo (concat front) ds hi.
Proof.
  induction fuel as [| f IHf]; intros c off lo lines ds rest hi used H; [discriminate |].
  cbn [py_block] in H.
  destruct lines as [| l rest0]; [discriminate |].
  cbv zeta in H.
  match type of H with
  | match ?e with _ => _ end = _ => destruct e as [[[[ds1 rest1] mid] used1] |] eqn:Hentry; [| discriminate]
  end.
  (* the entry *)
  assert (Hent : exists front1,
            l :: rest0 = front1 ++ rest1 /\ front1 <> [] /\ used1 = length (concat front1) /\
            pentry c off lo (concat front1) ds1 mid).
  { destruct (starts_def l) eqn:Hsd.
    - (* a definition: header lines joined, then the suite *)
      destruct (join_def (length rest0) l rest0) as [[hdr restJ] |] eqn:Hj; [| discriminate].
      apply join_def_spec in Hj. destruct Hj as (frontJ & EJ & Ehdr).
      destruct (def_shape hdr) as [[nmo heo] |] eqn:Hds; [| discriminate].
      destruct restJ as [| l2 restJ']; [discriminate |].
      set (hl := t_line (last hdr dummy_tok)) in *.
      destruct (head_ok c (line_no l) hl hdr && (lo <? line_no l)%Z
                && forallb (fun t => (t_line t =? hl)%Z) (skipn heo hdr) && (c <? line_col l2)%Z) eqn:Hchk;
        [| discriminate].
      apply andb_true_iff in Hchk. destruct Hchk as [Hchk Hdeep].
      apply andb_true_iff in Hchk. destruct Hchk as [Hchk Hrest].
      apply andb_true_iff in Hchk. destruct Hchk as [Hhead Hlo].
      apply head_ok_sound in Hhead. apply Z.ltb_lt in Hlo. apply Z.ltb_lt in Hdeep.
      assert (Hrest' : Forall (fun t => t_line t = hl) (skipn heo hdr)).
      { apply Forall_forall. intros x Hx. rewrite forallb_forall in Hrest. apply Z.eqb_eq. apply Hrest. exact Hx. }
      destruct (py_block f (line_col l2) (off + length hdr) hl (l2 :: restJ'))
        as [[[[dsS restS] hiS] usedS] |] eqn:Hsub; [| discriminate].
      apply IHf in Hsub. destruct Hsub as (frontS & EfS & HneS & EuS & HpbS).
      inversion Hentry; subst ds1 rest1 mid used1. clear Hentry.
      assert (Econcat : concat ((l :: frontJ) ++ frontS) = hdr ++ concat frontS).
      { rewrite concat_app. cbn [concat]. rewrite Ehdr. reflexivity. }
      exists ((l :: frontJ) ++ frontS). rewrite Econcat. split; [| split; [| split]].
      + rewrite EJ, EfS. cbn [app]. rewrite <- app_assoc. reflexivity.
      + discriminate.
      + rewrite app_length, EuS. reflexivity.
      + rewrite EuS.
        apply (pe_def c off lo hdr (line_no l) hl nmo heo (line_col l2) (concat frontS) dsS hiS);
          [exact Hhead | exact Hlo | apply def_shape_sound; [exact Hds | exact Hrest'] | exact Hdeep | exact HpbS].
    - (* a plain line, possibly with a deeper block *)
      destruct (line_ok c (line_no l) l && (lo <? line_no l)%Z && no_def_b l) eqn:Hok; cbn [negb] in Hentry;
        [| discriminate].
      apply andb_true_iff in Hok. destruct Hok as [Hok Hnd].
      apply andb_true_iff in Hok. destruct Hok as [Hline Hlo].
      apply line_ok_sound in Hline. apply Z.ltb_lt in Hlo. apply no_def_b_sound in Hnd.
      destruct rest0 as [| l2 rest0'].
      + inversion Hentry; subst ds1 rest1 mid used1.
        exists [l]. cbn [concat]. rewrite (app_nil_r l). split; [reflexivity |]. split; [discriminate |].
        split; [reflexivity |].
        apply pe_line; [exact Hline | exact Hlo | exact Hnd].
      + destruct (c <? line_col l2)%Z eqn:Hdeep.
        * apply Z.ltb_lt in Hdeep.
          destruct (py_block f (line_col l2) (off + length l) (line_no l) (l2 :: rest0'))
            as [[[[dsS restS] hiS] usedS] |] eqn:Hsub; [| discriminate].
          apply IHf in Hsub. destruct Hsub as (frontS & EfS & HneS & EuS & HpbS).
          inversion Hentry; subst ds1 rest1 mid used1. clear Hentry.
          exists (l :: frontS). cbn [concat]. split; [| split; [| split]].
          -- rewrite EfS. reflexivity.
          -- discriminate.
          -- rewrite app_length, EuS. reflexivity.
          -- apply (pe_compound c off lo l (line_no l) (line_col l2) (concat frontS) dsS hiS);
               [exact Hline | exact Hlo | exact Hnd | exact Hdeep | exact HpbS].
        * inversion Hentry; subst ds1 rest1 mid used1.
          exists [l]. cbn [concat]. rewrite (app_nil_r l). split; [reflexivity |]. split; [discriminate |].
          split; [reflexivity |].
          apply pe_line; [exact Hline | exact Hlo | exact Hnd]. }
  clear Hentry.
  destruct Hent as (front1 & Ef1 & Hne1 & Eu1 & Hpe1).
  (* further entries of the same block *)
  destruct rest1 as [| l3 rest1'].
  - inversion H; subst ds rest hi used. clear H.
    exists front1. split; [exact Ef1 |]. split; [exact Hne1 |]. split; [exact Eu1 |]. apply pb_one; exact Hpe1.
  - destruct (line_col l3 =? c)%Z eqn:Hsame.
    + destruct (py_block f c (off + used1) mid (l3 :: rest1')) as [[[[ds2 rest2] hi2] used2] |] eqn:Hnext;
        [| discriminate].
      inversion H; subst ds rest hi used. clear H.
      apply IHf in Hnext. destruct Hnext as (front2 & Ef2 & Hne2 & Eu2 & Hpb2).
      exists (front1 ++ front2). rewrite concat_app. split; [| split; [| split]].
      * rewrite Ef1, Ef2, app_assoc. reflexivity.
      * intros Happ. apply app_eq_nil in Happ. destruct Happ as [E1 _]. exact (Hne1 E1).
      * rewrite app_length, Eu1, Eu2. reflexivity.
      * rewrite Eu1 in Hpb2.
        apply (pb_more c off lo (concat front1) ds1 mid (concat front2) ds2 hi2); [exact Hpe1 | exact Hpb2].
    + inversion H; subst ds rest hi used. clear H.
      exists front1. split; [exact Ef1 |]. split; [exact Hne1 |]. split; [exact Eu1 |]. apply pb_one; exact Hpe1.
Qed.

(* ------------------------------------------------------------------------------------------------ *)
(* 5. py_parse_program                                                                               *)
(* ------------------------------------------------------------------------------------------------ *)

Theorem py_parse_program_sound : forall (ts : list token) (ds : list pydesc),
  py_parse_program ts = Some ds -> py_canonical_program ts ds.
Proof.
  intros ts ds H. unfold py_parse_program in H. cbv zeta in H.
  destruct (split_lines (length ts) ts) as [| l ls] eqn:Hsl; [discriminate |].
  destruct (py_block (S (length (l :: ls)) * 2) (line_col l) 0 (line_no l - 1)%Z (l :: ls))
    as [[[[ds' [| x r]] hi] used] |] eqn:Hpb; try discriminate.
  inversion H; subst ds'. clear H.
  apply py_block_sound in Hpb. destruct Hpb as (front & Ef & Hne & Eu & Hpb).
  rewrite app_nil_r in Ef. subst front.
  rewrite <- Hsl in Hpb. rewrite split_lines_concat in Hpb; [| lia].
  exists (line_col l), (line_no l - 1)%Z, hi. exact Hpb.
Qed.

Print Assumptions py_parse_program_sound.
