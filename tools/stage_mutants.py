"""Copy the seeded changes a round of sub-agents left in /tmp/mut_<Cnn> into /verif/seeded/<Cnn>-<k>/ (patch.diff, demo.py,
meta.json with no results yet); tools/rerun_parallel.py then confirms and evaluates them.
usage: stage_mutants.py <k1> <k2>"""
import json
import os
import re
import shutil
import sys

ks = [int(x) for x in sys.argv[1:]]
staged = []
for i in range(1, 20):
    prop = f"C{i:02d}"
    for k in ks:
        src = f"/tmp/mut_{prop}"
        patch, demo, meta = f"{src}/mutant_{k}.diff", f"{src}/demo_{k}.py", f"{src}/meta_{k}.json"
        if not (os.path.exists(patch) and os.path.exists(demo)):
            print("missing", patch)
            continue
        m = json.load(open(meta)) if os.path.exists(meta) else {}
        d = f"/verif/seeded/{prop}-{k}"
        os.makedirs(d, exist_ok=True)
        shutil.copy(patch, f"{d}/patch.diff")
        open(f"{d}/demo.py", "w").write(re.sub(r"/tmp/wt_C\d+", "/repo", open(demo).read()))
        json.dump({"property": prop, "summary": m.get("summary"), "needs": m.get("needs"), "files": m.get("files"),
                   "confirmed": None, "caught_by": []}, open(f"{d}/meta.json", "w"), indent=1)
        staged.append(f"{prop}-{k}")
print(" ".join(staged))
