(* TotalProofsScopes.v — the scopes built from in-range headers and blocks are
   in range, and fold / unfold / the filters only rearrange scopes. *)
From Verif Require Import Base Token Headers Blocks Pairing Fold TotalProofsHeaders TotalProofsBlocks.
Open Scope nat_scope.

Definition good_scope (n : nat) (s : scope0) : Prop :=
  good_header n (s_header s) /\ good_block n (s_block s).

(* ====================================================================== *)
(* 1. Pairing                                                              *)
(* ====================================================================== *)

Lemma max_list_le : forall l n, (forall x, In x l -> x <= n) -> max_list l <= n.
Proof.
  induction l as [|y l IH]; intros n H; unfold max_list in *; cbn [fold_right].
  - lia.
  - apply Nat.max_lub; [apply H; left; reflexivity | apply IH; intros x Hx; apply H; right; exact Hx].
Qed.

Lemma max_list_ge : forall l x, In x l -> x <= max_list l.
Proof.
  induction l as [|y l IH]; intros x H; [destruct H|].
  unfold max_list in *. cbn [fold_right]. destruct H as [<-|H].
  - apply Nat.le_max_l.
  - etransitivity; [apply IH; exact H | apply Nat.le_max_r].
Qed.

Lemma find_scope_blocks_indices_lt : forall h blocks i,
  In i (find_scope_blocks_indices h blocks) -> i < length blocks.
Proof.
  intros h blocks i H. unfold find_scope_blocks_indices in H.
  destruct (get_nearest_block h blocks) as [body|]; [|destruct H].
  destruct (r_contains body h);
    apply in_map_iff in H; destruct H as ([k b] & Ek & H); cbn [fst] in Ek; subst k;
    apply filter_In in H; destruct H as [H _];
    apply (number_from_In0 blocks i b (0, 0)) in H; tauto.
Qed.

Lemma delete_indices_In : forall {A} (l : list A) idx x, In x (delete_indices l idx) -> In x l.
Proof.
  intros A l idx x H. unfold delete_indices in H. apply in_map_iff in H.
  destruct H as ([k y] & E & H). cbn [snd] in E. subst y.
  apply filter_In in H. destruct H as [H _].
  apply (number_from_In0 l k x x) in H. tauto.
Qed.

Lemma build_scopes_loop_good : forall n hs blocks,
  Forall (good_header n) hs -> Forall (good_block n) blocks ->
  Forall (good_scope n) (build_scopes_loop hs blocks).
Proof.
  intros n. induction hs as [|h r IH]; intros blocks Hh Hb; cbn [build_scopes_loop].
  - constructor.
  - inversion Hh as [|? ? Hh1 Hhr]; subst.
    pose proof (find_scope_blocks_indices_lt (hrange h) blocks) as Hidx.
    destruct (find_scope_blocks_indices (hrange h) blocks) as [|i0 idx'] eqn:Eidx.
    + apply IH; assumption.
    + set (idx := i0 :: idx') in *.
      constructor.
      * split; [exact Hh1|]. unfold good_block. cbn [s_block snd].
        assert (Hsel : forall x, In x (map snd (map (fun i => nth i blocks (0, 0)) idx)) -> 1 <= x <= n).
        { intros x Hx. apply in_map_iff in Hx. destruct Hx as (b & <- & Hx).
          apply in_map_iff in Hx. destruct Hx as (i & <- & Hi).
          rewrite Forall_forall in Hb. apply Hb. apply nth_In. apply Hidx. exact Hi. }
        split.
        -- assert (H0 : In (snd (nth i0 blocks (0, 0)))
                           (map snd (map (fun i => nth i blocks (0, 0)) idx)))
             by (left; reflexivity).
           pose proof (Hsel _ H0). pose proof (max_list_ge _ _ H0). lia.
        -- apply max_list_le. intros x Hx. apply Hsel in Hx. lia.
      * apply IH; [exact Hhr|]. apply Forall_forall. intros b Hin.
        apply delete_indices_In in Hin. rewrite Forall_forall in Hb. apply Hb. exact Hin.
Qed.

Lemma build_scopes_from_good : forall ts hs blocks,
  Forall (good_header (length ts)) hs -> Forall (good_block (length ts)) blocks ->
  Forall (good_scope (length ts)) (build_scopes_from ts hs blocks).
Proof.
  intros ts hs blocks Hh Hb. unfold build_scopes_from.
  apply Forall_forall. intros s Hs. apply in_rev in Hs. revert s Hs. apply Forall_forall.
  apply build_scopes_loop_good; [|exact Hb].
  apply Forall_forall. intros h Hin. unfold sort_headers_desc in Hin.
  apply sort_desc2_In in Hin. rewrite Forall_forall in Hh. apply Hh. exact Hin.
Qed.

(* ====================================================================== *)
(* 2. the filters                                                          *)
(* ====================================================================== *)

Lemma filter_nested_loop_In : forall l last s, In s (filter_nested_loop l last) -> In s l.
Proof.
  induction l as [|x l IH]; intros last s H; cbn [filter_nested_loop] in H; [exact H|].
  destruct last as [lst|].
  - destruct (s_contains lst x).
    + right. eapply IH. exact H.
    + destruct H as [<-|H]; [left; reflexivity | right; eapply IH; exact H].
  - destruct H as [<-|H]; [left; reflexivity | right; eapply IH; exact H].
Qed.

Lemma filter_scopes_nested_functions_In : forall l s,
  In s (filter_scopes_nested_functions l) -> In s l.
Proof. intros l s. apply filter_nested_loop_In. Qed.

Lemma filter_nocl_scopes_In : forall ts l nocl s, In s (filter_nocl_scopes ts l nocl) -> In s l.
Proof. intros ts l nocl s H. unfold filter_nocl_scopes in H. apply filter_In in H. tauto. Qed.

(* ====================================================================== *)
(* 3. fold_scopes / unfold_scopes                                          *)
(* ====================================================================== *)

Lemma stree_ind' (Q : stree -> Prop) :
  (forall s cs, Forall Q cs -> Q (Node s cs)) -> forall t, Q t.
Proof.
  intros H. fix IH 1. intros [s cs]. apply H.
  induction cs as [|c cs IHcs]; constructor; [apply IH | exact IHcs].
Qed.

Fixpoint tree_scopes (t : stree) : list scope0 :=
  match t with Node s cs => s :: flat_map tree_scopes cs end.
Definition forest_scopes (l : list stree) : list scope0 := flat_map tree_scopes l.
Definition frames_scopes (fs : list frame) : list scope0 :=
  flat_map (fun fr : frame => fst fr :: forest_scopes (snd fr)) fs.

Definition root_of (t : stree) : scope0 := match t with Node s _ => s end.

Section FoldP.
  Variable P : scope0 -> Prop.
  Definition forest_ok (l : list stree) : Prop := forall s, In s (forest_scopes l) -> P s.
  Definition frames_ok (fs : list frame) : Prop := forall s, In s (frames_scopes fs) -> P s.

  Lemma forest_ok_nil : forest_ok [].
  Proof. intros s []. Qed.

  Lemma forest_ok_app : forall a b, forest_ok (a ++ b) <-> forest_ok a /\ forest_ok b.
  Proof.
    intros a b. unfold forest_ok, forest_scopes. rewrite flat_map_app. split.
    - intros H. split; intros s Hs; apply H; apply in_or_app; auto.
    - intros [Ha Hb] s Hs. apply in_app_or in Hs. destruct Hs; auto.
  Qed.

  Lemma forest_ok_rev : forall a, forest_ok (rev a) <-> forest_ok a.
  Proof.
    intros a. unfold forest_ok, forest_scopes.
    split; intros H s Hs; apply H; apply in_flat_map in Hs; destruct Hs as (t & Ht & Hs);
      apply in_flat_map; exists t; (split; [|exact Hs]).
    - apply -> in_rev. exact Ht.
    - apply in_rev. exact Ht.
  Qed.

  Lemma forest_ok_node : forall s cs, P s -> forest_ok cs -> forest_ok [Node s cs].
  Proof.
    intros s cs Hs Hcs x Hx. unfold forest_scopes in Hx. cbn [flat_map tree_scopes] in Hx.
    rewrite app_nil_r in Hx. destruct Hx as [<-|Hx]; [exact Hs | apply Hcs; exact Hx].
  Qed.

  Lemma frames_ok_cons : forall s cs rest,
    frames_ok ((s, cs) :: rest) <-> P s /\ forest_ok cs /\ frames_ok rest.
  Proof.
    intros s cs rest. unfold frames_ok, frames_scopes. cbn [flat_map fst snd]. split.
    - intros H. split; [apply H; left; reflexivity|]. split.
      + intros x Hx. apply H. right. apply in_or_app. left. exact Hx.
      + intros x Hx. apply H. right. apply in_or_app. right. exact Hx.
    - intros (Hs & Hcs & Hr) x [<-|Hx]; [exact Hs|].
      apply in_app_or in Hx. destruct Hx; auto.
  Qed.

  Lemma frames_ok_nil : frames_ok [].
  Proof. intros s []. Qed.

  Lemma pop_until_ok : forall frames extra sc roots,
    frames_ok frames -> forest_ok extra -> forest_ok roots ->
    frames_ok (fst (pop_until frames extra sc roots)) /\
    forest_ok (snd (pop_until frames extra sc roots)).
  Proof.
    induction frames as [|[s cs] rest IH]; intros extra sc roots Hf He Hr; cbn [pop_until].
    - cbn [fst snd]. split; [exact frames_ok_nil|]. apply forest_ok_app. split; assumption.
    - apply frames_ok_cons in Hf. destruct Hf as (Hs & Hcs & Hrest).
      assert (Hcs' : forest_ok (rev extra ++ cs)).
      { apply forest_ok_app. split; [apply forest_ok_rev; exact He | exact Hcs]. }
      destruct (s_contains s sc).
      + cbn [fst snd]. split; [|exact Hr]. apply frames_ok_cons. auto.
      + apply IH; [exact Hrest | | exact Hr].
        apply forest_ok_node; [exact Hs|]. apply forest_ok_rev. exact Hcs'.
  Qed.

  Lemma flush_ok : forall frames extra roots,
    frames_ok frames -> forest_ok extra -> forest_ok roots ->
    forest_ok (flush frames extra roots).
  Proof.
    induction frames as [|[s cs] rest IH]; intros extra roots Hf He Hr; cbn [flush].
    - apply forest_ok_app. split; assumption.
    - apply frames_ok_cons in Hf. destruct Hf as (Hs & Hcs & Hrest).
      apply IH; [exact Hrest | | exact Hr].
      apply forest_ok_node; [exact Hs|]. apply forest_ok_rev.
      apply forest_ok_app. split; [apply forest_ok_rev; exact He | exact Hcs].
  Qed.

  Lemma fold_loop_ok : forall scopes frames roots,
    Forall P scopes -> frames_ok frames -> forest_ok roots ->
    forest_ok (fold_loop scopes frames roots).
  Proof.
    induction scopes as [|sc r IH]; intros frames roots Hs Hf Hr; cbn [fold_loop].
    - apply flush_ok; [exact Hf | exact forest_ok_nil | exact Hr].
    - inversion Hs as [|? ? Hsc Hsr]; subst.
      pose proof (pop_until_ok frames [] sc roots Hf forest_ok_nil Hr) as [H1 H2].
      destruct (pop_until frames [] sc roots) as [frames' roots']. cbn [fst snd] in *.
      apply IH; [exact Hsr | | exact H2].
      apply frames_ok_cons. split; [exact Hsc|]. split; [exact forest_ok_nil | exact H1].
  Qed.

  Lemma fold_scopes_ok : forall scopes, Forall P scopes -> forest_ok (fold_scopes scopes).
  Proof.
    intros scopes H. unfold fold_scopes.
    apply fold_loop_ok; [exact H | exact frames_ok_nil | exact forest_ok_nil].
  Qed.
End FoldP.

Lemma unfold_tree_eq : forall s cs,
  unfold_tree (Node s cs) = (s, map root_of cs) :: flat_map unfold_tree cs.
Proof.
  intros s cs. cbn [unfold_tree]. f_equal; try reflexivity;
    (induction cs as [|c r IH]; [reflexivity | cbn [flat_map]; rewrite <- IH; reflexivity]).
Qed.

Lemma root_in_tree : forall t, In (root_of t) (tree_scopes t).
Proof. intros [s cs]. left. reflexivity. Qed.

(* every scope reported by unfold_tree — as a parent or as a child — is a scope of the tree *)
Lemma unfold_tree_In : forall t sc ch,
  In (sc, ch) (unfold_tree t) -> In sc (tree_scopes t) /\ incl ch (tree_scopes t).
Proof.
  induction t as [s cs IH] using stree_ind'. intros sc ch H.
  rewrite unfold_tree_eq in H. cbn [tree_scopes]. destruct H as [E|H].
  - inversion E; subst sc ch. split; [left; reflexivity|].
    intros x Hx. right. apply in_map_iff in Hx. destruct Hx as (c & <- & Hc).
    apply in_flat_map. exists c. split; [exact Hc | apply root_in_tree].
  - apply in_flat_map in H. destruct H as (c & Hc & H).
    rewrite Forall_forall in IH. destruct (IH c Hc sc ch H) as [H1 H2]. split.
    + right. apply in_flat_map. exists c. split; assumption.
    + intros x Hx. right. apply in_flat_map. exists c. split; [exact Hc | apply H2; exact Hx].
Qed.

Lemma unfold_scopes_In : forall l sc ch,
  In (sc, ch) (unfold_scopes l) -> In sc (forest_scopes l) /\ incl ch (forest_scopes l).
Proof.
  intros l sc ch H. unfold unfold_scopes in H. apply in_flat_map in H.
  destruct H as (t & Ht & H). apply unfold_tree_In in H. destruct H as [H1 H2]. split.
  - apply in_flat_map. exists t. split; assumption.
  - intros x Hx. apply in_flat_map. exists t. split; [exact Ht | apply H2; exact Hx].
Qed.

(* fold followed by unfold only rearranges: parents and children are input scopes *)
Theorem unfold_fold_In : forall l sc ch,
  In (sc, ch) (unfold_scopes (fold_scopes l)) -> In sc l /\ incl ch l.
Proof.
  intros l sc ch H. apply unfold_scopes_In in H. destruct H as [H1 H2].
  assert (Hok : forest_ok (fun s => In s l) (fold_scopes l)).
  { apply fold_scopes_ok. apply Forall_forall. auto. }
  split; [apply Hok; exact H1|]. intros x Hx. apply Hok. apply H2. exact Hx.
Qed.

Print Assumptions build_scopes_from_good.
Print Assumptions unfold_fold_In.
