(* Json.v — JSON values, the token stream of a document, the layout used by
   ReportWriter (block / inline objects and arrays, pretty or compact), and a
   token-level parser.  Strings are abstract tokens: their escaping is the
   json.dumps oracle (the harness renders TStr s as json.dumps(s)). *)
From Verif Require Import Base.
Open Scope Z_scope.

Inductive jvalue :=
| JNull | JNum (z : Z) | JStr (s : pystr) | JArr (l : list jvalue) | JObj (l : list (pystr * jvalue)).

Inductive jtok :=
| TLBrace | TRBrace | TLBrack | TRBrack | TColon | TComma
| TStr (s : pystr) | TNum (z : Z) | TNull | TWs (s : pystr).      (* TWs: spaces / newlines *)

(* documents with the writer's layout choices *)
Inductive jdoc :=
| DNull | DNum (z : Z) | DStr (s : pystr)
| DArrInline (l : list jdoc)            (* [0, 0, 0, 0] *)
| DArrBlock (l : list jdoc)             (* one element per line *)
| DObjInline (l : list (pystr * jdoc))  (* {"a": 1, "b": 2} on one line *)
| DObjBlock (l : list (pystr * jdoc)).  (* one member per line *)

Fixpoint erase (d : jdoc) : jvalue :=
  match d with
  | DNull => JNull | DNum z => JNum z | DStr s => JStr s
  | DArrInline l | DArrBlock l => JArr (map erase l)
  | DObjInline l | DObjBlock l => JObj (map (fun kv => (fst kv, erase (snd kv))) l)
  end.

Definition spaces (n : nat) : pystr := repeat 32 n.
Definition nl : pystr := [10].
Definition sp1 : pystr := [32].

(* ---------- rendering ----------
   pretty: _line = indent + text + "\n"; _open raises the level by 2; _collection joins the
   right-stripped items with ",\n" and adds "\n" when non-empty.
   compact: no indentation / newlines, items joined with ", ". *)
Section Render.
  Variable pretty : bool.
  Definition ind (lvl : nat) : list jtok := if pretty then [TWs (spaces lvl)] else [].
  Definition eol : list jtok := if pretty then [TWs nl] else [].
  Definition sep : list jtok := if pretty then [TComma; TWs nl] else [TComma; TWs sp1].

  (* an inline value: no indentation of its own *)
  Fixpoint inline (d : jdoc) : list jtok :=
    match d with
    | DNull => [TNull] | DNum z => [TNum z] | DStr s => [TStr s]
    | DArrInline l | DArrBlock l =>
        TLBrack :: (fix go (l : list jdoc) : list jtok :=
                      match l with
                      | [] => [] | [x] => inline x
                      | x :: r => inline x ++ [TComma; TWs sp1] ++ go r
                      end) l ++ [TRBrack]
    | DObjInline l | DObjBlock l =>
        TLBrace :: (fix go (l : list (pystr * jdoc)) : list jtok :=
                      match l with
                      | [] => []
                      | [(k, v)] => [TStr k; TColon; TWs sp1] ++ inline v
                      | (k, v) :: r => [TStr k; TColon; TWs sp1] ++ inline v ++ [TComma; TWs sp1] ++ go r
                      end) l ++ [TRBrace]
    end.

  (* one item of a collection at level lvl, WITHOUT its trailing newline (items are rstripped);
     `key` = Some k for an object member, None for an array element *)
  Fixpoint item (lvl : nat) (key : option pystr) (d : jdoc) : list jtok :=
    let head := ind lvl ++ match key with Some k => [TStr k; TColon; TWs sp1] | None => [] end in
    match d with
    | DArrBlock l =>
        head ++ [TLBrack] ++ eol ++
        (fix go (l : list jdoc) : list jtok :=
           match l with
           | [] => [] | [x] => item (S (S lvl)) None x ++ eol
           | x :: r => item (S (S lvl)) None x ++ sep ++ go r
           end) l ++ ind lvl ++ [TRBrack]
    | DObjBlock l =>
        head ++ [TLBrace] ++ eol ++
        (fix go (l : list (pystr * jdoc)) : list jtok :=
           match l with
           | [] => []
           | [(k, v)] => item (S (S lvl)) (Some k) v ++ eol
           | (k, v) :: r => item (S (S lvl)) (Some k) v ++ sep ++ go r
           end) l ++ ind lvl ++ [TRBrace]
    | _ => head ++ inline d
    end.

  (* the whole document: top-level object at level 0, followed by the final newline *)
  Definition render (d : jdoc) : list jtok := item O None d ++ eol.
End Render.

(* ---------- parsing (white space skipped) ---------- *)
Definition is_ws (t : jtok) : bool := match t with TWs _ => true | _ => false end.
Definition strip_ws (ts : list jtok) : list jtok := filter (fun t => negb (is_ws t)) ts.

Fixpoint parse_value (fuel : nat) (ts : list jtok) : option (jvalue * list jtok) :=
  match fuel with
  | O => None
  | S f =>
      match ts with
      | TNull :: r => Some (JNull, r)
      | TNum z :: r => Some (JNum z, r)
      | TStr s :: r => Some (JStr s, r)
      | TLBrack :: TRBrack :: r => Some (JArr [], r)
      | TLBrack :: r =>
          (fix elems (g : nat) (ts : list jtok) (acc : list jvalue) : option (jvalue * list jtok) :=
             match g with
             | O => None
             | S g' =>
                 match parse_value f ts with
                 | Some (v, TComma :: r') => elems g' r' (v :: acc)
                 | Some (v, TRBrack :: r') => Some (JArr (rev (v :: acc)), r')
                 | _ => None
                 end
             end) fuel r []
      | TLBrace :: TRBrace :: r => Some (JObj [], r)
      | TLBrace :: r =>
          (fix members (g : nat) (ts : list jtok) (acc : list (pystr * jvalue)) : option (jvalue * list jtok) :=
             match g with
             | O => None
             | S g' =>
                 match ts with
                 | TStr k :: TColon :: r1 =>
                     match parse_value f r1 with
                     | Some (v, TComma :: r') => members g' r' ((k, v) :: acc)
                     | Some (v, TRBrace :: r') => Some (JObj (rev ((k, v) :: acc)), r')
                     | _ => None
                     end
                 | _ => None
                 end
             end) fuel r []
      | _ => None
      end
  end.

Definition parse (ts : list jtok) : option jvalue :=
  let ts' := strip_ws ts in
  match parse_value (S (length ts')) ts' with
  | Some (v, []) => Some v
  | _ => None
  end.

(* ---------- encodings for the correspondence ---------- *)
Definition enc_jtok (t : jtok) : tree :=
  match t with
  | TLBrace => T [L 0] | TRBrace => T [L 1] | TLBrack => T [L 2] | TRBrack => T [L 3]
  | TColon => T [L 4] | TComma => T [L 5] | TStr s => T [L 6; enc_str s] | TNum z => T [L 7; L z]
  | TNull => T [L 8] | TWs s => T [L 9; enc_str s]
  end.

(* adjacent white-space tokens merged, empty ones dropped (the text does not show the seams) *)
Fixpoint merge_ws (ts : list jtok) : list jtok :=
  match ts with
  | [] => []
  | TWs a :: r =>
      match merge_ws r with
      | TWs b :: r' => TWs (a ++ b) :: r'
      | r' => match a with [] => r' | _ => TWs a :: r' end
      end
  | t :: r => t :: merge_ws r
  end.
