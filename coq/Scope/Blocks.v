(* Blocks.v — token_utils.get_balanced_symbol_token_indices / scope_utils.get_blocks
   (brace languages) and Python.extract_blocks / _get_token_lines (after the
   GD4 and GD10 repairs).  Ranges are half-open pairs of token indices. *)
From Verif Require Import Base Token Headers.
Open Scope Z_scope.

Definition range : Type := nat * nat.

(* for index, t in enumerate(tokens): push on open, pop+record on close *)
Fixpoint balanced_from (i : nat) (ts : list token) (op cl : pystr) (stack : list nat) : list range :=
  match ts with
  | [] => []
  | t :: r =>
      if is_symbol t op then balanced_from (S i) r op cl (i :: stack)
      else if is_symbol t cl then
        match stack with
        | s :: stack' => (s, S i) :: balanced_from (S i) r op cl stack'     (* extract_nested=True *)
        | [] => balanced_from (S i) r op cl []
        end
      else balanced_from (S i) r op cl stack
  end.

Definition tok_line (ts : list token) (i : nat) : Z := match nth_error ts i with Some t => t_line t | None => 0 end.
Definition tok_col (ts : list token) (i : nat) : Z := match nth_error ts i with Some t => t_col t | None => 0 end.

(* sort_token_ranges: by (line, column) of the range's first token *)
Definition sort_ranges (ts : list token) (rs : list range) : list range :=
  sort_asc2 (fun r : range => tok_line ts (fst r)) (fun r : range => tok_col ts (fst r)) rs.

Definition lbrace := [123].
Definition rbrace := [125].
Definition get_blocks (ts : list token) : list range := sort_ranges ts (balanced_from O ts lbrace rbrace []).

(* ---------- Python ---------- *)
Definition ends_with_str (suf s : pystr) : bool :=
  (Nat.leb (length suf) (length s)) && pystr_eqb (skipn (length s - length suf) s) suf.

(* _get_token_lines, verbatim (including the double append after a continuation);
   a line is a list of token indices *)
Fixpoint token_lines_from (i : nat) (ts : list token) (line : list nat) (cont : bool) (line_nr : Z)
  : list (list nat) :=
  match ts with
  | [] => match line with [] => [] | _ => [line] end
  | t :: r =>
      match line with
      | [] => token_lines_from (S i) r [i] cont (t_line t)
      | _ =>
          let '(line1, line_nr1, cont1) :=
            if cont then (line ++ [i], t_line t, false) else (line, line_nr, cont) in
          if t_line t =? line_nr1 then
            token_lines_from (S i) r (line1 ++ [i])
              (if ends_with_str [92; 10] (t_value t) then true else cont1) line_nr1
          else line1 :: token_lines_from (S i) r [i] cont1 (t_line t)
      end
  end.
Definition token_lines (ts : list token) : list (list nat) := token_lines_from O ts [] false 0.

Definition line_first (l : list nat) : nat := hd O l.

(* the inner loop over lines[::-1]: returns block_line_indices (in descending order) *)
Fixpoint block_lines (ts : list token) (rev_lines : list (nat * list nat)) (hline hindent : Z) (acc : list nat)
  : list nat :=
  match rev_lines with
  | [] => acc
  | (li, l) :: r =>
      let ln := tok_line ts (line_first l) in
      let ind := tok_col ts (line_first l) in
      if ln <=? hline then acc
      else if ind >? hindent then block_lines ts r hline hindent (acc ++ [li])
      else block_lines ts r hline hindent []
  end.

Fixpoint number_from {A} (i : nat) (l : list A) : list (nat * A) :=
  match l with [] => [] | x :: r => (i, x) :: number_from (S i) r end.

(* tokens.index(tok): first index of an equal token (Token.__eq__: location, type string, value) *)
Definition token_eqb (a b : token) : bool :=
  (t_line a =? t_line b) && (t_col a =? t_col b) && kind_eqb (t_kind a) (t_kind b) && pystr_eqb (t_value a) (t_value b).
Fixpoint index_of_token (i : nat) (ts : list token) (t : token) : res nat :=
  match ts with
  | [] => Err IndexError
  | x :: r => if token_eqb x t then OK i else index_of_token (S i) r t
  end.

Definition py_block (ts : list token) (lines : list (list nat)) (h : header) : res (option range) :=
  if Nat.leb (length ts) (h_end h) then OK None          (* header runs to the end of the file (GD4) *)
  else
    let hline := tok_line ts (h_end h) in
    let hindent := tok_col ts (h_start h) in
    let bl := block_lines ts (rev (number_from O lines)) hline hindent [] in
    match bl with
    | [] => OK None
    | _ =>
        let scope_tokens := flat_map (fun li => nth li lines []) (rev bl) in
        match scope_tokens with
        | [] => Err IndexError
        | f :: _ =>
            let l := last scope_tokens f in
            match nth_error ts f, nth_error ts l with
            | Some tf, Some tl =>
                match index_of_token O ts tf, index_of_token O ts tl with
                | OK s, OK e => OK (Some (s, S e))
                | Err k, _ | _, Err k => Err k
                end
            | _, _ => Err IndexError
            end
        end
    end.

(* extract_blocks: headers in reverse, results reversed back *)
Fixpoint py_blocks_rev (ts : list token) (lines : list (list nat)) (rev_headers : list header) : res (list range) :=
  match rev_headers with
  | [] => OK []
  | h :: r =>
      match py_block ts lines h with
      | Err k => Err k
      | OK ob =>
          match py_blocks_rev ts lines r with
          | Err k => Err k
          | OK bs => OK (match ob with Some b => b :: bs | None => bs end)
          end
      end
  end.
Definition py_extract_blocks (ts : list token) (headers : list header) : res (list range) :=
  match py_blocks_rev ts (token_lines ts) (rev headers) with
  | Err k => Err k
  | OK bs => OK (rev bs)
  end.

Definition extract_blocks (l : language) (ts : list token) (headers : list header) : res (list range) :=
  match l with
  | LPython => py_extract_blocks ts headers
  | _ => OK (get_blocks ts)
  end.

Definition enc_range (r : range) : tree := T [enc_nat (fst r); enc_nat (snd r)].
