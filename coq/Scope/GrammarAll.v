(* GrammarAll.v — the formal token-level canonical grammar of Grammar.v generalised to the six
   brace languages: the function header forms each language documents —
     C, C++, C#, Java :  name (...)+                        [Java: throws ... ]
     JavaScript, TypeScript :  [function] name (...)+       [TypeScript: : type ...]
                               [const] name = [async] (...)+ =>
   — preceded by optional type / modifier words and followed by a braced body.  As in Grammar.v the
   relation generates a token stream together with the descriptors the property prescribes. *)
From Verif Require Import Base Regex Token TokEngine Headers Blocks Spec HeaderSpec LexShapes Grammar.
Open Scope Z_scope.

Definition kw_is (t : token) (s : pystr) : bool := is_keyword t && pystr_eqb (t_value t) s.
Definition is_jsts (l : language) : bool := match l with LJavaScript | LTypeScript => true | _ => false end.
Definition is_cfamily (l : language) : bool := match l with LC | LCpp | LCSharp | LJava => true | _ => false end.

(* a token of a throws clause / of a return type: plain, and its text is neither ";" nor "{" *)
Definition clause_tok (t : token) : bool :=
  plain t && negb (pystr_eqb (t_value t) semicolon) && negb (pystr_eqb (t_value t) lbrace).

(* a token of a TypeScript return type outside parenthesis groups: a clause token whose text is no parenthesis either *)
Definition type_tok (t : token) : bool :=
  clause_tok t && negb (pystr_eqb (t_value t) lparen) && negb (pystr_eqb (t_value t) rparen).
(* a TypeScript return type as the grammar writes it: type tokens and balanced parenthesis groups (function types
   `(x: number) => void`, parenthesised unions); inside a group anything without braces goes *)
(* what may follow a type token: a name is not directly applied to a parenthesis group (`Foo ( x ) {` would be a
   header shape of its own), and the type does not end with "=>" (`x = ( a ) => {` would be an arrow shape) *)
Definition type_next_ok (t : token) (r : list token) : bool :=
  match r with
  | [] => negb (is_symbol t s_arrow)
  | p :: _ => negb (is_name t && is_lparen p)
  end.
Inductive type_seq : list token -> Prop :=
| tsq_nil : type_seq []
| tsq_tok t r : type_tok t = true -> type_next_ok t r = true -> type_seq r -> type_seq (t :: r)
| tsq_group o g c r : is_lparen o = true -> inner g -> is_rparen c = true -> type_seq r -> type_seq (o :: g ++ c :: r).
(* the `throws` keyword does not occur inside a condition *)
Definition no_throws_kw (ts : list token) : Prop := Forall (fun t => kw_is t s_throws = false) ts.

(* a word of a declaration line: a name or a keyword *)
Definition word_tok (t : token) : bool := is_name t || is_keyword t.

(* words that may precede a header: names and keywords, but none of the words the header shapes start with
   and (Java, C#) not `new` / `record`, which make the matcher drop the header.  `async` may precede
   (`async function f ( ) {`, C# `public async Task F ( ) {`): no header shape STARTS with it *)
Definition prefix_word (l : language) (t : token) : bool :=
  prefix_tok t &&
  negb (kw_is t s_function) && negb (kw_is t s_const) &&
  negb (kw_is t kw_new) && negb (kw_is t kw_record).

(* parameter lists of JavaScript / TypeScript: plain tokens, nested parenthesis groups and FLAT brace groups —
   destructuring patterns `{ a , b }`, default values `= { }`.  A brace group must not complete a header shape that
   starts inside the parameter list: `cb = ( a ) => { }` and `g ( x ) : T , { b }` would be header shapes of their own
   (Scope/GrammarAllProofsCex.v: cex_binner_headers).  At one nesting depth a state says where a brace group may start:
     BSafe   — it may;
     BGroup  — right after a ")": it may not (`name (…) {`); a ":" operator here begins what TypeScript reads as a
               return type, which runs over any token but ";" "{" and bare parentheses, so no brace group may follow at
               this depth any more (BPoison); "=>" leads to BArrow; any other plain token leads back to BSafe
               (`p1 = mk ( 2 ) , { a , b }` is fine: after the groups neither "{" nor ":" nor "=>" follows);
     BArrow  — right after `(…) =>`: it may not; any plain token leads back to BSafe;
     BPoison — never again at this depth.
   The inside of a nested parenthesis group starts in BSafe whatever the state outside (the matcher's balanced-group
   predicate swallows it whole). *)
Inductive bstate := BSafe | BGroup | BArrow | BPoison.
Definition after_group (s : bstate) : bstate := match s with BPoison => BPoison | _ => BGroup end.
Definition bstep_plain (s : bstate) (t : token) : bstate :=
  match s with
  | BPoison => BPoison
  | BGroup => if is_operator t s_colon then BPoison else if is_symbol t s_arrow then BArrow else BSafe
  | _ => BSafe
  end.
Inductive binner : bstate -> list token -> Prop :=
| bi_nil s : binner s []
| bi_plain s t r : plain t = true -> binner (bstep_plain s t) r -> binner s (t :: r)
| bi_group s o g c r : is_lparen o = true -> binner BSafe g -> is_rparen c = true -> binner (after_group s) r ->
                       binner s (o :: g ++ c :: r)
| bi_brace o flat c r : is_lbrace o = true -> forallb plain flat = true -> is_rbrace c = true -> binner BSafe r ->
                        binner BSafe (o :: flat ++ c :: r).
Inductive bgroup : list token -> Prop :=
| bgroup_intro o g c : is_lparen o = true -> binner BSafe g -> is_rparen c = true -> bgroup (o :: g ++ [c]).
Inductive bgroups : list token -> Prop :=
| bgroups_one g : bgroup g -> bgroups g
| bgroups_more g r : bgroup g -> bgroups r -> bgroups (g ++ r).

(* fhead l hd nm_off hend_off: hd is a function header of language l (from its first token to just before
   the body's "{"); the name is at hd[nm_off]; the recognised header shape ends at hd[hend_off) *)
Inductive fhead (l : language) : list token -> nat -> nat -> Prop :=
| fh_plain nm gs :
    is_cfamily l = true -> is_name nm = true -> groups gs ->
    fhead l (nm :: gs) 0 (1 + length gs)
| fh_throws nm gs thr clause :
    l = LJava -> is_name nm = true -> groups gs -> kw_is thr s_throws = true -> forallb clause_tok clause = true ->
    fhead l (nm :: gs ++ thr :: clause) 0 (1 + length gs)
| fh_method nm gs :                                   (* method shorthand: name (...) *)
    is_jsts l = true -> is_name nm = true -> bgroups gs ->
    fhead l (nm :: gs) 0 (1 + length gs)
| fh_function fk nm gs :
    is_jsts l = true -> kw_is fk s_function = true -> is_name nm = true -> bgroups gs ->
    fhead l (fk :: nm :: gs) 1 (2 + length gs)
| fh_method_ret nm gs colon ty :
    l = LTypeScript -> is_name nm = true -> bgroups gs -> is_operator colon s_colon = true -> type_seq ty ->
    fhead l (nm :: gs ++ colon :: ty) 0 (1 + length gs)
| fh_function_ret fk nm gs colon ty :
    l = LTypeScript -> kw_is fk s_function = true -> is_name nm = true -> bgroups gs ->
    is_operator colon s_colon = true -> type_seq ty ->
    fhead l (fk :: nm :: gs ++ colon :: ty) 1 (2 + length gs)
| fh_arrow nm eq gs arrow :
    is_jsts l = true -> is_name nm = true -> is_operator eq s_eq = true -> bgroups gs -> is_symbol arrow s_arrow = true ->
    fhead l (nm :: eq :: gs ++ [arrow]) 0 (2 + length gs + 1)
| fh_arrow_async nm eq ak gs arrow :
    is_jsts l = true -> is_name nm = true -> is_operator eq s_eq = true -> kw_is ak s_async = true -> bgroups gs ->
    is_symbol arrow s_arrow = true ->
    fhead l (nm :: eq :: ak :: gs ++ [arrow]) 0 (3 + length gs + 1)
| fh_const_arrow ck nm eq gs arrow :
    is_jsts l = true -> kw_is ck s_const = true -> is_name nm = true -> is_operator eq s_eq = true -> bgroups gs ->
    is_symbol arrow s_arrow = true ->
    fhead l (ck :: nm :: eq :: gs ++ [arrow]) 1 (3 + length gs + 1)
| fh_const_arrow_async ck nm eq ak gs arrow :
    is_jsts l = true -> kw_is ck s_const = true -> is_name nm = true -> is_operator eq s_eq = true ->
    kw_is ak s_async = true -> bgroups gs -> is_symbol arrow s_arrow = true ->
    fhead l (ck :: nm :: eq :: ak :: gs ++ [arrow]) 1 (4 + length gs + 1).

(* ---- callbacks (JavaScript / TypeScript): a statement that passes an anonymous function with a braced body ----
   `run ( "x" , function ( ) { … } ) ;`   `items . forEach ( ( item ) => { … } ) ;`
   a ++ tail ++ "{" body "}" ++ post ++ ";"  where
   a    is an OPEN PREFIX: brace-free, without ":" operators, its parentheses never close more than they opened, and
        as many are left open as post closes; its last token is "(" or ",";
   tail is `function (…)+` or `(…)+ =>` — an anonymous function;
   post consists of the closing parentheses only. *)
Definition s_comma : pystr := [44].
Inductive open_prefix : list token -> nat -> Prop :=
| op_nil : open_prefix [] 0
| op_plain t a d : plain t = true -> is_operator t s_colon = false -> open_prefix a d -> open_prefix (a ++ [t]) d
| op_open t a d : is_lparen t = true -> open_prefix a d -> open_prefix (a ++ [t]) (S d)
| op_close t a d : is_rparen t = true -> open_prefix a (S d) -> open_prefix (a ++ [t]) d.
Inductive cb_tail : list token -> Prop :=
| cbt_function fk gs : kw_is fk s_function = true -> groups gs -> cb_tail (fk :: gs)
| cbt_arrow gs arrow : groups gs -> is_symbol arrow s_arrow = true -> cb_tail (gs ++ [arrow]).

Inductive items_of (l : language) : nat -> list token -> list fdesc -> Prop :=
| io_nil off : items_of l off [] []
| io_stmt off s r ds :
    simple_stmt s -> items_of l (off + length s) r ds -> items_of l off (s ++ r) ds
(* a control statement or a declaration with a braced body that is not a function: a keyword, further words
   (`class A extends B`, `else if`, `struct point`, `namespace x`), optional condition group(s), the body.
   When a condition follows, the word right before its "(" is a keyword, not a name (`while (x)`, `catch (E e)`:
   `name (...) {` would BE a function header). *)
| io_ctrl off kw words cond o body c r ds1 ds2 :
    is_keyword kw = true -> forallb word_tok words = true ->
    (cond = [] \/ (groups cond /\ is_name (last (kw :: words) kw) = false)) -> no_throws_kw (words ++ cond) ->
    is_lbrace o = true -> is_rbrace c = true ->
    items_of l (off + 1 + length words + length cond + 1) body ds1 ->
    items_of l (off + 1 + length words + length cond + 1 + length body + 1) r ds2 ->
    items_of l off (kw :: words ++ cond ++ o :: body ++ c :: r) (ds1 ++ ds2)
(* a label made of a keyword and a colon: `public :`, `private :` in a C++ class, `default :` in a switch *)
| io_label off kw colon r ds :
    is_keyword kw = true -> is_operator colon s_colon = true ->
    items_of l (off + 2) r ds -> items_of l off (kw :: colon :: r) ds
(* a bare block `{ item* }` — an instance initialiser, a scope of its own, a block right after a function body *)
| io_block off o body c r ds1 ds2 :
    is_lbrace o = true -> is_rbrace c = true ->
    items_of l (off + 1) body ds1 ->
    items_of l (off + 1 + length body + 1) r ds2 ->
    items_of l off (o :: body ++ c :: r) (ds1 ++ ds2)
(* a statement with a brace initialiser: `int a [ ] = { 1 , 2 , 3 } ;`, `const o = { a : 1 } ;`, `enum E { A , B } ;` —
   no parenthesis before the braces, balanced parenthesis groups but no further braces inside them
   (`const o = { a : 1 , b : call ( 2 ) } ;` — a header shape would need a "{" after its groups, and there is none before
   the ";"), an ordinary statement tail after them *)
| io_init off pre o flat c post semi r ds :
    forallb plain pre = true -> is_lbrace o = true -> inner flat -> is_rbrace c = true ->
    inner post -> is_symbol semi semicolon = true ->
    items_of l (off + length pre + 1 + length flat + 1 + length post + 1) r ds ->
    items_of l off (pre ++ o :: flat ++ c :: post ++ semi :: r) ds
| io_cb off a tail o body c post semi r ds1 ds2 :
    is_jsts l = true -> a <> [] -> open_prefix a (length post) ->
    (is_lparen (last a o) = true \/ is_symbol (last a o) s_comma = true) ->
    cb_tail tail -> is_lbrace o = true -> is_rbrace c = true ->
    forallb is_rparen post = true -> is_symbol semi semicolon = true ->
    items_of l (off + length a + length tail + 1) body ds1 ->
    items_of l (off + length a + length tail + 1 + length body + 1 + length post + 1) r ds2 ->
    items_of l off (a ++ tail ++ o :: body ++ c :: post ++ semi :: r) (ds1 ++ ds2)
(* Java / C#: a statement that creates an object with a braced part right after the constructor call —
   an anonymous class `Runnable r = new Runnable ( ) { void run ( ) { … } } ;` (the body holds items) or an object /
   collection initialiser `var v = new Holder ( ) { A = 1 , B = 2 } ;` (the body is flat).  `Name (…)+ {` IS a header
   shape; the languages' filter drops a header that follows the keyword `new`, so nothing is reported for it.
   pre holds no parenthesis (as in io_init), post is an ordinary statement tail. *)
| io_new off pre kn nm gs o body c post semi r ds1 ds2 :
    (l = LJava \/ l = LCSharp) -> forallb plain pre = true ->
    kw_is kn kw_new = true -> is_name nm = true -> groups gs ->
    is_lbrace o = true -> is_rbrace c = true ->
    (items_of l (off + length pre + 2 + length gs + 1) body ds1 \/ (forallb plain body = true /\ ds1 = [])) ->
    inner post -> is_symbol semi semicolon = true ->
    items_of l (off + length pre + 2 + length gs + 1 + length body + 1 + length post + 1) r ds2 ->
    items_of l off (pre ++ kn :: nm :: gs ++ o :: body ++ c :: post ++ semi :: r) (ds1 ++ ds2)
| io_func off pre hd nm_off hend_off o body c r ds1 ds2 :
    forallb (prefix_word l) pre = true -> fhead l hd nm_off hend_off ->
    is_lbrace o = true -> is_rbrace c = true ->
    items_of l (off + length pre + length hd + 1) body ds1 ->
    (lang_nested l = false -> ds1 = []) ->
    items_of l (off + length pre + length hd + 1 + length body + 1) r ds2 ->
    items_of l off (pre ++ hd ++ o :: body ++ c :: r)
          (mkFd (off + length pre + nm_off) (off + length pre) (off + length pre + hend_off)
                (off + length pre + length hd) (off + length pre + length hd + 1 + length body)
           :: ds1 ++ ds2).

Definition canonical_program_of (l : language) (ts : list token) (ds : list fdesc) : Prop := items_of l O ts ds.
