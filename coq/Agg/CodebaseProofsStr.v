(* CodebaseProofsStr.v — strings, paths and dictionaries used by the C07 proofs. *)
From Verif Require Import Base BaseProofs GenThresholds Thresholds Codebase.
Open Scope Z_scope.

(* ---------- pystr_eqb decides equality ---------- *)
Lemma pystr_eqb_eq a : forall b, pystr_eqb a b = true <-> a = b.
Proof.
  induction a as [|x a IH]; intros [|y b]; cbn [pystr_eqb]; split; intros H;
    try discriminate; try reflexivity.
  - apply andb_true_iff in H. destruct H as [H1 H2].
    apply Z.eqb_eq in H1. apply IH in H2. subst. reflexivity.
  - inversion H; subst. apply andb_true_iff. split; [apply Z.eqb_refl|apply IH; reflexivity].
Qed.
Lemma pystr_eqb_refl a : pystr_eqb a a = true.
Proof. apply pystr_eqb_eq. reflexivity. Qed.
Lemma pystr_eqb_neq a b : a <> b -> pystr_eqb a b = false.
Proof.
  intros H. destruct (pystr_eqb a b) eqn:E; [|reflexivity].
  apply pystr_eqb_eq in E. contradiction.
Qed.
Lemma pystr_eqb_spec a b : reflect (a = b) (pystr_eqb a b).
Proof.
  destruct (pystr_eqb a b) eqn:E; constructor.
  - apply pystr_eqb_eq; exact E.
  - intros H. apply pystr_eqb_eq in H. congruence.
Qed.
Lemma pystr_eq_dec (a b : pystr) : {a = b} + {a <> b}.
Proof. destruct (pystr_eqb_spec a b); [left|right]; assumption. Qed.

Lemma NoDup_app_snoc {A} (l : list A) x : NoDup l -> ~ In x l -> NoDup (l ++ [x]).
Proof.
  intros Hnd Hni. induction Hnd as [|y l Hy Hnd IH]; cbn [app].
  - constructor; [intros []|constructor].
  - constructor.
    + rewrite in_app_iff. cbn [In]. intros [H|[H|[]]]; [contradiction|].
      subst. apply Hni. left. reflexivity.
    + apply IH. intros H. apply Hni. right. exact H.
Qed.

(* ---------- dictionaries ---------- *)
Section DictFacts.
  Context {V : Type}.
  Implicit Types (d : dict V) (k : pystr) (v : V).

  Lemma dget_dset_same d k v : dget (dset d k v) k = Some v.
  Proof.
    induction d as [|[k' v'] d IH]; cbn [dset dget].
    - rewrite pystr_eqb_refl. reflexivity.
    - destruct (pystr_eqb k k') eqn:E; cbn [dget]; rewrite E; [reflexivity|exact IH].
  Qed.

  Lemma dget_dset_other d k k' v : k' <> k -> dget (dset d k v) k' = dget d k'.
  Proof.
    intros Hne. induction d as [|[k0 v0] d IH]; cbn [dset dget].
    - rewrite pystr_eqb_neq by exact Hne. reflexivity.
    - destruct (pystr_eqb_spec k k0) as [->|Hk]; cbn [dget].
      + rewrite !pystr_eqb_neq by exact Hne. reflexivity.
      + rewrite IH. reflexivity.
  Qed.

  Lemma dget_None d k : dget d k = None <-> ~ In k (map fst d).
  Proof.
    induction d as [|[k0 v0] d IH]; cbn [dget map fst In].
    - split; [intros _ []|reflexivity].
    - destruct (pystr_eqb_spec k k0) as [->|Hk].
      + split; [discriminate|]. intros H. exfalso. apply H. left. reflexivity.
      + rewrite IH. split; intros H.
        * intros [E|E]; [congruence|contradiction].
        * intros E. apply H. right. exact E.
  Qed.

  Lemma dget_Some_In d k v : dget d k = Some v -> In (k, v) d.
  Proof.
    induction d as [|[k0 v0] d IH]; cbn [dget]; [discriminate|].
    destruct (pystr_eqb_spec k k0) as [->|Hk]; intros H.
    - inversion H; subst. left. reflexivity.
    - right. apply IH, H.
  Qed.

  Lemma dget_Some_key d k v : dget d k = Some v -> In k (map fst d).
  Proof. intros H. apply dget_Some_In in H. apply (in_map fst) in H. exact H. Qed.

  Lemma dget_In_key d k : In k (map fst d) -> exists v, dget d k = Some v.
  Proof.
    intros H. destruct (dget d k) eqn:E; [eauto|]. apply dget_None in E. contradiction.
  Qed.

  Lemma In_dget d k v : NoDup (map fst d) -> In (k, v) d -> dget d k = Some v.
  Proof.
    induction d as [|[k0 v0] d IH]; cbn [map fst dget]; intros Hnd Hin; [destruct Hin|].
    inversion Hnd as [|? ? Hni Hnd']; subst.
    destruct Hin as [E|Hin].
    - inversion E; subst. rewrite pystr_eqb_refl. reflexivity.
    - destruct (pystr_eqb_spec k k0) as [->|Hk].
      + exfalso. apply Hni. apply (in_map fst) in Hin. exact Hin.
      + apply IH; assumption.
  Qed.

  Lemma dset_absent d k v : dget d k = None -> dset d k v = d ++ [(k, v)].
  Proof.
    induction d as [|[k0 v0] d IH]; cbn [dget dset app]; [reflexivity|].
    destruct (pystr_eqb k k0); [discriminate|]. intros H. rewrite IH by exact H. reflexivity.
  Qed.

  Lemma keys_dset_present d k v : In k (map fst d) -> map fst (dset d k v) = map fst d.
  Proof.
    induction d as [|[k0 v0] d IH]; cbn [map fst dset In]; [intros []|].
    destruct (pystr_eqb_spec k k0) as [->|Hk]; cbn [map fst]; [reflexivity|].
    intros [E|H]; [congruence|]. rewrite IH by exact H. reflexivity.
  Qed.

  Lemma keys_dset_absent d k v : ~ In k (map fst d) -> map fst (dset d k v) = map fst d ++ [k].
  Proof.
    intros H. apply dget_None in H. rewrite dset_absent by exact H.
    rewrite map_app. reflexivity.
  Qed.

  Lemma length_dset_present d k v : In k (map fst d) -> length (dset d k v) = length d.
  Proof.
    intros H. rewrite <- (map_length fst), keys_dset_present by exact H. apply map_length.
  Qed.

  Lemma dmem_true d k : dmem d k = true <-> In k (map fst d).
  Proof.
    unfold dmem. destruct (dget d k) eqn:E.
    - split; [intros _; eapply dget_Some_key; eauto|reflexivity].
    - apply dget_None in E. split; [discriminate|contradiction].
  Qed.
  Lemma dmem_false d k : dmem d k = false <-> ~ In k (map fst d).
  Proof.
    rewrite <- dmem_true. destruct (dmem d k); split; intros; congruence.
  Qed.

  Lemma In_keys_dset d k v k' : In k' (map fst (dset d k v)) <-> In k' (map fst d) \/ k' = k.
  Proof.
    destruct (in_dec pystr_eq_dec k (map fst d)) as [Hin|Hni].
    - rewrite keys_dset_present by exact Hin. split; [auto|]. intros [H| ->]; assumption.
    - rewrite keys_dset_absent by exact Hni. rewrite in_app_iff. cbn [In].
      split; intros [H|H]; auto.
      + destruct H as [H|[]]; auto.
  Qed.

  Lemma NoDup_keys_dset d k v : NoDup (map fst d) -> NoDup (map fst (dset d k v)).
  Proof.
    intros Hnd. destruct (in_dec pystr_eq_dec k (map fst d)) as [Hin|Hni].
    - rewrite keys_dset_present by exact Hin. exact Hnd.
    - rewrite keys_dset_absent by exact Hni.
      apply NoDup_app_snoc; assumption.
  Qed.
End DictFacts.

(* ---------- paths ---------- *)
Lemma split_on_noslash c : forall cur, ~ In slash c -> split_on slash c cur = [rev cur ++ c].
Proof.
  induction c as [|x c IH]; intros cur H; cbn [split_on].
  - rewrite app_nil_r. reflexivity.
  - destruct (Z.eqb_spec x slash) as [E|E].
    + exfalso. apply H. left. exact E.
    + rewrite IH by (intros H1; apply H; right; exact H1).
      cbn [rev]. rewrite <- app_assoc. reflexivity.
Qed.

Lemma split_on_app c rest : forall cur, ~ In slash c ->
  split_on slash (c ++ slash :: rest) cur = (rev cur ++ c) :: split_on slash rest [].
Proof.
  induction c as [|x c IH]; intros cur H; cbn [split_on app].
  - rewrite Z.eqb_refl, app_nil_r. reflexivity.
  - destruct (Z.eqb_spec x slash) as [E|E].
    + exfalso. apply H. left. exact E.
    + rewrite IH by (intros H1; apply H; right; exact H1).
      cbn [rev]. rewrite <- app_assoc. reflexivity.
Qed.

Definition okc (c : pystr) : Prop := c <> [] /\ c <> dot /\ ~ In slash c.
Definition good (cs : list pystr) : Prop := Forall okc cs.
Definition wf_path (p : pystr) : Prop :=
  let cs := split_path p in cs <> [] /\ Forall (fun c => c <> [] /\ c <> dot /\ ~ In slash c) cs.

Lemma wf_path_good p : wf_path p <-> split_path p <> [] /\ good (split_path p).
Proof. reflexivity. Qed.

Lemma join_path_cons2 c a r : join_path (c :: a :: r) = c ++ slash :: join_path (a :: r).
Proof. reflexivity. Qed.

Lemma split_join cs : cs <> [] -> Forall (fun c => ~ In slash c) cs -> split_path (join_path cs) = cs.
Proof.
  destruct cs as [|c r]; [congruence|]. intros _. revert c.
  induction r as [|a r IH]; intros c H.
  - cbn [join_path]. unfold split_path. rewrite split_on_noslash; [reflexivity|].
    inversion H; assumption.
  - rewrite join_path_cons2. unfold split_path. inversion H as [|? ? Hc Hr]; subst.
    rewrite split_on_app by exact Hc. cbn [rev app]. f_equal.
    apply IH. exact Hr.
Qed.

Lemma good_noslash cs : good cs -> Forall (fun c => ~ In slash c) cs.
Proof. apply Forall_impl. intros c (_ & _ & H). exact H. Qed.

Lemma good_app cs ds : good (cs ++ ds) <-> good cs /\ good ds.
Proof. apply Forall_app. Qed.


Lemma removelast_snoc {A} (l : list A) x : removelast (l ++ [x]) = l.
Proof. apply removelast_last. Qed.
Lemma last_snoc {A} (l : list A) x d : last (l ++ [x]) d = x.
Proof. apply last_last. Qed.

Lemma snoc_cases {A} (l : list A) : l = [] \/ exists l' x, l = l' ++ [x].
Proof.
  destruct l as [|a l]; [left; reflexivity|right].
  destruct (@exists_last A (a :: l)) as (l' & x & E); [discriminate|]. eauto.
Qed.

Definition rootk : pystr := [46; 47].
Definition fpath (cs : list pystr) : pystr := match cs with [] => dot | _ => join_path cs end.
Definition fkey (cs : list pystr) : pystr := key_of (fpath cs).

Lemma fkey_nil : fkey [] = rootk.
Proof. reflexivity. Qed.

Lemma key_of_inj a b : key_of a = key_of b -> a = b.
Proof. unfold key_of. apply app_inv_tail. Qed.

Lemma fpath_inj cs ds : good cs -> good ds -> fpath cs = fpath ds -> cs = ds.
Proof.
  intros Hc Hd E.
  destruct cs as [|c cs], ds as [|d ds]; [reflexivity| | |].
  - exfalso. unfold fpath in E. apply (f_equal split_path) in E.
    rewrite split_join in E by (try discriminate; apply good_noslash, Hd).
    change (split_path dot) with [dot] in E. inversion E; subst.
    inversion Hd as [|? ? (_ & H & _) _]; subst. apply H. reflexivity.
  - exfalso. unfold fpath in E. apply (f_equal split_path) in E.
    rewrite split_join in E by (try discriminate; apply good_noslash, Hc).
    change (split_path dot) with [dot] in E. inversion E; subst.
    inversion Hc as [|? ? (_ & H & _) _]; subst. apply H. reflexivity.
  - unfold fpath in E. apply (f_equal split_path) in E.
    rewrite !split_join in E by (try discriminate; apply good_noslash; assumption).
    exact E.
Qed.

Lemma fkey_inj cs ds : good cs -> good ds -> fkey cs = fkey ds -> cs = ds.
Proof. intros Hc Hd E. apply key_of_inj in E. apply fpath_inj; assumption. Qed.

Lemma fpath_not_dot cs : good cs -> cs <> [] -> fpath cs <> dot.
Proof.
  intros Hc Hne E. apply Hne. apply (fpath_inj cs []); [exact Hc|constructor|exact E].
Qed.

Lemma fkey_not_root cs : good cs -> cs <> [] -> fkey cs <> rootk.
Proof.
  intros Hc Hne E. apply Hne. apply (fkey_inj cs []); [exact Hc|constructor|exact E].
Qed.

Lemma fpath_split cs : good cs -> cs <> [] -> split_path (fpath cs) = cs.
Proof.
  intros Hc Hne. destruct cs; [congruence|]. unfold fpath.
  apply split_join; [discriminate|apply good_noslash, Hc].
Qed.

Lemma parent_of_split parts :
  match parts with [_] | [] => dot | _ => join_path (removelast parts) end = fpath (removelast parts).
Proof.
  destruct parts as [|a [|b r]]; reflexivity.
Qed.

Lemma get_parent_folder_split p : get_parent_folder p = fpath (removelast (split_path p)).
Proof. unfold get_parent_folder. cbv zeta. apply parent_of_split. Qed.

Lemma get_parent_folder_fpath cs : good cs -> cs <> [] ->
  get_parent_folder (fpath cs) = fpath (removelast cs).
Proof. intros Hc Hne. rewrite get_parent_folder_split, fpath_split by assumption. reflexivity. Qed.

Lemma get_basename_fpath cs : good cs -> cs <> [] -> get_basename (fpath cs) = last cs [].
Proof. intros Hc Hne. unfold get_basename. rewrite fpath_split by assumption. reflexivity. Qed.

Lemma join_path_snoc cs c : cs <> [] -> join_path (cs ++ [c]) = join_path cs ++ slash :: c.
Proof.
  destruct cs as [|a cs]; [congruence|]. intros _. revert a.
  induction cs as [|b cs IH]; intros a.
  - reflexivity.
  - change ((a :: b :: cs) ++ [c]) with (a :: b :: (cs ++ [c])).
    rewrite !join_path_cons2. change (b :: cs ++ [c]) with ((b :: cs) ++ [c]).
    rewrite IH. rewrite <- app_assoc. reflexivity.
Qed.

Definition sub_key (pk name : pystr) : pystr := if pystr_eqb pk rootk then name else pk ++ name.

Lemma fkey_snoc cs c : cs <> [] -> fkey (cs ++ [c]) = fkey cs ++ c ++ [slash].
Proof.
  intros Hne. unfold fkey, key_of.
  assert (E : fpath (cs ++ [c]) = join_path (cs ++ [c])).
  { unfold fpath. destruct (cs ++ [c]) eqn:E; [|reflexivity]. destruct cs; discriminate. }
  rewrite E, join_path_snoc by exact Hne.
  assert (E2 : fpath cs = join_path cs) by (destruct cs; [congruence|reflexivity]).
  rewrite E2. rewrite <- !app_assoc. reflexivity.
Qed.

Lemma sub_key_fkey cs c : good cs -> sub_key (fkey cs) (c ++ [slash]) = fkey (cs ++ [c]).
Proof.
  intros Hc. unfold sub_key. destruct cs as [|a cs].
  - rewrite fkey_nil, pystr_eqb_refl. reflexivity.
  - rewrite pystr_eqb_neq by (apply fkey_not_root; [exact Hc|discriminate]).
    rewrite fkey_snoc by discriminate. reflexivity.
Qed.

(* ---------- ancestors ---------- *)
Fixpoint pprefixes (cs : list pystr) : list (list pystr) :=
  match cs with
  | [] => []
  | c :: r => match r with [] => [] | _ :: _ => [c] :: map (cons c) (pprefixes r) end
  end.

Lemma In_pprefixes cs : forall ds,
  In ds (pprefixes cs) <-> ds <> [] /\ exists suf, suf <> [] /\ cs = ds ++ suf.
Proof.
  induction cs as [|c r IH]; intros ds.
  - cbn [pprefixes In]. split; [intros []|]. intros (Hd & suf & Hs & E).
    destruct ds; [congruence|discriminate].
  - cbn [pprefixes]. destruct r as [|a r'].
    + cbn [In]. split; [intros []|]. intros (Hd & suf & Hs & E).
      destruct ds as [|d ds]; [congruence|]. inversion E as [[E1 E2]].
      destruct ds; [destruct suf; [congruence|discriminate]|discriminate].
    + cbn [In]. rewrite in_map_iff. split.
      * intros [E|(ds' & E & Hin)].
        -- subst ds. split; [discriminate|]. exists (a :: r'). split; [discriminate|reflexivity].
        -- subst ds. apply IH in Hin. destruct Hin as (Hd & suf & Hs & E).
           split; [discriminate|]. exists suf. split; [exact Hs|]. rewrite E. reflexivity.
      * intros (Hd & suf & Hs & E). destruct ds as [|d ds]; [congruence|].
        inversion E as [[E1 E2]]. subst d. destruct ds as [|d' ds'].
        -- left. reflexivity.
        -- right. exists (d' :: ds'). split; [reflexivity|]. apply IH.
           split; [discriminate|]. exists suf. split; [exact Hs|exact E2].
Qed.

Definition ancestors (p : pystr) : list pystr := map fkey (pprefixes (split_path p)).
Definition folder_of (p : pystr) : pystr := fkey (removelast (split_path p)).
Definition beneath (k p : pystr) : Prop := k = rootk \/ In k (ancestors p).
Definition beneathb (k p : pystr) : bool := pystr_eqb k rootk || existsb (pystr_eqb k) (ancestors p).

Lemma beneathb_spec k p : beneathb k p = true <-> beneath k p.
Proof.
  unfold beneathb, beneath. rewrite orb_true_iff, pystr_eqb_eq, existsb_exists.
  split; intros [H|H]; auto; right.
  - destruct H as (x & Hin & E). apply pystr_eqb_eq in E. subst. exact Hin.
  - exists k. split; [exact H|apply pystr_eqb_refl].
Qed.

Lemma folder_of_parent p : folder_of p = key_of (get_parent_folder p).
Proof. unfold folder_of, fkey. rewrite get_parent_folder_split. reflexivity. Qed.

(* the textual description of folder_of in the property statement *)
Lemma folder_of_text p :
  folder_of p = match removelast (split_path p) with
                | [] => rootk
                | ds => join_path ds ++ [slash]
                end.
Proof. unfold folder_of, fkey, fpath, key_of. destruct (removelast (split_path p)); reflexivity. Qed.

Lemma good_prefix cs ds : good (cs ++ ds) -> good cs.
Proof. intros H. apply good_app in H. tauto. Qed.

Lemma beneath_fkey cs p : good cs -> good (split_path p) -> split_path p <> [] ->
  (beneath (fkey cs) p <-> exists suf, suf <> [] /\ split_path p = cs ++ suf).
Proof.
  intros Hc Hp Hne. unfold beneath, ancestors. rewrite in_map_iff. split.
  - intros [E|(ds & E & Hin)].
    + rewrite <- fkey_nil in E. apply fkey_inj in E; [|exact Hc|constructor]. subst cs.
      exists (split_path p). split; [exact Hne|reflexivity].
    + apply In_pprefixes in Hin. destruct Hin as (Hd & suf & Hs & E2).
      apply fkey_inj in E; [|rewrite E2 in Hp; eapply good_prefix; exact Hp|exact Hc].
      subst ds. exists suf. split; assumption.
  - intros (suf & Hs & E). destruct cs as [|c cs]; [left; reflexivity|right].
    exists (c :: cs). split; [reflexivity|]. apply In_pprefixes.
    split; [discriminate|]. exists suf. split; assumption.
Qed.

Lemma folder_of_fkey cs p : good cs -> good (split_path p) ->
  (folder_of p = fkey cs <-> removelast (split_path p) = cs).
Proof.
  intros Hc Hp. unfold folder_of. split; [|intros ->; reflexivity].
  intros E. apply fkey_inj in E; [exact E| |exact Hc].
  destruct (snoc_cases (split_path p)) as [E0|(l & x & E0)]; rewrite E0 in *.
  - constructor.
  - rewrite removelast_snoc. eapply good_prefix; exact Hp.
Qed.
