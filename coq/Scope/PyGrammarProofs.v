(* PyGrammarProofs.v — C01 for Python on the programs of the formal canonical grammar (Scope/PyGrammar.v):
   every generated program satisfies the hypotheses of C01_python_lexical (py_wf_descs,
   py_lexically_canonical), so that no hypothesis about headers or descriptors is left; and the grammar
   is not vacuous (an example program with an `async def`, a nested `def` and plain lines). *)
From Verif Require Import Base Regex Token TokEngine Lex LexProofs Headers Blocks Pairing Fold ScanFile Spec HeaderSpec
  LexShapes PySpec PySpecProofs PyLexical Grammar GrammarAll PyGrammar.
From Verif Require Import PyGrammarProofsWf PyGrammarProofsLex.
From Coq Require Import Sorted Permutation.
Open Scope Z_scope.

(* (proved in PyGrammarProofsWf.v; no hypothesis about token positions is needed) *)
Theorem py_canonical_wf : forall ts ds, py_canonical_program ts ds -> py_wf_descs ts ds.
Proof. exact py_canonical_wf_descs. Qed.

Theorem py_canonical_lexical : forall ts ds, py_canonical_program ts ds -> py_lexically_canonical ts ds.
Proof.
  intros ts ds H. unfold py_lexically_canonical. rewrite (py_canonical_headers ts ds H). apply Permutation_refl.
Qed.

(* end to end: no hypothesis about headers or descriptors is left *)
Theorem C01_python_grammar : forall toks ds, let code := filter_tokens false toks in
  py_canonical_program code ds -> StronglySorted pos_lt code -> filter_nocl_comment_tokens toks = [] ->
  scan_file LPython toks = py_expected_all code ds ds.
Proof.
  intros toks ds code Hc Hs Hn. apply C01_python_lexical; [exact Hs | exact Hn | |].
  - apply py_canonical_wf. exact Hc.
  - apply py_canonical_lexical. exact Hc.
Qed.

(* ---------- non-vacuity ---------- *)
(* 1: import os / 2: async def f ( a ) -> T : / 3:     x = 1 / 4:     def g ( ) : / 5:         return x / 6: y = 2 *)
Definition ex : list token :=
 [mkTok KKeyword [105] 1 1; mkTok KName [111] 1 8;
  mkTok KKeyword s_async 2 1; mkTok KKeyword s_def 2 7; mkTok KName [102] 2 11; mkTok KPunct [40] 2 12; mkTok KName [97] 2 13; mkTok KPunct [41] 2 14; mkTok KOperator [45;62] 2 16; mkTok KName [84] 2 19; mkTok KPunct [58] 2 20;
  mkTok KName [120] 3 5; mkTok KOperator [61] 3 7; mkTok KOther [49] 3 9;
  mkTok KKeyword s_def 4 5; mkTok KName [103] 4 9; mkTok KPunct [40] 4 10; mkTok KPunct [41] 4 11; mkTok KPunct [58] 4 12;
  mkTok KKeyword [114] 5 9; mkTok KName [120] 5 16;
  mkTok KName [121] 6 1; mkTok KOperator [61] 6 3; mkTok KOther [50] 6 5].
Definition exds := [mkPd 4 2 8 11 21; mkPd 15 14 18 19 21]%nat.

Ltac line_ok := repeat split; try discriminate; try reflexivity; repeat constructor.
Ltac nodef_ok := repeat constructor.

(* the clause of head_at about adjacent tokens, decided *)
Fixpoint adj_b (c : Z) (l : list token) : bool :=
  match l with
  | a :: r => match r with
              | b :: _ => (t_line a <=? t_line b) && (negb (t_line a <? t_line b) || (c <? t_col b)) && adj_b c r
              | [] => true
              end
  | [] => true
  end.
Lemma adj_b_sound c : forall l, adj_b c l = true ->
  forall i a b, nth_error l i = Some a -> nth_error l (S i) = Some b ->
    t_line a <= t_line b /\ (t_line a < t_line b -> c < t_col b).
Proof.
  induction l as [|x l IH]; intros H i a b Ha Hb; [destruct i; discriminate|].
  destruct l as [|y l]; [destruct i; discriminate|].
  cbn [adj_b] in H. apply andb_prop in H as [H H3]. apply andb_prop in H as [H1 H2].
  destruct i as [|i].
  - cbn [nth_error] in Ha, Hb. injection Ha as <-. injection Hb as <-.
    apply Z.leb_le in H1. split; [exact H1|]. intros Hlt. apply orb_prop in H2 as [H2|H2].
    + apply negb_true_iff in H2. apply Z.ltb_ge in H2. lia.
    + apply Z.ltb_lt in H2. exact H2.
  - exact (IH H3 i a b Ha Hb).
Qed.
Ltac head_ok :=
  split; [discriminate|]; split; [reflexivity|]; split; [reflexivity|]; split; [reflexivity|];
  split; [apply adj_b_sound; reflexivity|]; split; [repeat constructor | reflexivity].

Example ex_canonical : py_canonical_program ex exds.
Proof.
  exists 1, 0, 6. unfold ex, exds.
  (* line 1 *)
  apply (pb_more 1 0%nat 0 [mkTok KKeyword [105] 1 1; mkTok KName [111] 1 8] [] 1 _ _ 6).
  { apply pe_line; [line_ok | lia | nodef_ok]. }
  cbn [length Nat.add].
  (* lines 2-5: async def f, then line 6 *)
  apply (pb_more 1 2%nat 1
    [mkTok KKeyword s_async 2 1; mkTok KKeyword s_def 2 7; mkTok KName [102] 2 11; mkTok KPunct [40] 2 12; mkTok KName [97] 2 13; mkTok KPunct [41] 2 14; mkTok KOperator [45;62] 2 16; mkTok KName [84] 2 19; mkTok KPunct [58] 2 20;
     mkTok KName [120] 3 5; mkTok KOperator [61] 3 7; mkTok KOther [49] 3 9;
     mkTok KKeyword s_def 4 5; mkTok KName [103] 4 9; mkTok KPunct [40] 4 10; mkTok KPunct [41] 4 11; mkTok KPunct [58] 4 12;
     mkTok KKeyword [114] 5 9; mkTok KName [120] 5 16]
    [mkPd 4 2 8 11 21; mkPd 15 14 18 19 21]%nat 5
    [mkTok KName [121] 6 1; mkTok KOperator [61] 6 3; mkTok KOther [50] 6 5] [] 6).
  - apply (pe_def 1 2%nat 1
      [mkTok KKeyword s_async 2 1; mkTok KKeyword s_def 2 7; mkTok KName [102] 2 11; mkTok KPunct [40] 2 12; mkTok KName [97] 2 13; mkTok KPunct [41] 2 14; mkTok KOperator [45;62] 2 16; mkTok KName [84] 2 19; mkTok KPunct [58] 2 20]
      2 2 2%nat 6%nat 5
      [mkTok KName [120] 3 5; mkTok KOperator [61] 3 7; mkTok KOther [49] 3 9;
       mkTok KKeyword s_def 4 5; mkTok KName [103] 4 9; mkTok KPunct [40] 4 10; mkTok KPunct [41] 4 11; mkTok KPunct [58] 4 12;
       mkTok KKeyword [114] 5 9; mkTok KName [120] 5 16]
      [mkPd 15 14 18 19 21]%nat 5).
    + head_ok.
    + lia.
    + apply (dl_async 2 (mkTok KKeyword s_async 2 1) (mkTok KKeyword s_def 2 7) (mkTok KName [102] 2 11)
               [mkTok KPunct [40] 2 12; mkTok KName [97] 2 13; mkTok KPunct [41] 2 14]
               [mkTok KOperator [45;62] 2 16; mkTok KName [84] 2 19; mkTok KPunct [58] 2 20]);
        [reflexivity | reflexivity | reflexivity | | nodef_ok | discriminate | reflexivity | nodef_ok | repeat constructor].
      apply pgroups_one.
      apply (pgroup_intro (mkTok KPunct [40] 2 12) [mkTok KName [97] 2 13] (mkTok KPunct [41] 2 14));
        [reflexivity | apply pinner_plain; [reflexivity | constructor] | reflexivity].
    + lia.
    + cbn [length Nat.add].
      (* the suite of f: line 3, then def g (lines 4-5) *)
      apply (pb_more 5 11%nat 2 [mkTok KName [120] 3 5; mkTok KOperator [61] 3 7; mkTok KOther [49] 3 9] [] 3
               [mkTok KKeyword s_def 4 5; mkTok KName [103] 4 9; mkTok KPunct [40] 4 10; mkTok KPunct [41] 4 11; mkTok KPunct [58] 4 12;
                mkTok KKeyword [114] 5 9; mkTok KName [120] 5 16]
               [mkPd 15 14 18 19 21]%nat 5).
      * apply pe_line; [line_ok | lia | nodef_ok].
      * cbn [length Nat.add]. apply pb_one.
        apply (pe_def 5 14%nat 3
                 [mkTok KKeyword s_def 4 5; mkTok KName [103] 4 9; mkTok KPunct [40] 4 10; mkTok KPunct [41] 4 11; mkTok KPunct [58] 4 12]
                 4 4 1%nat 4%nat 9 [mkTok KKeyword [114] 5 9; mkTok KName [120] 5 16] [] 5).
        -- head_ok.
        -- lia.
        -- apply (dl_def 4 (mkTok KKeyword s_def 4 5) (mkTok KName [103] 4 9)
                    [mkTok KPunct [40] 4 10; mkTok KPunct [41] 4 11] [mkTok KPunct [58] 4 12]);
             [reflexivity | reflexivity | | nodef_ok | discriminate | reflexivity | nodef_ok | repeat constructor].
           apply pgroups_one.
           apply (pgroup_intro (mkTok KPunct [40] 4 10) [] (mkTok KPunct [41] 4 11)); [reflexivity | constructor | reflexivity].
        -- lia.
        -- apply pb_one. apply pe_line; [line_ok | lia | nodef_ok].
  - cbn [length Nat.add]. apply pb_one. apply pe_line; [line_ok | lia | nodef_ok].
Qed.

(* hence the hypotheses of C01_python_lexical hold for it *)
Example ex_wf_lexical : py_wf_descs ex exds /\ py_lexically_canonical ex exds.
Proof. split; [apply py_canonical_wf | apply py_canonical_lexical]; exact ex_canonical. Qed.

(* a nested function whose header spans two physical lines and has a `{}` default value:
   1: def f ( ) : / 2:     def g ( a = { } , / 3:           b ) : / 4:         return a / 5:     return g / 6: z = 1 *)
Definition ex_f_head : list token :=
 [mkTok KKeyword s_def 1 1; mkTok KName [102] 1 5; mkTok KPunct [40] 1 6; mkTok KPunct [41] 1 7; mkTok KPunct [58] 1 8].
Definition ex_g_head : list token :=
 [mkTok KKeyword s_def 2 5; mkTok KName [103] 2 9; mkTok KPunct [40] 2 11; mkTok KName [97] 2 13; mkTok KOperator [61] 2 15;
  mkTok KPunct [123] 2 17; mkTok KPunct [125] 2 19; mkTok KPunct [44] 2 21;
  mkTok KName [98] 3 11; mkTok KPunct [41] 3 13; mkTok KPunct [58] 3 15].
Definition ex_g_suite : list token := [mkTok KKeyword [114] 4 9; mkTok KName [97] 4 16].
Definition ex_f_tail : list token := [mkTok KKeyword [114] 5 5; mkTok KName [103] 5 12].
Definition ex_last : list token := [mkTok KName [122] 6 1; mkTok KOperator [61] 6 3; mkTok KOther [49] 6 5].
Definition ex2 : list token := (ex_f_head ++ (ex_g_head ++ ex_g_suite) ++ ex_f_tail) ++ ex_last.
Definition ex2ds := [mkPd 1 0 4 5 20; mkPd 6 5 15 16 18]%nat.

Example ex2_canonical : py_canonical_program ex2 ex2ds.
Proof.
  exists 1, 0, 6. unfold ex2, ex2ds.
  apply (pb_more 1 0%nat 0 (ex_f_head ++ (ex_g_head ++ ex_g_suite) ++ ex_f_tail)
           [mkPd 1 0 4 5 20; mkPd 6 5 15 16 18]%nat 5 ex_last [] 6).
  - apply (pe_def 1 0%nat 0 ex_f_head 1 1 1%nat 4%nat 5 ((ex_g_head ++ ex_g_suite) ++ ex_f_tail)
             [mkPd 6 5 15 16 18]%nat 5).
    + head_ok.
    + lia.
    + apply (dl_def 1 (mkTok KKeyword s_def 1 1) (mkTok KName [102] 1 5)
               [mkTok KPunct [40] 1 6; mkTok KPunct [41] 1 7] [mkTok KPunct [58] 1 8]);
        [reflexivity | reflexivity | | nodef_ok | discriminate | reflexivity | nodef_ok | repeat constructor].
      apply pgroups_one.
      apply (pgroup_intro (mkTok KPunct [40] 1 6) [] (mkTok KPunct [41] 1 7)); [reflexivity | constructor | reflexivity].
    + lia.
    + (* the suite of f: def g over lines 2-3 with its suite (line 4), then line 5 *)
      apply (pb_more 5 5%nat 1 (ex_g_head ++ ex_g_suite) [mkPd 6 5 15 16 18]%nat 4 ex_f_tail [] 5).
      * apply (pe_def 5 5%nat 1 ex_g_head 2 3 1%nat 10%nat 9 ex_g_suite [] 4).
        -- head_ok.
        -- lia.
        -- apply (dl_def 3 (mkTok KKeyword s_def 2 5) (mkTok KName [103] 2 9)
                    [mkTok KPunct [40] 2 11; mkTok KName [97] 2 13; mkTok KOperator [61] 2 15;
                     mkTok KPunct [123] 2 17; mkTok KPunct [125] 2 19; mkTok KPunct [44] 2 21;
                     mkTok KName [98] 3 11; mkTok KPunct [41] 3 13]
                    [mkTok KPunct [58] 3 15]);
             [reflexivity | reflexivity | | nodef_ok | discriminate | reflexivity | nodef_ok | repeat constructor].
           apply pgroups_one.
           apply (pgroup_intro (mkTok KPunct [40] 2 11)
                    [mkTok KName [97] 2 13; mkTok KOperator [61] 2 15; mkTok KPunct [123] 2 17; mkTok KPunct [125] 2 19;
                     mkTok KPunct [44] 2 21; mkTok KName [98] 3 11]
                    (mkTok KPunct [41] 3 13));
             [reflexivity | repeat (apply pinner_plain; [reflexivity|]); apply pinner_nil | reflexivity].
        -- lia.
        -- apply pb_one. apply pe_line; [line_ok | lia | nodef_ok].
      * apply pb_one. apply pe_line; [line_ok | lia | nodef_ok].
  - apply pb_one. apply pe_line; [line_ok | lia | nodef_ok].
Qed.

Example ex2_wf_lexical : py_wf_descs ex2 ex2ds /\ py_lexically_canonical ex2 ex2ds.
Proof. split; [apply py_canonical_wf | apply py_canonical_lexical]; exact ex2_canonical. Qed.

(* the tool on this stream, computed: g is reported from its `def` (2,5) to the end of line 4, three lines *)
Example ex2_scan :
  scan_file LPython ex2 = py_expected_all ex2 ex2ds ex2ds /\
  scan_file LPython ex2 = OK [mkMeas [102] (mkLoc 1 1) (mkLoc 5 13) 2; mkMeas [103] (mkLoc 2 5) (mkLoc 4 17) 3].
Proof. vm_compute. split; reflexivity. Qed.
