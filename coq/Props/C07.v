(* C07 — totals, profiles and the folder tree always agree with the measurements.
   Statements only (re-exported); proofs in Agg/CodebaseProofs*.v (about 2000
   lines) over the model Agg/Codebase.v of Codebase.add_file/add_folder/aggregate
   with the leaves re-translated from utils.py / LanguageTotals.py on every run.
   es = the inserted file entries (any insertion order), build = add_file* ; aggregate. *)
From Verif Require Import Base GenThresholds Thresholds Codebase
  CodebaseProofsStr CodebaseProofsTotals CodebaseProofsTree CodebaseProofsInv CodebaseProofsAgg CodebaseProofs.
Open Scope Z_scope.

(* building never fails (no recursion limit, no KeyError) for well-formed relative paths *)
Theorem C07_total : forall root es, Forall wf_path (map e_path es) -> exists cb, build root es = OK cb.
Proof. exact C07_build_total. Qed.

(* files: exactly once each, keyed by path, in insertion order *)
Theorem C07_files : forall root es cb, NoDup (map e_path es) -> build root es = OK cb ->
  cb_files cb = map (fun e => (e_path e, e)) es.
Proof. exact CodebaseProofsTotals.C07_files. Qed.

(* per-language totals = number of its files, sum of their line totals, number of their functions,
   numbers of hard-to-maintain and unmaintainable ones *)
Theorem C07_lang_totals : forall root es cb, build root es = OK cb ->
  forall lang, let fs := filter (fun e => pystr_eqb (e_language e) lang) es in
    (dget (cb_totals cb) lang = None <-> forall e, In e es -> e_language e <> lang) /\
    (fs <> [] -> exists t, dget (cb_totals cb) lang = Some t /\ lt_language t = lang /\
        lt_files t = Z.of_nat (length fs) /\ lt_loc t = sumf e_loc fs /\
        lt_functions t = sumf (fun e => Z.of_nat (length (e_measurements e))) fs /\
        lt_hard_to_maintain t = sumf (fun e => count_cat Hard (e_measurements e)) fs /\
        lt_unmaintainable t = sumf (fun e => count_cat Unm (e_measurements e)) fs).
Proof. exact CodebaseProofsTotals.C07_lang_totals. Qed.

(* grand totals are the sums over languages = the sums over all files *)
Theorem C07_grand_totals : forall root es cb, build root es = OK cb ->
  sumf (fun kt => lt_files (snd kt)) (cb_totals cb) = Z.of_nat (length es) /\
  sumf (fun kt => lt_loc (snd kt)) (cb_totals cb) = sumf e_loc es /\
  sumf (fun kt => lt_functions (snd kt)) (cb_totals cb) = sumf (fun e => Z.of_nat (length (e_measurements e))) es /\
  sumf (fun kt => lt_hard_to_maintain (snd kt)) (cb_totals cb) = sumf (fun e => count_cat Hard (e_measurements e)) es /\
  sumf (fun kt => lt_unmaintainable (snd kt)) (cb_totals cb) = sumf (fun e => count_cat Unm (e_measurements e)) es.
Proof. exact CodebaseProofsTotals.C07_grand_totals. Qed.

(* each file's profile partitions its line total by category *)
Theorem C07_file_profile : forall path checksum language loc ms,
  let e := mk_entry path checksum language loc ms in
  e_profile e = [sum_cat Easy ms; sum_cat Verbose ms; sum_cat Hard ms; sum_cat Unm ms] /\
  sumZ (e_profile e) = total_len (e_measurements e) /\
  (e_loc e = total_len (e_measurements e) -> sumZ (e_profile e) = e_loc e).
Proof. exact CodebaseProofsTotals.C07_file_profile. Qed.

(* each folder's profile is the sum over ALL files beneath it (any depth); the root's is the whole codebase's *)
Theorem C07_folder_profile : forall root es cb, Forall wf_path (map e_path es) -> Forall mk_built es ->
  build root es = OK cb -> forall k fo, In (k, fo) (cb_tree cb) ->
  let fs := filter (fun e => beneathb k (e_path e)) es in
  fo_profile fo = [sum_over Easy fs; sum_over Verbose fs; sum_over Hard fs; sum_over Unm fs].
Proof. exact CodebaseProofs.C07_folder_profile. Qed.
Theorem C07_root_is_all : forall root es cb, Forall wf_path (map e_path es) -> Forall mk_built es ->
  build root es = OK cb -> exists fo, In (rootk, fo) (cb_tree cb) /\
  fo_profile fo = [sum_over Easy es; sum_over Verbose es; sum_over Hard es; sum_over Unm es].
Proof. exact CodebaseProofs.C07_root_is_all. Qed.

(* the folder tree: keys are the root plus all ancestors of all files, each once; each file once under its
   parent folder; each folder once under its parent; every folder reachable from the root *)
Theorem C07_folder_keys : forall root es cb, Forall wf_path (map e_path es) -> build root es = OK cb ->
  NoDup (map fst (cb_tree cb)) /\
  forall k, In k (map fst (cb_tree cb)) <-> k = rootk \/ exists e, In e es /\ In k (ancestors (e_path e)).
Proof. exact CodebaseProofs.C07_folder_keys. Qed.
Theorem C07_tree_files_once : forall root es cb, Forall wf_path (map e_path es) -> NoDup (map e_path es) ->
  build root es = OK cb -> forall e, In e es ->
  (exists fo, In (folder_of (e_path e), fo) (cb_tree cb) /\ occurs_once (EFile e) (fo_entries fo)) /\
  (forall k fo, In (k, fo) (cb_tree cb) -> In (EFile e) (fo_entries fo) -> k = folder_of (e_path e)).
Proof. exact CodebaseProofs.C07_tree_files_once. Qed.
Theorem C07_every_folder_reachable : forall root es cb, Forall wf_path (map e_path es) -> build root es = OK cb ->
  forall k, In k (map fst (cb_tree cb)) -> reach (cb_tree cb) k.
Proof. exact CodebaseProofs.C07_every_folder_reachable. Qed.

Print Assumptions C07_total.
Print Assumptions C07_files.
Print Assumptions C07_lang_totals.
Print Assumptions C07_grand_totals.
Print Assumptions C07_file_profile.
Print Assumptions C07_folder_profile.
Print Assumptions C07_root_is_all.
Print Assumptions C07_folder_keys.
Print Assumptions C07_tree_files_once.
Print Assumptions C07_every_folder_reachable.

Example C07_example :
  match build [47] [mk_entry [97; 47; 98; 46; 99] [99] [67] 76 [mkMeas [102] (mkLoc 1 1) (mkLoc 2 1) 15; mkMeas [103] (mkLoc 3 1) (mkLoc 4 1) 61];
                    mk_entry [97; 47; 100; 47; 101; 46; 99] [99] [67] 31 [mkMeas [104] (mkLoc 1 1) (mkLoc 2 1) 31];
                    mk_entry [109; 46; 112; 121] [99] [80] 16 [mkMeas [105] (mkLoc 1 1) (mkLoc 2 1) 16]] with
  | OK cb => map (fun kf => (fst kf, fo_profile (snd kf))) (cb_tree cb)
             = [([46; 47], [15; 16; 31; 61]); ([97; 47], [15; 0; 31; 61]); ([97; 47; 100; 47], [0; 0; 31; 0])]
  | Err _ => False end.
Proof. vm_compute. reflexivity. Qed.
