(* HeaderProofsSelect.v — the matcher, run on the C-family header pattern with its
   "{" follow-up, returns exactly HeaderSpec.lexical_headers; consequences for
   extract_headers of C, C++ and C#. *)
From Verif Require Import Base Regex Nfa Dfa Token TokEngine GenPatterns Headers Blocks Spec HeaderSpec Scan ScanProofs.
From Verif Require Import HeaderProofsDfa.
Open Scope nat_scope.

(* ---------- all isolated greedy runs ---------- *)
Fixpoint cands_of (ts : list token) (starts : list nat) : list (nat * nat) :=
  match starts with
  | [] => []
  | i :: r => match cand_end ts i with Some j => (i, j) :: cands_of ts r | None => cands_of ts r end
  end.

Lemma all_greedy_from_a0 ts : forall starts,
  all_greedy_from tpred_eqb taccept_st a0 ts starts = OK (cands_of ts starts).
Proof.
  induction starts as [|i r IH]; cbn [all_greedy_from cands_of]; [reflexivity|].
  rewrite greedy_a0, IH. destruct (cand_end ts i); reflexivity.
Qed.

Theorem all_greedy_a0 ts :
  all_greedy tpred_eqb taccept_st a0 ts = OK (cands_of ts (seq 0 (length ts))).
Proof. apply all_greedy_from_a0. Qed.

(* ---------- the name of a match is its first token ---------- *)
Lemma name_index_at ts i j t :
  nth_error ts i = Some t -> is_name t = true -> i < j -> name_index ts i j = OK i.
Proof.
  intros Ht Hn Hlt. unfold name_index. rewrite nth_error_skipn_hd in Ht.
  destruct (skipn i ts) as [|x w]; [discriminate|]. cbn [hd_error] in Ht. injection Ht as ->.
  destruct (j - i) as [|k] eqn:E; [lia|]. cbn [firstn first_name_from]. rewrite Hn. reflexivity.
Qed.

(* ---------- selection: select_leftmost over the candidates is select_headers ---------- *)
Lemma select_spec ts (f : cand -> res bool) :
  (forall c, f c = OK (sym_at ts (snd c) lbrace)) ->
  forall starts le, exists ms,
    select_leftmost f le (cands_of ts starts) = OK ms /\
    mk_headers ts ms = OK (select_headers ts starts le).
Proof.
  intros Hf. induction starts as [|i r IH]; intros le; cbn [cands_of select_headers].
  - exists []. split; reflexivity.
  - unfold header_at. destruct (cand_end ts i) as [j|] eqn:Ec; [|apply IH].
    cbn [select_leftmost]. rewrite Hf. cbn [snd fst].
    destruct (sym_at ts j lbrace); [|apply IH].
    destruct (Nat.leb le i); [|apply IH].
    destruct (IH j) as (ms & E1 & E2). rewrite E1. exists ((i, j) :: ms). split; [reflexivity|].
    destruct (cand_end_facts ts i j Ec) as [(t & Ht & Hn) Hlen].
    cbn [mk_headers]. rewrite (name_index_at ts i j t Ht Hn) by lia. rewrite E2. reflexivity.
Qed.

(* ---------- main theorem ---------- *)
Theorem cfamily_headers_spec : forall ts : list token,
  get_headers ts cfamily_pattern (Some cfamily_followup) = OK (lexical_headers ts).
Proof.
  intros ts. unfold get_headers. rewrite to_dfa_pattern, to_dfa_followup.
  unfold tk_find_all_dfa.
  rewrite (find_all_is_scan tpred_eqb taccept_st a0 ts _ _ (all_greedy_a0 ts)).
  match goal with |- context [select_leftmost ?f _ _] =>
    destruct (select_spec ts f) with (starts := seq 0 (length ts)) (le := 0) as (ms & E1 & E2)
  end.
  - intros c. rewrite followup_test. destruct (sym_at ts (snd c) lbrace); reflexivity.
  - rewrite E1. exact E2.
Qed.

(* ---------- the languages ---------- *)
Example cap_C : patterns_C = [(cfamily_pattern, Some cfamily_followup)].
Proof. reflexivity. Qed.
Example cap_Cpp : patterns_Cpp = [(cfamily_pattern, Some cfamily_followup)].
Proof. reflexivity. Qed.
Example cap_CSharp : patterns_CSharp = [(cfamily_pattern, Some cfamily_followup)].
Proof. reflexivity. Qed.

Lemma headers_of_cfamily ts :
  headers_of_patterns ts [(cfamily_pattern, Some cfamily_followup)] = OK (lexical_headers ts).
Proof. cbn [headers_of_patterns]. rewrite cfamily_headers_spec, app_nil_r. reflexivity. Qed.

Theorem extract_headers_C : forall ts, extract_headers LC ts = OK (lexical_headers ts).
Proof.
  intros ts. unfold extract_headers, lang_patterns. rewrite cap_C, headers_of_cfamily. reflexivity.
Qed.

Theorem extract_headers_Cpp : forall ts, extract_headers LCpp ts = OK (lexical_headers ts).
Proof.
  intros ts. unfold extract_headers, lang_patterns. rewrite cap_Cpp, headers_of_cfamily. reflexivity.
Qed.

Theorem extract_headers_CSharp : forall ts,
  extract_headers LCSharp ts = OK (filter (fun h => negb (java_drop ts h)) (lexical_headers ts)).
Proof.
  intros ts. unfold extract_headers, lang_patterns. rewrite cap_CSharp, headers_of_cfamily. reflexivity.
Qed.

Print Assumptions cfamily_headers_spec.
Print Assumptions extract_headers_C.
Print Assumptions extract_headers_Cpp.
Print Assumptions extract_headers_CSharp.
