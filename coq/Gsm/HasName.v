(* HasName.v — a finite certificate that every match of a token pattern
   contains a Name token (so that scope_utils.get_headers'
   `next(t for t in pattern.tokens if t.is_name())` can never raise
   StopIteration).  Definitions only; soundness is in HasNameProofs.v.

   The abstract configurations of Unamb.v are extended by one bit "a Name
   token has been consumed".  The checker verifies an inductive invariant: a
   finite set of (configuration, bit) pairs that contains the start
   configuration with bit false, is closed under abstract steps (the bit
   becomes [bit || is_name t] on the abstract token t), and in which every
   pair whose DFA state is accepting has its bit set. *)
From Verif Require Import Base Regex Nfa Dfa Token Unamb.
Open Scope Z_scope.

Definition nconfig : Type := config * bool.
Definition nconfig_eqb (a b : nconfig) : bool :=
  config_eqb (fst a) (fst b) && Bool.eqb (snd a) (snd b).
Definition nconfig_mem (c : nconfig) (S : list nconfig) : bool := existsb (nconfig_eqb c) S.

(* successors of one (configuration, bit) pair on one abstract token *)
Definition nsuccs (a : automaton tpred) (bal : list tpred) (cb : nconfig) (t : token) : list nconfig :=
  match abs_consume a bal (fst cb) t with
  | ASucc l => map (fun c' => (c', snd cb || is_name t)) l
  | _ => []
  end.

Definition name_inv_check_aut (a : automaton tpred) (S : list nconfig) : bool :=
  let bal := bal_preds (a_heap a) in
  let toks := abs_tokens (heap_lits (a_heap a)) in
  nconfig_mem (start_config a bal, false) S &&
  forallb (fun cb =>
     (negb (mem (a_acc a) (fst (fst cb))) || snd cb) &&
     forallb (fun t =>
       match abs_consume a bal (fst cb) t with
       | AAmbiguous | AError => false
       | ADead => true
       | ASucc l => forallb (fun c' => nconfig_mem (c', snd cb || is_name t) S) l
       end) toks) S.

(* unverified search for the invariant: breadth-first exploration with fuel *)
Fixpoint nexplore (fuel : nat) (a : automaton tpred) (bal : list tpred) (toks : list token)
         (work : list nconfig) (seen : list nconfig) : list nconfig :=
  match fuel with
  | O => seen
  | S f =>
      match work with
      | [] => seen
      | cb :: w =>
          if nconfig_mem cb seen then nexplore f a bal toks w seen
          else nexplore f a bal toks (w ++ flat_map (nsuccs a bal cb) toks) (cb :: seen)
      end
  end.
Definition name_invariant_of (a : automaton tpred) : list nconfig :=
  let bal := bal_preds (a_heap a) in
  nexplore explore_fuel a bal (abs_tokens (heap_lits (a_heap a))) [(start_config a bal, false)] [].

Definition has_name_check (e : expr tpred) : bool :=
  match to_dfa e with
  | Err _ => false
  | OK a => name_inv_check_aut a (name_invariant_of a)
  end.
