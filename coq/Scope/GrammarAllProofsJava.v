(* GrammarAllProofsJava.v — Java: the C-family shape with the follow-up "{" or "throws ... {"
   (cand_plain, follow_throws) on the grammar of GrammarAll.v.  Inside a statement the scan of the
   follow-up stops at the statement's ";"; inside the parameter groups of a head the overlap rule
   applies; inside the condition of a control statement the follow-up can only be rejected if the
   condition does not contain the `throws` keyword (Scope/GrammarAllProofsCex.v) — hence the side
   condition `no_throws_kw` on conditions (citems of GrammarAllProofsItems.v). *)
From Verif Require Import Base Regex Token TokEngine Headers Blocks Spec HeaderSpec LexShapes Grammar GrammarAll.
From Verif Require Import GrammarProofsParen GrammarProofsBrace GrammarProofsHeaders GrammarAllProofsTok GrammarAllProofsCit.
From Verif Require Import GrammarAllProofsSel GrammarAllProofsCand GrammarAllProofsCb GrammarAllProofsItems.
From Coq Require Import Sorted Permutation.
Open Scope nat_scope.

(* ---------- where a candidate inside an inner sequence ends ---------- *)
Lemma isuf_skipn_len g : inner g -> forall B, hd_ok closer B -> forall k, k <= length g ->
  exists g' B', skipn k (g ++ B) = g' ++ B' /\ inner g' /\ hd_ok closer B' /\ length B <= length B'.
Proof.
  induction 1 as [|t r Ht Hr IH|o g c r Ho Hg IHg Hc Hr IHr]; intros B HB k Hk.
  - cbn [length] in Hk. assert (k = 0) by lia. subst k. exists [], B. cbn [skipn app].
    split; [reflexivity|]. split; [constructor|]. split; [exact HB | lia].
  - destruct k as [|k].
    + exists (t :: r), B. cbn [skipn]. split; [reflexivity|]. split; [apply inner_plain; assumption|]. split; [exact HB | lia].
    + cbn [app skipn]. apply IH; [exact HB | cbn [length] in Hk; lia].
  - destruct k as [|k].
    + exists (o :: g ++ c :: r), B. cbn [skipn]. split; [reflexivity|]. split; [apply inner_group; assumption|]. split; [exact HB | lia].
    + replace ((o :: g ++ c :: r) ++ B) with (o :: g ++ (c :: r ++ B)) by (norm_app; reflexivity).
      cbn [skipn]. destruct (le_dec k (length g)) as [Hle|Hgt].
      * destruct (IHg (c :: r ++ B)) with (k := k) as (g' & B' & E & Hg' & HB' & Hlen);
          [cbn [hd_ok]; apply rparen_closer; exact Hc | exact Hle|].
        exists g', B'. split; [exact E|]. split; [exact Hg'|]. split; [exact HB'|].
        revert Hlen. norm_len. lia.
      * rewrite skipn_app. rewrite skipn_all2 by lia. cbn [app].
        destruct (k - length g) as [|m] eqn:Em; [lia|]. cbn [skipn].
        apply IHr; [exact HB|]. revert Hk. norm_len. lia.
Qed.

Lemma cand_plain_inv w k n j : cand_plain w k = Some (n, j) ->
  n = k /\ name_at w k = true /\ j = S k + groups_len (skipn (S k) w) 0.
Proof.
  unfold cand_plain, groups_end. destruct (name_at w k); [|discriminate].
  destruct (sym_at w (S k) lparen); [|discriminate]. intros [= <- <-]. auto.
Qed.

Lemma cand_plain_bound g B k n j : inner g -> hd_ok closer B -> k < length g ->
  cand_plain (g ++ B) k = Some (n, j) -> j <= length g /\ sym_at (g ++ B) j lbrace = false.
Proof.
  intros Hg HB Hk E. apply cand_plain_inv in E as (_ & _ & ->).
  destruct (isuf_skipn_len g Hg B HB (S k)) as (g' & B' & E & Hg' & HB' & Hlen); [lia|].
  destruct (inner_run_not_lbrace g' Hg' B' (closer_stop B' HB')) as [Hle Hsym].
  assert (HL : length (skipn (S k) (g ++ B)) = length g + length B - S k) by (rewrite skipn_length, app_length; reflexivity).
  assert (Hf : length (firstn (S k) (g ++ B)) = S k) by (rewrite firstn_length, app_length; lia).
  pose proof (sym_at_shift (firstn (S k) (g ++ B)) (skipn (S k) (g ++ B)) (groups_len (skipn (S k) (g ++ B)) 0) lbrace) as Es.
  rewrite firstn_skipn, Hf in Es. rewrite Es. rewrite E in *. rewrite app_length in HL. split; [lia | exact Hsym].
Qed.

Lemma closer_not_keyword t : closer t = true -> is_keyword t = false.
Proof. unfold closer. intros H. apply orb_prop in H as [H|H]; eapply symbol_not_keyword; exact H. Qed.

Lemma follow_throws_unfold w j :
  follow_throws w j = sym_at w j lbrace || (kw_at w j s_throws && until_brace (skipn (S j) w)).
Proof. reflexivity. Qed.

(* ---------- inside groups without the `throws` keyword ---------- *)
Lemma inner_throws_no_acc g B : inner g -> no_throws_kw g -> hd_ok closer B -> no_acc cand_plain follow_throws g B.
Proof.
  intros Hg Hnt HB k Hk. apply acc_none_intro. intros n j E.
  destruct (cand_plain_bound g B k n j Hg HB Hk E) as [Hj Hsym].
  rewrite follow_throws_unfold, Hsym. cbn [orb].
  assert (Ekw : kw_at (g ++ B) j s_throws = false).
  { unfold kw_at. destruct (Nat.eq_dec j (length g)) as [->|Hne].
    - rewrite nth_error_app2 by lia. rewrite Nat.sub_diag. destruct B as [|b B]; [reflexivity|].
      cbn [nth_error hd_ok] in *. rewrite (closer_not_keyword b HB). reflexivity.
    - rewrite nth_error_app1 by lia. destruct (nth_error g j) as [t|] eqn:Et; [|reflexivity].
      apply nth_error_In in Et. unfold no_throws_kw in Hnt. rewrite Forall_forall in Hnt. exact (Hnt t Et). }
  rewrite Ekw. reflexivity.
Qed.

Lemma group_throws_no_acc g B : group g -> no_throws_kw g -> no_acc cand_plain follow_throws g B.
Proof.
  intros [o g' c Ho Hg Hc] Hnt.
  unfold no_throws_kw in Hnt. inversion Hnt as [|? ? _ Hnt']; subst. apply Forall_app in Hnt' as [Hnt' _].
  apply (no_acc_cons _ _ cshift_plain fshift_throws).
  - apply plain_not_name. eapply symbol_not_name; exact Ho.
  - apply (no_acc_app _ _ cshift_plain fshift_throws).
    + apply inner_throws_no_acc; [exact Hg | exact Hnt'|]. cbn [app hd_ok]. apply rparen_closer. exact Hc.
    + apply no_acc_single. apply plain_not_name. eapply symbol_not_name; exact Hc.
Qed.

Lemma groups_throws_no_acc gs B : groups gs -> no_throws_kw gs -> no_acc cand_plain follow_throws gs B.
Proof.
  intros H. revert B. induction H as [g Hg|g r Hg Hr IH]; intros B Hnt.
  - apply group_throws_no_acc; assumption.
  - unfold no_throws_kw in Hnt. apply Forall_app in Hnt as [H1 H2].
    apply (no_acc_app _ _ cshift_plain fshift_throws); [apply group_throws_no_acc; assumption | apply IH; exact H2].
Qed.

(* ---------- inside statements: the scan stops at the ";" ---------- *)
Lemma until_brace_stmt bf semi B : brace_free bf -> is_symbol semi semicolon = true -> until_brace (bf ++ semi :: B) = false.
Proof.
  intros Hbf Hs. induction Hbf as [|t bf [H1 _] _ IH].
  - cbn [app until_brace]. apply symbol_value in Hs. apply pstr_eqb_eq in Hs. rewrite Hs. reflexivity.
  - cbn [app until_brace]. destruct (pystr_eqb (t_value t) lbrace); [exact H1|].
    destruct (pystr_eqb (t_value t) s_semi); [reflexivity | exact IH].
Qed.

Lemma Forall_skipn_local {A} (P : A -> Prop) : forall n l, Forall P l -> Forall P (skipn n l).
Proof.
  induction n as [|n IH]; intros l H; [exact H|]. destruct l as [|x l]; [constructor|].
  cbn [skipn]. apply IH. inversion H; assumption.
Qed.

Lemma stmt_throws_no_acc s B : simple_stmt s -> no_acc cand_plain follow_throws s B.
Proof.
  intros (body & semi & -> & Hb & Hs).
  apply (no_acc_app _ _ cshift_plain fshift_throws).
  - intros k Hk. apply acc_none_intro. intros n j E.
    assert (HB : hd_ok closer ([semi] ++ B)) by (cbn [app hd_ok]; apply semi_closer; exact Hs).
    destruct (cand_plain_bound body ([semi] ++ B) k n j Hb HB Hk E) as [Hj Hsym].
    rewrite follow_throws_unfold, Hsym. cbn [orb].
    destruct (Nat.eq_dec j (length body)) as [->|Hne].
    + unfold kw_at. rewrite nth_error_app2 by lia. rewrite Nat.sub_diag. cbn [app nth_error].
      rewrite (symbol_not_keyword _ _ Hs). reflexivity.
    + rewrite skipn_app. replace (S j - length body) with 0 by lia.
      change (skipn 0 ([semi] ++ B)) with (semi :: B).
      rewrite until_brace_stmt; [apply andb_false_r | | exact Hs].
      apply Forall_skipn_local. apply inner_brace_free. exact Hb.
  - apply no_acc_single. apply plain_not_name. eapply symbol_not_name; exact Hs.
Qed.

(* ---------- prefix words, clauses ---------- *)
Lemma prefix_no_plain l f pre B : forallb (prefix_word l) pre = true -> hd_ok word B -> cshift cand_plain -> fshift f ->
  no_acc cand_plain f pre B.
Proof.
  intros Hpre HB Hc Hf. induction pre as [|p pre IH]; [apply no_acc_nil|].
  cbn [forallb] in Hpre. apply andb_prop in Hpre as [Hp Hpre].
  apply (no_acc_cons _ _ Hc Hf); [|apply IH; assumption].
  apply plain_not_lparen. apply word_nlp.
  destruct pre as [|q pre]; [exact HB|]. cbn [app hd_ok]. cbn [forallb] in Hpre. apply andb_prop in Hpre as [Hq _].
  apply prefix_word_inv in Hq. apply Hq.
Qed.

(* no parenthesis in a clause: the C-family candidate does not apply in it *)
Lemma clause_no_plain f cl o B : fshift f -> forallb clause_tok cl = true -> is_lbrace o = true ->
  no_acc cand_plain f cl (o :: B).
Proof.
  intros Hf Hcl Ho. induction cl as [|t cl IH]; [apply no_acc_nil|].
  cbn [forallb] in Hcl. apply andb_prop in Hcl as [Ht Hcl].
  apply (no_acc_cons _ _ cshift_plain Hf); [|apply IH; exact Hcl].
  apply plain_not_lparen. destruct cl as [|t' cl].
  - cbn [app hd_ok]. unfold nlp. rewrite (lbrace_not_lparen o Ho). reflexivity.
  - cbn [app hd_ok]. cbn [forallb] in Hcl. apply andb_prop in Hcl as [Ht' _].
    apply plain_nlp, clause_tok_plain, Ht'.
Qed.

Lemma until_brace_clause cl o B : forallb clause_tok cl = true -> is_lbrace o = true -> until_brace (cl ++ o :: B) = true.
Proof.
  intros Hcl Ho. induction cl as [|t cl IH].
  - cbn [app until_brace]. rewrite (symbol_value _ _ Ho). exact Ho.
  - cbn [forallb] in Hcl. apply andb_prop in Hcl as [Ht Hcl]. cbn [app until_brace].
    unfold clause_tok in Ht. apply andb_prop in Ht as [Ht H2]. apply andb_prop in Ht as [_ H1].
    apply negb_true_iff in H1, H2. rewrite H2. change s_semi with semicolon. rewrite H1. apply IH. exact Hcl.
Qed.

(* ---------- the heads ---------- *)
Lemma java_plain_head nm gs o B : is_name nm = true -> groups gs -> is_lbrace o = true ->
  acc cand_plain follow_throws (nm :: gs ++ o :: B) 0 = Some (0, S (length gs)).
Proof.
  intros Hnm Hgs Ho. apply acc_intro.
  - rewrite cand_plain_0, Hnm, (ge0_groups gs o B Hgs (lbrace_not_lparen o Ho)). reflexivity.
  - rewrite follow_throws_unfold. change (sym_at (nm :: gs ++ o :: B) (S (length gs)) lbrace) with (sym_at (gs ++ o :: B) (length gs) lbrace).
    rewrite sym_at_app_hd. unfold is_lbrace in Ho. rewrite Ho. reflexivity.
Qed.

Lemma kw_at_app_hd P t R s : kw_at (P ++ t :: R) (length P) s = kw_is t s.
Proof. unfold kw_at. rewrite nth_error_app2 by lia. rewrite Nat.sub_diag. reflexivity. Qed.

Lemma skipn_app_hd {A} (P : list A) t R : skipn (S (length P)) (P ++ t :: R) = R.
Proof.
  replace (S (length P)) with (length (P ++ [t]) + 0) by (rewrite app_length; cbn [length]; lia).
  replace (P ++ t :: R) with ((P ++ [t]) ++ R) by (rewrite <- app_assoc; reflexivity).
  rewrite skipn_shift. reflexivity.
Qed.

Lemma java_throws_head nm gs thr clause o B :
  is_name nm = true -> groups gs -> kw_is thr s_throws = true -> forallb clause_tok clause = true -> is_lbrace o = true ->
  acc cand_plain follow_throws (nm :: gs ++ thr :: clause ++ o :: B) 0 = Some (0, S (length gs)).
Proof.
  intros Hnm Hgs Hthr Hcl Ho.
  assert (Hnl : is_lparen thr = false) by (apply keyword_not_symbol; eapply kw_is_keyword; exact Hthr).
  apply acc_intro.
  - rewrite cand_plain_0, Hnm, (ge0_groups gs thr (clause ++ o :: B) Hgs Hnl). reflexivity.
  - rewrite follow_throws_unfold.
    change (kw_at (nm :: gs ++ thr :: clause ++ o :: B) (S (length gs)) s_throws)
      with (kw_at (gs ++ thr :: clause ++ o :: B) (length gs) s_throws).
    change (skipn (S (S (length gs))) (nm :: gs ++ thr :: clause ++ o :: B))
      with (skipn (S (length gs)) (gs ++ thr :: clause ++ o :: B)).
    rewrite kw_at_app_hd, Hthr, skipn_app_hd, (until_brace_clause clause o B Hcl Ho). apply orb_true_r.
Qed.

Theorem head_split_java : head_split any_tokens LJava cand_plain follow_throws cand_never follow_brace.
Proof.
  intros hd n h o B off Hhd _ Ho.
  destruct Hhd as [nm gs Hcf Hnm Hgs | nm gs thr clause HJ Hnm Hgs Hthr Hcl | nm gs Hjs | fk nm gs Hjs | nm gs colon ty HT
                  | fk nm gs colon ty HT | nm eq gs arrow Hjs | nm eq ak gs arrow Hjs | ck nm eq gs arrow Hjs
                  | ck nm eq ak gs arrow Hjs];
    try discriminate.
  - left. split; [|apply Seg_never].
    apply (Seg_head_eq _ _ cshift_plain fshift_throws off (nm :: gs) (o :: B) (nm :: gs ++ o :: B) 0 (S (length gs)));
      [apply java_plain_head; assumption | reflexivity | reflexivity | reflexivity | lia].
  - left. split; [|apply Seg_never].
    change (nm :: gs ++ thr :: clause) with ((nm :: gs) ++ thr :: clause).
    change [mkHeader (off + 0) off (off + (1 + length gs))] with ([mkHeader (off + 0) off (off + (1 + length gs))] ++ []).
    apply Seg_app.
    + apply (Seg_head_eq _ _ cshift_plain fshift_throws off (nm :: gs) ((thr :: clause) ++ o :: B)
               (nm :: gs ++ thr :: clause ++ o :: B) 0 (S (length gs)));
        [apply java_throws_head; assumption | reflexivity | reflexivity | reflexivity | lia].
    + apply (Seg_none _ _ cshift_plain fshift_throws).
      apply (no_acc_cons _ _ cshift_plain fshift_throws).
      * apply plain_not_name. apply keyword_not_name. eapply kw_is_keyword; exact Hthr.
      * apply clause_no_plain; [apply fshift_throws | exact Hcl | exact Ho].
Qed.

(* ---------- the selection on the restricted grammar ---------- *)
Lemma oksel_java : oksel no_throws_kw LJava cand_plain follow_throws.
Proof.
  constructor.
  - apply cshift_plain.
  - apply fshift_throws.
  - apply stmt_throws_no_acc.
  - intros t s B H. apply no_acc_single. apply plain_not_name. eapply symbol_not_name; exact H.
  - intros kw words cond o B Hkw Hwords Hcond Hnt Ho.
    unfold no_throws_kw in Hnt. apply Forall_app in Hnt as [_ Hnt].
    change (kw :: words ++ cond ++ [o]) with ((kw :: words) ++ cond ++ [o]).
    apply (no_acc_app _ _ cshift_plain fshift_throws).
    + apply (ctrl_words_no_acc _ _ cshift_plain fshift_throws); try assumption.
      intros V HV. apply acc_cand_none, wlist_plain, HV.
    + apply (no_acc_app _ _ cshift_plain fshift_throws).
      * destruct Hcond as [->|[Hg _]]; [apply no_acc_nil | apply groups_throws_no_acc; assumption].
      * apply no_acc_single. apply plain_not_name. eapply symbol_not_name; exact Ho.
  - intros pre o flat cl B. apply (init_front_no_acc_gen _ _ cshift_plain fshift_throws).
    intros W HW. apply acc_cand_none, chain_plain, HW.
  - intros pre o flat cl post semi B Hpre Ho Hflat Hcl Hpost Hsemi.
    replace (pre ++ o :: flat ++ cl :: post ++ [semi]) with ((pre ++ [o]) ++ flat ++ cl :: post ++ [semi]) by (norm_app; reflexivity).
    apply (no_acc_app _ _ cshift_plain fshift_throws).
    + apply (plains_no_acc_gen _ _ cshift_plain fshift_throws); [|exact Hpre | left; exact Ho].
      intros W HW. apply acc_cand_none, chain_plain, HW.
    + apply (init_tail_no_acc_gen _ _ cinv_plain finv_throws); try assumption. apply stmt_throws_no_acc.
  - intros kw colon B Hkw Hco. apply (no_acc_cons _ _ cshift_plain fshift_throws).
    + apply plain_not_name. apply keyword_not_name. exact Hkw.
    + apply no_acc_single. apply plain_not_name. eapply operator_not_name. exact Hco.
  - intros a tail o body cl post semi R Hjs. discriminate Hjs.
  - intros pre B Hpre HB. apply (prefix_no_plain LJava); [exact Hpre | exact HB | apply cshift_plain | apply fshift_throws].
Qed.

Theorem new_split_java : new_split LJava cand_plain follow_throws cand_never follow_brace.
Proof.
  intros pre kn nm gs o B off _ Hpre Hkn Hnm Hgs Ho. split; [|apply Seg_never].
  apply new_front_seg; try assumption; [apply fshift_throws | apply java_plain_head; assumption].
Qed.

Theorem canonical_java_citems ts ds : citems no_throws_kw any_tokens LJava 0 ts ds ->
  Permutation (lexical_headers_Java ts) (map header_of ds).
Proof.
  intros H.
  destruct (canonical_two_shapes no_throws_kw any_tokens LJava cand_plain follow_throws cand_never follow_brace
              oksel_java (good_oksel _ _ _ _ (good_never LJava) (fun _ _ => eq_refl)) head_split_java new_split_java ts ds H)
    as (xs & HP & HX & _).
  unfold shape_headers at 2 in HP. rewrite select_never, app_nil_r in HP.
  unfold lexical_headers_Java. exact (canonical_filtered _ _ LJava ts ds _ xs H HP HX).
Qed.

Theorem canonical_java ts ds : canonical_program_of LJava ts ds ->
  Permutation (lexical_headers_Java ts) (map header_of ds).
Proof. intros H. apply canonical_java_citems. apply items_of_citems. exact H. Qed.

Print Assumptions canonical_java.
