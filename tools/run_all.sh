#!/bin/sh
# run every check's quick command on the current tree; prints one summary line each
cd "$(dirname "$0")/.." || exit 2
for c in C01 C02 C03 C04 C05 C06 C07 C08 C09 C10 C11 C12 C13 C14 C15 C16 C17 C18 C19; do
  ./check $c --tier ${1:-quick} 2>&1 | grep -E "^VIOLATION|^KNOWN-FINDING|^C[0-9]+:" | tail -3
done
