import warnings
warnings.simplefilter("ignore", SyntaxWarning)
import argparse
import importlib
import json
import os
import sys
import traceback

sys.path.insert(0, os.path.dirname(os.path.abspath(__file__)))


def main():
    ap = argparse.ArgumentParser()
    ap.add_argument("prop")
    ap.add_argument("--tier", default=os.environ.get("VERIF_TIER", "quick") or "quick", choices=["quick", "thorough"])
    ap.add_argument("--replay", default=None)
    a = ap.parse_args()
    seed = int(os.environ.get("VERIF_SEED", "1") or 1)
    if a.replay:
        # a replay file records the failing case; re-running the check with its seed and tier re-derives it
        try:
            rec = json.load(open(a.replay))
            seed = int(rec.get("seed", seed))
            a.tier = rec.get("tier", a.tier)
            print(f"replaying {a.replay}: {rec.get('what', '')[:300]}")
        except Exception as ex:
            print(f"cannot read replay file: {ex}")
    try:
        mod = importlib.import_module(a.prop.lower())
        sys.exit(mod.run(a.tier, seed, a.replay))
    except SystemExit:
        raise
    except BaseException:
        # the harness itself failed against this tree (import error, changed signature, ...): the property is no
        # longer shown to hold; name what no longer checks
        tb = traceback.format_exc()
        verif = os.path.dirname(os.path.dirname(os.path.abspath(__file__)))
        os.makedirs(os.path.join(verif, "replays"), exist_ok=True)
        path = os.path.join(verif, "replays", f"{a.prop}-harness-failure.json")
        with open(path, "w") as f:
            json.dump({"property": a.prop, "what": "the check could not run its correspondence against this tree",
                       "broken": ["harness/correspondence for " + a.prop], "traceback": tb[-3000:], "seed": seed, "tier": a.tier}, f, indent=1)
        print(tb[-1500:])
        print(f"VIOLATION property={a.prop} replay={path} no-failing-input-found")
        sys.exit(1)


if __name__ == "__main__":
    main()
