(* Lex.v — lexer_utils.lex and source_utils.{get_newline_indices,
   location_to_index, filter_tokens, filter_nocl_comment_tokens}.  The Pygments
   lexer is an oracle: its output is a list of (offset, kind, text). *)
From Verif Require Import Base Token.
Open Scope Z_scope.

Record ltok := mkLtok { lt_off : Z; lt_kind : kind; lt_val : pystr }.

Fixpoint newline_indices_from (i : Z) (code : pystr) : list Z :=
  match code with
  | [] => []
  | c :: r => if c =? 10 then i :: newline_indices_from (i + 1) r else newline_indices_from (i + 1) r
  end.
Definition newline_indices (code : pystr) : list Z := newline_indices_from 0 code.

(* while newline_index < len(indices) and off > indices[newline_index]: ... *)
Fixpoint advance (idx : list Z) (n ls off : Z) : list Z * Z * Z :=
  match idx with
  | i :: rest => if off >? i then advance rest (n + 1) (i + 1) off else (idx, n, ls)
  | [] => ([], n, ls)
  end.
Fixpoint lex_loop (lts : list ltok) (idx : list Z) (n ls : Z) : list token :=
  match lts with
  | [] => []
  | t :: r =>
      let '(idx', n', ls') := advance idx n ls (lt_off t) in
      mkTok (lt_kind t) (lt_val t) (n' + 1) (lt_off t - ls' + 1) :: lex_loop r idx' n' ls'
  end.

Definition nonempty (t : ltok) : bool := match lt_val t with [] => false | _ => true end.

Definition locate (code : pystr) (lts : list ltok) : list token :=
  let lts := filter nonempty lts in                (* zero-length lexer tokens are dropped (GD7) *)
  match newline_indices code with
  | [] => map (fun t => mkTok (lt_kind t) (lt_val t) 1 (lt_off t + 1)) lts
  | idx => lex_loop lts idx 0 0
  end.

Definition keep_token (keep_comments : bool) (t : token) : bool :=
  if is_whitespace t then false else if is_comment t then keep_comments else true.
Definition filter_tokens (keep_comments : bool) (ts : list token) : list token :=
  filter (keep_token keep_comments) ts.

(* lex(lexer, code, filter_comments) *)
Definition lex (code : pystr) (lts : list ltok) (filter_comments : bool) : list token :=
  filter_tokens (negb filter_comments) (locate code lts).

(* lex() hands the lexer the text with a final line break ensured and drops the padding from
   the tokens again (GD24: the C-family lexers close a '//' comment only at a line break):
   lts is the lexer's output on [pad_nl code] *)
Definition ends_with_nl (code : pystr) : bool := match rev code with c :: _ => c =? 10 | [] => false end.
Definition pad_nl (code : pystr) : pystr := if ends_with_nl code then code else code ++ [10].
Definition trim_tok (n : Z) (t : ltok) : ltok :=
  mkLtok (lt_off t) (lt_kind t) (firstn (Z.to_nat (Z.max (n - lt_off t) 0)) (lt_val t)).
Definition trim_pad (code : pystr) (lts : list ltok) : list ltok :=
  filter nonempty (map (trim_tok (Z.of_nat (length code))) lts).
Definition lex_file (code : pystr) (lts : list ltok) (filter_comments : bool) : list token :=
  lex code (trim_pad code lts) filter_comments.

(* location_to_index: sum of the lengths (+1) of the lines before, plus column - 1 *)
Fixpoint split_lines_aux (code : pystr) (cur : pystr) : list pystr :=
  match code with
  | [] => [rev cur]
  | c :: r => if c =? 10 then rev cur :: split_lines_aux r [] else split_lines_aux r (c :: cur)
  end.
Definition split_lines (code : pystr) : list pystr := split_lines_aux code [].
Fixpoint sum_line_lengths (n : nat) (lines : list pystr) : res Z :=
  match n with
  | O => OK 0
  | S n' => match lines with
            | [] => Err IndexError
            | l :: r => match sum_line_lengths n' r with
                        | Err k => Err k
                        | OK s => OK (Z.of_nat (length l) + 1 + s)
                        end
            end
  end.
Definition location_to_index (code : pystr) (line col : Z) : res Z :=
  match sum_line_lengths (Z.to_nat (line - 1)) (split_lines code) with
  | Err k => Err k
  | OK s => OK (s + Z.max 0 (col - 1))
  end.

(* ---------- the suppression marker ---------- *)
Definition lower_char (c : Z) : Z := if (65 <=? c) && (c <=? 90) then c + 32 else c.
Definition lower (s : pystr) : pystr := map lower_char s.
Fixpoint lstrip (s : pystr) : pystr :=
  match s with c :: r => if is_space_char c then lstrip r else s | [] => [] end.
Definition strip (s : pystr) : pystr := rev (lstrip (rev (lstrip s))).
Definition nocl : pystr := [110; 111; 99; 108].
Definition is_nocl_text (value : pystr) : bool :=
  let v := lower value in
  let v :=
    if starts_with_str [35] v || starts_with_str [59] v then strip (skipn 1 v)
    else if starts_with_str [47; 47] v || starts_with_str [47; 42] v then strip (skipn 2 v)
    else v in
  starts_with_str nocl v.
Definition is_nocl_token (t : token) : bool := is_comment t && is_nocl_text (t_value t).
Definition filter_nocl_comment_tokens (ts : list token) : list token := filter is_nocl_token ts.

Definition enc_tokens (ts : list token) : tree := enc_list enc_token ts.
