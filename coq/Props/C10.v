(* C10 — a damaged or partial cache never breaks or taints the next scan.
   Statements only; proofs in Fs/FsProofsCache.v (state machine) and
   Report/JsonProofs.v (document level).  `CGarbage` stands for ANY content of the
   cache file that is not a well-shaped report — every truncation is one such
   content, so no atomicity of the operating system's write is assumed. *)
From Verif Require Import Base Codebase Exclude GenScan FsScan Cache FsProofsCache.
Open Scope Z_scope.

Section C10.
  Variable supported : pystr -> option pystr.
  Variable analyze : pystr -> Z -> analysis.

  (* missing, garbage or other-version cache: the scan completes, equals the fresh scan, analyses every file,
     and leaves the complete fresh report as the new cache *)
  Theorem C10_tolerant : forall st,
    st_cache st = CMissing \/ st_cache st = CGarbage \/ (exists v es, st_cache st = CDoc v es /\ v <> tool_version) ->
    let '(st', out) := step supported analyze st Scan in
    map fst out = fresh_scan supported analyze st /\
    Forall (fun eb => snd eb = true) out /\
    st_cache st' = CDoc tool_version (to_cache (fresh_scan supported analyze st)).
  Proof. exact (FsProofsCache.C10_tolerant supported analyze). Qed.

  (* after any scan the cache is complete and good again *)
  Theorem C10_cache_after_scan : forall st, CacheOK supported analyze (st_cache st) ->
    st_cache (fst (step supported analyze st Scan)) = CDoc tool_version (to_cache (fresh_scan supported analyze st)) /\
    CacheOK supported analyze (st_cache (fst (step supported analyze st Scan))).
  Proof. exact (FsProofsCache.C10_cache_after_scan_is_complete supported analyze). Qed.

  (* no sequence of faults interleaved with edits and scans leaves a state from which scans go wrong *)
  Theorem C10_fault_sequences : forall ops, Forall (good_op supported analyze) ops ->
    CacheOK supported analyze (st_cache (fst (run supported analyze init ops))).
  Proof. exact (FsProofsCache.C10_fault_sequences supported analyze). Qed.
End C10.

Print Assumptions C10_tolerant.
Print Assumptions C10_cache_after_scan.
Print Assumptions C10_fault_sequences.

(* document level: a cache file cut short while being written is never a DIFFERENT well-formed
   document — a strict prefix of the token stream does not parse at all *)
From Verif Require Import Json Writer JsonProofs PrefixProofs.
Theorem C10_prefix : forall b r ts rest, strip_ws (to_json b r) = ts ++ rest -> rest <> [] -> parse ts = None.
Proof. exact PrefixProofs.C10_prefix. Qed.
Theorem C10_truncation_never_different : forall b r ts rest, to_json b r = ts ++ rest ->
  parse ts = None \/ parse ts = parse (to_json b r).
Proof. exact PrefixProofs.C10_truncation_never_different. Qed.
Print Assumptions C10_prefix.
Print Assumptions C10_truncation_never_different.
