(* WfProofsFold.v — two structural facts about fold_scopes / unfold_scopes:
   (a) every child reported for a scope is contained in it (Scope.contains);
   (b) the pre-order of the folded forest is the input list, so
       map fst (unfold_scopes (fold_scopes l)) = l. *)
From Verif Require Import Base Token Headers Blocks Pairing Fold
  TotalProofsHeaders TotalProofsBlocks TotalProofsScopes WfProofsBase.
From Coq Require Import Sorted.
Open Scope nat_scope.

(* ====================================================================== *)
(* (a) children are contained in their parent                              *)
(* ====================================================================== *)

Definition child_of (s : scope0) (c : stree) : Prop := s_contains s (root_of c) = true.

Inductive twf : stree -> Prop :=
| twf_node : forall s cs, Forall (child_of s) cs -> Forall twf cs -> twf (Node s cs).

Fixpoint frames_wf (frames : list frame) : Prop :=
  match frames with
  | [] => True
  | (s, cs) :: rest =>
      Forall (child_of s) cs /\ Forall twf cs /\
      match rest with [] => True | (s', _) :: _ => s_contains s' s = true end /\
      frames_wf rest
  end.

Definition top_ok (frames : list frame) (P : scope0 -> Prop) : Prop :=
  match frames with [] => True | (s, _) :: _ => P s end.

Lemma pop_until_wf sc : forall frames extra roots,
  frames_wf frames -> Forall twf extra -> Forall twf roots ->
  top_ok frames (fun s => Forall (child_of s) extra) ->
  frames_wf (fst (pop_until frames extra sc roots)) /\
  Forall twf (snd (pop_until frames extra sc roots)) /\
  top_ok (fst (pop_until frames extra sc roots)) (fun s => s_contains s sc = true).
Proof.
  induction frames as [|[s cs] rest IH]; intros extra roots Hf He Hr Ht; cbn [pop_until].
  - cbn [fst snd]. split; [exact I|]. split; [|exact I]. apply Forall_app. split; assumption.
  - cbn [frames_wf] in Hf. destruct Hf as (Hc & Hw & Hnext & Hrest). cbn [top_ok] in Ht.
    assert (Hc' : Forall (child_of s) (rev extra ++ cs)).
    { apply Forall_app. split; [apply Forall_rev, Ht | exact Hc]. }
    assert (Hw' : Forall twf (rev extra ++ cs)).
    { apply Forall_app. split; [apply Forall_rev, He | exact Hw]. }
    destruct (s_contains s sc) eqn:E.
    + cbn [fst snd]. split; [|split; [exact Hr | exact E]].
      cbn [frames_wf]. auto.
    + apply IH; [exact Hrest | | exact Hr |].
      * constructor; [|constructor]. constructor; apply Forall_rev; assumption.
      * destruct rest as [|[s' cs'] rest']; [exact I|]. cbn [top_ok].
        constructor; [|constructor]. exact Hnext.
Qed.

Lemma flush_wf : forall frames extra roots,
  frames_wf frames -> Forall twf extra -> Forall twf roots ->
  top_ok frames (fun s => Forall (child_of s) extra) ->
  Forall twf (flush frames extra roots).
Proof.
  induction frames as [|[s cs] rest IH]; intros extra roots Hf He Hr Ht; cbn [flush].
  - apply Forall_app. split; assumption.
  - cbn [frames_wf] in Hf. destruct Hf as (Hc & Hw & Hnext & Hrest). cbn [top_ok] in Ht.
    apply IH; [exact Hrest | | exact Hr |].
    + constructor; [|constructor]. constructor; apply Forall_rev; apply Forall_app; split;
        try assumption; apply Forall_rev; assumption.
    + destruct rest as [|[s' cs'] rest']; [exact I|]. cbn [top_ok].
      constructor; [|constructor]. exact Hnext.
Qed.

Lemma fold_loop_wf : forall scopes frames roots,
  frames_wf frames -> Forall twf roots -> Forall twf (fold_loop scopes frames roots).
Proof.
  induction scopes as [|sc r IH]; intros frames roots Hf Hr; cbn [fold_loop].
  - apply flush_wf; [exact Hf | constructor | exact Hr |].
    destruct frames as [|[s cs] rest]; [exact I | constructor].
  - assert (Ht : top_ok frames (fun s => Forall (child_of s) [])).
    { destruct frames as [|[s cs] rest]; [exact I | constructor]. }
    pose proof (pop_until_wf sc frames [] roots Hf (Forall_nil _) Hr Ht) as (H1 & H2 & H3).
    destruct (pop_until frames [] sc roots) as [frames' roots']. cbn [fst snd] in *.
    apply IH; [|exact H2]. cbn [frames_wf]. split; [constructor|]. split; [constructor|].
    split; [|exact H1]. destruct frames' as [|[s' cs'] rest']; [exact I | exact H3].
Qed.

Lemma fold_scopes_wf scopes : Forall twf (fold_scopes scopes).
Proof. unfold fold_scopes. apply fold_loop_wf; [exact I | constructor]. Qed.

Lemma unfold_tree_children : forall t, twf t ->
  Forall (fun sc => Forall (fun c => s_contains (fst sc) c = true) (snd sc)) (unfold_tree t).
Proof.
  induction t as [s cs IH] using stree_ind'. intros Hw. inversion Hw as [s' cs' Hc Hcs]; subst.
  rewrite unfold_tree_eq. constructor.
  - cbn [fst snd]. apply Forall_forall. intros x Hx. apply in_map_iff in Hx.
    destruct Hx as (c & <- & Hin). rewrite Forall_forall in Hc. apply Hc, Hin.
  - apply Forall_forall. intros x Hx. apply in_flat_map in Hx. destruct Hx as (c & Hin & Hx).
    rewrite Forall_forall in IH, Hcs. specialize (IH c Hin (Hcs c Hin)).
    rewrite Forall_forall in IH. apply IH, Hx.
Qed.

Theorem unfold_fold_children scopes :
  Forall (fun sc => Forall (fun c => s_contains (fst sc) c = true) (snd sc))
         (unfold_scopes (fold_scopes scopes)).
Proof.
  unfold unfold_scopes. apply Forall_forall. intros x Hx. apply in_flat_map in Hx.
  destruct Hx as (t & Ht & Hx). pose proof (fold_scopes_wf scopes) as Hw.
  rewrite Forall_forall in Hw. pose proof (unfold_tree_children t (Hw t Ht)) as H.
  rewrite Forall_forall in H. apply H, Hx.
Qed.

(* ====================================================================== *)
(* (b) pre-order of the folded forest = input order                        *)
(* ====================================================================== *)

Lemma forest_scopes_app a b : forest_scopes (a ++ b) = forest_scopes a ++ forest_scopes b.
Proof. unfold forest_scopes. apply flat_map_app. Qed.

Lemma forest_scopes_node s cs : forest_scopes [Node s cs] = s :: forest_scopes cs.
Proof. unfold forest_scopes. cbn [flat_map tree_scopes]. rewrite app_nil_r. reflexivity. Qed.

Lemma unfold_tree_fst : forall t, map fst (unfold_tree t) = tree_scopes t.
Proof.
  induction t as [s cs IH] using stree_ind'. rewrite unfold_tree_eq. cbn [map fst tree_scopes].
  f_equal. induction cs as [|c r IHr]; cbn [flat_map]; [reflexivity|].
  inversion IH; subst. rewrite map_app. f_equal; auto.
Qed.

Lemma unfold_scopes_fst f : map fst (unfold_scopes f) = forest_scopes f.
Proof.
  unfold unfold_scopes, forest_scopes. induction f as [|t r IH]; cbn [flat_map]; [reflexivity|].
  rewrite map_app, unfold_tree_fst, IH. reflexivity.
Qed.

(* scopes held by the open frames, outermost first *)
Fixpoint frames_pre (frames : list frame) : list scope0 :=
  match frames with
  | [] => []
  | (s, cs) :: rest => frames_pre rest ++ s :: forest_scopes (rev cs)
  end.

Lemma pop_until_pre sc : forall frames extra roots,
  forest_scopes (snd (pop_until frames extra sc roots)) ++ frames_pre (fst (pop_until frames extra sc roots))
  = forest_scopes roots ++ frames_pre frames ++ forest_scopes extra.
Proof.
  induction frames as [|[s cs] rest IH]; intros extra roots; cbn [pop_until].
  - cbn [fst snd frames_pre app]. rewrite app_nil_r. apply forest_scopes_app.
  - destruct (s_contains s sc).
    + cbn [fst snd frames_pre]. rewrite rev_app_distr, rev_involutive, forest_scopes_app.
      rewrite <- !app_assoc. reflexivity.
    + rewrite IH. cbn [frames_pre]. rewrite forest_scopes_node.
      rewrite rev_app_distr, rev_involutive, forest_scopes_app.
      rewrite <- !app_assoc. reflexivity.
Qed.

Lemma flush_pre : forall frames extra roots,
  forest_scopes (flush frames extra roots) = forest_scopes roots ++ frames_pre frames ++ forest_scopes extra.
Proof.
  induction frames as [|[s cs] rest IH]; intros extra roots; cbn [flush].
  - cbn [frames_pre app]. apply forest_scopes_app.
  - rewrite IH. cbn [frames_pre]. rewrite forest_scopes_node.
    rewrite rev_app_distr, rev_involutive, forest_scopes_app.
    rewrite <- !app_assoc. reflexivity.
Qed.

Lemma fold_loop_pre : forall scopes frames roots,
  forest_scopes (fold_loop scopes frames roots) = forest_scopes roots ++ frames_pre frames ++ scopes.
Proof.
  induction scopes as [|sc r IH]; intros frames roots; cbn [fold_loop].
  - rewrite flush_pre. reflexivity.
  - pose proof (pop_until_pre sc frames [] roots) as H.
    destruct (pop_until frames [] sc roots) as [frames' roots']. cbn [fst snd] in H.
    rewrite IH. cbn [frames_pre rev]. change (forest_scopes []) with (@nil scope0).
    change (forest_scopes []) with (@nil scope0) in H. rewrite app_nil_r in H.
    rewrite <- (app_assoc (frames_pre frames')), app_assoc, H.
    rewrite <- !app_assoc. reflexivity.
Qed.

Theorem unfold_fold_fst scopes : map fst (unfold_scopes (fold_scopes scopes)) = scopes.
Proof. rewrite unfold_scopes_fst. unfold fold_scopes. rewrite fold_loop_pre. reflexivity. Qed.

(* filter_scopes_nested_functions keeps the order *)
Lemma filter_nested_loop_SS (R : scope0 -> scope0 -> Prop) : forall l last,
  StronglySorted R l -> StronglySorted R (filter_nested_loop l last).
Proof.
  induction l as [|x l IH]; intros last HS; cbn [filter_nested_loop]; [constructor|].
  inversion HS as [|? ? HS' HF]; subst.
  assert (Hx : forall last', StronglySorted R (x :: filter_nested_loop l last')).
  { intros last'. constructor; [apply IH, HS'|]. apply Forall_forall. intros y Hy.
    apply filter_nested_loop_In in Hy. rewrite Forall_forall in HF. apply HF, Hy. }
  destruct last as [lst|]; [destruct (s_contains lst x)|]; auto.
Qed.

Print Assumptions unfold_fold_children.
Print Assumptions unfold_fold_fst.
