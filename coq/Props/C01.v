(* C01 — interim: executable example; theorems are added with Scope/*Proofs.v *)
From Verif Require Import Base Token TokEngine Lex Headers Blocks Pairing Fold ScanFile.
Open Scope Z_scope.
(* int f ( ) { x ; }  on two lines *)
Example C01_ex_simple :
  scan_file LC [mkTok KKeyword [105;110;116] 1 1; mkTok KName [102] 1 5; mkTok KPunct [40] 1 6; mkTok KPunct [41] 1 7;
                mkTok KPunct [123] 1 9; mkTok KName [120] 2 3; mkTok KPunct [59] 2 4; mkTok KPunct [125] 3 1]
  = OK [mkMeas [102] (mkLoc 1 5) (mkLoc 3 2) 3].
Proof. vm_compute. reflexivity. Qed.
