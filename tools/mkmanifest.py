"""Writes MANIFEST.json from the table below (kept in one place so it stays valid)."""
import json, os
V = os.path.dirname(os.path.dirname(os.path.abspath(__file__)))
props = [json.loads(l)["id"] for l in open(os.path.join(V, "properties.jsonl"))]
CHECKS = {
 "C01": dict(
   text="PARTIAL (the lexers, and constructs outside the formal grammars).  Proved in Coq for all seven languages (Props/C01.v: C01_brace, C01_flat, C01_python; proofs "
        "Scope/SpecProofs*.v, HeaderProofs*.v, ShapeProofs*.v, PySpecProofs*.v): IF a code-token stream carries a well-formed "
        "family of function descriptors (wf_descs: Dyck-matched body braces; py_wf_descs: the suite is the maximal run of "
        "following lines indented deeper than the header's first token; descriptors sorted and nested-or-disjoint) AND the "
        "documented header shape occurs exactly at the descriptors' headers (lexically_canonical_of: a decidable, purely "
        "lexical condition, e.g. 'identifier, balanced parenthesis groups, then {'), THEN scan_file reports exactly one "
        "measurement per descriptor, in source order, with its name, the span from the header's first token to just past the "
        "body's last token, and length = distinct lines of its own tokens (nested functions excluded).  Header recognition is "
        "proved, not assumed: C01_headers_lexical shows for every token stream that the matcher run on the captured patterns "
        "(tied to the live pattern objects by reflexivity) returns exactly the lexically specified headers (leftmost, "
        "non-overlapping, follow-up tests for `{`, `throws ...{`, `: type {`).  Brace matching = Dyck matching "
        "(C01_blocks_are_dyck), pairing (C01_pairing), Python block extraction (C01_python_blocks).  The two hypotheses have "
        "boolean checkers proved sound; the harness decides them INSIDE Coq on 280 generated programs per quick run and "
        "compares the theorem's right-hand side with the generator's expectation.  For the six brace languages the last step "
        "is proved as well: Scope/Grammar.v / GrammarAll.v formalise a token-level canonical grammar (statements, control "
        "statements, functions with type words and every documented header form: plain, Java throws, [function] name, "
        "TypeScript return type, arrow functions; nesting) and C01_grammar_brace (C01_grammar_cpp / _c) show that for EVERY "
        "program it generates scan_file returns exactly the prescribed measurements (no hypothesis left but the lexer "
        "contract and the absence of markers).  The first version of that theorem was refuted by its proof attempt, which "
        "exposed the genuine defect GD26 (TypeScript: a call in a ternary inside a condition reported as a function).  The "
        "comparison operators of the hand model are proved equal to definitions regenerated from the source on every run "
        "(C01_operators_tied).  Python has its own grammar over positioned tokens (blocks of lines at one indentation, definition "
        "line + deeper block) with theorem C01_grammar_python.  The brace grammar also covers class-like declarations and brace-initialiser "
        "statements; proving the latter refuted the theorem on `f ( ) { } { } ;` and exposed the genuine defect GD27 (a block that abuts a "
        "function body was merged into it), after whose repair the hypothesis 'nothing opens right after the body' was deleted from every "
        "theorem.  Membership in the grammars is DECIDED: executable recognisers (Scope/GrammarParse.v, PyGrammarParse.v) are proved sound "
        "(C01_recognised_programs, C01_recognised_python_programs) and run inside Coq on the generated programs; more than nine tenths are members, "
        "for which no descriptor-side hypothesis is left.  The brace grammar meanwhile also covers TypeScript return types with parenthesis "
        "groups, flat brace groups in JavaScript / TypeScript parameter lists, callback statements, Java anonymous classes / C# object initialisers after `new`, bare blocks, `async` before a header, calls inside initialiser braces and `keyword :` labels (each extension was corrected or "
        "confirmed by its proof attempt; counter-example streams in Scope/GrammarAllProofsCex.v).  NOT proved: what the grammars leave "
        "out (nested brace groups in parameter lists, Python backslash "
        "continuations: hypothesis form and generator only) "
        "and the text->token step (lexers are oracles).  4 200 generated programs per quick run (nesting in any position, multi-line "
        "headers, both brace styles, brace groups and calls in parameters, async, long throws / return types, strings with "
        "delimiters, marker-like comments, bodies around 15/30/60) are judged against expectations computed from the rendering, "
        "and the Coq model runs on the same token streams.",
   note="Partial: formal grammars with unconditional theorems and sound recognisers exist for all seven languages, but they leave out "
        "nested brace groups inside parameter lists and Python backslash "
        "continuations (those are covered by the decidable-hypothesis theorems, validated per generated program); lexers are oracles.  Trusted: Coq kernel; scope model (tie H), captured "
        "patterns (tie K); generator harness/progen.py and its piece-ownership expectation.",
   technique="Rocq end-to-end theorem (header recognition via the concrete DFAs, Dyck matching, pairing invariant, fold, counting; Python suites) under decidable lexical hypotheses checked in Coq per generated program; formal grammars with unconditional theorems and sound recognisers run in Coq + typed program generator with computed expectations",
   ref="DESIGN.md sections 5 and 9, C01"),

 "C12": dict(
   text="Coq theorems (Props/C12.v; proofs Fs/CheckProofs.v) over the models of check_command (cwd = codebase root) and "
        "scan_path sharing the walk, the exclusion test and the analysis oracle: a file scan analyses, reached as a relative "
        "file path or through ANY directory above it, is listed by check with exactly the functions longer than 30 lines of "
        "scan's result, longest first (stable), once; excluded files are skipped however reached; hidden files are skipped "
        "through a directory above; from the root the two lists are literally equal; exit status 1 iff a length > 60.  The "
        "'same decoding' clause was a genuine defect (GD5, fixed); trees with hidden / excluded / unsupported / non-UTF-8 "
        "files are run through check_command in five ways and compared with scan_path and the Coq model.",
   note="Trusted: Coq kernel; hand models Fs/CheckCmd.v, FsScan.v (tie H); that check and scan call the same reader and "
        "scan_file is established by the differential run, pathspec / lexer table are oracles.",
   technique="Rocq proof (tree induction, shared-walk refinement between check and scan) + five-ways differential runs",
   ref="DESIGN.md section 5, C12"),
 "C06": dict(
   text="Partial by nature.  Proved (Props/C06.v; Agg/PermProofs.v): the aggregation of a codebase is invariant under the "
        "order in which files are analysed — same files, same per-language totals, same folder keys and profiles, entries "
        "equal up to order (and a computed example shows that plain equality would be false: order IS visible in key order); "
        "all model functions are pure functions of language and tokens, the matcher model works on canonical (sorted, "
        "duplicate-free) state sets and tries every transition, so no set-iteration order can influence a result.  Exercised, "
        "not provable: corpus + generated + malformed files analysed in sub-processes under 8/64 PYTHONHASHSEED values, in "
        "shuffled / reversed orders, twice in a row; trees scanned with os.walk permuted; digests and canonical reports must "
        "coincide.",
   note="CPython hashing, os.walk order and object aliasing between analyses (deepcopy of predicates) live in the run-time: "
        "they are validated by the harness, not modelled.  Trusted: Coq kernel; Codebase model (tie H).",
   technique="Rocq proof of order-invariance of aggregation + purity by construction; hash-seed / traversal-order differential runs",
   ref="DESIGN.md section 5, C06"),

 "C09": dict(
   text="Coq theorems (Props/C09.v; proofs Fs/FsProofsCache.v) over the state machine Fs/Cache.v of edits (write, delete, "
        "rename, touch, swap), exclusion changes, cache replacement by another version / with altered entries, dropped "
        "entries, damage, and scans: the invariant 'every entry of a usable cache is the analysis of the content with that "
        "checksum under the language of that path name' holds initially and is preserved by every operation, hence for EVERY "
        "finite history every scan equals the from-scratch scan of the file system at that moment (files, order, checksums, "
        "languages, results); a result is reused only for an unchanged path and content from a same-version cache; a cache of "
        "another version is never used.  Tie: all single operations and sampled pairs/triples after a populated scan plus "
        "random histories on a real temp directory through scan_command, each scan compared with scan_command on a "
        "cache-free copy and with the Coq machine (entries + which files were analysed); edits that change white space only "
        "(blank lines in front / at the end / inside, trailing spaces, line ends), applied and undone between two scans.",
   note="Trusted: Coq kernel; analysis and file-name->language map as oracles (deterministic: C06), md5 injective on the contents "
        "used; hand model of scan_command/_scan_file (tie H); translator for tool_version.",
   technique="Rocq proof (inductive invariant over operation histories, refinement to the fresh scan) + real-directory history replay",
   ref="DESIGN.md section 5, C09"),
 "C10": dict(
   text="Coq theorems (Props/C10.v): with a missing, garbage (ANY non-report content: every truncation is one) or other-version "
        "cache the scan completes, equals the fresh scan, analyses every file and leaves the complete fresh report as cache; "
        "after any scan the cache is complete and good; no sequence of faults interleaved with edits and scans leaves a bad "
        "state.  Because every possible content is covered, no atomicity of the OS write is assumed.  The implementation side "
        "(that every damaged content is indeed rejected by the reader) is explored: the written cache cut at every byte "
        "offset, every key removed at every level, seven wrong types at every position, structural faults, fault sequences.",
   note="Trusted: Coq kernel; the classification 'not a well-shaped report => CGarbage' is established for the implementation by "
        "the exhaustive truncation / tampering sweep, not proved; OS-level failures (ENOSPC during the NEW write) are outside.",
   technique="Rocq proof over the cache state machine + exhaustive byte-offset truncation and structural-fault sweep on real directories",
   ref="DESIGN.md section 5, C10"),
 "C11": dict(
   text="Coq theorems (Props/C11.v; proofs Fs/FsProofsWalk.v): for every directory tree, exclusion list and cache, a path "
        "appears in the scan result iff a file exists there, none of its components is hidden, it is not excluded and its "
        "name maps to a supported language; the entry is keyed by that path with the file's checksum and (fresh) the analysis "
        "of its content; paths are duplicate-free for well-formed trees; deleting, inserting or changing any file that does "
        "not qualify leaves the result unchanged and the analysis oracle is only consulted on qualifying files.  The "
        "exclusion matcher for the five gitignore pattern classes is a Gallina function compared with pathspec on every case; "
        "trees x exclusions (config, .gitignore) x three root spellings run through the real scan_path with a recording "
        "wrapper.",
   note="Trusted: Coq kernel; pathspec and get_lexer_for_filename as oracles (recomputed per case); Path.absolute/resolve/"
        "relpath behaviour for the three root spellings is exercised, not modelled.",
   technique="Rocq proof (induction over directory trees) + differential runs against pathspec and scan_path",
   ref="DESIGN.md section 5, C11"),

 "C07": dict(
   text="Coq theorems (Props/C07.v, 10; proofs Agg/CodebaseProofs*.v ~2000 lines) over the model of Codebase.add_file / "
        "add_folder / aggregate with leaves re-translated from source: for every list of file entries with distinct well-formed "
        "relative paths, in any insertion order, building succeeds; files are kept once each in order; per-language totals are "
        "the counts and sums over that language's files; grand totals are the sums; each folder's profile is the sum over all "
        "files beneath it at any depth, the root's is the whole codebase's; the tree's keys are the root plus all ancestors, "
        "each file occurs once under its parent folder, every folder is reachable.  Both hypotheses are shown necessary by "
        "counterexamples that reproduce on the Python class.  Tie: all insertion orders of small sets + random sets, every case "
        "through the Coq model.",
   note="Trusted: Coq kernel; translator for make_profile/merge_profiles/LanguageTotals.add; hand model Agg/Codebase.v (tie H, "
        "538 full-structure comparisons per quick run).",
   technique="Rocq proof (insertion invariant, fuelled recursion totality, aggregation frame property) + vm_compute correspondence",
   ref="DESIGN.md section 5, C07"),
 "C08": dict(
   text="Coq theorems (Props/C08.v; proofs Report/JsonProofs.v, WriterProofs.v): for EVERY document the writer's layout "
        "produces (pretty or compact), the token-level parser accepts it and returns the document's value, so both layouts are "
        "valid and equal as values; white space tokens are blanks only; for every report whose codebase was built from "
        "distinct paths, reading the written document yields the same version, identifier, repository and the same codebase, "
        "and re-writing reproduces the token stream up to the timestamp; get_report_version returns the stored version. "
        "Strings are abstract tokens rendered by the json.dumps oracle; the model's document is compared byte for byte with "
        "ReportWriter.to_json on every generated report (quotes, backslashes, control and non-ASCII characters in every field).",
   note="Trusted: Coq kernel; json.dumps/json.loads string codec (oracle, exercised by the harness round trip); hand models "
        "Report/Json.v, Writer.v (tie H).",
   technique="Rocq proof (printer/parser inversion for a layout-annotated document type, reader-writer round trip) + byte-exact correspondence",
   ref="DESIGN.md section 5, C08"),
 "C18": dict(
   text="Coq theorems (Props/C18.v; proofs Report/RenderProofs*.v) about the cell formatters re-translated from "
        "LanguageTotalsDelta/ScanTotalsDelta/ScanTotals on every run: decimal formatting is correct (digits parse back), every "
        "cell's leading integer is the stored figure, a cell is annotated exactly when current and previous differ and the "
        "annotation parses to current - previous; rows are the languages by lines of code descending (stable), each row built "
        "from the previous report's totals of the same language; totals row iff more than one language with the sums and "
        "their deltas; text and Markdown overviews are equal; findings = the > 30 units, longest first, cut at ten with the "
        "exact omitted count (shared with C02).  Tie: random report pairs, cells read back from the Table object and the "
        "Markdown lines.",
   note="Trusted: Coq kernel; translator; Render.v glue (tie H); rich layout not modelled; LC_ALL=C for the :n format.",
   technique="Rocq proof on source-translated formatters (decimal printing, sort facts) + vm_compute correspondence of cells",
   ref="DESIGN.md section 5, C18"),

 "C05": dict(
   text="Coq theorems (Props/C05.v; proofs Scope/WfProofs*.v, Gsm/DistinctStartProofs.v, 1700 lines): for every token list with "
        "strictly increasing positions (what the lexing model guarantees, C16) every measurement starts at a code token, ends "
        "just past a code token, has start index < end index, carries as name an identifier token inside its span, and has "
        "1 <= length <= distinct code lines of the span; measurements are in strict source order for all seven languages "
        "(JS/TS through a kernel-computed certificate that the two header patterns never match from one start); the file "
        "total is the sum; composed end-to-end from the lexer contract (C05_analyze).  The first proof attempt produced a "
        "counterexample that reproduced on the real code (GD22, now fixed).  Tie: malformed stream judged by an independent "
        "oracle recomputing positions from the raw text.",
   note="Trusted: Coq kernel incl. vm_compute; capture.py; scope and lex models (tie H, validated by correspondence on ~1000 "
        "malformed token streams per quick run).",
   technique="Rocq proof (invariants of pairing/fold/count, product-automaton certificate for distinct starts) + malformed-input oracle",
   ref="DESIGN.md section 5, C05"),
 "C19": dict(
   text="Coq theorems (Props/C19.v; proofs Agg/Percent.v, Agg/PercentFloatProofs.v) about definitions re-translated from "
        "Report.quality_profile_percentage, SummaryTable and both print_summary functions on every run, in two layers.  (1) Exact "
        "arithmetic (`/` and 0.001 as rationals, ceil as integer ceiling): for all four non-negative integers the three displayed "
        "figures are integers in 0..100 summing to 100, each strictly within two points of the true share, a hard/unmaintainable "
        "share above 0.001 % never shows as 0, all-zero shows 100/0/0; the verdict tests of the text summary, the Markdown summary "
        "and the table styles each equal `unm% > 0 or hard% > 20`.  (2) Floating point: the code evaluates the three ceil() in "
        "binary64 and at shares of exactly n.001 % really differs from layer 1 (9001 of 100000 lines: 10 % instead of 9 %), so the "
        "same clauses are proved for EVERY admissible outcome `may_show` — each ceil() being the ceiling of some value within "
        "10^-12 of the exact one, followed by the surplus adjustment and the easy remainder exactly as the source states them "
        "(`quality_profile_adjust`, regenerated) — with the never-hidden clause for totals below 10^9 lines; the exact model is "
        "one admissible outcome and `may_show_b` decides admissibility (sound and complete).  Tie: the implementation's figures "
        "are checked to be admissible, inside Coq, for every profile with total <= 16 (quick) / 60, for profiles at and next to "
        "every n.001 % threshold, and for random totals up to 10^9.",
   note="Trusted: Coq kernel; translator (rational mode for the expression inside ceil, the ceil results as parameters of the "
        "adjustment); Flocq's rounding model and that CPython's int/int, *, -, math.ceil and the literal 0.001 are the correctly "
        "rounded binary64 operations; C19_binary64_error / C19_binary64_admissible (binary64 evaluation stays within 10^-12 of the "
        "exact value, hence the computed outcome is admissible, for totals < 2^53) depend on the standard library's real-number "
        "axioms (sig_not_dec, sig_forall_dec, functional_extensionality_dep, classic); rich rendering of cells.",
   technique="Rocq proof (nia/lia over exact ceilings and over every tolerance-admissible outcome) on source-translated definitions + admissibility of the implementation's outputs decided in Coq",
   ref="DESIGN.md sections 5 and 9, C19"),

 "C03": dict(
   text="Coq theorem C03_scan_total (Props/C03.v; proofs Scope/TotalProofs*.v, Gsm/HasNameProofs.v, Gsm/UnambProofs.v): for "
        "EVERY token list (any kinds, texts, positions, lengths, nesting) and every language, scan_file returns OK — each error "
        "branch of the model (ambiguity, next() on no name token, list index, tokens.index, min/max of empty, fuel) is shown "
        "unreachable, given per-pattern boolean certificates (unambiguous, every match contains a name token) that the kernel "
        "evaluates on the patterns captured from /repo on this run; analyze (lex + scan + line total) is total too. The part "
        "the model cannot exhibit (Pygments termination, decoding, path arithmetic and exit codes of check/scan) is covered by "
        "running the malformed stream through scan_file, scan_command and check_command (5 ways of naming, non-UTF-8 bytes, "
        "1200-deep nesting) and real subprocesses.",
   note="Partial by nature: lexer termination and OS/file-system behaviour are oracles; check_command/scan_command path and "
        "decoding logic is exercised, not proved (see C11/C12 for its model). Trusted: Coq kernel incl. vm_compute; capture.py; "
        "the scope model (validated by correspondence in C01/C05/C03).",
   technique="Rocq proof of totality (unreachability of every error branch) with kernel-computed certificates on captured patterns + malformed-input differential runs",
   ref="DESIGN.md section 5, C03"),
 "C04": dict(
   text="Coq theorems (Props/C04.v; proofs Scope/ShiftProofs*.v): scan_file depends on its tokens only through the code tokens "
        "and the lines of marker comments, so inserting/deleting white-space and non-marker comment tokens anywhere changes "
        "nothing; relabelling the lines of the code tokens by ANY strictly monotone map (no line inserted inside a multi-line "
        "token) yields the same functions, names, order, columns and lengths with every reported line mapped — proved stage by "
        "stage (sorting keys, line grouping, indentation blocks, marker lines, distinct-line counts).  The assumption that an "
        "insertion leaves the Pygments code tokens unchanged up to line numbers is checked per insertion on a vendored "
        "real-world corpus and generated programs.",
   note="Trusted: Coq kernel; scope model (tie H); the lexer-stability assumption is validated per case (violating insertions "
        "are skipped and counted in the evidence).",
   technique="Rocq proof (commutation of every pipeline stage with monotone line relabelling and noise insertion) + corpus insertion sweep",
   ref="DESIGN.md section 5, C04"),
 "C16": dict(
   text="Coq theorems (Props/C16.v; proofs Tok/LexProofs.v): for every text and every lexer output satisfying the Pygments "
        "contract, each kept token's line is 1 + the number of line breaks before it, its column counts from the line start, "
        "location_to_index of the reported position is the token's offset and the text there is the token's text; kept tokens "
        "are strictly increasing and non-overlapping; white space is never kept, comments exactly when requested; the "
        "single-line fast path is only an optimisation.  The same theorems hold for lex() as the implementation runs it "
        "since GD24 (`lex_file`: the lexer is called on the text with a final line break ensured, the padding is dropped from "
        "the tokens again — `C16_padding_dropped` shows the result is a lexing of the original text that loses nothing but "
        "the padding; proofs Tok/LexPadProofs.v).  Tie: stub lexer over every text of length<=5 x every segmentation with "
        "every member of the Comment family (45k model evaluations per quick run) and the seven real lexers.",
   note="Trusted: Coq kernel; model Tok/Lex.v (tie H); Pygments contract is an oracle asserted on every text lexed.",
   technique="Rocq proof (incremental newline scan = from-scratch count, split_lines arithmetic) + exhaustive stub-lexer correspondence",
   ref="DESIGN.md section 5, C16"),
 "C17": dict(
   text="Coq theorems (Props/C17.v; proofs Scope/MarkerProofs*.v): exact characterisation of marker texts (leader #, ;, //, /* "
        "+ optional white space + 'nocl', case-insensitive, or bare prefix); a candidate function is reported iff no marker "
        "comment sits on the line of its name, order preserved (pre-order of the nesting forest = insertion order, for every "
        "list); non-interference: marking a function unrelated by nesting to all others removes exactly its measurement and "
        "leaves every other measurement identical (stack-fold analysis; counterexamples show the ordering hypothesis is "
        "necessary).  Tie: generated programs with random marked subsets, all comment styles, decoys.",
   note="Trusted: Coq kernel; scope model (tie H); str.lower()/strip() modelled on code points (ASCII lower-casing; harness "
        "judges non-ASCII samples with Python only).",
   technique="Rocq proof (string lemmas, fold/unfold invariants, removal of an unrelated root) + generated marked programs",
   ref="DESIGN.md section 5, C17"),

 "C13": dict(
   text="Coq theorems (Props/C13.v, 7; proofs in Gsm/{ClosureProofs,NfaProofs,DfaProofs}.v, ~2500 lines) over a structural "
        "model of the engine (heap of State objects, Concat as node copy, epsilon_closure with visited set, lazy subset "
        "construction, Pattern.consume): for every well-formed pattern and every word, nfa_match and match decide membership in "
        "the regular language, starts_with returns exactly the shortest non-empty matching prefix, none ever errs (disjoint "
        "predicates), and building never runs out of fuel (closure total on any heap, also with epsilon cycles). The model is "
        "tied to the code by running both on all patterns of size<=4 x all words of length<=4 (quick) plus random larger ones; "
        "an independent derivative matcher judges the implementation alone.",
   note="Trusted: Coq kernel; the hand-written model Gsm/{Regex,Nfa,Dfa}.v (validated by correspondence, ~73k pairs per quick "
        "run); eager nfa_to_dfa is modelled by its lazily computed reachable part (termination of the work-list itself is not "
        "modelled, only observed); Identity atoms over distinct integers as the disjoint alphabet.",
   technique="Rocq proof (Thompson invariant, closure = reachability, subset simulation) + vm_compute correspondence on enumerated patterns x words",
   ref="DESIGN.md section 5, C13"),
 "C14": dict(
   text="Coq theorems (Props/C14.v, 6; proofs in Gsm/ScanProofs.v): find_all equals leftmost selection over isolated greedy "
        "runs for ANY predicates and any acceptance filter (simulation invariant of the scan loop); bounds, ordering and "
        "non-overlap (also at the end of input); for disjoint stateless predicates every reported match is a word of the "
        "language, the longest from its start, and every start whose greedy run succeeds is covered; a Balanced group open "
        "among the current transitions accepts every token, so a match cannot end before the end of input inside a group. "
        "Tie: all non-nullable patterns size<=4 x words, the three header shapes over all token sequences of length<=6, random "
        "long ones, each judged conjunct by conjunct with independent oracles.",
   note="Trusted: Coq kernel; model Gsm/Dfa.v find_all (validated by correspondence, ~65k cases per quick run); independent "
        "oracles in harness/gsm_common.py and c14.py (derivatives, shape runner).",
   technique="Rocq proof (loop invariant of the search, sort canonicity, language semantics via C13) + vm_compute correspondence",
   ref="DESIGN.md section 5, C14"),
 "C15": dict(
   text="Generic Coq theorem (Gsm/UnambProofs.v): if the finite invariant check passes for a pattern — all reachable (DFA state, "
        "depth class per Balanced predicate) configurations x all token classes (kind x distinguished literal or other), closed "
        "under abstract steps, at most one applicable transition — then no token sequence whatsoever makes consume/find_all/"
        "starts_with return the ambiguity error (simulation between concrete depth counters and classes, abstraction lemma for "
        "tokens). Props/C15.v instantiates it by vm_compute on the header and follow-up patterns captured from the live language "
        "objects of /repo on this run (7 certificates) and concludes C15_all for every language.  The search replays every token "
        "sequence of length<=4 (+ random paren-rich ones) through the real extract_headers.",
   note="Trusted: Coq kernel incl. vm_compute; translate/capture.py (serialises live pattern objects; fail-closed on unknown "
        "classes); predicate state keyed by predicate value instead of object identity (single_stateful_check certificate).",
   technique="Rocq proof of a certificate checker's soundness + kernel-computed certificates on captured patterns (finite space, exhaustive)",
   ref="DESIGN.md section 5, C15"),

 "C02": dict(
   text="Coq theorems (Props/C02.v, 12) over definitions re-translated from /repo on every run: every threshold site "
        "equals the category function for all integers L; profile slots partition; check's exit status, per-file listing "
        "(filter > 30, stable descending sort), summary count and --quiet silence proved for every list of files by "
        "induction; findings cut-off proved for both formats. A changed comparison changes the theorem's subject and the "
        "kernel rejects the proof; the plumbing between the translated leaves is tied by differential runs of "
        "check_command on real files and of print_findings.",
   note="Trusted: Coq kernel; translate/pytocoq.py (leaf translator); the hand-written fold in Agg/CheckFlow.v for "
        "check_command/check_file glue (validated by correspondence); rich text rendering not modelled.",
   technique="Rocq proof over source-translated leaf definitions (lia, induction over file lists) + vm_compute correspondence",
   ref="DESIGN.md section 5, C02"),
}
checks = []
for p in props:
    if p in CHECKS:
        c = CHECKS[p]
        checks.append({"property_id": p, "quick_cmd": f"./check {p} --tier quick", "thorough_cmd": f"./check {p} --tier thorough",
                       "evidence_file": f"evidence/{p}.json", "replay_cmd_template": f"./check {p} --replay {{path}}",
                       "engine": "coq", "level_claimed": {"category": "proof", "text": c["text"], "design_ref": c["ref"]},
                       "level_note": c["note"], "technique": c["technique"]})
m = {"version": 1, "setup_cmd": "./setup.sh",
     "hooks": {"guard": "CODELIMIT_VERIF", "enable": "no source hooks: the harness imports /repo (PYTHONPATH=/repo) and wraps functions from its own process",
               "baseline_off_cmd": "cd /repo && /venv/bin/python -m pytest -q -p no:cacheprovider", "source_commits": [], "add_only": True},
     "engines": [{"name": "coq", "path": "coq/", "serves_properties": sorted(CHECKS), "kind_free_text": "Coq 8.16.1 development: models, proofs, generated definitions; harness/ drives it"}],
     "checks": checks,
     "not_applicable": [{"property_id": p, "reason": "check not built yet (build round in progress); see DESIGN.md section 9 staging"} for p in props if p not in CHECKS],
     "notes": "One entry point: ./check <id> --tier quick|thorough. See DESIGN.md."}
json.dump(m, open(os.path.join(V, "MANIFEST.json"), "w"), indent=1)
print("claimed:", sorted(CHECKS))
