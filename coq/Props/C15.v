(* C15 — built-in header patterns are unambiguous on every token.
   The certificates below are kernel computations over patterns captured from
   /repo on this run (Gen/GenPatterns.v); the generic soundness theorem that
   turns `unambiguous_check = true` into "no token sequence can raise the
   ambiguity error" is in Gsm/UnambProofs.v. *)
From Verif Require Import Base Regex Nfa Dfa Token TokEngine Unamb GenPatterns Headers.

Definition pattern_ok (ef : expr tpred * option (expr tpred)) : bool :=
  unambiguous_check (fst ef) && single_stateful_check (fst ef) &&
  match snd ef with Some f => unambiguous_check f && single_stateful_check f | None => true end.

Theorem C15_cert_C : forallb pattern_ok patterns_C = true. Proof. vm_compute. reflexivity. Qed.
Theorem C15_cert_Cpp : forallb pattern_ok patterns_Cpp = true. Proof. vm_compute. reflexivity. Qed.
Theorem C15_cert_CSharp : forallb pattern_ok patterns_CSharp = true. Proof. vm_compute. reflexivity. Qed.
Theorem C15_cert_Java : forallb pattern_ok patterns_Java = true. Proof. vm_compute. reflexivity. Qed.
Theorem C15_cert_JavaScript : forallb pattern_ok patterns_JavaScript = true. Proof. vm_compute. reflexivity. Qed.
Theorem C15_cert_Python : forallb pattern_ok patterns_Python = true. Proof. vm_compute. reflexivity. Qed.
Theorem C15_cert_TypeScript : forallb pattern_ok patterns_TypeScript = true. Proof. vm_compute. reflexivity. Qed.
Print Assumptions C15_cert_TypeScript.
