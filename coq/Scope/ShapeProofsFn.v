(* ShapeProofsFn.v — the first JavaScript / TypeScript header pattern
   [function] Name groups,  with the follow-up "{" (JavaScript) or "{" / ": ... {" (TypeScript). *)
From Verif Require Import Base Regex Nfa Dfa Token TokEngine GenPatterns Headers Blocks Spec HeaderSpec Scan ScanProofs.
From Verif Require Import Unamb UnambProofs LexShapes HeaderProofsDfa HeaderProofsSelect ShapeProofsGen ShapeProofsFollow.
Open Scope Z_scope.

Definition fn_pattern : expr tpred :=
  [Opt [Atom (PKeyword s_function)]; Atom PName; Plus [Atom Bal]].

Definition aF : automaton tpred :=
  Eval vm_compute in match tk_to_dfa fn_pattern with OK a => a | Err _ => mkAut [] [] 0%nat end.
Lemma to_dfa_fn : tk_to_dfa fn_pattern = OK aF.
Proof. vm_compute. reflexivity. Qed.
Lemma okheap_aF : okheap aF = true.
Proof. vm_compute. reflexivity. Qed.

(* reachable states: start, after function, after the name, in the groups *)
Definition F0 := [0; 1; 3]%nat.
Definition F1 := [2; 3]%nat.
Definition F2 := [5; 7]%nat.
Definition F3 := [7; 8; 9]%nat.

Lemma aconsume_F0 x : aconsume aF F0 0 x =
  if kwt x s_function then OK (Some (F1, 0)) else if is_name x then OK (Some (F2, 0)) else OK None.
Proof.
  unfold aconsume. cbv zeta.
  change (dtrans tpred_eqb (a_heap aF) F0) with [PKeyword s_function; PName].
  cbn [filter tpred_eqb Bal]. cbn [pfold tpred_eqb Bal taccept]. fold (kwt x s_function).
  destruct (kwt x s_function) eqn:E1.
  - rewrite (kwt_not_name x s_function E1). reflexivity.
  - destruct (is_name x); reflexivity.
Qed.

Lemma aconsume_F1 x : aconsume aF F1 0 x = if is_name x then OK (Some (F2, 0)) else OK None.
Proof.
  unfold aconsume. cbv zeta.
  change (dtrans tpred_eqb (a_heap aF) F1) with [PName].
  cbn [filter tpred_eqb Bal]. cbn [pfold tpred_eqb Bal taccept].
  destruct (is_name x); reflexivity.
Qed.

Lemma arun_F2 n w :
  arun aF F2 0 n w = OK (match groups_opt w with Some k => Some (n + k)%nat | None => None end).
Proof. apply (arun_pregroups aF F3); reflexivity. Qed.

(* Name groups, as a length *)
Definition plain_len (w : list token) : option nat :=
  match w with
  | t :: r => if is_name t then match groups_opt r with Some k => Some (S k) | None => None end else None
  | [] => None
  end.
Definition fn_len (w : list token) : option nat :=
  match w with
  | t :: r => if kwt t s_function then match plain_len r with Some k => Some (S k) | None => None end
              else plain_len w
  | [] => None
  end.

Lemma arun_F1 w : arun aF F1 0 1 w = OK (match plain_len w with Some k => Some (S k) | None => None end).
Proof.
  destruct w as [|u r]; [reflexivity|]. cbn [arun plain_len]. rewrite aconsume_F1.
  destruct (is_name u); [|reflexivity]. rewrite arun_F2. destruct (groups_opt r); reflexivity.
Qed.

Lemma arun_F0 w : arun aF F0 0 0 w = OK (fn_len w).
Proof.
  destruct w as [|t w]; [reflexivity|]. cbn [arun fn_len]. rewrite aconsume_F0.
  destruct (kwt t s_function) eqn:Ea.
  - apply arun_F1.
  - cbn [plain_len]. destruct (is_name t); [|reflexivity].
    rewrite arun_F2. destruct (groups_opt w); reflexivity.
Qed.

Lemma cand_function_len w : cand_end_of cand_function w 0 = fn_len w.
Proof.
  unfold cand_end_of, cand_function, kw_at, name_at.
  destruct w as [|t w]; [reflexivity|]. cbn [nth_error fn_len]. unfold kwt.
  destruct (is_keyword t && pystr_eqb (t_value t) s_function) eqn:Ea.
  - destruct w as [|u w]; cbn [nth_error plain_len]; [reflexivity|].
    destruct (is_name u); [|reflexivity].
    rewrite groups_end_opt. cbn [skipn]. destruct (groups_opt w); reflexivity.
  - cbn [nth_error plain_len]. destruct (is_name t); [|reflexivity].
    rewrite groups_end_opt. cbn [skipn]. destruct (groups_opt w); reflexivity.
Qed.

Lemma shift_inv_function : shift_inv cand_function.
Proof.
  split.
  - intros t ts i. unfold cand_function, kw_at, name_at, groups_end, sym_at. cbn [nth_error].
    destruct (match nth_error ts i with Some t0 => is_keyword t0 && pystr_eqb (t_value t0) s_function | None => false end);
      cbn [nth_error skipn];
      match goal with |- context [if ?b then _ else None] => destruct b end; cbn [shift1]; try reflexivity;
      match goal with |- context [if ?b then _ else None] => destruct b end; cbn [shift1]; reflexivity.
  - intros i. unfold cand_function, kw_at, name_at. rewrite !nth_error_nil_any. reflexivity.
Qed.

Theorem greedy_aF ts i : greedy tpred_eqb taccept_st aF ts i = OK (cand_end_of cand_function ts i).
Proof.
  apply (greedy_of_arun aF cand_function okheap_aF shift_inv_function).
  intros w. change (a_start aF) with F0. rewrite arun_F0, cand_function_len. reflexivity.
Qed.

Lemma name_index_function ts i n j : cand_function ts i = Some (n, j) -> name_index ts i j = OK n.
Proof.
  unfold cand_function. destruct (kw_at ts i s_function) eqn:Ea.
  - destruct (name_at ts (S i)) eqn:En; [|discriminate].
    destruct (groups_end ts (S (S i))) as [j'|] eqn:Eg; [|discriminate]. intros [= <- <-].
    apply groups_end_lt in Eg.
    rewrite (name_index_kw ts i j' s_function Ea) by lia.
    apply name_index_0; [exact En | lia].
  - destruct (name_at ts i) eqn:En; [|discriminate].
    destruct (groups_end ts (S i)) as [j'|] eqn:Eg; [|discriminate]. intros [= <- <-].
    apply groups_end_lt in Eg. apply name_index_0; [exact En | lia].
Qed.

Theorem function_headers_brace : forall ts : list token,
  get_headers ts fn_pattern (Some cfamily_followup) = OK (shape_headers cand_function follow_brace ts).
Proof.
  intros ts.
  apply (get_headers_shape_some fn_pattern cfamily_followup aF af cand_function follow_brace ts
           to_dfa_fn to_dfa_followup).
  - apply greedy_aF.
  - apply follow_brace_decides.
  - apply name_index_function.
Qed.

Theorem function_headers_rettype : forall ts : list token,
  get_headers ts fn_pattern (Some ts_followup) = OK (shape_headers cand_function follow_rettype ts).
Proof.
  intros ts.
  apply (get_headers_shape_some fn_pattern ts_followup aF aT cand_function follow_rettype ts
           to_dfa_fn to_dfa_ts_followup).
  - apply greedy_aF.
  - apply follow_rettype_decides.
  - apply name_index_function.
Qed.

Print Assumptions function_headers_brace.
Print Assumptions function_headers_rettype.
