(* PrefixProofs.v — property C10, document-level lemma: a truncated (strict
   prefix of a) white-space-free object/array document never parses completely;
   hence a truncated cache/report document is never a (different) valid
   document.  Route: integer bracket depth of token lists. *)
From Verif Require Import Base Json JsonProofs Writer.
Open Scope Z_scope.

(* ---------- bracket depth ---------- *)
Definition tdepth (t : jtok) : Z :=
  match t with
  | TLBrace | TLBrack => 1
  | TRBrace | TRBrack => -1
  | _ => 0
  end.
Fixpoint depth (ts : list jtok) : Z :=
  match ts with
  | [] => 0
  | t :: r => tdepth t + depth r
  end.

Lemma depth_app a b : depth (a ++ b) = depth a + depth b.
Proof. induction a as [|t a IH]; cbn [app depth]; [lia|rewrite IH; lia]. Qed.

(* every prefix has non-negative depth *)
Definition NN (l : list jtok) : Prop := forall a b, l = a ++ b -> 0 <= depth a.
(* balanced: total depth 0, all prefixes non-negative *)
Definition bal (l : list jtok) : Prop := depth l = 0 /\ NN l.
(* every proper non-empty prefix has depth >= 1 *)
Definition tight (l : list jtok) : Prop :=
  forall a b, l = a ++ b -> a <> [] -> b <> [] -> 1 <= depth a.

Lemma NN_nil : NN [].
Proof. intros a b H. symmetry in H. apply app_eq_nil in H. destruct H as [-> _]. cbn. lia. Qed.

Lemma NN_app x y : NN x -> 0 <= depth x -> NN y -> NN (x ++ y).
Proof.
  intros Hx Hd Hy a b H. symmetry in H. apply app_eq_app in H.
  destruct H as [l [[-> ->]|[-> ->]]].
  - rewrite depth_app. specialize (Hy l b eq_refl). lia.
  - apply (Hx a l eq_refl).
Qed.

Lemma NN_cons t y : 0 <= tdepth t -> NN y -> NN (t :: y).
Proof.
  intros Ht Hy a b H. destruct a as [|t' a]; [cbn; lia|].
  cbn [app] in H. injection H as <- ->. cbn [depth]. specialize (Hy a b eq_refl). lia.
Qed.

Lemma bal_app x y : bal x -> bal y -> bal (x ++ y).
Proof.
  intros [Dx Nx] [Dy Ny]. split; [rewrite depth_app; lia|]. apply NN_app; [assumption|lia|assumption].
Qed.
Lemma bal_cons0 t y : tdepth t = 0 -> bal y -> bal (t :: y).
Proof.
  intros Ht [Dy Ny]. split; [cbn [depth]; lia|]. apply NN_cons; [lia|assumption].
Qed.
Lemma bal_nil : bal [].
Proof. split; [reflexivity|apply NN_nil]. Qed.

(* enclosing a balanced list in brackets *)
Lemma enclose o c J : tdepth o = 1 -> tdepth c = -1 -> bal J ->
  bal (o :: J ++ [c]) /\ tight (o :: J ++ [c]).
Proof.
  intros Ho Hc [DJ NJ]. split; [split|].
  - cbn [depth]. rewrite depth_app. cbn [depth]. lia.
  - intros a b H. destruct a as [|t a]; [cbn; lia|].
    cbn [app] in H. injection H as <- H. cbn [depth]. rewrite Ho.
    symmetry in H. apply app_eq_app in H. destruct H as [l [[-> H]|[-> H]]].
    + (* a = J ++ l, [c] = l ++ b *)
      rewrite depth_app, DJ.
      destruct l as [|t l]; [cbn; lia|].
      cbn [app] in H. injection H as <- H.
      symmetry in H. apply app_eq_nil in H. destruct H as [-> ->]. cbn [depth]. lia.
    + specialize (NJ a l eq_refl). lia.
  - intros a b H Ha Hb. destruct a as [|t a]; [congruence|].
    cbn [app] in H. injection H as <- H. cbn [depth]. rewrite Ho.
    symmetry in H. apply app_eq_app in H. destruct H as [l [[-> H]|[-> H]]].
    + rewrite depth_app, DJ.
      destruct l as [|t l]; [cbn; lia|].
      cbn [app] in H. injection H as <- H.
      symmetry in H. apply app_eq_nil in H. destruct H as [-> ->]. congruence.
    + specialize (NJ a l eq_refl). lia.
Qed.

(* ---------- (i) the token stream of a document ---------- *)
Lemma bal_join_elems l : Forall (fun x => bal (toks x)) l -> bal (join_elems toks l).
Proof.
  induction 1 as [|x r Hx Hr IH]; [apply bal_nil|].
  destruct r as [|y r]; [exact Hx|].
  rewrite join_elems_cons2. apply bal_app; [exact Hx|]. apply bal_cons0; [reflexivity|exact IH].
Qed.
Lemma bal_join_members l : Forall (fun kv => bal (toks (snd kv))) l -> bal (join_members toks l).
Proof.
  induction 1 as [|[k v] r Hx Hr IH]; [apply bal_nil|]. cbn [snd] in Hx.
  destruct r as [|y r].
  - cbn [join_members]. apply bal_cons0; [reflexivity|]. apply bal_cons0; [reflexivity|exact Hx].
  - rewrite join_members_cons2. apply bal_cons0; [reflexivity|]. apply bal_cons0; [reflexivity|].
    apply bal_app; [exact Hx|]. apply bal_cons0; [reflexivity|exact IH].
Qed.

Lemma bal_toks d : bal (toks d).
Proof.
  induction d using jdoc_ind2;
    try (cbn [toks]; apply bal_cons0; [reflexivity|apply bal_nil]);
    cbn [toks].
  - apply enclose; [reflexivity|reflexivity|apply bal_join_elems; assumption].
  - apply enclose; [reflexivity|reflexivity|apply bal_join_elems; assumption].
  - apply enclose; [reflexivity|reflexivity|apply bal_join_members; assumption].
  - apply enclose; [reflexivity|reflexivity|apply bal_join_members; assumption].
Qed.

Definition is_collection (d : jdoc) : Prop :=
  match d with DNull | DNum _ | DStr _ => False | _ => True end.

Lemma tight_toks d : tight (toks d).
Proof.
  destruct d; cbn [toks].
  1-3: intros a b H Ha Hb; destruct a as [|t a]; [congruence|];
       cbn [app] in H; injection H as <- H; symmetry in H; apply app_eq_nil in H;
       destruct H as [_ ->]; congruence.
  - apply enclose; [reflexivity|reflexivity|]. apply bal_join_elems. rewrite Forall_forall. intros; apply bal_toks.
  - apply enclose; [reflexivity|reflexivity|]. apply bal_join_elems. rewrite Forall_forall. intros; apply bal_toks.
  - apply enclose; [reflexivity|reflexivity|]. apply bal_join_members. rewrite Forall_forall. intros; apply bal_toks.
  - apply enclose; [reflexivity|reflexivity|]. apply bal_join_members. rewrite Forall_forall. intros; apply bal_toks.
Qed.

(* ---------- (ii) what the parser consumes is non-empty and has depth 0 ---------- *)
Definition consumes0 (pv : list jtok -> option (jvalue * list jtok)) : Prop :=
  forall ts v r, pv ts = Some (v, r) -> exists c, ts = c ++ r /\ depth c = 0 /\ c <> [].

Lemma elems_of_consumes pv : consumes0 pv ->
  forall g ts acc v r, elems_of pv g ts acc = Some (v, r) ->
    exists c, ts = c ++ TRBrack :: r /\ depth c = 0.
Proof.
  intros Hpv. induction g as [|g IH]; intros ts acc v r H; [discriminate|].
  cbn [elems_of] in H. destruct (pv ts) as [[v1 r1]|] eqn:E; [|discriminate].
  apply Hpv in E. destruct E as [c [-> [Dc _]]].
  destruct r1 as [|[] r1]; try discriminate.
  - injection H as _ <-. exists c. split; [reflexivity|exact Dc].
  - apply IH in H. destruct H as [c2 [-> D2]].
    exists (c ++ TComma :: c2). split.
    + rewrite <- app_assoc. reflexivity.
    + rewrite depth_app. cbn [depth tdepth]. lia.
Qed.

Lemma members_of_consumes pv : consumes0 pv ->
  forall g ts acc v r, members_of pv g ts acc = Some (v, r) ->
    exists c, ts = c ++ TRBrace :: r /\ depth c = 0.
Proof.
  intros Hpv. induction g as [|g IH]; intros ts acc v r H; [discriminate|].
  cbn [members_of] in H.
  destruct ts as [|[] ts]; try discriminate.
  destruct ts as [|[] ts]; try discriminate.
  destruct (pv ts) as [[v1 r1]|] eqn:E; [|discriminate].
  apply Hpv in E. destruct E as [c [-> [Dc _]]].
  destruct r1 as [|[] r1]; try discriminate.
  - injection H as _ <-. exists (TStr s :: TColon :: c). split; [reflexivity|cbn [depth tdepth]; lia].
  - apply IH in H. destruct H as [c2 [-> D2]].
    exists (TStr s :: TColon :: c ++ TComma :: c2). split.
    + cbn [app]. rewrite <- app_assoc. reflexivity.
    + cbn [depth tdepth]. rewrite depth_app. cbn [depth tdepth]. lia.
Qed.

Lemma parse_value_arr' f r :
  match r with TRBrack :: _ => False | _ => True end ->
  parse_value (S f) (TLBrack :: r) = elems_of (parse_value f) (S f) r [].
Proof. destruct r as [|[] r]; intros H; try reflexivity; destruct H. Qed.
Lemma parse_value_obj' f r :
  match r with TRBrace :: _ => False | _ => True end ->
  parse_value (S f) (TLBrace :: r) = members_of (parse_value f) (S f) r [].
Proof. destruct r as [|[] r]; intros H; try reflexivity; destruct H. Qed.

Lemma parse_value_consumes fuel : consumes0 (parse_value fuel).
Proof.
  induction fuel as [|f IH]; intros ts v r H; [discriminate|].
  destruct ts as [|t ts]; [discriminate|].
  destruct t; try discriminate.
  - (* TLBrace *)
    destruct ts as [|t ts].
    + rewrite parse_value_obj' in H by exact I. discriminate.
    + assert (Hcase : t = TRBrace \/ match t :: ts with TRBrace :: _ => False | _ => True end)
        by (destruct t; auto).
      destruct Hcase as [->|Hc].
      * cbn in H. injection H as _ <-. exists [TLBrace; TRBrace]. split; [reflexivity|split; [reflexivity|discriminate]].
      * rewrite parse_value_obj' in H by exact Hc.
        apply (members_of_consumes _ IH) in H. destruct H as [c [-> Dc]].
        exists (TLBrace :: c ++ [TRBrace]). split; [|split; [|discriminate]].
        -- cbn [app]. rewrite <- app_assoc. reflexivity.
        -- cbn [depth tdepth]. rewrite depth_app. cbn [depth tdepth]. lia.
  - (* TLBrack *)
    destruct ts as [|t ts].
    + rewrite parse_value_arr' in H by exact I. cbn [elems_of] in H. destruct f; discriminate.
    + assert (Hcase : t = TRBrack \/ match t :: ts with TRBrack :: _ => False | _ => True end)
        by (destruct t; auto).
      destruct Hcase as [->|Hc].
      * cbn in H. injection H as _ <-. exists [TLBrack; TRBrack]. split; [reflexivity|split; [reflexivity|discriminate]].
      * rewrite parse_value_arr' in H by exact Hc.
        apply (elems_of_consumes _ IH) in H. destruct H as [c [-> Dc]].
        exists (TLBrack :: c ++ [TRBrack]). split; [|split; [|discriminate]].
        -- cbn [app]. rewrite <- app_assoc. reflexivity.
        -- cbn [depth tdepth]. rewrite depth_app. cbn [depth tdepth]. lia.
  - (* TStr *) cbn in H. injection H as _ <-. exists [TStr s]. split; [reflexivity|split; [reflexivity|discriminate]].
  - (* TNum *) cbn in H. injection H as _ <-. exists [TNum z]. split; [reflexivity|split; [reflexivity|discriminate]].
  - (* TNull *) cbn in H. injection H as _ <-. exists [TNull]. split; [reflexivity|split; [reflexivity|discriminate]].
Qed.

Corollary parse_value_complete_depth fuel ts v :
  parse_value fuel ts = Some (v, []) -> depth ts = 0 /\ ts <> [].
Proof.
  intros H. apply parse_value_consumes in H. destruct H as [c [-> [D N]]].
  rewrite app_nil_r. split; assumption.
Qed.

(* ---------- a strict prefix of a document never parses completely ---------- *)
(* holds for EVERY document (scalars included: their only strict prefix is empty) *)
Theorem strict_prefix_no_parse_any :
  forall d ts rest, toks d = ts ++ rest -> rest <> [] ->
    forall fuel v, parse_value fuel ts <> Some (v, []).
Proof.
  intros d ts rest Heq Hrest fuel v H.
  apply parse_value_complete_depth in H. destruct H as [D N].
  pose proof (tight_toks d ts rest Heq N Hrest). lia.
Qed.

Theorem strict_prefix_no_parse :
  forall d ts rest, (exists l, d = DObjBlock l \/ d = DObjInline l) ->
    toks d = ts ++ rest -> rest <> [] ->
    forall fuel v, parse_value fuel ts <> Some (v, []).
Proof. intros d ts rest _. apply strict_prefix_no_parse_any. Qed.

(* ---------- strip_ws on a prefix of a stripped stream ---------- *)
Lemma strip_ws_fixed l : Forall (fun t => is_ws t = false) l -> strip_ws l = l.
Proof.
  induction 1 as [|t l Ht Hl IH]; [reflexivity|].
  rewrite strip_cons_nws by exact Ht. rewrite IH. reflexivity.
Qed.
Lemma strip_ws_nows l : Forall (fun t => is_ws t = false) (strip_ws l).
Proof.
  rewrite Forall_forall. intros t Ht. unfold strip_ws in Ht. apply filter_In in Ht.
  destruct Ht as [_ Ht]. destruct (is_ws t); [discriminate|reflexivity].
Qed.
Lemma strip_ws_prefix l ts rest : strip_ws l = ts ++ rest -> strip_ws ts = ts.
Proof.
  intros H. pose proof (strip_ws_nows l) as Hn. rewrite H in Hn.
  apply Forall_app in Hn. apply strip_ws_fixed. apply Hn.
Qed.

Theorem parse_strict_prefix_none :
  forall b d ts rest, strip_ws (render b d) = ts ++ rest -> rest <> [] -> parse ts = None.
Proof.
  intros b d ts rest H Hrest. unfold parse.
  rewrite (strip_ws_prefix _ _ _ H). rewrite strip_render in H.
  destruct (parse_value (S (length ts)) ts) as [[v [|t r]]|] eqn:E; try reflexivity.
  exfalso. exact (strict_prefix_no_parse_any d ts rest H Hrest _ _ E).
Qed.

Theorem C10_prefix :
  forall b r ts rest, strip_ws (to_json b r) = ts ++ rest -> rest <> [] -> parse ts = None.
Proof. intros b r ts rest. unfold to_json. apply parse_strict_prefix_none. Qed.

(* the same with the statement phrased on tokens_of None *)
Corollary strict_prefix_no_parse_tokens_of :
  forall d ts rest, tokens_of None d = ts ++ rest -> rest <> [] ->
    forall fuel v, parse_value fuel ts <> Some (v, []).
Proof. intros d ts rest H. apply (strict_prefix_no_parse_any d ts rest H). Qed.

(* raw (unstripped) token-level truncation: cutting the rendered report anywhere
   either loses a significant token (then nothing parses) or only trailing white
   space (then the value is unchanged): never a DIFFERENT valid document *)
Lemma strip_ws_idem l : strip_ws (strip_ws l) = strip_ws l.
Proof. apply strip_ws_fixed, strip_ws_nows. Qed.
Lemma parse_strip ts : parse (strip_ws ts) = parse ts.
Proof. unfold parse. rewrite strip_ws_idem. reflexivity. Qed.

Theorem C10_prefix_raw :
  forall b r ts rest, to_json b r = ts ++ rest -> strip_ws rest <> [] -> parse ts = None.
Proof.
  intros b r ts rest H Hrest. rewrite <- parse_strip.
  apply (C10_prefix b r (strip_ws ts) (strip_ws rest)); [|exact Hrest].
  rewrite H. apply strip_ws_app.
Qed.

Theorem C10_truncation_never_different :
  forall b r ts rest, to_json b r = ts ++ rest ->
    parse ts = None \/ parse ts = parse (to_json b r).
Proof.
  intros b r ts rest H. destruct (strip_ws rest) as [|t l] eqn:E.
  - right. unfold parse. rewrite H, strip_ws_app, E, app_nil_r. reflexivity.
  - left. apply (C10_prefix_raw b r ts rest H). rewrite E. discriminate.
Qed.

Print Assumptions strict_prefix_no_parse_any.
Print Assumptions strict_prefix_no_parse.
Print Assumptions parse_strict_prefix_none.
Print Assumptions C10_prefix.
Print Assumptions strict_prefix_no_parse_tokens_of.
Print Assumptions C10_prefix_raw.
Print Assumptions C10_truncation_never_different.
