"""C07 — totals, profiles and the folder tree always agree with the measurements."""
import itertools

from common import Check, assert_repo_import, eval_cases, eval_one, canon_tree, coq_list, z
import lang_common as LC

IMPORTS = "Base GenThresholds Codebase"
POOL = ["a", "b", "src", "lib", "x.y", "deep", "é", "a b", ".ci", "ci", ".a", "(legacy)", "+tools", "-old", "#archive", " lead", "!x", "~z",
        "legacy\\helpers", "\\lead", "trail\\", "a\\b"]     # a backslash is an ordinary character of a POSIX name (seeded change C07-10)
LANGS3 = ["Python", "C", "JavaScript"]


def gen_paths(rng, n):
    paths = []
    while len(paths) < n:
        depth = rng.choice([0, 0, 1, 1, 2, 3, 4, 6])
        if paths and rng.random() < 0.5:      # share a prefix with an earlier path
            base = rng.choice(paths).split("/")[:-1]
            comps = base[: rng.randint(0, len(base))] + [rng.choice(POOL) for _ in range(rng.randint(0, 2))]
        else:
            comps = [rng.choice(POOL) for _ in range(depth)]
        if rng.random() < 0.15:
            # a file without extension, named like a folder that may exist beside it (build tools: BUILD, src, ...)
            p = "/".join(comps + [rng.choice(POOL)])
        else:
            p = "/".join(comps + [rng.choice(["m", "n", "main", "util"]) + rng.choice([".py", ".c", ".js"])])
        if p not in paths:
            paths.append(p)
    return paths


def gen_entry(rng, path):
    lang = {"py": "Python", "c": "C", "js": "JavaScript"}.get(path.rsplit("/", 1)[-1].rsplit(".", 1)[-1], "Python")
    ms = [rng.choice([1, 5, 14, 15, 16, 30, 31, 45, 60, 61, 90]) for _ in range(rng.choice([0, 1, 2, 3, 5]))]
    return (path, "c" + str(rng.randint(0, 99)), lang, ms)


def impl_build(entries):
    from codelimit.common.Codebase import Codebase
    from codelimit.common.Location import Location
    from codelimit.common.Measurement import Measurement
    from codelimit.common.SourceFileEntry import SourceFileEntry
    cb = Codebase("/root")
    for path, ck, lang, ms in entries:
        mm = [Measurement(f"f{i}", Location(i + 1, 1), Location(i + 2, 3), v) for i, v in enumerate(ms)]
        cb.add_file(SourceFileEntry(path, ck, lang, sum(ms), mm))
    cb.aggregate()
    return cb


def enc_cb(cb):
    return [cb.root,
            [[t.language, t.files, t.loc, t.functions, t.hard_to_maintain, t.unmaintainable] for t in cb.totals.values()],
            [[k, [e.name for e in f.entries], list(f.profile)] for k, f in cb.tree.items()],
            [[e.path, e.checksum(), e.language, e.loc, list(e.profile()),
              [[m.unit_name, [m.start.line, m.start.column], [m.end.line, m.end.column], m.value] for m in e.measurements()]]
             for e in cb.files.values()]]


def model_expr(entries):
    es = coq_list(
        "mk_entry %s %s %s %s %s" % (LC.pystr(p), LC.pystr(ck), LC.pystr(lang), z(sum(ms)), coq_list(
            "mkMeas %s (mkLoc %d 1) (mkLoc %d 3) %s" % (LC.pystr(f"f{i}"), i + 1, i + 2, z(v)) for i, v in enumerate(ms)))
        for p, ck, lang, ms in entries)
    return f"enc_res enc_codebase (build {LC.pystr('/root')} {es})"


def cat(v):
    return 0 if v <= 15 else 1 if v <= 30 else 2 if v <= 60 else 3


def judge(entries, cb):
    probs = []
    # language totals
    for lang in {e[2] for e in entries}:
        fs = [e for e in entries if e[2] == lang]
        t = cb.totals.get(lang)
        want = [len(fs), sum(sum(e[3]) for e in fs), sum(len(e[3]) for e in fs),
                sum(1 for e in fs for v in e[3] if cat(v) == 2), sum(1 for e in fs for v in e[3] if cat(v) == 3)]
        got = None if t is None else [t.files, t.loc, t.functions, t.hard_to_maintain, t.unmaintainable]
        if got != want:
            probs.append(f"totals of {lang}: {got}, expected {want}")
    if set(cb.totals) != {e[2] for e in entries}:
        probs.append("totals list other languages than the files'")
    # file profiles
    for path, ck, lang, ms in entries:
        prof = [0, 0, 0, 0]
        for v in ms:
            prof[cat(v)] += v
        f = cb.files.get(path)
        if f is None or list(f.profile()) != prof or f.loc != sum(ms) or sum(f.profile()) != f.loc:
            probs.append(f"file {path}: profile {None if f is None else f.profile()} expected {prof}")
    # folder profiles = sum over all files beneath, root = everything
    folders = {"./"}
    for path, *_ in entries:
        comps = path.split("/")[:-1]
        for i in range(1, len(comps) + 1):
            folders.add("/".join(comps[:i]) + "/")
    if set(cb.tree) != folders:
        probs.append(f"folders {sorted(cb.tree)} expected {sorted(folders)}")
    for fo in folders & set(cb.tree):
        prof = [0, 0, 0, 0]
        for path, ck, lang, ms in entries:
            if fo == "./" or path.startswith(fo):
                for v in ms:
                    prof[cat(v)] += v
        if list(cb.tree[fo].profile) != prof:
            probs.append(f"folder {fo}: profile {cb.tree[fo].profile} expected {prof}")
    # tree: every file once under its parent, every folder once under its parent, all reachable
    listed_files, listed_folders = [], []
    for key, fo in cb.tree.items():
        for en in fo.entries:
            if en.is_folder():
                listed_folders.append(("" if key == "./" else key) + en.name)
            else:
                listed_files.append((key, en.path))
    want_files = sorted((("/".join(p.split("/")[:-1]) + "/") if "/" in p else "./", p) for p, *_ in entries)
    if sorted(listed_files) != want_files:
        probs.append("tree does not list every file exactly once under its parent folder")
    if sorted(listed_folders) != sorted(folders - {"./"}):
        probs.append(f"tree lists sub-folders {sorted(listed_folders)} expected {sorted(folders - {'./'})}")
    grand = [sum(t.files for t in cb.totals.values()), sum(t.loc for t in cb.totals.values())]
    if grand != [len(entries), sum(sum(e[3]) for e in entries)]:
        probs.append(f"grand totals {grand}")
    return probs[:4]


def run(tier, seed, replay=None):
    assert_repo_import()
    chk = Check("C07", tier, seed)
    model_ok = chk.proof_stage(["Agg/Codebase.vo", "Agg/CodebaseProofs.vo"])
    cases = []
    # the per-language totals the scan overview shows, over several scans made one after the other in this process
    import c02
    c02.scan_counter_cases(chk, 15 if tier == "quick" else 300)

    # ---- a Report consulted while its code base is still being filled (the report reader creates the Report first and adds the
    #      files afterwards): after the last file and the aggregation its profile is the profile of ALL files — the root folder's
    #      (seeded change C07-20: the measurement list collected once per report and kept)
    from codelimit.common.Codebase import Codebase
    from codelimit.common.Location import Location
    from codelimit.common.Measurement import Measurement
    from codelimit.common.SourceFileEntry import SourceFileEntry
    from codelimit.common.report.Report import Report
    for i in range(40 if tier == "quick" else 1000):
        es = [gen_entry(chk.rng, p) for p in gen_paths(chk.rng, chk.rng.choice([2, 3, 5]))]
        try:
            cb = Codebase("/root")
            rep = Report(cb)
            k = chk.rng.randrange(0, len(es))
            for j, (path, ck, lang, ms) in enumerate(es):
                if j == k:
                    rep.quality_profile(), rep.get_average(), rep.ninetieth_percentile()       # consulted half-way
                mm = [Measurement(f"f{n}", Location(n + 1, 1), Location(n + 2, 3), v) for n, v in enumerate(ms)]
                cb.add_file(SourceFileEntry(path, ck, lang, sum(ms), mm))
            cb.aggregate()
            prof = list(rep.quality_profile())
            want = [0, 0, 0, 0]
            for _, _, _, ms in es:
                for v in ms:
                    want[cat(v)] += v
            chk.evaluations += 1
            chk.count("report consulted before its code base was complete")
            if prof != want or list(cb.tree["./"].profile) != want:
                chk.violation({"entries": es, "consulted_before_file": k},
                              f"a report consulted after {k} of {len(es)} files shows the profile {prof} once all files are in; the files add up to {want}, "
                              f"the root folder says {list(cb.tree['./'].profile)}")
            else:
                chk.nontrivial.add(("late", i))
            # a file measured again under the same path (an edited file): whatever the report shows next follows the
            # measurements the code base holds NOW (seeded change C19-27: the flattened list rebuilt only when the number of
            # files changed)
            path, ck, lang, ms = es[chk.rng.randrange(0, len(es))]
            ms2 = [chk.rng.choice([3, 15, 16, 31, 61, 120]) for _ in range(chk.rng.choice([1, 2, 4]))]
            mm = [Measurement(f"g{n}", Location(n + 1, 1), Location(n + 2, 3), v) for n, v in enumerate(ms2)]
            cb.add_file(SourceFileEntry(path, ck + "x", lang, sum(ms2), mm))
            prof2 = list(rep.quality_profile())
            want2 = [0, 0, 0, 0]
            for e in cb.files.values():
                for m in e.measurements():
                    want2[cat(m.value)] += m.value
            held = sorted(m.value for e in cb.files.values() for m in e.measurements())
            flat = sorted(m.value for m in cb.all_measurements())
            chk.evaluations += 1
            chk.count("report consulted again after a file was measured again under its path")
            if prof2 != want2 or held != flat:
                chk.violation({"entries": es, "measured_again": [path, ms2]},
                              f"after {path} was measured again ({ms} -> {ms2}) the report shows the profile {prof2} and the lengths {flat}; "
                              f"the files hold {held}, profile {want2}")
        except Exception as ex:
            chk.violation({"entries": es}, f"building a report step by step raised {type(ex).__name__}: {ex}")

    def one(entries, tag):
        try:
            cb = impl_build(entries)
        except Exception as ex:
            chk.violation({"entries": entries}, f"Codebase raised {type(ex).__name__}: {ex}")
            return
        probs = judge(entries, cb)
        chk.evaluations += 1
        chk.count(tag)
        chk.count(f"files: {min(len(entries), 8)}{'+' if len(entries) >= 8 else ''}")
        if len(entries) >= 2 and any("/" in e[0] for e in entries):
            chk.nontrivial.add(tuple(e[0] for e in entries) + tuple(tuple(e[3]) for e in entries))
        if probs:
            chk.violation({"entries": entries}, f"codebase of {[e[0] for e in entries]}: " + "; ".join(probs))
        cases.append((model_expr(entries), [0, enc_cb(cb)], {"paths": [e[0] for e in entries]}))

    rng = chk.rng
    # all insertion orders of small file sets
    for _ in range(12 if tier == "quick" else 120):
        n = rng.choice([2, 3, 4]) if tier == "quick" else rng.choice([3, 4, 5])
        base = [gen_entry(rng, p) for p in gen_paths(rng, n)]
        for perm in itertools.permutations(base):
            one(list(perm), "all insertion orders")
    for _ in range(400 if tier == "quick" else 20000):
        n = rng.choice([0, 1, 2, 3, 5, 8, 12, 20])
        one([gen_entry(rng, p) for p in gen_paths(rng, n)], "random set")
    chk.samples = [c for _, _, c in cases[:2] + cases[-2:]]
    if model_ok:
        mism, err = eval_cases("C07", IMPORTS, [(m, o) for m, o, _ in cases], shard=120)
        chk.traces = len(cases)
        if err:
            chk.broken.append("correspondence evaluation failed: " + err[-400:])
        for i in mism[:5]:
            got = eval_one("C07", IMPORTS, cases[i][0])
            chk.broken.append(f"correspondence: Codebase model and implementation differ on {cases[i][2]}: "
                              f"model {str(got)[:300]} vs implementation {str(canon_tree(cases[i][1]))[:300]}")
    else:
        chk.broken.append("Codebase model does not build; correspondence not run")
    nt = len(chk.nontrivial)
    chk.nontrivial = {str(i) for i in range(nt)}
    return chk.finish(
        rule="path sets over a small component pool (shared prefixes, depth 0-6, dots, spaces, non-ASCII), three languages, "
             "measurement lists with boundary lengths; every insertion order of sets of 2-4 files, random sets up to 20 files; "
             "judged by independent sums over path prefixes; the Coq model evaluated on every case.  Non-trivial: >= 2 files "
             "and at least one sub-folder.",
        assumptions=["paths are '/'-joined relative paths as the scanner produces them"])
