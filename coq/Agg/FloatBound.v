(* FloatBound.v — the binary64 evaluation of `ceil((a / t) * 100 - 0.001)` stays within 10^-12 of the
   exact rational value of `(a / t) * 100 - 1/1000`.

   The floating-point operations are modelled, as is standard with Flocq, by the rounding operator
   of the format FLT(emin = -1074, prec = 53) with round-to-nearest-even applied to the exact real
   result of each operation: the division of the two integers (exactly representable, being below
   2^53), the multiplication by 100, the constant 0.001 (the double nearest to 1/1000), and the
   subtraction.  Every rounding obeys  |rnd x - x| <= 2^-53 |x| + 2^-1075  (Flocq: error_N_FLT, which
   covers the normal range, the subnormal range and zero at once), and the four errors are added up.

   No axiom is declared here; the only assumptions are those of the standard library's reals. *)
From Coq Require Import Reals ZArith Lia Lra.
From Flocq Require Import Core Relative.
Open Scope R_scope.

Definition rnd (x : R) : R := round radix2 (FLT_exp (-1074) 53) ZnearestE x.
Definition fl_share (a t : Z) : R := rnd (rnd (rnd (IZR a / IZR t) * 100) - rnd (1 / 1000)).

(* the unit roundoff 2^-53 and a (very generous) bound on half the smallest subnormal 2^-1075 *)
Definition U : R := / 9007199254740992.
Definition E : R := / 1180591620717411303424.      (* 2^-70 *)

Lemma half_bpow_U : / 2 * bpow radix2 (-53 + 1) = U.
Proof.
  unfold U. change (-53 + 1)%Z with (-52)%Z.
  change (bpow radix2 (-52)) with (/ IZR (Zpower_pos radix2 52)).
  replace (IZR (Zpower_pos radix2 52)) with 4503599627370496 by (apply IZR_eq; reflexivity).
  lra.
Qed.

Lemma half_bpow_E : / 2 * bpow radix2 (-1074) <= E.
Proof.
  assert (H : bpow radix2 (-1074) <= bpow radix2 (-69)) by (apply bpow_le; lia).
  assert (H' : bpow radix2 (-69) = / 590295810358705651712).
  { change (bpow radix2 (-69)) with (/ IZR (Zpower_pos radix2 69)).
    replace (IZR (Zpower_pos radix2 69)) with 590295810358705651712 by (apply IZR_eq; reflexivity).
    reflexivity. }
  unfold E. lra.
Qed.

(* one rounding: relative error 2^-53 on a bound of the magnitude, plus the subnormal term *)
Lemma rnd_err : forall x B : R, Rabs x <= B -> Rabs (rnd x - x) <= U * B + E.
Proof.
  intros x B HB.
  destruct (error_N_FLT radix2 (-1074) 53 ltac:(lia) (fun z => negb (Z.even z)) x)
    as (eps & eta & Heps & Heta & _ & Hr).
  unfold rnd. rewrite Hr.
  replace (x * (1 + eps) + eta - x) with (x * eps + eta) by ring.
  assert (Heps' : Rabs eps <= U) by (rewrite <- half_bpow_U; exact Heps).
  assert (Heta' : Rabs eta <= E) by (eapply Rle_trans; [exact Heta | exact half_bpow_E]).
  eapply Rle_trans; [apply Rabs_triang |].
  rewrite Rabs_mult.
  assert (0 <= Rabs x) by apply Rabs_pos.
  assert (0 <= Rabs eps) by apply Rabs_pos.
  assert (Rabs x * Rabs eps <= B * U).
  { apply Rmult_le_compat; assumption. }
  lra.
Qed.

Lemma rnd_err_int : forall x B : R, Rabs x <= B -> - (U * B + E) <= rnd x - x <= U * B + E.
Proof. intros x B HB. apply Rabs_le_inv, rnd_err, HB. Qed.

Lemma share_unit : forall a t : Z, (0 <= a <= t)%Z -> (0 < t)%Z -> 0 <= IZR a / IZR t <= 1.
Proof.
  intros a t [Ha Hat] Ht.
  apply IZR_le in Ha. apply IZR_le in Hat. apply IZR_lt in Ht.
  unfold Rdiv.
  assert (Hi : 0 < / IZR t) by (apply Rinv_0_lt_compat; exact Ht).
  assert (Hti : IZR t * / IZR t = 1) by (apply Rinv_r; lra).
  split.
  - apply Rmult_le_pos; lra.
  - rewrite <- Hti. apply Rmult_le_compat_r; lra.
Qed.

Theorem fl_share_close : forall a t : Z, (0 <= a <= t)%Z -> (0 < t)%Z -> (t < 2 ^ 53)%Z ->
  Rabs (fl_share a t - (IZR a / IZR t * 100 - 1 / 1000)) <= 1 / 1000000000000.
Proof.
  intros a t Hat Ht _.
  pose proof (share_unit a t Hat Ht) as Hq.
  unfold fl_share.
  set (q := IZR a / IZR t) in *.
  assert (HU : U = / 9007199254740992) by reflexivity.
  assert (HE : E = / 1180591620717411303424) by reflexivity.
  (* the quotient *)
  assert (H1 : - (U * 1 + E) <= rnd q - q <= U * 1 + E).
  { apply rnd_err_int. apply Rabs_le. lra. }
  set (r1 := rnd q) in *.
  (* the product *)
  assert (H2 : - (U * 101 + E) <= rnd (r1 * 100) - r1 * 100 <= U * 101 + E).
  { apply rnd_err_int. apply Rabs_le. lra. }
  set (r2 := rnd (r1 * 100)) in *.
  (* the constant *)
  assert (H3 : - (U * 1 + E) <= rnd (1 / 1000) - 1 / 1000 <= U * 1 + E).
  { apply rnd_err_int. apply Rabs_le. lra. }
  set (c := rnd (1 / 1000)) in *.
  (* the difference *)
  assert (H4 : - (U * 103 + E) <= rnd (r2 - c) - (r2 - c) <= U * 103 + E).
  { apply rnd_err_int. apply Rabs_le. lra. }
  set (r3 := rnd (r2 - c)) in *.
  apply Rabs_le. lra.
Qed.

(* the ceiling of the computed value is the ceiling of SOME real within 1e-12 of the exact value *)
Corollary fl_share_ceiling_admissible : forall a t : Z, (0 <= a <= t)%Z -> (0 < t)%Z -> (t < 2 ^ 53)%Z ->
  exists y : R, Rabs (y - (IZR a / IZR t * 100 - 1 / 1000)) <= 1 / 1000000000000 /\ Zceil (fl_share a t) = Zceil y.
Proof.
  intros a t Hat Ht Hb. exists (fl_share a t). split; [apply fl_share_close; assumption | reflexivity].
Qed.

Print Assumptions fl_share_close.
Print Assumptions fl_share_ceiling_admissible.
