"""C03 — analysis is total: no file content makes scan or check fail or hang."""
import contextlib
import io
import json
import multiprocessing as mp
import os
import random
import shutil
import signal
import subprocess
import tempfile
from pathlib import Path

from common import Check, assert_repo_import, eval_cases, eval_one, canon_tree, NPROC, REPO
import lang_common as LC
import malform

IMPORTS = "Base Token TokEngine Lex Headers Blocks Pairing Fold ScanFile"


class Hang(Exception):
    pass


def _alarm(signum, frame):
    raise Hang()


def timed(fn, seconds=30):
    signal.signal(signal.SIGALRM, _alarm)
    signal.alarm(seconds)
    try:
        return fn()
    finally:
        signal.alarm(0)


def run_scan_command(root):
    from codelimit.commands.scan import scan_command
    from codelimit.common.Configuration import Configuration
    Configuration.exclude = []
    Configuration.repository = None
    buf = io.StringIO()
    with contextlib.redirect_stdout(buf):
        scan_command(Path(root))
    rp = os.path.join(root, ".codelimit_cache", "codelimit.json")
    with open(rp) as f:
        return json.load(f)


def run_check_command(cwd, args, quiet=True):
    import typer
    from codelimit.commands.check import check_command
    from codelimit.common.Configuration import Configuration
    Configuration.exclude = []
    old = os.getcwd()
    os.chdir(cwd)
    buf = io.StringIO()
    try:
        with contextlib.redirect_stdout(buf):
            try:
                check_command([Path(a) for a in args], quiet)
            except typer.Exit as e:
                return e.exit_code
    finally:
        os.chdir(old)
    return "returned"


def describe(ex):
    return f"{type(ex).__name__}: {str(ex)[:120]}"


def _work(args):
    lang, seed, n, tmp = args
    rng = random.Random(seed)
    out = []
    texts = list(malform.stream(rng, lang, n, seed * 7919))
    # byte-level inputs: not valid UTF-8, NUL bytes, BOMs
    byte_inputs = [("non-utf8", t.encode("utf8", "replace") + rng.choice([b"\xe9\n", b"\xff\xfe", b"\x80x = 1\n", b"\xc3"]))
                   for _, t in texts[:: 9]]
    # every byte value that is not ASCII, alone and all together (decoding fall-backs must be total)
    lead = b"# " if lang == "Python" else b"// "
    byte_inputs.append(("all-high-bytes", lead + bytes(range(0x80, 0x100)) + b"\n"))
    for b in rng.sample(range(0x80, 0x100), 12) + [0x81, 0x8d, 0x8f, 0x90, 0x9d, 0xa0, 0xff]:
        byte_inputs.append(("single-high-byte", lead + b"x" + bytes([b]) + b"y\n"))
    # byte order marks followed by data that is not well-formed in the encoding the mark announces
    sample = "x = 1\n" if lang == "Python" else "int x;\n"
    byte_inputs += [("bom-utf16", b"\xff\xfe" + sample.encode("utf-16-le")), ("bom-utf16", b"\xfe\xff" + sample.encode("utf-16-be")),
                    ("bom-utf16-truncated", b"\xff\xfe" + sample.encode("utf-16-le")[:-1]),
                    ("bom-utf16-surrogate", b"\xff\xfe\x00\xd8x\x00\n\x00"), ("bom-utf16-odd", b"\xfe\xff\x80\x81\x82"),
                    ("bom-utf8", b"\xef\xbb\xbf" + sample.encode()), ("bom-utf8-truncated", b"\xef\xbb"),
                    ("bom-utf32", b"\xff\xfe\x00\x00" + sample.encode("utf-32-le")[:-3]), ("nul-bytes", sample.encode() + b"\x00\x00\x00"),
                    # valid UTF-8 (plain ASCII) for more than 8 KiB, then one byte that is not: how a file is decoded must not be
                    # decided from its first block (seeded change C03-20)
                    ("late-non-utf8", sample.encode() * 1500 + lead + b"caf\xe9\n"), ("late-non-utf8", sample.encode() * 12000 + lead + b"\xff\n")]
    root = tempfile.mkdtemp(prefix=f"c03_{lang}_", dir=tmp)
    other = tempfile.mkdtemp(prefix="c03_other_", dir=tmp)
    sub = os.path.join(root, "pkg")
    os.makedirs(sub)
    files = []
    for i, (kind, t) in enumerate(texts):
        name = os.path.join("pkg", f"m{i}.{LC.EXT[lang]}")
        with open(os.path.join(root, name), "w", encoding="utf8", newline="") as f:
            f.write(t)
        files.append((kind, name, t))
    for i, (kind, b) in enumerate(byte_inputs):
        name = os.path.join("pkg", f"b{i}.{LC.EXT[lang]}")
        with open(os.path.join(root, name), "wb") as f:
            f.write(b)
        files.append((kind, name, b))
    results = []
    # (a) analysis of every text terminates with a list
    for kind, name, t in files:
        prob = None
        if isinstance(t, str):
            try:
                r = timed(lambda: LC.impl_scan(lang, t))
            except Hang:
                prob = "scan_file did not terminate within 30 s"
                r = None
            except Exception as ex:
                prob = "scan_file raised " + describe(ex)
                r = [1, LC.ERRK.get(type(ex).__name__, 0)]
            else:
                r = [0, r]
        else:
            r = None
        results.append([kind, name, t, r, [prob] if prob else []])
    # (b) scan of the tree completes and writes a report containing every file
    try:
        rep = timed(lambda: run_scan_command(root), 300)
        missing = [name for _, name, _ in files if name not in rep["codebase"]["files"]]
        if missing:
            results[0][4].append(f"scan wrote a report without {missing[:3]}")
    except Hang:
        results[0][4].append("scan_command did not terminate within 300 s")
    except Exception as ex:
        # find the culprit file
        culprit = None
        for k, (kind, name, t) in enumerate(files):
            one = tempfile.mkdtemp(prefix="c03_one_", dir=tmp)
            shutil.copy(os.path.join(root, name), os.path.join(one, os.path.basename(name)))
            try:
                timed(lambda: run_scan_command(one), 60)
            except Exception as ex2:
                results[k][4].append("scan of a tree containing this file raised " + describe(ex2))
                culprit = k
            shutil.rmtree(one, ignore_errors=True)
            if culprit is not None:
                break
        if culprit is None:
            results[0][4].append("scan_command raised " + describe(ex))
    # (c) check, naming every file in four ways
    for k, (kind, name, t) in enumerate(files):
        ways = [("relative file", root, [name]), ("absolute file", other, [os.path.join(root, name)])]
        if k % 6 == 0:
            one = tempfile.mkdtemp(prefix="c03_dir_", dir=tmp)
            os.makedirs(os.path.join(one, "d"))
            shutil.copy(os.path.join(root, name), os.path.join(one, "d", os.path.basename(name)))
            ways += [("parent directory", one, ["d"]), ("absolute directory from its root", one, [os.path.join(one, "d")]),
                     ("directory outside the working directory", other, [os.path.join(one, "d")])]
            # a sibling of the working directory whose name merely extends it (proj, proj-old): outside, not inside
            sib = one + "-old"
            os.makedirs(os.path.join(sib, "d"))
            shutil.copy(os.path.join(root, name), os.path.join(sib, "d", os.path.basename(name)))
            ways += [("relative file in a sibling directory with a longer name", one,
                      [os.path.join("..", os.path.basename(sib), "d", os.path.basename(name))]),
                     ("absolute sibling directory with a longer name", one, [os.path.join(sib, "d")]),
                     ("absolute sibling root with a longer name", one, [sib]),
                     ("relative sibling directory with a longer name", one, [os.path.join("..", os.path.basename(sib))])]
            # symbolic links: a link below the working directory whose target lies outside it, a link that stays inside,
            # a linked directory (seeded change C03-10: the guard looks at the unresolved path, the arithmetic at the resolved one)
            lk = tempfile.mkdtemp(prefix="c03_lnk_", dir=tmp)
            os.makedirs(os.path.join(lk, "work", "pkg"))
            os.makedirs(os.path.join(lk, "shared"))
            base = os.path.basename(name)
            shutil.copy(os.path.join(root, name), os.path.join(lk, "shared", base))
            shutil.copy(os.path.join(root, name), os.path.join(lk, "work", "own_" + base))
            os.symlink(os.path.join("..", "..", "shared", base), os.path.join(lk, "work", "pkg", base))
            os.symlink(os.path.join("..", "own_" + base), os.path.join(lk, "work", "pkg", "in_" + base))
            os.symlink(os.path.join("..", "shared"), os.path.join(lk, "work", "linked"))
            w = os.path.join(lk, "work")
            ways += [("relative link to a file outside the working directory", w, [os.path.join("pkg", base)]),
                     ("relative link to a file inside the working directory", w, [os.path.join("pkg", "in_" + base)]),
                     ("directory containing a link that leaves the working directory", w, ["pkg"]),
                     ("absolute directory containing such a link", w, [os.path.join(w, "pkg")]),
                     ("the working directory itself, with links", w, ["."]),
                     ("linked directory whose target lies outside", w, ["linked"]),
                     ("file below a linked directory", w, [os.path.join("linked", base)])]
            # a directory whose name reads like console markup, holding a function long enough to be LISTED (the path is printed):
            # names are data, not markup (seeded change C03-19)
            mk = tempfile.mkdtemp(prefix="c03_mk_", dir=tmp)
            body_py = "def long_one():\n" + "    x = 1\n" * 34
            body_br = "function long_one() {\n" + "  x = 1;\n" * 33 + "}\n"
            for dn in ("old[", "[bold]x", "a[/]b"):
                sub_d = os.path.join(mk, dn, "v1]")
                os.makedirs(sub_d)
                with open(os.path.join(sub_d, "big." + ("py" if lang == "Python" else "js")), "w") as f:
                    f.write(body_py if lang == "Python" else body_br)
            ways += [("directory whose name reads like console markup", mk, ["."]),
                     ("file below such a directory", mk, [os.path.join("old[", "v1]", "big." + ("py" if lang == "Python" else "js"))]),
                     ("absolute path through such a directory", other, [os.path.join(mk, "[bold]x", "v1]")])]
        for way, cwd, argv in ways:
            try:
                code = timed(lambda: run_check_command(cwd, argv), 60)
                if code not in (0, 1):
                    results[k][4].append(f"check ({way}) ended with {code!r}")
            except Hang:
                results[k][4].append(f"check ({way}) did not terminate within 60 s")
            except Exception as ex:
                results[k][4].append(f"check ({way}) raised " + describe(ex))
    shutil.rmtree(root, ignore_errors=True)
    shutil.rmtree(other, ignore_errors=True)
    out = []
    for kind, name, t, r, probs in results:
        toklit = None
        if isinstance(t, str) and len(t) < 800 and r is not None:
            try:
                toklit = LC.tokens_lit(LC.impl_lex(lang, t))
            except Exception:
                pass
        out.append((kind, t if probs else None, r, probs, toklit))
    return lang, out


def subprocess_runs(chk, n):
    """real CLI: python -m codelimit check|scan on a sample"""
    tmp = tempfile.mkdtemp(prefix="c03_cli_")
    env = dict(os.environ, PYTHONPATH=REPO, COLUMNS="200")
    try:
        for i in range(n):
            lang = chk.rng.choice(LC.LANGS)
            kind, text = chk.rng.choice(list(malform.stream(random.Random(chk.seed * 31 + i), lang, 6, i * 13)))
            d = os.path.join(tmp, f"t{i}")
            os.makedirs(d)
            p = os.path.join(d, "m." + LC.EXT[lang])
            with open(p, "w", encoding="utf8", newline="") as f:
                f.write(text)
            for argv in (["check", "m." + LC.EXT[lang]], ["scan", "."]):
                r = subprocess.run(["/venv/bin/python", "-m", "codelimit"] + argv, cwd=d, env=env, capture_output=True,
                                   text=True, timeout=600)
                chk.evaluations += 1
                chk.count("cli " + argv[0])
                ok_codes = (0, 1) if argv[0] == "check" else (0,)
                if r.returncode not in ok_codes or "Traceback" in r.stderr:
                    chk.violation({"language": lang, "kind": kind, "text": text, "argv": argv},
                                  f"`codelimit {' '.join(argv)}` on a {lang} file ({kind}) exited {r.returncode}: "
                                  + r.stderr.strip().splitlines()[-1][:200] if r.stderr.strip() else "")
    finally:
        shutil.rmtree(tmp, ignore_errors=True)


def run(tier, seed, replay=None):
    assert_repo_import()
    chk = Check("C03", tier, seed)
    model_ok = chk.proof_stage(["Scope/ScanFile.vo", "Scope/TotalCerts.vo"])
    per_lang, chunks = (240, 4) if tier == "quick" else (6000, 40)
    tmp = tempfile.mkdtemp(prefix="verif_c03_")
    model_cases = []
    budget = {lang: (60 if tier == "quick" else 600) for lang in LC.LANGS}
    try:
        jobs = [(lang, seed * 1000 + c, per_lang // chunks, tmp) for lang in LC.LANGS for c in range(chunks)]
        with mp.Pool(NPROC) as pool:
            for lang, res in pool.imap_unordered(_work, jobs):
                li = LC.LANGS.index(lang)
                for kind, text, r, probs, toklit in res:
                    chk.evaluations += 1
                    chk.count("input kind: " + kind.split("+")[0])
                    if r is not None and r[0] == 0 and r[1]:
                        chk.nontrivial.add((lang, chk.evaluations))
                    if probs:
                        t = text if isinstance(text, str) else repr(text)
                        chk.violation({"language": lang, "kind": kind, "text": t},
                                      f"{lang} ({kind}): " + "; ".join(probs[:3]))
                    if toklit is not None and budget[lang] > 0:
                        budget[lang] -= 1
                        model_cases.append((f"enc_scan (scan_file (lang_code {li}) {toklit})", r,
                                            {"language": lang, "kind": kind}))
        subprocess_runs(chk, 12 if tier == "quick" else 400)
    finally:
        shutil.rmtree(tmp, ignore_errors=True)
    chk.samples = [c for _, _, c in model_cases[:4]]
    if model_ok:
        mism, err = eval_cases("C03", IMPORTS, [(m, o) for m, o, _ in model_cases], shard=40)
        chk.traces = len(model_cases)
        if err:
            chk.broken.append("correspondence evaluation failed: " + err[-400:])
        for i in mism[:5]:
            got = eval_one("C03", IMPORTS, model_cases[i][0])
            chk.broken.append(f"correspondence: scan_file model and implementation differ on {model_cases[i][2]}: "
                              f"model {got} vs implementation {canon_tree(model_cases[i][1])}")
    else:
        chk.broken.append("scope model does not build; correspondence not run")
    nt = len(chk.nontrivial)
    chk.nontrivial = {str(i) for i in range(nt)}
    return chk.finish(
        rule="malformed stream (prefixes/suffixes/deletions/duplications/swaps/junk/dedents of canonical programs, token "
             "soups, 1200-deep nesting, special one-liners, non-UTF-8 bytes) per language, each text (a) through scan_file "
             "under a 30 s alarm, (b) inside a tree through scan_command (report must list it), (c) through check_command "
             "named as relative file, absolute file from another directory, parent directory, absolute directory, and a "
             "directory outside the working directory; plus real `python -m codelimit` subprocess runs.  Non-trivial: the "
             "analysis returned at least one measurement.",
        assumptions=["Pygments lexers terminate (observed under an alarm, not proved)", "OS errors (permissions, ENOSPC) out of scope"])
