(* C19 — summary percentages and verdict are sane.  Statements only; proofs in
   Agg/Percent.v and Agg/PercentFloatProofs.v about Gen/GenPercent.v (re-translated from
   Report.quality_profile_percentage, SummaryTable and both print_summary functions on
   every run).  Two layers: (1) the exact-arithmetic model (`/` and 0.001 read as exact
   rationals); (2) EVERY outcome the floating-point evaluation may produce (`may_show`,
   Agg/PercentFloat.v: each of the three ceil() is the ceiling of some value within 10^-12
   of the exact one, the rest of the function as the source states it).  The code's real
   outputs differ from layer (1) at shares of exactly n.001 % and are checked to lie in
   layer (2) on every run. *)
From Verif Require Import Base GenPercent Percent PercentFloat PercentFloatProofs FloatBound FloatBridge.
From Coq Require Import Reals.
Open Scope Z_scope.
Open Scope Z_scope.

(* shown p = (easy-or-verbose %, hard-to-maintain %, unmaintainable %) *)
Theorem C19_range : forall p0 p1 p2 p3, 0 <= p0 -> 0 <= p1 -> 0 <= p2 -> 0 <= p3 ->
  let '(ev, h, u) := shown [p0; p1; p2; p3] in
  0 <= ev <= 100 /\ 0 <= h <= 100 /\ 0 <= u <= 100 /\ ev + h + u = 100.
Proof. exact shown_range. Qed.

Theorem C19_accuracy : forall p0 p1 p2 p3, 0 <= p0 -> 0 <= p1 -> 0 <= p2 -> 0 <= p3 ->
  0 < p0 + p1 + p2 + p3 ->
  let total := p0 + p1 + p2 + p3 in
  let '(ev, h, u) := shown [p0; p1; p2; p3] in
  - 2 * total < 100 * (p0 + p1) - ev * total < 2 * total /\
  - 2 * total < 100 * p2 - h * total < 2 * total /\
  - 2 * total < 100 * p3 - u * total < 2 * total.
Proof. intros p0 p1 p2 p3 H0 H1 H2 H3 Ht. exact (shown_accuracy p0 p1 p2 p3 H0 H1 H2 H3 Ht). Qed.

Theorem C19_never_hidden : forall p0 p1 p2 p3, 0 <= p0 -> 0 <= p1 -> 0 <= p2 -> 0 <= p3 ->
  0 < p0 + p1 + p2 + p3 ->
  let total := p0 + p1 + p2 + p3 in
  let '(ev, h, u) := shown [p0; p1; p2; p3] in
  (100000 * p2 > total -> 0 < h) /\ (100000 * p3 > total -> 0 < u).
Proof. intros p0 p1 p2 p3 H0 H1 H2 H3 Ht. exact (shown_never_hidden p0 p1 p2 p3 H0 H1 H2 H3 Ht). Qed.

Theorem C19_empty : forall p0 p1 p2 p3, p0 + p1 + p2 + p3 = 0 -> shown [p0; p1; p2; p3] = (100, 0, 0).
Proof. exact shown_empty. Qed.

(* verdict, identically in the text summary, the Markdown summary and the table styles *)
Theorem C19_verdict : forall p, let '(_, h, u) := shown p in
  refactor_text p = ((0 <? u) || (20 <? h)) /\ refactor_md p = ((0 <? u) || (20 <? h)) /\
  summary_red u h = (0 <? u) /\ summary_orange u h = (20 <? h) /\
  (summary_green u h = true -> (0 <? u) || (20 <? h) = false).
Proof. exact verdict_spec. Qed.

(* ---- for every admissible floating-point outcome ---- *)
Theorem C19_float_admissible : forall p out,
  (may_show_b p out = true <-> may_show p out) /\ may_show p (quality_profile_percentage p).
Proof. intros. split; [apply may_show_b_spec|apply exact_is_admissible_gen]. Qed.
Theorem C19_float_range : forall p0 p1 p2 p3 out, 0 <= p0 -> 0 <= p1 -> 0 <= p2 -> 0 <= p3 ->
  may_show [p0; p1; p2; p3] out ->
  let '(ev, h, u) := shown_of out in 0 <= ev <= 100 /\ 0 <= h <= 100 /\ 0 <= u <= 100 /\ ev + h + u = 100.
Proof. exact robust_range. Qed.
Theorem C19_float_accuracy : forall p0 p1 p2 p3 out, 0 <= p0 -> 0 <= p1 -> 0 <= p2 -> 0 <= p3 -> 0 < p0 + p1 + p2 + p3 ->
  may_show [p0; p1; p2; p3] out ->
  let total := p0 + p1 + p2 + p3 in
  let '(ev, h, u) := shown_of out in
  - 2 * total < 100 * (p0 + p1) - ev * total < 2 * total /\
  - 2 * total < 100 * p2 - h * total < 2 * total /\
  - 2 * total < 100 * p3 - u * total < 2 * total.
Proof. exact robust_accuracy. Qed.
(* below 10^9 lines of code a share above 0.001 % exceeds the threshold by more than the tolerance *)
Theorem C19_float_never_hidden : forall p0 p1 p2 p3 out, 0 <= p0 -> 0 <= p1 -> 0 <= p2 -> 0 <= p3 -> 0 < p0 + p1 + p2 + p3 ->
  p0 + p1 + p2 + p3 < 1000000000 ->
  may_show [p0; p1; p2; p3] out ->
  let total := p0 + p1 + p2 + p3 in
  let '(ev, h, u) := shown_of out in
  (100000 * p2 > total -> 0 < h) /\ (100000 * p3 > total -> 0 < u).
Proof. exact robust_never_hidden. Qed.
Theorem C19_float_empty : forall p0 p1 p2 p3 out, p0 + p1 + p2 + p3 = 0 -> may_show [p0; p1; p2; p3] out -> shown_of out = (100, 0, 0).
Proof. exact robust_empty. Qed.

(* ---- the binary64 evaluation itself (Agg/FloatBound.v, Agg/FloatBridge.v; Flocq): with every operation rounded to
        nearest-even — the correctly rounded quotient a / t, the product with 100, the difference with the double nearest
        to 0.001 — the computed value stays within 10^-12 of the exact one, so the outcome the code computes IS admissible.
        These two theorems depend on the axioms of the standard library's real numbers (listed by Print Assumptions below
        and in DESIGN.md section 8); everything else in the development is closed. ---- *)
Theorem C19_binary64_error : forall a t : Z, (0 <= a <= t)%Z -> (0 < t)%Z -> (t < 2 ^ 53)%Z ->
  (Rabs (fl_share a t - (IZR a / IZR t * 100 - 1 / 1000)) <= 1 / 1000000000000)%R.
Proof. exact fl_share_close. Qed.
Theorem C19_binary64_admissible : forall p0 p1 p2 p3 : Z,
  0 <= p0 -> 0 <= p1 -> 0 <= p2 -> 0 <= p3 -> p0 + p1 + p2 + p3 < 2 ^ 53 ->
  may_show [p0; p1; p2; p3] (float_outcome [p0; p1; p2; p3]).
Proof. exact float_outcome_admissible. Qed.

Print Assumptions C19_binary64_error.
Print Assumptions C19_binary64_admissible.
Print Assumptions C19_float_admissible.
Print Assumptions C19_float_range.
Print Assumptions C19_float_accuracy.
Print Assumptions C19_float_never_hidden.
Print Assumptions C19_float_empty.
Print Assumptions C19_range.
Print Assumptions C19_accuracy.
Print Assumptions C19_never_hidden.
Print Assumptions C19_empty.
Print Assumptions C19_verdict.

Example C19_examples :
  shown [0; 0; 99; 101] = (0, 50, 50) /\ shown [0; 0; 1; 5] = (0, 17, 83) /\
  shown [100000; 0; 1; 0] = (100, 0, 0) /\ shown [100000; 0; 2; 0] = (99, 1, 0) /\ shown [1; 1; 1; 1] = (50, 25, 25) /\
  (* 9.001 % hard-to-maintain: exact arithmetic shows 9 %, the floating-point code 10 %; both are admissible, 11 % is not *)
  may_show_b [90999; 0; 9001; 0] (91, 0, 9, 0) = true /\ may_show_b [90999; 0; 9001; 0] (90, 0, 10, 0) = true /\
  may_show_b [90999; 0; 9001; 0] (89, 0, 11, 0) = false.
Proof. vm_compute. repeat split. Qed.
