(* GrammarAllProofsWf.v — the programs of the grammar of Scope/GrammarAll.v (six brace languages):
   token facts about the function heads, brace balance, the shape and ordering clauses of
   Spec.wf_descs, and the absence of nesting for the flat language.  Generalises
   GrammarProofsBrace.v (C family) to `items_of`: here fd_hend may be smaller than fd_open
   (throws clause, return type) and fd_name may be larger than fd_start (function / const). *)
From Verif Require Import Base Regex Token TokEngine Headers Blocks Spec HeaderSpec LexShapes Grammar GrammarAll.
From Verif Require Import GrammarProofsParen GrammarProofsBrace.
From Coq Require Import Sorted.
Open Scope nat_scope.

(* ---------- token facts ---------- *)
Lemma pstr_eqb_eq a : forall b, pystr_eqb a b = true -> a = b.
Proof.
  induction a as [|x a IH]; intros [|y b] H; cbn [pystr_eqb] in H; try discriminate; [reflexivity|].
  apply andb_prop in H as [H1 H2]. apply Z.eqb_eq in H1. apply IH in H2. subst. reflexivity.
Qed.

Lemma symbol_other t a b : is_symbol t a = true -> a <> b -> is_symbol t b = false.
Proof.
  unfold is_symbol. intros H Hab. apply andb_prop in H as [_ H]. apply pstr_eqb_eq in H.
  destruct (pystr_eqb (t_value t) b) eqn:E; [|apply andb_false_r].
  apply pstr_eqb_eq in E. congruence.
Qed.

Lemma kw_is_keyword t s : kw_is t s = true -> is_keyword t = true.
Proof. unfold kw_is. intros H. apply andb_prop in H as [H _]. exact H. Qed.
Lemma kw_is_value t s : kw_is t s = true -> pystr_eqb (t_value t) s = true.
Proof. unfold kw_is. intros H. apply andb_prop in H as [_ H]. exact H. Qed.

Lemma operator_kind t s : is_operator t s = true -> t_kind t = KOperator.
Proof. unfold is_operator. intros H. apply andb_prop in H as [H _]. destruct (t_kind t); try discriminate; reflexivity. Qed.
Lemma operator_not_symbol t s x : is_operator t s = true -> is_symbol t x = false.
Proof. intros H. unfold is_symbol. rewrite (operator_kind _ _ H). reflexivity. Qed.
Lemma operator_not_name t s : is_operator t s = true -> is_name t = false.
Proof. intros H. unfold is_name. rewrite (operator_kind _ _ H). reflexivity. Qed.
Lemma operator_not_keyword t s : is_operator t s = true -> is_keyword t = false.
Proof. intros H. unfold is_keyword. rewrite (operator_kind _ _ H). reflexivity. Qed.
Lemma name_not_keyword t : is_name t = true -> is_keyword t = false.
Proof. unfold is_keyword, is_name. destruct (t_kind t); try discriminate; reflexivity. Qed.
Lemma symbol_not_keyword t s : is_symbol t s = true -> is_keyword t = false.
Proof. intros H. unfold is_keyword. rewrite (symbol_kind _ _ H). reflexivity. Qed.
Lemma name_not_operator t s : is_name t = true -> is_operator t s = false.
Proof. unfold is_name, is_operator. destruct (t_kind t); try discriminate; reflexivity. Qed.
Lemma keyword_not_operator t s : is_keyword t = true -> is_operator t s = false.
Proof. unfold is_keyword, is_operator. destruct (t_kind t); try discriminate; reflexivity. Qed.
Lemma symbol_not_operator t s x : is_symbol t s = true -> is_operator t x = false.
Proof. intros H. unfold is_operator. rewrite (symbol_kind _ _ H). reflexivity. Qed.

(* neither brace *)
Definition nb (t : token) : Prop := is_lbrace t = false /\ is_rbrace t = false.
Lemma name_nb t : is_name t = true -> nb t.
Proof. intros H. split; apply name_not_symbol; exact H. Qed.
Lemma keyword_nb t : is_keyword t = true -> nb t.
Proof. intros H. split; apply keyword_not_symbol; exact H. Qed.
Lemma kw_nb t s : kw_is t s = true -> nb t.
Proof. intros H. apply keyword_nb. eapply kw_is_keyword; exact H. Qed.
Lemma operator_nb t s : is_operator t s = true -> nb t.
Proof. intros H. split; eapply operator_not_symbol; exact H. Qed.
Lemma arrow_nb t : is_symbol t s_arrow = true -> nb t.
Proof. intros H. split; apply (symbol_other t s_arrow); try exact H; discriminate. Qed.
Lemma plain_nb t : plain t = true -> nb t.
Proof. intros H. apply plain_inv in H as (_ & _ & H3 & H4). split; assumption. Qed.

Lemma clause_tok_plain t : clause_tok t = true -> plain t = true.
Proof. unfold clause_tok. intros H. apply andb_prop in H as [H _]. apply andb_prop in H as [H _]. exact H. Qed.

Lemma clause_brace_free cl : forallb clause_tok cl = true -> brace_free cl.
Proof.
  intros H. apply Forall_forall. intros t Ht. rewrite forallb_forall in H. apply H in Ht.
  apply plain_nb, clause_tok_plain, Ht.
Qed.

Lemma type_tok_clause t : type_tok t = true -> clause_tok t = true.
Proof. unfold type_tok. intros H. apply andb_prop in H as [H _]. apply andb_prop in H as [H _]. exact H. Qed.

Lemma type_toks_clause ty : forallb type_tok ty = true -> forallb clause_tok ty = true.
Proof.
  intros H. apply forallb_forall. intros t Ht. rewrite forallb_forall in H. apply type_tok_clause. apply H. exact Ht.
Qed.

Lemma word_tok_nb t : word_tok t = true -> nb t.
Proof. unfold word_tok. intros H. apply orb_prop in H as [H|H]; [apply name_nb | apply keyword_nb]; exact H. Qed.

Lemma words_brace_free ws : forallb word_tok ws = true -> brace_free ws.
Proof.
  intros H. apply Forall_forall. intros t Ht. rewrite forallb_forall in H. apply word_tok_nb. apply H. exact Ht.
Qed.

Lemma prefix_word_tok l t : prefix_word l t = true -> prefix_tok t = true.
Proof. unfold prefix_word. intros H. do 5 (apply andb_prop in H as [H _]). exact H. Qed.

Lemma prefix_words_toks l pre : forallb (prefix_word l) pre = true -> forallb prefix_tok pre = true.
Proof.
  intros H. apply forallb_forall. intros t Ht. rewrite forallb_forall in H. eapply prefix_word_tok. apply H. exact Ht.
Qed.

(* ---------- the function heads ---------- *)
Ltac bf_step :=
  match goal with
  | |- brace_free [] => constructor
  | |- brace_free (_ :: _) => apply Forall_cons
  | |- brace_free (_ ++ _) => apply Forall_app; split
  | |- Forall _ [] => constructor
  | |- Forall _ (_ :: _) => apply Forall_cons
  | |- Forall _ (_ ++ _) => apply Forall_app; split
  end.

Lemma fhead_brace_free l hd n h : fhead l hd n h -> brace_free hd.
Proof.
  intros H. destruct H; unfold brace_free; repeat bf_step;
    try (apply groups_brace_free; assumption);
    try (apply clause_brace_free; assumption);
    try (apply clause_brace_free, type_toks_clause; assumption);
    try (apply name_nb; assumption);
    try (eapply kw_nb; eassumption);
    try (eapply operator_nb; eassumption);
    try (apply arrow_nb; assumption).
Qed.

Lemma fhead_offsets l hd n h : fhead l hd n h -> n < h /\ h <= length hd.
Proof. intros H. destruct H; norm_len; lia. Qed.

Lemma brace_free_hd_nlb A B : brace_free A -> A <> [] -> hd_ok nlb (A ++ B).
Proof.
  intros HA Hne. destruct A as [|t A]; [congruence|]. cbn [app hd_ok].
  inversion HA as [|? ? [H1 _] _]; subst. unfold nlb. rewrite H1. reflexivity.
Qed.

Lemma brace_free_sym_at P A R k : brace_free A -> length P <= k < length P + length A ->
  sym_at (P ++ A ++ R) k lbrace = false /\ sym_at (P ++ A ++ R) k rbrace = false.
Proof.
  intros HA Hk. unfold sym_at. rewrite nth_error_app2 by lia. rewrite nth_error_app1 by lia.
  destruct (nth_error A (k - length P)) as [t|] eqn:E; [|split; reflexivity].
  apply nth_error_In in E. unfold brace_free in HA. rewrite Forall_forall in HA. apply HA in E. exact E.
Qed.

Lemma simple_stmt_nonempty s : simple_stmt s -> s <> [].
Proof. intros (body & semi & -> & _ & _). destruct body; discriminate. Qed.

(* ---------- brace balance ---------- *)
Theorem items_of_balanced l off ts ds : items_of l off ts ds -> balanced ts.
Proof.
  induction 1 as [off|off s r ds Hs Hr IH
                 |off kw words cond o body c r ds1 ds2 Hkw Hwords Hcond Hnt Ho Hc Hb IHb Hr IHr
                 |off pre hd nm_off hend_off o body c r ds1 ds2 Hpre Hhd Ho Hc Hb IHb Hflat Hr IHr].
  - apply balanced_nil.
  - apply balanced_app; [|exact IH]. apply brace_free_balanced, simple_stmt_brace_free, Hs.
  - replace (kw :: words ++ cond ++ o :: body ++ c :: r) with ([kw] ++ words ++ cond ++ (o :: body ++ [c]) ++ r)
      by (norm_app; reflexivity).
    destruct (keyword_nb kw Hkw) as [K3 K4].
    apply balanced_app; [apply balanced_single; assumption|].
    apply balanced_app; [apply brace_free_balanced, words_brace_free, Hwords|].
    apply balanced_app.
    + destruct Hcond as [->|[Hg _]]; [apply balanced_nil|]. apply brace_free_balanced, groups_brace_free, Hg.
    + apply balanced_app; [|exact IHr]. apply balanced_block; assumption.
  - replace (pre ++ hd ++ o :: body ++ c :: r) with (pre ++ hd ++ (o :: body ++ [c]) ++ r)
      by (norm_app; reflexivity).
    apply balanced_app; [apply brace_free_balanced, prefix_brace_free, (prefix_words_toks l), Hpre|].
    apply balanced_app; [apply brace_free_balanced; eapply fhead_brace_free; exact Hhd|].
    apply balanced_app; [|exact IHr]. apply balanced_block; assumption.
Qed.

(* ---------- how an item list starts ---------- *)
Lemma items_of_head_not_lbrace l off ts ds : items_of l off ts ds -> hd_ok nlb ts.
Proof.
  destruct 1 as [off|off s r ds Hs Hr
                |off kw words cond o body c r ds1 ds2 Hkw Hwords Hcond Hnt Ho Hc Hb Hr
                |off pre hd nm_off hend_off o body c r ds1 ds2 Hpre Hhd Ho Hc Hb Hflat Hr].
  - exact I.
  - apply brace_free_hd_nlb; [apply simple_stmt_brace_free; exact Hs | apply simple_stmt_nonempty; exact Hs].
  - cbn [hd_ok]. unfold nlb, is_lbrace. rewrite (keyword_not_symbol _ _ Hkw). reflexivity.
  - rewrite app_assoc. apply brace_free_hd_nlb.
    + apply Forall_app. split; [apply prefix_brace_free, (prefix_words_toks l), Hpre | eapply fhead_brace_free; exact Hhd].
    + destruct (fhead_offsets _ _ _ _ Hhd) as [H1 H2]. intros E. apply (f_equal (@length token)) in E.
      rewrite app_length in E. cbn [length] in E. lia.
Qed.

(* ---------- the shape clauses ---------- *)
Theorem items_of_shape l off ts ds : items_of l off ts ds ->
  forall pre post, length pre = off -> hd_ok nlb post -> Forall (shapeP (pre ++ ts ++ post)) ds.
Proof.
  induction 1 as [off|off s r ds Hs Hr IH
                 |off kw words cond o body c r ds1 ds2 Hkw Hwords Hcond Hnt Ho Hc Hb IHb Hr IHr
                 |off pre0 hd nm_off hend_off o body c r ds1 ds2 Hpre Hhd Ho Hc Hb IHb Hflat Hr IHr];
    intros pre post Hlen Hpost.
  - constructor.
  - replace (pre ++ (s ++ r) ++ post) with ((pre ++ s) ++ r ++ post) by (norm_app; reflexivity).
    apply IH; [norm_len; lia | exact Hpost].
  - assert (Hcpost : hd_ok nlb (c :: r ++ post)).
    { cbn [hd_ok]. unfold nlb. rewrite (rbrace_not_lbrace _ Hc). reflexivity. }
    apply Forall_app. split.
    + replace (pre ++ (kw :: words ++ cond ++ o :: body ++ c :: r) ++ post)
        with ((pre ++ kw :: words ++ cond ++ [o]) ++ body ++ (c :: r ++ post)) by (norm_app; reflexivity).
      apply IHb; [norm_len; lia | exact Hcpost].
    + replace (pre ++ (kw :: words ++ cond ++ o :: body ++ c :: r) ++ post)
        with ((pre ++ kw :: words ++ cond ++ o :: body ++ [c]) ++ r ++ post) by (norm_app; reflexivity).
      apply IHr; [norm_len; lia | exact Hpost].
  - assert (Hcpost : hd_ok nlb (c :: r ++ post)).
    { cbn [hd_ok]. unfold nlb. rewrite (rbrace_not_lbrace _ Hc). reflexivity. }
    destruct (fhead_offsets _ _ _ _ Hhd) as [Hn Hh].
    constructor; [|apply Forall_app; split].
    + unfold shapeP. cbn [fd_start fd_name fd_hend fd_open fd_close].
      split; [lia|]. split; [lia|]. split; [|split; [|split]].
      * replace (pre ++ (pre0 ++ hd ++ o :: body ++ c :: r) ++ post)
          with ((pre ++ pre0 ++ hd) ++ o :: body ++ c :: (r ++ post)) by (norm_app; reflexivity).
        replace (off + length pre0 + length hd) with (length (pre ++ pre0 ++ hd)) by (norm_len; lia).
        apply matched_ctx; try assumption. eapply items_of_balanced; exact Hb.
      * norm_len. lia.
      * intros k Hk.
        replace (pre ++ (pre0 ++ hd ++ o :: body ++ c :: r) ++ post)
          with ((pre ++ pre0) ++ hd ++ (o :: body ++ c :: r ++ post)) by (norm_app; reflexivity).
        apply brace_free_sym_at; [eapply fhead_brace_free; exact Hhd | norm_len; lia].
      * replace (pre ++ (pre0 ++ hd ++ o :: body ++ c :: r) ++ post)
          with ((pre ++ pre0 ++ hd ++ o :: body ++ [c]) ++ (r ++ post)) by (norm_app; reflexivity).
        replace (S (off + length pre0 + length hd + 1 + length body))
          with (length (pre ++ pre0 ++ hd ++ o :: body ++ [c])) by (norm_len; lia).
        apply sym_at_hd_nlb. apply hd_ok_app; [|exact Hpost].
        eapply items_of_head_not_lbrace; exact Hr.
    + replace (pre ++ (pre0 ++ hd ++ o :: body ++ c :: r) ++ post)
        with ((pre ++ pre0 ++ hd ++ [o]) ++ body ++ (c :: r ++ post)) by (norm_app; reflexivity).
      apply IHb; [norm_len; lia | exact Hcpost].
    + replace (pre ++ (pre0 ++ hd ++ o :: body ++ c :: r) ++ post)
        with ((pre ++ pre0 ++ hd ++ o :: body ++ [c]) ++ r ++ post) by (norm_app; reflexivity).
      apply IHr; [norm_len; lia | exact Hpost].
Qed.

(* ---------- position and ordering of the descriptors ---------- *)
Definition within_of (lo hi : nat) (d : fdesc) : Prop :=
  lo <= fd_start d /\ fd_start d <= fd_name d /\ fd_name d < fd_hend d /\ fd_hend d <= fd_open d /\
  fd_open d < fd_close d /\ fd_close d < hi.

Lemma within_of_weaken lo hi lo' hi' d : lo' <= lo -> hi <= hi' -> within_of lo hi d -> within_of lo' hi' d.
Proof. unfold within_of. intros; lia. Qed.

Theorem items_of_order l off ts ds : items_of l off ts ds ->
  Forall (within_of off (off + length ts)) ds /\ StronglySorted ord ds.
Proof.
  induction 1 as [off|off s r ds Hs Hr IH
                 |off kw words cond o body c r ds1 ds2 Hkw Hwords Hcond Hnt Ho Hc Hb IHb Hr IHr
                 |off pre0 hd nm_off hend_off o body c r ds1 ds2 Hpre Hhd Ho Hc Hb IHb Hflat Hr IHr].
  - split; constructor.
  - destruct IH as [I1 I2]. split; [|exact I2].
    eapply Forall_impl; [|exact I1]. intros d. apply within_of_weaken; norm_len; lia.
  - destruct IHb as [B1 B2]. destruct IHr as [R1 R2]. split.
    + apply Forall_app. split; (eapply Forall_impl; [|eassumption]); intros d; apply within_of_weaken; norm_len; lia.
    + apply StronglySorted_app; [assumption | assumption|].
      intros x y Hx Hy. rewrite Forall_forall in B1, R1. apply B1 in Hx. apply R1 in Hy.
      unfold within_of in Hx, Hy. unfold ord, nested_in, after. lia.
  - destruct IHb as [B1 B2]. destruct IHr as [R1 R2].
    destruct (fhead_offsets _ _ _ _ Hhd) as [Hn Hh]. split.
    + constructor.
      * unfold within_of. cbn [fd_start fd_name fd_hend fd_open fd_close]. norm_len. lia.
      * apply Forall_app. split; (eapply Forall_impl; [|eassumption]); intros d; apply within_of_weaken; norm_len; lia.
    + constructor.
      * apply StronglySorted_app; [assumption | assumption|].
        intros x y Hx Hy. rewrite Forall_forall in B1, R1. apply B1 in Hx. apply R1 in Hy.
        unfold within_of in Hx, Hy. unfold ord, nested_in, after. lia.
      * apply Forall_app. split; apply Forall_forall; intros x Hx; rewrite Forall_forall in B1, R1.
        -- apply B1 in Hx. unfold within_of in Hx. unfold ord, nested_in, after.
           cbn [fd_start fd_name fd_hend fd_open fd_close]. lia.
        -- apply R1 in Hx. unfold within_of in Hx. unfold ord, nested_in, after.
           cbn [fd_start fd_name fd_hend fd_open fd_close]. lia.
Qed.

Theorem items_of_flat_order l off ts ds : lang_nested l = false -> items_of l off ts ds -> StronglySorted after_ord ds.
Proof.
  intros Hl.
  induction 1 as [off|off s r ds Hs Hr IH
                 |off kw words cond o body c r ds1 ds2 Hkw Hwords Hcond Hnt Ho Hc Hb IHb Hr IHr
                 |off pre0 hd nm_off hend_off o body c r ds1 ds2 Hpre Hhd Ho Hc Hb IHb Hflat Hr IHr].
  - constructor.
  - exact IH.
  - apply StronglySorted_app; [assumption | assumption|].
    intros x y Hx Hy. destruct (items_of_order _ _ _ _ Hb) as [B1 _]. destruct (items_of_order _ _ _ _ Hr) as [R1 _].
    rewrite Forall_forall in B1, R1. apply B1 in Hx. apply R1 in Hy.
    unfold within_of in Hx, Hy. unfold after_ord, after. lia.
  - rewrite (Hflat Hl). cbn [app]. constructor; [exact IHr|].
    destruct (items_of_order _ _ _ _ Hr) as [R1 _]. apply Forall_forall. intros x Hx.
    rewrite Forall_forall in R1. apply R1 in Hx. unfold within_of in Hx. unfold after_ord, after.
    cbn [fd_start fd_name fd_hend fd_open fd_close]. lia.
Qed.

(* ---------- the theorems ---------- *)
Theorem canonical_of_wf : forall l ts ds, l <> LPython -> canonical_program_of l ts ds -> wf_descs ts ds.
Proof.
  intros l ts ds _ H. unfold canonical_program_of in H. constructor.
  - pose proof (items_of_shape l 0 ts ds H [] [] eq_refl I) as HS.
    cbn [app] in HS. rewrite app_nil_r in HS. exact HS.
  - destruct (items_of_order l 0 ts ds H) as [_ HS].
    intros i j di dj Hij Hi Hj. exact (StronglySorted_nth ord ds HS i j di dj Hij Hi Hj).
Qed.

Theorem canonical_of_flat : forall l ts ds, lang_nested l = false -> canonical_program_of l ts ds ->
  forall c d, In c ds -> In d ds -> ~ nested_in c d.
Proof.
  intros l ts ds Hl H c d Hc Hd Hn. unfold canonical_program_of in H.
  destruct (items_of_order l 0 ts ds H) as [HW _]. pose proof (items_of_flat_order l 0 ts ds Hl H) as HS.
  rewrite Forall_forall in HW. pose proof (HW c Hc) as Wc. pose proof (HW d Hd) as Wd.
  unfold within_of in Wc, Wd. unfold nested_in in Hn.
  apply In_nth_error in Hc as [i Hi]. apply In_nth_error in Hd as [j Hj].
  destruct (lt_eq_lt_dec i j) as [[Hlt|Heq]|Hgt].
  - pose proof (StronglySorted_nth after_ord ds HS i j c d Hlt Hi Hj) as Ha. unfold after_ord, after in Ha. lia.
  - subst j. rewrite Hi in Hj. injection Hj as <-. lia.
  - pose proof (StronglySorted_nth after_ord ds HS j i d c Hgt Hj Hi) as Ha. unfold after_ord, after in Ha. lia.
Qed.

Print Assumptions canonical_of_wf.
Print Assumptions canonical_of_flat.
