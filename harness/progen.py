"""Typed generator of canonical programs for the seven languages (C01 grammar,
DESIGN.md section 7), rendering to real source text in a random layout, with the
expected measurements computed from the rendering itself:

  every emitted piece of code is tagged with the innermost *named* function it
  belongs to, so  length(f) = number of distinct lines on which a piece owned by
  f begins,  start(f) = position of its header's first piece,  end(f) = position
  just past its last piece.

A piece is one or more whole tokens on one physical line (or a single multi-line
token, which begins on its first line)."""
import random

BRACE = ("C", "Cpp", "CSharp", "Java", "JavaScript", "TypeScript")
LANGS = BRACE + ("Python",)
EXT = {"C": "c", "Cpp": "cpp", "CSharp": "cs", "Java": "java", "JavaScript": "js", "TypeScript": "ts", "Python": "py"}
NESTS = {"C": False, "Cpp": True, "CSharp": True, "Java": True, "JavaScript": True, "TypeScript": True, "Python": True}


class Out:
    """text builder with piece ownership"""

    def __init__(self):
        self.lines = [""]
        self.owner_lines = {}      # fid -> set of line numbers (1-based)
        self.first = {}            # fid -> (line, col)
        self.last = {}             # fid -> (line, col just past)
        self.names = {}
        self.order = []

    @property
    def line(self):
        return len(self.lines)

    @property
    def col(self):
        return len(self.lines[-1]) + 1

    def ws(self, s):
        assert "\n" not in s
        self.lines[-1] += s

    def nl(self):
        self.lines.append("")

    def code(self, text, owners, header_of=None):
        """emit a code piece; owners = stack of enclosing named functions (innermost last)"""
        ln, col = self.line, self.col
        if owners:
            f = owners[-1]
            self.owner_lines.setdefault(f, set()).add(ln)
        for f in owners:
            pass
        if header_of is not None and header_of not in self.first:
            self.first[header_of] = (ln, col)
        parts = text.split("\n")
        self.lines[-1] += parts[0]
        for p in parts[1:]:
            self.lines.append(p)
        for f in owners:
            self.last[f] = (self.line, self.col)

    def comment(self, text):
        parts = text.split("\n")
        self.lines[-1] += parts[0]
        for p in parts[1:]:
            self.lines.append(p)

    def text(self):
        return "\n".join(self.lines)


class Gen:
    def __init__(self, rng: random.Random, lang: str, opts=None):
        self.r = rng
        self.lang = lang
        self.o = Out()
        self.fid = 0
        self.uid = 0
        self.opts = dict(comments=True, nocl=(), max_depth=3, long_bodies=True, brace_params=True, async_=True,
                         multiline_header=True, strings=True, callbacks=True, classes=True, inits=True,
                         ternary_calls=True)
        self.opts.update(opts or {})
        self.funcs = []          # (fid, name, depth, parent fid or None)
        self.features = set()

    # ---------------------------------------------------------------- helpers
    def name(self, base):
        self.uid += 1
        if base == "fn" and self.opts.get("dup_names") and getattr(self, "_fn_names", None) and self.r.random() < 0.15:
            self.features.add("duplicate-name")          # two functions / methods of one file share a name
            return self.r.choice(self._fn_names)
        nm = f"{base}{self.uid}"
        if base == "fn" and self.r.random() < 0.04:
            # an identifier that is not in a Unicode normal form (a ligature, compatibility letters): the reported name is the
            # token's text, not a normalised spelling of it (seeded change C05-12)
            nm = self.r.choice(["\ufb01", "\u2460x"[1:] + "\u00b5", "\uff46\uff4e", "gr\u00f6\u00dfe_"]) + nm
            self.features.add("non-normalised-identifier")
        if base == "fn":
            self.__dict__.setdefault("_fn_names", []).append(nm)
        return nm

    def maybe_comment_lines(self, indent):
        if not self.opts["comments"]:
            return
        while self.r.random() < 0.12:
            k = self.r.random()
            if k < 0.35:
                self.o.ws("")
                self.o.nl()                       # blank line
                self.features.add("blank")
            elif k < 0.8:
                self.o.ws(indent)
                # a marker on a line of its own marks nothing: only the line of a function's name counts
                self.o.comment(self.line_comment(self.r.choice(["note {", "note }", "note (", "note def x():", "note nocl later",
                                                                "note x", "nocl", "NOCL: generated"])))
                self.o.nl()
                self.features.add("comment-line")
            elif k < 0.86:
                # characters that are line boundaries for str.splitlines but not line breaks of the file: a page-break line
                # (form feed), a vertical tab, a comment holding U+2028 / U+0085 / a file separator (seeded change C01-9)
                if self.r.random() < 0.4:
                    self.o.ws(self.r.choice(["\f", "\x0b", "\f\f"]))
                else:
                    self.o.ws(indent)
                    self.o.comment(self.line_comment("see the notes" + self.r.choice(["\u2028", "\x85", "\x1c", "\u2029", "\x0c"]) + "second paragraph"))
                self.o.nl()
                self.features.add("odd-line-boundary-char")
            elif self.lang != "Python":
                self.o.ws(indent)
                self.o.comment("/* block\n" + indent + "   comment { ( */")
                self.o.nl()
                self.features.add("block-comment")

    def line_comment(self, text):
        return ("# " if self.lang == "Python" else "// ") + text

    def trailing(self):
        if self.opts["comments"] and self.r.random() < 0.08:
            self.o.ws("  ")
            # none of these is a suppression marker: the marker must open the comment
            self.o.comment(self.line_comment(self.r.choice(["trailing }", "keep the monocle clean", "honours noclobber",
                                                            "not a NOCL marker", "see nocl below"])))
            self.features.add("trailing-comment")
        if self.r.random() < 0.05:
            self.o.ws("   ")                      # trailing white space

    # ---------------------------------------------------------------- brace family
    def params(self, owners, fid, allow_multiline=True):
        """emit '(...)' of a header; pieces belong to fid (through owners)"""
        L = self.lang
        n = self.r.choice([0, 1, 1, 2, 3])
        ps = []
        for i in range(n):
            nm = f"p{i}"
            if L in ("C", "Cpp", "CSharp", "Java"):
                p = self.r.choice(["int ", "long ", "String " if L in ("Java", "CSharp") else "char *"]) + nm
                if L == "Java" and self.r.random() < 0.15:
                    p = "@Ann(1) " + p
                    self.features.add("annotated-param")
                if L == "CSharp" and self.r.random() < 0.15:
                    p += " = 3"
            elif L == "JavaScript":
                p = nm
                k = self.r.random()
                if k < 0.12:
                    p += " = 1"
                elif k < 0.17 and self.opts["strings"]:
                    p += self.r.choice([' = "("', " = ')'"])
                    self.features.add("paren-string")
                elif k < 0.25:
                    p += " = mk(2)"
                    self.features.add("default-call")
                elif k < 0.35 and self.opts["brace_params"]:
                    p = "{a, b}"
                    self.features.add("brace-params")
                elif k < 0.42 and self.opts["brace_params"]:
                    p += " = {}"
                    self.features.add("brace-params")
                elif k < 0.5:
                    p += " = () => 0"
                    self.features.add("arrow-in-params")
            else:  # TypeScript
                p = nm + self.r.choice([": number", ": string", "", ": Array<number>"])
                k = self.r.random()
                if k < 0.12:
                    p = nm + " = mk(2)"
                    self.features.add("default-call")
                elif k < 0.2 and self.opts["brace_params"]:
                    p = "{a, b}: Opts"
                    self.features.add("brace-params")
                elif k < 0.3:
                    p = nm + self.r.choice([": () => void", ": (x: number) => Promise<void>", " = () => 0"])
                    self.features.add("arrow-in-params")
            ps.append(p)
        if allow_multiline and self.opts["multiline_header"] and len(ps) >= 2 and self.r.random() < 0.25:
            self.features.add("multiline-header")
            self.o.code("(", owners)
            for i, p in enumerate(ps):
                self.o.nl()
                self.o.ws("        ")
                self.o.code(p + ("," if i < len(ps) - 1 else ""), owners)
            self.o.code(")", owners)
        else:
            self.o.code("(" + ", ".join(ps) + ")", owners)

    def open_brace(self, owners, indent):
        if self.r.random() < 0.3:
            self.features.add("brace-next-line")
            self.trailing()
            self.o.nl()
            self.o.ws(indent)
            self.o.code("{", owners)
        else:
            self.o.ws(" ")
            self.o.code("{", owners)

    def func_brace(self, indent, owners, depth, in_class):
        L = self.lang
        fid = self.fid = self.fid + 1
        nm = self.name("fn")
        parent = owners[-1] if owners else None
        self.funcs.append((fid, nm, depth, parent))
        self.o.names[fid] = nm
        self.o.order.append(fid)
        own = owners + [fid]
        self.maybe_comment_lines(indent)
        self.o.ws(indent)
        kind = "plain"
        # prefix tokens that are NOT part of the recognised header shape belong to the enclosing owner
        if L in ("C", "Cpp"):
            self.o.code(self.r.choice(["int", "void", "static int", "unsigned long"]), owners)
            self.o.ws(" ")
            self.o.code(nm, own, header_of=fid)
        elif L in ("Java", "CSharp"):
            self.o.code(self.r.choice(["public void", "private int", "static void", "int"]), owners)
            self.o.ws(" ")
            self.o.code(nm, own, header_of=fid)
        else:  # JS / TS
            k = self.r.random()
            if in_class:
                if self.opts["async_"] and self.r.random() < 0.2:
                    self.o.code("async", owners)
                    self.o.ws(" ")
                    self.features.add("async")
                self.o.code(nm, own, header_of=fid)
                kind = "method"
            elif k < 0.55:
                if self.opts["async_"] and self.r.random() < 0.2:
                    self.o.code("async", owners)
                    self.o.ws(" ")
                    self.features.add("async")
                self.o.code("function", own, header_of=fid)
                self.o.ws(" ")
                self.o.code(nm, own)
                kind = "function"
            else:
                kind = "arrow"
                self.features.add("arrow")
                if self.r.random() < 0.7:
                    self.o.code("const", own, header_of=fid)
                    self.o.ws(" ")
                    self.o.code(nm, own)
                else:
                    self.o.code(nm, own, header_of=fid)
                self.o.ws(" ")
                self.o.code("=", own)
                self.o.ws(" ")
                if self.opts["async_"] and self.r.random() < 0.25:
                    self.o.code("async", own)
                    self.o.ws(" ")
                    self.features.add("async")
        self.params(own, fid)
        if kind == "arrow":
            self.o.ws(" ")
            self.o.code("=>", own)
        elif L == "TypeScript" and self.r.random() < 0.4:
            self.o.code(":", own)
            self.o.ws(" ")
            rt = self.r.choice(["number", "void", "Promise<void>", "string[]",
                                "(x: number) => number", "(cb: (e: Err) => void, n: number) => void",
                                "Promise<Map<string, Array<Record<string, number>>>>",
                                "Map<string, Map<string, Array<Promise<Record<string, Array<number>>>>>>",
                                # more than 40 tokens between the ")" and the "{" (seeded change C01-11: a look-ahead window of 32)
                                " | ".join(f"Alt{i}<string>" for i in range(14))])
            self.o.code(rt, own)
            self.features.add("return-type")
            if rt.startswith("("):
                self.features.add("function-type-return")      # balanced parentheses inside the return type (GD26's repair)
            if len(rt) > 30:
                self.features.add("long-return-type")       # the brace lies more than 16 tokens after the ")"
        elif L == "Java" and self.r.random() < 0.2:
            self.o.ws(" ")
            if self.r.random() < 0.4:
                self.o.code("throws java.io.IOException, java.lang.InterruptedException, "
                            "java.util.concurrent.TimeoutException, Other"
                            + "".join(f", pkg.sub.E{i}" for i in range(10)) * (self.r.random() < 0.5), own)    # half of them: > 60 tokens
                self.features.add("long-throws")             # the brace lies more than 16 tokens after the ")"
            else:
                self.o.code("throws IOException, Other", own)
            self.features.add("throws")
        self.open_brace(own, indent)
        self.trailing()
        self.o.nl()
        self.body(indent + "    ", own, depth + 1, target=self.body_len())
        self.o.ws(indent)
        self.o.code("}", own)
        if kind == "arrow" and self.r.random() < 0.5:
            self.o.code(";", owners)
        self.trailing()
        self.o.nl()
        if self.r.random() < 0.06 and ((L == "Java" and in_class and kind == "plain")
                                       or (L in ("JavaScript", "TypeScript") and not in_class and kind == "function")):
            # a block that abuts the function body: a Java instance initialiser, a JavaScript block statement (GD27)
            self.o.ws(indent)
            self.o.code("{", owners)
            self.o.nl()
            for _ in range(self.r.choice([1, 2, 3])):
                self.simple_stmt(indent + "    ", owners)
            self.o.ws(indent)
            self.o.code("}", owners)
            self.o.nl()
            self.features.add("abutting-block")
        return fid

    def body_len(self):
        if not self.opts["long_bodies"]:
            return self.r.choice([0, 1, 2, 3, 5])
        k = self.r.random()
        if k < 0.5:
            return self.r.choice([0, 1, 2, 3, 4, 6, 8])
        if k < 0.85:
            return self.r.choice([12, 13, 14, 15, 27, 28, 29, 30, 57, 58, 59, 60])
        return self.r.choice([10, 20, 40, 64, 70])

    def simple_stmt(self, indent, owners):
        L = self.lang
        self.maybe_comment_lines(indent)
        self.o.ws(indent)
        k = self.r.random()
        if k < 0.35:
            self.o.code("x = x + 1;", owners)
        elif k < 0.55:
            self.o.code("y = call(a, b);", owners)
        elif k < 0.65 and self.opts["strings"]:
            self.o.code('s = "{ ( } ) // # def f():";', owners)
            self.features.add("string-delims")
        elif k < 0.69 and self.opts["strings"]:
            self.o.code(self.r.choice(['s = call("(");', 's = call(")");', 's = "{";', 's = "}";']), owners)
            self.features.add("paren-string")
        elif k < 0.72 and self.opts["strings"] and L in ("C", "Cpp", "CSharp", "Java"):
            self.o.code(self.r.choice(["c = '{';", "c = '(';", "c = ')';"]), owners)
            self.features.add("char-delim")
        elif k < 0.8:
            self.o.code("total = total + call(x, (y + 1));", owners)
        elif k < 0.84 and self.opts["ternary_calls"]:
            self.o.code("v = a ? pick(1) : 2;", owners)
            self.features.add("ternary-call")
        elif k < 0.86 and self.opts["ternary_calls"] and L == "TypeScript":
            self.o.code(self.r.choice(["declare function ext(a: number): void;", "function over(a: number): number;",
                                       "type Fn = (a: number) => void;"]), owners)
            self.features.add("bodiless-declaration")
        elif k < 0.93:
            # statement spread over two lines
            self.o.code("z = call(a,", owners)
            self.o.nl()
            self.o.ws(indent + "        ")
            self.o.code("b);", owners)
            self.features.add("multiline-stmt")
        else:
            self.o.code("return x;", owners)
        self.trailing()
        self.o.nl()

    def ctrl(self, indent, owners, depth):
        self.maybe_comment_lines(indent)
        self.o.ws(indent)
        kw = self.r.choice(["if (x > 0)", "while (x)", "for (i = 0; i < n; i++)", "if (call(x))",
                            "if (c ? pick(1) : other)", "while (a ? f() : g())", "if (ok && (c ? first(a, b) : second))"])
        if "?" in kw:
            self.features.add("ternary-call-in-condition")     # a call followed by ": name )" and then a brace (GD26)
        self.o.code(kw, owners)
        self.open_brace(owners, indent)
        self.o.nl()
        self.body(indent + "    ", owners, depth + 1, target=self.r.choice([0, 1, 2, 3]), allow_funcs=True)
        self.o.ws(indent)
        self.o.code("}", owners)
        if kw.startswith("if") and self.r.random() < 0.35:
            self.o.ws(" ")
            self.o.code("else", owners)
            self.open_brace(owners, indent)
            self.o.nl()
            self.body(indent + "    ", owners, depth + 1, target=self.r.choice([1, 2]), allow_funcs=False)
            self.o.ws(indent)
            self.o.code("}", owners)
        self.o.nl()
        self.features.add("ctrl")

    def init(self, indent, owners):
        L = self.lang
        self.maybe_comment_lines(indent)
        self.o.ws(indent)
        if L in ("C", "Cpp"):
            self.o.code("int arr[] = { 1, 2, 3 };", owners)
        elif L in ("Java", "CSharp"):
            self.o.code("int[] arr = { 1, 2, 3 };", owners)
        else:
            self.o.code("const obj = { a: 1, b: call(2) };", owners)
        self.o.nl()
        self.features.add("init")

    def callback(self, indent, owners, depth):
        """call with an anonymous function / class whose body may again define named functions"""
        L = self.lang
        self.maybe_comment_lines(indent)
        self.o.ws(indent)
        if L in ("JavaScript", "TypeScript"):
            if self.r.random() < 0.5:
                self.o.code('run("x", function () {', owners)
            else:
                self.o.code("items.forEach((item) => {", owners)
            self.o.nl()
            self.body(indent + "    ", owners, depth + 1, target=self.r.choice([1, 2, 3]), allow_funcs=True)
            self.o.ws(indent)
            self.o.code("});", owners)
            self.o.nl()
            self.features.add("callback")
        elif L == "Java":
            self.o.code("Runnable r = new Runnable() {", owners)
            self.o.nl()
            self.func_brace(indent + "    ", owners, depth + 1, in_class=True)
            self.o.ws(indent)
            self.o.code("};", owners)
            self.o.nl()
            self.features.add("anonymous-class")
        elif L == "CSharp":
            self.o.code("var v = new Holder() { A = 1, B = 2 };", owners)
            self.o.nl()
            self.features.add("object-initialiser")
        else:
            self.o.code("y = call(a, b);", owners)
            self.o.nl()

    def klass(self, indent, owners, depth):
        L = self.lang
        self.maybe_comment_lines(indent)
        self.o.ws(indent)
        nm = self.name("Kl")
        if L == "C":
            self.o.code(f"struct {nm}", owners)
        elif L == "Cpp":
            self.o.code(f"class {nm}", owners)
        elif L in ("Java", "CSharp"):
            self.o.code(f"public class {nm}" if depth == 0 else f"class {nm}", owners)
        else:
            self.o.code(f"class {nm}", owners)
        self.open_brace(owners, indent)
        self.o.nl()
        if L == "C":
            self.o.ws(indent + "    ")
            self.o.code("int field;", owners)
            self.o.nl()
        else:
            for _ in range(self.r.choice([1, 2, 3])):
                if L == "Cpp" and self.r.random() < 0.3:
                    self.o.ws(indent)
                    self.o.code("public:", owners)
                    self.o.nl()
                if self.r.random() < 0.25 and L not in ("JavaScript", "TypeScript"):
                    self.o.ws(indent + "    ")
                    self.o.code("int field = 0;", owners)
                    self.o.nl()
                self.func_brace(indent + "    ", owners, depth + 1, in_class=True)
        self.o.ws(indent)
        self.o.code("};" if L in ("C", "Cpp") else "}", owners)
        self.o.nl()
        self.features.add("class")

    def body(self, indent, owners, depth, target, allow_funcs=True):
        """target = approximate number of simple statements"""
        L = self.lang
        n = 0
        nested_positions = set()
        can_nest = allow_funcs and NESTS[L] and depth <= self.opts["max_depth"] and (not owners or L != "C")
        if can_nest and owners and self.r.random() < 0.3:
            k = self.r.random()
            nested_positions.add(0 if k < 0.33 else (max(target, 1) if k < 0.66 else max(target // 2, 0)))
            self.features.add("nested-" + ("first" if k < 0.33 else "last" if k < 0.66 else "middle"))
        i = 0
        while i <= target:
            if i in nested_positions:
                if L in ("Cpp", "Java") and owners:
                    self.local_class(indent, owners, depth)
                else:
                    self.func_brace(indent, owners, depth, in_class=False)
            if i == target:
                break
            k = self.r.random()
            if k < 0.74 or depth > 4:
                self.simple_stmt(indent, owners)
            elif k < 0.86:
                self.ctrl(indent, owners, depth)
            elif k < 0.91 and self.opts["inits"]:
                self.init(indent, owners)
            elif k < 0.97 and self.opts["callbacks"] and owners:
                self.callback(indent, owners, depth)
            else:
                self.simple_stmt(indent, owners)
            i += 1

    def local_class(self, indent, owners, depth):
        """C++ / Java: a local class whose method is a nested named function"""
        self.maybe_comment_lines(indent)
        self.o.ws(indent)
        nm = self.name("Loc")
        self.o.code(("struct " if self.lang == "Cpp" else "class ") + nm, owners)
        self.open_brace(owners, indent)
        self.o.nl()
        self.func_brace(indent + "    ", owners, depth + 1, in_class=True)
        self.o.ws(indent)
        self.o.code("};" if self.lang == "Cpp" else "}", owners)
        self.o.nl()
        self.features.add("local-class")

    def program_brace(self):
        L = self.lang
        if L == "C" and self.r.random() < 0.5:
            self.o.code("#include <stdio.h>", [])
            self.o.nl()
        n = self.r.choice([0, 1, 2, 3, 4, 6])
        top_class = L in ("Java", "CSharp")
        indent = ""
        if top_class:
            self.o.code(f"public class Main", [])
            self.o.ws(" ")
            self.o.code("{", [])
            self.o.nl()
            indent = "    "
        for _ in range(n):
            k = self.r.random()
            if k < 0.6:
                self.func_brace(indent, [], 1 if top_class else 0, in_class=top_class)
            elif k < 0.75 and self.opts["classes"]:
                self.klass(indent, [], 1 if top_class else 0)
            elif k < 0.85 and not top_class:
                self.o.ws(indent)
                self.o.code("int counter = 0;" if L in ("C", "Cpp") else "let counter = 0;", [])
                self.o.nl()
            elif k < 0.93 and L in ("JavaScript", "TypeScript") and self.opts["callbacks"]:
                self.callback(indent, [], 0)
            elif not top_class and L in ("JavaScript", "TypeScript"):
                self.ctrl(indent, [], 0)
            else:
                self.func_brace(indent, [], 1 if top_class else 0, in_class=top_class)
        if top_class:
            self.o.code("}", [])
            self.o.nl()

    # ---------------------------------------------------------------- Python
    def py_params(self, own, indent=""):
        n = self.r.choice([0, 1, 1, 2, 3])
        ps = []
        for i in range(n):
            p = f"p{i}"
            k = self.r.random()
            if k < 0.2:
                p += ": int"
            elif k < 0.35:
                p += "=mk(1)"
                self.features.add("default-call")
            elif k < 0.45:
                p += ": Dict[str, int] = None"
            elif k < 0.5:
                p += "={}"
                self.features.add("brace-params")
            elif k < 0.58 and self.opts["strings"]:
                p += self.r.choice(['="("', '=")"', "='('"])
                self.features.add("paren-string")
            ps.append(p)
        if self.opts["multiline_header"] and len(ps) >= 2 and self.r.random() < 0.25:
            self.features.add("multiline-header")
            self.o.code("(", own)
            for i, p in enumerate(ps):
                self.o.nl()
                self.o.ws(indent + " " * self.r.choice([1, 4, 8, 13]))   # deeper than the def keyword
                self.o.code(p + ("," if i < len(ps) - 1 else ""), own)
            self.o.code(")", own)
        else:
            self.o.code("(" + ", ".join(ps) + ")", own)

    def py_func(self, indent, owners, depth):
        fid = self.fid = self.fid + 1
        nm = self.name("fn")
        self.funcs.append((fid, nm, depth, owners[-1] if owners else None))
        self.o.names[fid] = nm
        self.o.order.append(fid)
        own = owners + [fid]
        self.maybe_comment_lines(indent)
        if self.r.random() < 0.1:
            self.o.ws(indent)
            self.o.code("@decorator", owners)
            self.o.nl()
        self.o.ws(indent)
        if self.opts["async_"] and self.r.random() < 0.2:
            self.o.code("async", own, header_of=fid)
            self.o.ws(" ")
            self.features.add("async")
        self.o.code("def", own, header_of=fid)
        self.o.ws(" ")
        self.o.code(nm, own)
        self.py_params(own, indent)
        if self.r.random() < 0.3:
            self.o.ws(" ")
            self.o.code("-> " + self.r.choice(["int", "None", "List[int]"]), own)
            self.features.add("return-type")
        self.o.code(":", own)
        self.trailing()
        self.o.nl()
        self.py_body(indent + "    ", own, depth + 1, self.body_len(), must=True)
        return fid

    def py_simple(self, indent, owners):
        self.maybe_comment_lines(indent)
        self.o.ws(indent)
        k = self.r.random()
        if k < 0.4:
            self.o.code("x = x + 1", owners)
        elif k < 0.6:
            self.o.code("y = call(a, b)", owners)
        elif k < 0.66 and self.opts["strings"]:
            self.o.code('s = "{ ( } ) # def f():"', owners)
            self.features.add("string-delims")
        elif k < 0.7 and self.opts["strings"]:
            self.o.code(self.r.choice(['s = call("(")', 's = sep.join(")")', "s = '{'"]), owners)
            self.features.add("paren-string")
        elif k < 0.78:
            self.o.code("z = call(a,", owners)
            self.o.nl()
            self.o.ws(indent + " " * self.r.choice([4, 7, 9]))
            self.o.code("b)", owners)
            self.features.add("multiline-stmt")
        elif k < 0.80:        # (rare: one backslash continuation puts the whole program outside the formal Python grammar)
            self.o.code("total = 1 + \\", owners)
            self.o.nl()
            self.o.ws(indent + "    ")
            self.o.code("2", owners)
            self.features.add("line-continuation")
        elif k < 0.88 and self.opts["strings"]:
            self.o.code('doc = """one-line docstring with ( { and def f():"""', owners)
            self.features.add("triple-quoted-string")
        elif k < 0.93 and self.opts["strings"]:
            # a statement-level string over several lines (one token for the lexer): it begins on ONE line, and when it is
            # the last statement the function ends just past its closing quotes (seeded change C01-10)
            self.o.code('"""summary ( {\n' + indent + 'more text, def f():\n' + indent + self.r.choice(["", "  ", "the end "]) + '"""', owners)
            self.features.add("multiline-docstring")
        else:
            self.o.code("return x", owners)
        self.trailing()
        self.o.nl()

    def py_ctrl(self, indent, owners, depth):
        self.maybe_comment_lines(indent)
        self.o.ws(indent)
        kw = self.r.choice(["if x > 0:", "while x:", "for i in range(n):", "with open(p) as f:", "try:"])
        self.o.code(kw, owners)
        self.o.nl()
        self.py_body(indent + "    ", owners, depth + 1, self.r.choice([1, 2, 3]), must=True, allow_funcs=True)
        if kw == "try:":
            self.o.ws(indent)
            self.o.code("except Exception:", owners)
            self.o.nl()
            self.py_body(indent + "    ", owners, depth + 1, 1, must=True, allow_funcs=False)
        elif kw.startswith("if") and self.r.random() < 0.35:
            self.o.ws(indent)
            self.o.code("else:", owners)
            self.o.nl()
            self.py_body(indent + "    ", owners, depth + 1, self.r.choice([1, 2]), must=True, allow_funcs=False)
        self.features.add("ctrl")

    def py_class(self, indent, owners, depth):
        self.maybe_comment_lines(indent)
        self.o.ws(indent)
        self.o.code(f"class {self.name('Kl')}:", owners)
        self.o.nl()
        if self.r.random() < 0.3:
            self.o.ws(indent + "    ")
            self.o.code("field = 0", owners)
            self.o.nl()
        for _ in range(self.r.choice([1, 2, 3])):
            self.py_func(indent + "    ", owners, depth + 1)
        self.features.add("class")

    def py_body(self, indent, owners, depth, target, must=False, allow_funcs=True):
        nested_positions = set()
        target = max(target, 1) if must else target
        can_nest = allow_funcs and depth <= self.opts["max_depth"] and owners
        if can_nest and self.r.random() < 0.3:
            k = self.r.random()
            nested_positions.add(0 if k < 0.33 else (target if k < 0.66 else target // 2))
            self.features.add("nested-" + ("first" if k < 0.33 else "last" if k < 0.66 else "middle"))
        i = 0
        while i <= target:
            if i in nested_positions:
                self.py_func(indent, owners, depth)
            if i == target:
                break
            k = self.r.random()
            if k < 0.78 or depth > 4:
                self.py_simple(indent, owners)
            elif k < 0.92:
                self.py_ctrl(indent, owners, depth)
            elif k < 0.96 and self.opts["inits"]:
                self.maybe_comment_lines(indent)
                self.o.ws(indent)
                self.o.code("table = {'a': 1, 'b': call(2)}", owners)
                self.o.nl()
                self.features.add("init")
            else:
                self.maybe_comment_lines(indent)
                self.o.ws(indent)
                self.o.code("g = lambda q: (q + 1)", owners)
                self.o.nl()
                self.features.add("lambda")
            i += 1

    def program_python(self):
        n = self.r.choice([0, 1, 2, 3, 4, 6])
        if self.r.random() < 0.5:
            self.o.code("import os", [])
            self.o.nl()
        for _ in range(n):
            k = self.r.random()
            if k < 0.6:
                self.py_func("", [], 0)
            elif k < 0.78 and self.opts["classes"]:
                self.py_class("", [], 0)
            elif k < 0.9:
                self.py_simple("", [])
            else:
                self.py_ctrl("", [], 0)
        if self.r.random() < 0.4:
            self.py_simple("", [])        # trailing global code

    # ---------------------------------------------------------------- result
    def generate(self):
        if self.lang == "Python":
            self.program_python()
        else:
            self.program_brace()
        text = self.o.text()
        if self.r.random() < 0.15:
            text = text.rstrip("\n")          # no trailing newline
        expected = []
        for fid in self.o.order:
            sl, sc = self.o.first[fid]
            el, ec = self.o.last[fid]
            expected.append({"name": self.o.names[fid], "start": [sl, sc], "end": [el, ec],
                             "length": len(self.o.owner_lines.get(fid, ()))})
        return text, expected, sorted(self.features)


def generate(seed, lang, opts=None):
    g = Gen(random.Random(seed), lang, opts)
    text, expected, features = g.generate()
    # C does not nest functions; everything else reports nested functions too
    return {"lang": lang, "seed": seed, "text": text, "expected": expected, "features": features,
            "funcs": [(f, n, d, p) for f, n, d, p in g.funcs]}
