(* CodebaseProofsTotals.v — C07 items 2, 3, 6: the file dictionary and the
   per-language totals agree with the inserted entries. *)
From Verif Require Import Base BaseProofs GenThresholds Thresholds Codebase CodebaseProofsStr.
Open Scope Z_scope.

(* ---------- sums ---------- *)
Definition sumf {A} (f : A -> Z) (l : list A) : Z := fold_right (fun a acc => f a + acc) 0 l.

Lemma sumf_nil {A} (f : A -> Z) : sumf f [] = 0.
Proof. reflexivity. Qed.
Lemma sumf_cons {A} (f : A -> Z) a l : sumf f (a :: l) = f a + sumf f l.
Proof. reflexivity. Qed.
Lemma sumf_app {A} (f : A -> Z) l1 l2 : sumf f (l1 ++ l2) = sumf f l1 + sumf f l2.
Proof. induction l1 as [|a l1 IH]; cbn [app]; rewrite ?sumf_cons, ?sumf_nil; lia. Qed.
Lemma sumf_ext {A} (f g : A -> Z) l : (forall a, In a l -> f a = g a) -> sumf f l = sumf g l.
Proof.
  induction l as [|a l IH]; intros H; [reflexivity|]. rewrite !sumf_cons.
  rewrite H by (left; reflexivity). rewrite IH; [reflexivity|]. intros b Hb. apply H. right. exact Hb.
Qed.
Lemma sumf_zero {A} (f : A -> Z) l : (forall a, In a l -> f a = 0) -> sumf f l = 0.
Proof.
  induction l as [|a l IH]; intros H; [reflexivity|]. rewrite sumf_cons.
  rewrite H by (left; reflexivity). rewrite IH; [reflexivity|]. intros b Hb. apply H. right. exact Hb.
Qed.
Lemma sumf_plus {A} (f g : A -> Z) l : sumf (fun a => f a + g a) l = sumf f l + sumf g l.
Proof. induction l as [|a l IH]; [reflexivity|]. rewrite !sumf_cons, IH. lia. Qed.
Lemma sumf_filter {A} (p : A -> bool) (f : A -> Z) l :
  sumf f (filter p l) = sumf (fun a => if p a then f a else 0) l.
Proof.
  induction l as [|a l IH]; [reflexivity|]. cbn [filter]. rewrite sumf_cons.
  destruct (p a); rewrite ?sumf_cons, IH; reflexivity.
Qed.
Lemma sumf_map {A B} (h : A -> B) (f : B -> Z) l : sumf f (map h l) = sumf (fun a => f (h a)) l.
Proof. induction l as [|a l IH]; [reflexivity|]. cbn [map]. rewrite !sumf_cons, IH. reflexivity. Qed.
Lemma sumf_swap {A B} (f : A -> B -> Z) la lb :
  sumf (fun a => sumf (fun b => f a b) lb) la = sumf (fun b => sumf (fun a => f a b) la) lb.
Proof.
  induction la as [|a la IH].
  - cbn [sumf fold_right]. symmetry. apply sumf_zero. reflexivity.
  - rewrite sumf_cons, IH. rewrite <- sumf_plus. apply sumf_ext. intros b _. rewrite sumf_cons. reflexivity.
Qed.
Lemma sumf_length {A} (l : list A) : sumf (fun _ => 1) l = Z.of_nat (length l).
Proof. induction l as [|a l IH]; [reflexivity|]. rewrite sumf_cons, IH. cbn [length]. lia. Qed.

(* exactly one element of a duplicate-free list satisfies a "point" predicate *)
Lemma sumf_indicator {A} (eqb : A -> A -> bool) (l : list A) (x : A) (v : Z) :
  (forall a b, eqb a b = true <-> a = b) -> NoDup l ->
  sumf (fun a => if eqb a x then v else 0) l = if existsb (fun a => eqb a x) l then v else 0.
Proof.
  intros Heq Hnd. induction Hnd as [|a l Hni Hnd IH]; [reflexivity|].
  rewrite sumf_cons, IH. cbn [existsb].
  destruct (eqb a x) eqn:E; cbn [orb]; [|reflexivity].
  apply Heq in E. subst a.
  destruct (existsb (fun a => eqb a x) l) eqn:E2; [|lia].
  exfalso. apply existsb_exists in E2. destruct E2 as (b & Hb & E2). apply Heq in E2. subst b. contradiction.
Qed.

(* ---------- add_file, observed on files / totals ---------- *)
Definition zero_lt (L : pystr) : LanguageTotals := mkLT L 0 0 0 0 0.
Definition totals_step (totals : dict LanguageTotals) (e : FileEntry) : dict LanguageTotals :=
  let totals0 := if dmem totals (e_language e) then totals
                 else dset totals (e_language e) (zero_lt (e_language e)) in
  match dget totals0 (e_language e) with
  | None => totals0
  | Some t => dset totals0 (e_language e) (lt_add t e)
  end.

Lemma add_file_obs cb e cb' : add_file cb e = OK cb' ->
  cb_root cb' = cb_root cb /\
  cb_files cb' = dset (cb_files cb) (e_path e) e /\
  cb_totals cb' = totals_step (cb_totals cb) e.
Proof.
  unfold add_file, totals_step, zero_lt. cbv zeta.
  destruct (dget (if dmem (cb_totals cb) (e_language e) then cb_totals cb else _) (e_language e)) as [t|];
    [|discriminate].
  destruct (if dmem (cb_tree cb) _ then _ else _) as [tree1|]; [|discriminate].
  destruct (dget tree1 _) as [pf|]; [|discriminate].
  intros H. inversion H; subst. cbn. auto.
Qed.

Lemma lt_add_spec t e :
  lt_add t e = mkLT (lt_language t) (lt_files t + 1) (lt_loc t + e_loc e)
                    (lt_functions t + Z.of_nat (length (e_measurements e)))
                    (lt_hard_to_maintain t + count_cat Hard (e_measurements e))
                    (lt_unmaintainable t + count_cat Unm (e_measurements e)).
Proof. unfold lt_add. rewrite language_totals_add_spec. reflexivity. Qed.

(* ---------- induction principle over add_files ---------- *)
Lemma add_files_inv (P : list FileEntry -> codebase -> Prop) es cb0 :
  P [] cb0 ->
  (forall done e rest cb cb', es = done ++ e :: rest -> P done cb -> add_file cb e = OK cb' ->
                              P (done ++ [e]) cb') ->
  forall cb', add_files cb0 es = OK cb' -> P es cb'.
Proof.
  intros H0 Hstep.
  assert (G : forall rest done cb cb', es = done ++ rest -> P done cb ->
                add_files cb rest = OK cb' -> P es cb').
  { induction rest as [|e rest IH]; intros done cb cb' E HP Hadd; cbn [add_files] in Hadd.
    - inversion Hadd; subst. rewrite app_nil_r. exact HP.
    - destruct (add_file cb e) as [cb1|] eqn:E1; [|discriminate].
      apply (IH (done ++ [e]) cb1 cb'); [rewrite <- app_assoc; exact E| |exact Hadd].
      eapply Hstep; eauto. }
  intros cb' Hadd. apply (G es [] cb0 cb'); auto.
Qed.

Lemma add_files_total (P : list FileEntry -> codebase -> Prop) es cb0 :
  P [] cb0 ->
  (forall done e rest cb, es = done ++ e :: rest -> P done cb ->
     exists cb', add_file cb e = OK cb' /\ P (done ++ [e]) cb') ->
  exists cb', add_files cb0 es = OK cb' /\ P es cb'.
Proof.
  intros H0 Hstep.
  assert (G : forall rest done cb, es = done ++ rest -> P done cb ->
                exists cb', add_files cb rest = OK cb' /\ P es cb').
  { induction rest as [|e rest IH]; intros done cb E HP; cbn [add_files].
    - exists cb. subst es. rewrite app_nil_r. auto.
    - destruct (Hstep done e rest cb E HP) as (cb1 & E1 & HP1). rewrite E1.
      apply (IH (done ++ [e]) cb1); [rewrite <- app_assoc; exact E|exact HP1]. }
  apply (G es [] cb0); auto.
Qed.

(* build = add_files then aggregate; aggregate keeps root, files, totals *)
Lemma build_inv root es cb : build root es = OK cb ->
  exists cb0, add_files (new_codebase root) es = OK cb0 /\ aggregate cb0 = OK cb /\
              cb_root cb = cb_root cb0 /\ cb_files cb = cb_files cb0 /\ cb_totals cb = cb_totals cb0.
Proof.
  unfold build. destruct (add_files (new_codebase root) es) as [cb0|] eqn:E; [|discriminate].
  intros H. exists cb0. split; [reflexivity|]. split; [exact H|].
  unfold aggregate in H. destruct (aggregate_folder _ _ _) as [[tree p]|]; [|discriminate].
  inversion H; subst. cbn. auto.
Qed.

(* ---------- item 2: the file dictionary ---------- *)
Definition file_item (e : FileEntry) : pystr * FileEntry := (e_path e, e).

Lemma add_files_files es cb0 cb : NoDup (map e_path es) -> cb_files cb0 = [] ->
  add_files cb0 es = OK cb -> cb_files cb = map file_item es.
Proof.
  intros Hnd H0. apply (add_files_inv (fun done cb => cb_files cb = map file_item done)); [exact H0|].
  intros done e rest cb1 cb2 E HP Hadd. apply add_file_obs in Hadd. destruct Hadd as (_ & Hf & _).
  rewrite Hf, HP. rewrite dset_absent.
  - rewrite map_app. reflexivity.
  - apply dget_None. rewrite map_map. cbn [file_item fst].
    subst es. rewrite map_app in Hnd. cbn [map] in Hnd.
    apply NoDup_remove_2 in Hnd. intros Hin. apply Hnd. apply in_or_app. left.
    exact Hin.
Qed.

Theorem C07_files root es cb : NoDup (map e_path es) -> build root es = OK cb ->
  cb_files cb = map (fun e => (e_path e, e)) es.
Proof.
  intros Hnd Hb. apply build_inv in Hb. destruct Hb as (cb0 & Hadd & _ & _ & Hf & _).
  rewrite Hf. apply (add_files_files es (new_codebase root) cb0 Hnd eq_refl Hadd).
Qed.

(* ---------- item 6: the profile of a file partitions its measured lines ---------- *)
Theorem C07_file_profile path checksum language loc ms :
  let e := mk_entry path checksum language loc ms in
  e_profile e = [sum_cat Easy ms; sum_cat Verbose ms; sum_cat Hard ms; sum_cat Unm ms] /\
  sumZ (e_profile e) = total_len (e_measurements e) /\
  (e_loc e = total_len (e_measurements e) -> sumZ (e_profile e) = e_loc e).
Proof.
  cbn. split; [apply make_profile_spec|]. split; [apply profile_partitions|].
  intros ->. apply profile_partitions.
Qed.

(* ---------- item 3: per-language totals ---------- *)
Definition langb (L : pystr) (e : FileEntry) : bool := pystr_eqb (e_language e) L.
Definition n_functions (e : FileEntry) : Z := Z.of_nat (length (e_measurements e)).
Definition n_hard (e : FileEntry) : Z := count_cat Hard (e_measurements e).
Definition n_unm (e : FileEntry) : Z := count_cat Unm (e_measurements e).
Definition lt_of (L : pystr) (fs : list FileEntry) : LanguageTotals :=
  mkLT L (Z.of_nat (length fs)) (sumf e_loc fs) (sumf n_functions fs) (sumf n_hard fs) (sumf n_unm fs).
Definition opt_lt (L : pystr) (fs : list FileEntry) : option LanguageTotals :=
  match fs with [] => None | _ => Some (lt_of L fs) end.

Lemma opt_lt_snoc L fs e : opt_lt L (fs ++ [e]) = Some (lt_of L (fs ++ [e])).
Proof. unfold opt_lt. destruct fs; reflexivity. Qed.

Lemma lt_add_lt_of L fs e : lt_add (lt_of L fs) e = lt_of L (fs ++ [e]).
Proof.
  rewrite lt_add_spec. unfold lt_of. cbn [lt_language lt_files lt_loc lt_functions lt_hard_to_maintain lt_unmaintainable].
  rewrite !sumf_app, app_length, Nat2Z.inj_add. cbn [length sumf fold_right].
  unfold n_functions, n_hard, n_unm. f_equal; lia.
Qed.

Lemma lt_add_zero L e : lt_add (zero_lt L) e = lt_of L [e].
Proof. change (zero_lt L) with (lt_of L []). apply lt_add_lt_of. Qed.

Definition TotInv (done : list FileEntry) (totals : dict LanguageTotals) : Prop :=
  NoDup (map fst totals) /\ forall L, dget totals L = opt_lt L (filter (langb L) done).

Lemma filter_snoc {A} (p : A -> bool) l a : filter p (l ++ [a]) = filter p l ++ (if p a then [a] else []).
Proof. rewrite filter_app. cbn [filter]. destruct (p a); reflexivity. Qed.

Lemma TotInv_step done totals e : TotInv done totals -> TotInv (done ++ [e]) (totals_step totals e).
Proof.
  intros [Hnd Hget]. unfold totals_step. cbv zeta.
  destruct (dmem totals (e_language e)) eqn:Hm.
  - unfold dmem in Hm. destruct (dget totals (e_language e)) as [t|] eqn:Ht; [|discriminate].
    split; [apply NoDup_keys_dset, Hnd|]. intros L. rewrite filter_snoc. unfold langb at 2.
    destruct (pystr_eqb_spec (e_language e) L) as [<-|Hne].
    + rewrite dget_dset_same, opt_lt_snoc. f_equal.
      rewrite Hget in Ht. unfold opt_lt in Ht.
      destruct (filter (langb (e_language e)) done) as [|f fs] eqn:Ef; [discriminate|].
      inversion Ht; subst t. apply lt_add_lt_of.
    + rewrite dget_dset_other by congruence. rewrite app_nil_r. apply Hget.
  - rewrite dget_dset_same.
    assert (Hnone : dget totals (e_language e) = None).
    { unfold dmem in Hm. destruct (dget totals (e_language e)); [discriminate|reflexivity]. }
    split; [apply NoDup_keys_dset, NoDup_keys_dset, Hnd|]. intros L. rewrite filter_snoc. unfold langb at 2.
    destruct (pystr_eqb_spec (e_language e) L) as [<-|Hne].
    + rewrite dget_dset_same, opt_lt_snoc. f_equal.
      rewrite Hget in Hnone. unfold opt_lt in Hnone.
      destruct (filter (langb (e_language e)) done) as [|f fs] eqn:Ef; [|discriminate].
      apply lt_add_zero.
    + rewrite !dget_dset_other by congruence. rewrite app_nil_r. apply Hget.
Qed.

Lemma add_files_totals es cb0 cb : cb_totals cb0 = [] -> add_files cb0 es = OK cb ->
  TotInv es (cb_totals cb).
Proof.
  intros H0. apply (add_files_inv (fun done cb => TotInv done (cb_totals cb))).
  - rewrite H0. split; [constructor|]. intros L. reflexivity.
  - intros done e rest cb1 cb2 _ HP Hadd. apply add_file_obs in Hadd. destruct Hadd as (_ & _ & Ht).
    rewrite Ht. apply TotInv_step, HP.
Qed.

Lemma filter_nil_iff {A} (p : A -> bool) l : filter p l = [] <-> forall a, In a l -> p a = false.
Proof.
  induction l as [|a l IH]; cbn [filter In]; [split; [intros _ ? []|reflexivity]|].
  destruct (p a) eqn:E.
  - split; [discriminate|]. intros H. specialize (H a (or_introl eq_refl)). congruence.
  - rewrite IH. split; intros H.
    + intros b [<-|Hb]; auto.
    + intros b Hb. apply H. right. exact Hb.
Qed.

Theorem C07_lang_totals root es cb : build root es = OK cb ->
  forall L, let fs := filter (fun e => pystr_eqb (e_language e) L) es in
    (dget (cb_totals cb) L = None <-> forall e, In e es -> e_language e <> L) /\
    (fs <> [] -> exists t, dget (cb_totals cb) L = Some t /\
        lt_language t = L /\
        lt_files t = Z.of_nat (length fs) /\
        lt_loc t = sumf e_loc fs /\
        lt_functions t = sumf (fun e => Z.of_nat (length (e_measurements e))) fs /\
        lt_hard_to_maintain t = sumf (fun e => count_cat Hard (e_measurements e)) fs /\
        lt_unmaintainable t = sumf (fun e => count_cat Unm (e_measurements e)) fs).
Proof.
  intros Hb L fs. apply build_inv in Hb. destruct Hb as (cb0 & Hadd & _ & _ & _ & Ht).
  apply add_files_totals in Hadd; [|reflexivity]. destruct Hadd as [_ Hget].
  rewrite Ht, Hget. change (filter (langb L) es) with fs. split.
  - transitivity (fs = []).
    + unfold opt_lt. destruct fs; split; intros; congruence.
    + unfold fs. rewrite filter_nil_iff. split; intros H e He.
      * intros E. specialize (H e He). cbn in H. rewrite E, pystr_eqb_refl in H. discriminate.
      * apply pystr_eqb_neq. apply H. exact He.
  - intros Hne. exists (lt_of L fs). split; [unfold opt_lt; destruct fs; [congruence|reflexivity]|].
    cbn. repeat split; reflexivity.
Qed.

Theorem C07_totals_keys root es cb : build root es = OK cb ->
  NoDup (map fst (cb_totals cb)) /\
  (forall L, In L (map fst (cb_totals cb)) <-> exists e, In e es /\ e_language e = L) /\
  (forall L t, In (L, t) (cb_totals cb) -> lt_language t = L).
Proof.
  intros Hb. apply build_inv in Hb. destruct Hb as (cb0 & Hadd & _ & _ & _ & Ht).
  apply add_files_totals in Hadd; [|reflexivity]. destruct Hadd as [Hnd Hget]. rewrite Ht.
  split; [exact Hnd|]. split.
  - intros L. split.
    + intros Hin. apply dget_In_key in Hin. destruct Hin as (t & E). rewrite Hget in E.
      unfold opt_lt in E. destruct (filter (langb L) es) as [|f fs] eqn:Ef; [discriminate|].
      assert (Hf : In f (filter (langb L) es)) by (rewrite Ef; left; reflexivity).
      apply filter_In in Hf. destruct Hf as [Hf1 Hf2]. exists f. split; [exact Hf1|].
      apply pystr_eqb_eq. exact Hf2.
    + intros (e & He & E). destruct (dget (cb_totals cb0) L) eqn:Eg; [eapply dget_Some_key; eauto|].
      exfalso. rewrite Hget in Eg. unfold opt_lt in Eg.
      destruct (filter (langb L) es) as [|f fs] eqn:Ef; [|discriminate].
      assert (Hin : In e (filter (langb L) es)).
      { apply filter_In. split; [exact He|]. unfold langb. rewrite E. apply pystr_eqb_refl. }
      rewrite Ef in Hin. destruct Hin.
  - intros L t Hin. apply In_dget in Hin; [|exact Hnd]. rewrite Hget in Hin.
    unfold opt_lt in Hin. destruct (filter (langb L) es); [discriminate|].
    inversion Hin; subst. reflexivity.
Qed.

(* ---------- grand totals ---------- *)
Definition sumd (g : LanguageTotals -> Z) (d : dict LanguageTotals) : Z := sumf (fun kt => g (snd kt)) d.

Lemma sumd_dset_present g d k v v0 : dget d k = Some v0 -> sumd g (dset d k v) = sumd g d - g v0 + g v.
Proof.
  unfold sumd. induction d as [|[k1 v1] d IH]; cbn [dget dset]; [discriminate|].
  destruct (pystr_eqb k k1).
  - intros E. inversion E; subst. rewrite !sumf_cons. cbn [snd]. lia.
  - intros E. rewrite !sumf_cons, IH by exact E. cbn [snd]. lia.
Qed.

Lemma sumd_dset_absent g d k v : dget d k = None -> sumd g (dset d k v) = sumd g d + g v.
Proof.
  intros H. rewrite dset_absent by exact H. unfold sumd. rewrite sumf_app, sumf_cons, sumf_nil.
  cbn [snd]. lia.
Qed.

Lemma sumd_totals_step g delta totals e :
  (forall t, g (lt_add t e) = g t + delta) -> (forall L, g (zero_lt L) = 0) ->
  sumd g (totals_step totals e) = sumd g totals + delta.
Proof.
  intros Hadd Hz. unfold totals_step. cbv zeta. unfold dmem.
  destruct (dget totals (e_language e)) as [t|] eqn:Ht.
  - rewrite Ht. rewrite (sumd_dset_present g _ _ _ t) by exact Ht. rewrite Hadd. lia.
  - rewrite dget_dset_same.
    rewrite (sumd_dset_present g _ _ _ (zero_lt (e_language e))) by apply dget_dset_same.
    rewrite sumd_dset_absent by exact Ht. rewrite Hadd, Hz. lia.
Qed.

Lemma add_files_sumd g (h : FileEntry -> Z) es cb0 cb :
  (forall t e, g (lt_add t e) = g t + h e) -> (forall L, g (zero_lt L) = 0) ->
  cb_totals cb0 = [] -> add_files cb0 es = OK cb -> sumd g (cb_totals cb) = sumf h es.
Proof.
  intros Hadd Hz H0. apply (add_files_inv (fun done cb => sumd g (cb_totals cb) = sumf h done)).
  - rewrite H0. reflexivity.
  - intros done e rest cb1 cb2 _ HP Ha. apply add_file_obs in Ha. destruct Ha as (_ & _ & Ht).
    rewrite Ht, (sumd_totals_step g (h e)); auto. rewrite HP, sumf_app, sumf_cons, sumf_nil. lia.
Qed.

Theorem C07_grand_totals root es cb : build root es = OK cb ->
  sumf (fun kt => lt_files (snd kt)) (cb_totals cb) = Z.of_nat (length es) /\
  sumf (fun kt => lt_loc (snd kt)) (cb_totals cb) = sumf e_loc es /\
  sumf (fun kt => lt_functions (snd kt)) (cb_totals cb) = sumf (fun e => Z.of_nat (length (e_measurements e))) es /\
  sumf (fun kt => lt_hard_to_maintain (snd kt)) (cb_totals cb) = sumf (fun e => count_cat Hard (e_measurements e)) es /\
  sumf (fun kt => lt_unmaintainable (snd kt)) (cb_totals cb) = sumf (fun e => count_cat Unm (e_measurements e)) es.
Proof.
  intros Hb. apply build_inv in Hb. destruct Hb as (cb0 & Hadd & _ & _ & _ & Ht). rewrite Ht.
  repeat split.
  - rewrite <- sumf_length. apply (add_files_sumd lt_files (fun _ => 1) es (new_codebase root) cb0); auto;
      intros; rewrite ?lt_add_spec; reflexivity.
  - apply (add_files_sumd lt_loc e_loc es (new_codebase root) cb0); auto; intros; rewrite ?lt_add_spec; reflexivity.
  - apply (add_files_sumd lt_functions _ es (new_codebase root) cb0); auto; intros; rewrite ?lt_add_spec; reflexivity.
  - apply (add_files_sumd lt_hard_to_maintain _ es (new_codebase root) cb0); auto; intros; rewrite ?lt_add_spec; reflexivity.
  - apply (add_files_sumd lt_unmaintainable _ es (new_codebase root) cb0); auto; intros; rewrite ?lt_add_spec; reflexivity.
Qed.
