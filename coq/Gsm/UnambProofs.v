(* UnambProofs.v — soundness of the finite unambiguity certificate of Unamb.v:
   if [inv_check_aut a S = true] then no concrete run of the matcher over any
   token sequence can raise the ambiguity error. *)
From Verif Require Import Base Regex Nfa Dfa Token TokEngine Unamb.
Open Scope Z_scope.

(* ====================================================================== *)
(* 1. boolean equalities                                                   *)
(* ====================================================================== *)

Lemma pystr_eqb_spec : forall a b, pystr_eqb a b = true <-> a = b.
Proof.
  induction a as [|x a IH]; destruct b as [|y b]; simpl; split; intro H;
    try congruence; try reflexivity.
  - apply andb_true_iff in H. destruct H as [H1 H2].
    apply Z.eqb_eq in H1. apply IH in H2. congruence.
  - inversion H; subst. apply andb_true_iff. split.
    + apply Z.eqb_refl.
    + apply IH; reflexivity.
Qed.

Lemma pystr_eqb_refl : forall a, pystr_eqb a a = true.
Proof. intro a. apply pystr_eqb_spec. reflexivity. Qed.

Lemma tpred_eqb_refl : forall p, tpred_eqb p p = true.
Proof.
  induction p; simpl; rewrite ?IHp1, ?IHp2, ?IHp; auto using pystr_eqb_refl.
Qed.

Lemma tpred_eqb_eq : forall p q, tpred_eqb p q = true -> p = q.
Proof.
  induction p; destruct q; simpl; intro H; try discriminate; try reflexivity;
    try (apply pystr_eqb_spec in H; congruence);
    try (apply andb_true_iff in H; destruct H as [H1 H2];
         apply IHp1 in H1; apply IHp2 in H2; congruence).
  apply IHp in H. congruence.
Qed.

Theorem tpred_eqb_spec : forall p q, tpred_eqb p q = true <-> p = q.
Proof.
  intros p q; split.
  - apply tpred_eqb_eq.
  - intros ->. apply tpred_eqb_refl.
Qed.

Lemma tpred_eqb_neq : forall p q, tpred_eqb p q = false <-> p <> q.
Proof.
  intros p q. split.
  - intros H E. subst. rewrite tpred_eqb_refl in H. discriminate.
  - intro H. destruct (tpred_eqb p q) eqn:E; auto.
    apply tpred_eqb_eq in E. contradiction.
Qed.

Lemma tpred_eqb_sym : forall p q, tpred_eqb p q = tpred_eqb q p.
Proof.
  intros p q. destruct (tpred_eqb p q) eqn:E.
  - apply tpred_eqb_eq in E. subst. symmetry. apply tpred_eqb_refl.
  - symmetry. apply tpred_eqb_neq. apply tpred_eqb_neq in E. congruence.
Qed.

Lemma list_eqb_eq : forall {A} (eqb : A -> A -> bool),
  (forall x y, eqb x y = true -> x = y) ->
  forall a b, list_eqb eqb a b = true -> a = b.
Proof.
  intros A eqb Heq. induction a as [|x a IH]; destruct b as [|y b]; simpl; intro H;
    try discriminate; auto.
  apply andb_true_iff in H. destruct H as [H1 H2].
  apply Heq in H1. apply IH in H2. congruence.
Qed.

Lemma list_eqb_refl : forall {A} (eqb : A -> A -> bool),
  (forall x, eqb x x = true) -> forall a, list_eqb eqb a a = true.
Proof.
  intros A eqb Hr. induction a; simpl; auto. rewrite Hr, IHa. reflexivity.
Qed.

Lemma dclass_eqb_eq : forall x y, dclass_eqb x y = true -> x = y.
Proof. destruct x, y; simpl; intro; congruence. Qed.

Lemma config_eqb_eq : forall c d, config_eqb c d = true -> c = d.
Proof.
  intros [s1 c1] [s2 c2]. unfold config_eqb. simpl. intro H.
  apply andb_true_iff in H. destruct H as [H1 H2].
  apply (list_eqb_eq Nat.eqb) in H1; [|intros x y; apply Nat.eqb_eq].
  apply (list_eqb_eq dclass_eqb dclass_eqb_eq) in H2. congruence.
Qed.

Lemma config_eqb_refl : forall c, config_eqb c c = true.
Proof.
  intros [s c]. unfold config_eqb. simpl.
  rewrite (list_eqb_refl Nat.eqb Nat.eqb_refl).
  rewrite (list_eqb_refl dclass_eqb); auto. destruct x; reflexivity.
Qed.

Lemma config_mem_In : forall c S, config_mem c S = true <-> In c S.
Proof.
  intros c S. unfold config_mem. rewrite existsb_exists. split.
  - intros [d [Hin He]]. apply config_eqb_eq in He. subst. assumption.
  - intro H. exists c. split; auto using config_eqb_refl.
Qed.

(* ====================================================================== *)
(* 2. pmem / pdedup / index_of                                             *)
(* ====================================================================== *)

Lemma pmem_In : forall p l, pmem tpred_eqb p l = true <-> In p l.
Proof.
  intros p. induction l as [|q l IH]; simpl.
  - split; [discriminate | tauto].
  - rewrite orb_true_iff, IH, tpred_eqb_spec. split; intros [H|H]; auto.
Qed.

Lemma pmem_false : forall p l, pmem tpred_eqb p l = false <-> ~ In p l.
Proof.
  intros p l. rewrite <- pmem_In. destruct (pmem tpred_eqb p l); split; intro H;
    congruence.
Qed.

Lemma pdedup_In : forall p l, In p (pdedup tpred_eqb l) <-> In p l.
Proof.
  intros p. induction l as [|q l IH]; simpl; [tauto|].
  destruct (pmem tpred_eqb q (pdedup tpred_eqb l)) eqn:E.
  - apply pmem_In in E. rewrite IH. split; auto.
    intros [H|H]; auto. subst. apply IH. assumption.
  - simpl. rewrite IH. tauto.
Qed.

Lemma pdedup_NoDup : forall l, NoDup (pdedup tpred_eqb l).
Proof.
  induction l as [|q l IH]; simpl; [constructor|].
  destruct (pmem tpred_eqb q (pdedup tpred_eqb l)) eqn:E; auto.
  constructor; auto. apply pmem_false. assumption.
Qed.

Lemma index_of_Some : forall p l i, index_of p l = Some i -> nth_error l i = Some p.
Proof.
  intros p. induction l as [|q l IH]; simpl; intros i H; [discriminate|].
  destruct (tpred_eqb p q) eqn:E.
  - inversion H; subst. apply tpred_eqb_eq in E. subst. reflexivity.
  - destruct (index_of p l) as [j|]; simpl in H; [|discriminate].
    inversion H; subst. simpl. apply IH. reflexivity.
Qed.

Lemma index_of_None : forall p l, index_of p l = None -> ~ In p l.
Proof.
  intros p. induction l as [|q l IH]; simpl; intros H; [tauto|].
  destruct (tpred_eqb p q) eqn:E; [discriminate|].
  destruct (index_of p l) as [j|]; simpl in H; [discriminate|].
  apply tpred_eqb_neq in E. intros [K|K]; [congruence|]. apply IH; auto.
Qed.

(* ====================================================================== *)
(* 3. predicates of the heap                                               *)
(* ====================================================================== *)

Lemma dtrans_NoDup : forall h T, NoDup (dtrans tpred_eqb h T).
Proof. intros. apply pdedup_NoDup. Qed.

Lemma dtrans_heap_preds : forall h T p, In p (dtrans tpred_eqb h T) -> In p (heap_preds h).
Proof.
  intros h T p H. unfold dtrans in H. apply (proj1 (pdedup_In _ _)) in H.
  apply in_flat_map in H. destruct H as [s [_ H]].
  unfold heap_preds. apply in_flat_map. unfold get in H.
  destruct (nth_in_or_default s h (@empty_node tpred)) as [K|K].
  - exists (nth s h (@empty_node tpred)). split; assumption.
  - rewrite K in H. simpl in H. contradiction.
Qed.

Lemma heap_preds_lits : forall h p, In p (heap_preds h) -> incl (lits_pred p) (heap_lits h).
Proof.
  intros h p H s Hs. unfold heap_lits. apply in_flat_map. exists p. split; assumption.
Qed.

Lemma bal_preds_In : forall h p, In p (bal_preds h) <-> In p (heap_preds h) /\ is_balanced p = true.
Proof.
  intros h p. unfold bal_preds. rewrite pdedup_In, filter_In. tauto.
Qed.

Lemma bal_preds_NoDup : forall h, NoDup (bal_preds h).
Proof. intro h. apply pdedup_NoDup. Qed.

(* ====================================================================== *)
(* 4. abstract tokens                                                      *)
(* ====================================================================== *)

Lemma max_len_ge : forall s l, In s l -> (length s <= max_len l)%nat.
Proof.
  intros s. induction l as [|x l IH]; simpl; intros H; [contradiction|].
  destruct H as [H|H].
  - subst. apply Nat.le_max_l.
  - etransitivity; [apply IH; assumption | apply Nat.le_max_r].
Qed.

Lemma fresh_not_in : forall l, ~ In (fresh l) l.
Proof.
  intros l H. apply max_len_ge in H. unfold fresh in H.
  rewrite repeat_length in H. lia.
Qed.

Lemma str_mem_In : forall s l, str_mem s l = true <-> In s l.
Proof.
  intros s l. unfold str_mem. rewrite existsb_exists. split.
  - intros [x [Hin He]]. apply pystr_eqb_spec in He. subst. assumption.
  - intro H. exists s. split; auto using pystr_eqb_refl.
Qed.

Lemma pystr_eqb_false : forall a b, a <> b -> pystr_eqb a b = false.
Proof.
  intros a b H. destruct (pystr_eqb a b) eqn:E; auto.
  apply pystr_eqb_spec in E. contradiction.
Qed.

(* comparing the value of the representative with a known literal *)
Lemma rep_value_eqb : forall lits t s, In s lits ->
  pystr_eqb (t_value (rep lits t)) s = pystr_eqb (t_value t) s.
Proof.
  intros lits t s Hs. unfold rep. simpl.
  destruct (str_mem (t_value t) lits) eqn:E; auto.
  rewrite (pystr_eqb_false (fresh lits) s).
  - symmetry. apply pystr_eqb_false. intro K. subst.
    apply str_mem_In in Hs. congruence.
  - intro K. subst. apply (fresh_not_in lits). assumption.
Qed.

Lemma rep_kind : forall lits t, t_kind (rep lits t) = t_kind t.
Proof. reflexivity. Qed.

Local Arguments rep : simpl never.

Theorem rep_accept_eq : forall lits p t, incl (lits_pred p) lits ->
  taccept p t = taccept p (rep lits t).
Proof.
  intros lits p t. induction p; intro Hi; cbn [taccept lits_pred] in *.
  - rewrite rep_value_eqb; [reflexivity | apply Hi; simpl; auto].
  - reflexivity.
  - unfold is_keyword. rewrite rep_kind.
    rewrite rep_value_eqb; [reflexivity | apply Hi; simpl; auto].
  - unfold is_symbol. rewrite rep_kind.
    rewrite rep_value_eqb; [reflexivity | apply Hi; simpl; auto].
  - unfold is_operator. rewrite rep_kind.
    rewrite rep_value_eqb; [reflexivity | apply Hi; simpl; auto].
  - rewrite <- IHp1, <- IHp2; [reflexivity | |];
      intros s Hs; apply Hi; apply in_or_app; auto.
  - rewrite <- IHp1, <- IHp2; [reflexivity | |];
      intros s Hs; apply Hi; apply in_or_app; auto.
  - rewrite <- IHp; auto.
  - apply IHp1. intros s Hs; apply Hi; apply in_or_app; auto.
  - reflexivity.
Qed.

Theorem rep_in_abs_tokens : forall lits t, In (rep lits t) (abs_tokens lits).
Proof.
  intros lits t. unfold abs_tokens. apply in_flat_map.
  exists (t_kind t). split.
  - unfold all_kinds. destruct (t_kind t); simpl; tauto.
  - unfold rep. apply in_map_iff. eexists. split; [reflexivity|]. apply in_or_app.
    destruct (str_mem (t_value t) lits) eqn:E.
    + left. apply str_mem_In. assumption.
    + right. simpl. auto.
Qed.

Theorem rep_accept : forall lits p t, incl (lits_pred p) lits ->
  taccept p t = taccept p (rep lits t) /\ In (rep lits t) (abs_tokens lits).
Proof.
  intros. split; [apply rep_accept_eq; assumption | apply rep_in_abs_tokens].
Qed.

(* ====================================================================== *)
(* 5. depth association lists                                              *)
(* ====================================================================== *)

Notation dof := (depth_of tpred_eqb).
Notation sdep := (set_depth tpred_eqb).

Lemma depth_of_set_depth : forall ds q d p,
  dof (sdep ds q d) p = if tpred_eqb p q then d else dof ds p.
Proof.
  induction ds as [|[q' d'] ds IH]; intros q d p; simpl.
  - reflexivity.
  - destruct (tpred_eqb q q') eqn:E; simpl.
    + apply tpred_eqb_eq in E. subst q'.
      destruct (tpred_eqb p q); reflexivity.
    + rewrite IH. destruct (tpred_eqb p q') eqn:E2; auto.
      apply tpred_eqb_eq in E2. subst q'.
      rewrite tpred_eqb_sym, E. reflexivity.
Qed.

Lemma depth_of_set_same : forall ds q d, dof (sdep ds q d) q = d.
Proof. intros. rewrite depth_of_set_depth, tpred_eqb_refl. reflexivity. Qed.

Lemma depth_of_set_other : forall ds q d p, p <> q -> dof (sdep ds q d) p = dof ds p.
Proof.
  intros. rewrite depth_of_set_depth.
  apply tpred_eqb_neq in H. rewrite H. reflexivity.
Qed.

(* the step function folded by consume, and its depth component *)
Definition cstep (x : token) (acc : res (list (tpred * Z) * option tpred)) (p : tpred)
  : res (list (tpred * Z) * option tpred) :=
  match acc with
  | Err k => Err k
  | OK (ds, found) =>
      let '(b, d') := taccept_st p (dof ds p) x in
      let ds' := sdep ds p d' in
      if b then match found with Some _ => Err ValueErrorAmbiguous | None => OK (ds', Some p) end
      else OK (ds', found)
  end.

Definition dstep (x : token) (ds : list (tpred * Z)) (p : tpred) : list (tpred * Z) :=
  sdep ds p (snd (taccept_st p (dof ds p) x)).
Definition upd_depths (x : token) (cands : list tpred) (ds : list (tpred * Z)) :=
  fold_left (dstep x) cands ds.

Definition consume_tk := @consume tpred token tpred_eqb taccept_st.

Lemma consume_unfold : forall a pt x,
  consume_tk a pt x =
  let h := a_heap a in
  let trans := dtrans tpred_eqb h (p_state pt) in
  let open := filter (fun p => 0 <? dof (p_depths pt) p) trans in
  let cands := match open with [] => trans | _ => open end in
  match fold_left (cstep x) cands (OK (p_depths pt, None)) with
  | Err k => Err k
  | OK (_, None) => OK None
  | OK (ds, Some p) =>
      match closure h (move tpred_eqb h (p_state pt) p) with
      | Err k => Err k
      | OK T' => OK (Some (mkPat (p_start pt) T' ds (S (p_len pt))))
      end
  end.
Proof. reflexivity. Qed.

Lemma fold_cstep_err : forall x l k, fold_left (cstep x) l (Err k) = Err k.
Proof. induction l; simpl; auto. Qed.

Lemma fold_cstep : forall x ds0 cands ds found,
  NoDup cands ->
  (forall p, In p cands -> dof ds p = dof ds0 p) ->
  fold_left (cstep x) cands (OK (ds, found)) =
  match found, filter (fun p => fst (taccept_st p (dof ds0 p) x)) cands with
  | None, [] => OK (upd_depths x cands ds, None)
  | None, [p] => OK (upd_depths x cands ds, Some p)
  | Some q, [] => OK (upd_depths x cands ds, Some q)
  | _, _ => Err ValueErrorAmbiguous
  end.
Proof.
  intros x ds0. induction cands as [|p t IH]; intros ds found Hnd Hd.
  - simpl. destruct found; reflexivity.
  - inversion Hnd as [|? ? Hnot Hnd']; subst.
    assert (Hp : dof ds p = dof ds0 p) by (apply Hd; simpl; auto).
    cbn [fold_left filter]. unfold cstep at 2. rewrite <- Hp.
    unfold upd_depths. cbn [fold_left]. unfold dstep at 2 4 6.
    destruct (taccept_st p (dof ds p) x) as [b d'] eqn:E. cbn [fst snd].
    assert (Hd' : forall p0, In p0 t -> dof (sdep ds p d') p0 = dof ds0 p0).
    { intros p0 Hin. rewrite depth_of_set_other.
      - apply Hd. simpl; auto.
      - intro K; subst. contradiction. }
    destruct b.
    + destruct found as [q|].
      * rewrite fold_cstep_err. reflexivity.
      * rewrite (IH _ _ Hnd' Hd').
        destruct (filter (fun p0 => fst (taccept_st p0 (dof ds0 p0) x)) t); reflexivity.
    + rewrite (IH _ _ Hnd' Hd'). reflexivity.
Qed.

Lemma upd_depths_spec : forall x cands ds p,
  NoDup cands ->
  dof (upd_depths x cands ds) p =
  if pmem tpred_eqb p cands then snd (taccept_st p (dof ds p) x) else dof ds p.
Proof.
  intros x. induction cands as [|q t IH]; intros ds p Hnd.
  - reflexivity.
  - inversion Hnd as [|? ? Hnot Hnd']; subst.
    unfold upd_depths in *. cbn [fold_left pmem]. rewrite (IH _ _ Hnd').
    unfold dstep. destruct (tpred_eqb p q) eqn:E; cbn [orb].
    + apply tpred_eqb_eq in E. subst q.
      apply pmem_false in Hnot. rewrite Hnot.
      apply depth_of_set_same.
    + apply tpred_eqb_neq in E. rewrite depth_of_set_other by assumption.
      reflexivity.
Qed.

(* ====================================================================== *)
(* 6. abstraction of one predicate                                         *)
(* ====================================================================== *)

Lemma class_of_pos : forall d, dclass_eqb (class_of d) DPos = (0 <? d).
Proof.
  intro d. unfold class_of.
  destruct (d <? 0) eqn:E1; [|destruct (d =? 0) eqn:E2]; simpl; symmetry.
  - apply Z.ltb_lt in E1. apply Z.ltb_ge. lia.
  - apply Z.eqb_eq in E2. apply Z.ltb_ge. lia.
  - apply Z.ltb_ge in E1. apply Z.eqb_neq in E2. apply Z.ltb_lt. lia.
Qed.

Lemma class_of_cases : forall d,
  (d < 0 /\ class_of d = DNeg) \/ (d = 0 /\ class_of d = DZero) \/ (0 < d /\ class_of d = DPos).
Proof.
  intro d. unfold class_of.
  destruct (d <? 0) eqn:E1; [|destruct (d =? 0) eqn:E2].
  - apply Z.ltb_lt in E1. auto.
  - apply Z.eqb_eq in E2. auto.
  - apply Z.ltb_ge in E1. apply Z.eqb_neq in E2. right; right. split; [lia|reflexivity].
Qed.

(* the accept decision only depends on the class and on the abstract token *)
Lemma abs_accept_sound : forall lits p d x, incl (lits_pred p) lits ->
  fst (taccept_st p d x) = abs_accept p (class_of d) (rep lits x).
Proof.
  intros lits p d x Hi.
  destruct p; try (cbn [taccept_st abs_accept fst]; apply rep_accept_eq; assumption).
  cbn [taccept_st abs_accept].
  cbn [lits_pred] in Hi.
  rewrite <- (rep_accept_eq lits p1) by (intros s Hs; apply Hi; apply in_or_app; auto).
  rewrite <- (rep_accept_eq lits p2) by (intros s Hs; apply Hi; apply in_or_app; auto).
  destruct (taccept p1 x); [reflexivity|].
  destruct (class_of_cases d) as [[H1 H2]|[[H1 H2]|[H1 H2]]]; rewrite H2;
    destruct (taccept p2 x); cbn [fst].
  - destruct (d - 1 <? 0) eqn:E; [reflexivity|]. apply Z.ltb_ge in E. lia.
  - apply Z.ltb_ge. lia.
  - destruct (d - 1 <? 0) eqn:E; [reflexivity|]. apply Z.ltb_ge in E. lia.
  - apply Z.ltb_ge. lia.
  - destruct (d - 1 <? 0) eqn:E; [|reflexivity]. apply Z.ltb_lt in E. lia.
  - apply Z.ltb_lt. lia.
Qed.

(* the class of the new depth is one of the abstract successor classes *)
Lemma abs_classes_sound : forall lits p d x, incl (lits_pred p) lits ->
  In (class_of (snd (taccept_st p d x))) (abs_classes p (class_of d) (rep lits x)).
Proof.
  intros lits p d x Hi.
  destruct p; try (cbn [taccept_st abs_classes snd]; left; reflexivity).
  cbn [taccept_st abs_classes].
  cbn [lits_pred] in Hi.
  rewrite <- (rep_accept_eq lits p1) by (intros s Hs; apply Hi; apply in_or_app; auto).
  rewrite <- (rep_accept_eq lits p2) by (intros s Hs; apply Hi; apply in_or_app; auto).
  destruct (taccept p1 x).
  - cbn [snd].
    destruct (class_of_cases d) as [[H1 H2]|[[H1 H2]|[H1 H2]]]; rewrite H2;
      destruct (class_of_cases (d + 1)) as [[K1 K2]|[[K1 K2]|[K1 K2]]]; rewrite K2;
      simpl; auto; lia.
  - destruct (taccept p2 x).
    + assert (E : snd (if d - 1 <? 0 then (false, d - 1) else (true, d - 1)) = d - 1)
        by (destruct (d - 1 <? 0); reflexivity).
      rewrite E.
      destruct (class_of_cases d) as [[H1 H2]|[[H1 H2]|[H1 H2]]]; rewrite H2;
        destruct (class_of_cases (d - 1)) as [[K1 K2]|[[K1 K2]|[K1 K2]]]; rewrite K2;
        simpl; auto; lia.
    + cbn [snd]. left. reflexivity.
Qed.

(* stateless predicates preserve their depth *)
Lemma taccept_st_stateless : forall p d x, is_balanced p = false -> snd (taccept_st p d x) = d.
Proof. intros p d x H. destruct p; try reflexivity. discriminate. Qed.

(* ====================================================================== *)
(* 7. the simulation relation                                              *)
(* ====================================================================== *)

Definition related (a : automaton tpred) (pt : pat tpred) (c : config) : Prop :=
  p_state pt = fst c /\
  length (snd c) = length (bal_preds (a_heap a)) /\
  (forall i p, nth_error (bal_preds (a_heap a)) i = Some p ->
     nth i (snd c) DZero = class_of (dof (p_depths pt) p)) /\
  (forall p, is_balanced p = false -> dof (p_depths pt) p = 0).

Definition classes_of (ds : list (tpred * Z)) (bal : list tpred) : list dclass :=
  map (fun b => class_of (dof ds b)) bal.

Lemma related_classes : forall a pt c, related a pt c ->
  snd c = classes_of (p_depths pt) (bal_preds (a_heap a)).
Proof.
  intros a pt c (_ & Hlen & Hnth & _). unfold classes_of.
  apply (nth_ext _ _ DZero (class_of (dof (p_depths pt) PName))).
  - rewrite map_length. assumption.
  - intros n Hn. rewrite Hlen in Hn.
    rewrite (map_nth (fun b => class_of (dof (p_depths pt) b))).
    apply Hnth. apply nth_error_nth'. assumption.
Qed.

Lemma related_intro : forall a pt T,
  p_state pt = T ->
  (forall p, is_balanced p = false -> dof (p_depths pt) p = 0) ->
  related a pt (T, classes_of (p_depths pt) (bal_preds (a_heap a))).
Proof.
  intros a pt T HT Hz. unfold related, classes_of. cbn [fst snd].
  split; [assumption|]. split; [apply map_length|]. split; [|assumption].
  intros i p Hp. apply nth_error_nth.
  apply (map_nth_error (fun b => class_of (dof (p_depths pt) b))). assumption.
Qed.

(* reading the class of a heap predicate out of a related configuration *)
Lemma cls_of_related : forall h ds p,
  (forall q, is_balanced q = false -> dof ds q = 0) ->
  In p (heap_preds h) ->
  cls_of (bal_preds h) (classes_of ds (bal_preds h)) p = class_of (dof ds p).
Proof.
  intros h ds p Hz Hin. unfold cls_of.
  destruct (index_of p (bal_preds h)) as [i|] eqn:E.
  - apply index_of_Some in E. apply nth_error_nth. unfold classes_of.
    apply (map_nth_error (fun b => class_of (dof ds b))). assumption.
  - apply index_of_None in E.
    destruct (is_balanced p) eqn:B.
    + exfalso. apply E. apply bal_preds_In. auto.
    + rewrite Hz by assumption. reflexivity.
Qed.

(* the vector of new classes is one of the abstract successor vectors *)
Lemma update_classes_sound : forall lits x cands ds ds' bal,
  (forall b, In b bal ->
     if pmem tpred_eqb b cands
     then In (class_of (dof ds' b)) (abs_classes b (class_of (dof ds b)) (rep lits x))
     else class_of (dof ds' b) = class_of (dof ds b)) ->
  In (classes_of ds' bal) (update_classes bal (classes_of ds bal) cands (rep lits x)).
Proof.
  intros lits x cands ds ds'. induction bal as [|b bal IH]; intro H.
  - simpl. auto.
  - cbn [classes_of map update_classes]. apply in_flat_map.
    exists (class_of (dof ds' b)). split.
    + specialize (H b (or_introl eq_refl)).
      destruct (pmem tpred_eqb b cands); [assumption|]. left. symmetry. assumption.
    + apply in_map. apply IH. intros b0 Hb0. apply H. right. assumption.
Qed.

(* ====================================================================== *)
(* 8. one step of the matcher                                              *)
(* ====================================================================== *)

Lemma cands_sub : forall (f : tpred -> bool) trans p,
  In p (match filter f trans with [] => trans | _ => filter f trans end) -> In p trans.
Proof.
  intros f trans p. destruct (filter f trans) as [|q l] eqn:E; auto.
  rewrite <- E. intro H. apply filter_In in H. tauto.
Qed.

Lemma cands_NoDup : forall (f : tpred -> bool) trans, NoDup trans ->
  NoDup (match filter f trans with [] => trans | _ => filter f trans end).
Proof.
  intros f trans H. destruct (filter f trans) as [|q l] eqn:E; auto.
  rewrite <- E. apply NoDup_filter. assumption.
Qed.

(* strong form: under a checked invariant, consume never fails at all *)
Theorem consume_step : forall a S pt c x,
  inv_check_aut a S = true -> related a pt c -> config_mem c S = true ->
  consume_tk a pt x = OK None \/
  exists pt' c', consume_tk a pt x = OK (Some pt') /\ related a pt' c' /\ config_mem c' S = true.
Proof.
  intros a S pt c x Hinv Hrel Hmem.
  pose proof (related_classes _ _ _ Hrel) as Hcls.
  destruct Hrel as (Hst & Hlen & Hnth & Hz).
  destruct c as [T cls]. cbn [fst snd] in *. subst T cls.
  unfold inv_check_aut in Hinv. apply andb_true_iff in Hinv. destruct Hinv as [_ Hinv].
  rewrite forallb_forall in Hinv. apply config_mem_In in Hmem.
  specialize (Hinv _ Hmem). apply andb_true_iff in Hinv. destruct Hinv as [_ Hinv].
  rewrite forallb_forall in Hinv.
  specialize (Hinv _ (rep_in_abs_tokens (heap_lits (a_heap a)) x)).
  unfold abs_consume in Hinv. cbn [fst snd] in Hinv.
  rewrite consume_unfold. cbv zeta.
  set (h := a_heap a) in *. set (bal := bal_preds h) in *. set (lits := heap_lits h) in *.
  set (ds := p_depths pt) in *.
  set (trans := dtrans tpred_eqb h (p_state pt)) in *.
  assert (Htr : forall p, In p trans -> In p (heap_preds h))
    by (intros p Hp; eapply dtrans_heap_preds; exact Hp).
  assert (Hcl : forall p, In p trans ->
            cls_of bal (classes_of ds bal) p = class_of (dof ds p))
    by (intros p Hp; apply cls_of_related; auto).
  assert (Hopen : filter (fun p => dclass_eqb (cls_of bal (classes_of ds bal) p) DPos) trans
                  = filter (fun p => 0 <? dof ds p) trans).
  { apply filter_ext_in. intros p Hp. rewrite Hcl by assumption. apply class_of_pos. }
  rewrite Hopen in Hinv. clear Hopen.
  pose proof (cands_sub (fun p => 0 <? dof ds p) trans) as Hsub.
  pose proof (cands_NoDup (fun p => 0 <? dof ds p) trans (dtrans_NoDup _ _)) as Hnd.
  set (cands := match filter (fun p => 0 <? dof ds p) trans with
                | [] => trans | _ => filter (fun p => 0 <? dof ds p) trans end) in *.
  assert (Hacc : filter (fun p => abs_accept p (cls_of bal (classes_of ds bal) p) (rep lits x)) cands
                 = filter (fun p => fst (taccept_st p (dof ds p) x)) cands).
  { apply filter_ext_in. intros p Hp. rewrite Hcl by auto. symmetry.
    apply abs_accept_sound. apply heap_preds_lits. auto. }
  rewrite Hacc in Hinv. clear Hacc.
  rewrite (fold_cstep x ds cands ds None Hnd (fun _ _ => eq_refl)).
  destruct (filter (fun p => fst (taccept_st p (dof ds p) x)) cands) as [|p [|p2 l]] eqn:EF.
  - left. reflexivity.
  - right.
    destruct (closure h (move tpred_eqb h (p_state pt) p)) as [T'|k] eqn:EC;
      [|discriminate Hinv].
    set (ds' := upd_depths x cands ds).
    exists (mkPat (p_start pt) T' ds' (Datatypes.S (p_len pt))), (T', classes_of ds' bal).
    split; [reflexivity|]. split.
    + apply (related_intro a (mkPat (p_start pt) T' ds' (Datatypes.S (p_len pt)))).
      * reflexivity.
      * intros q Hq. cbn [p_depths]. unfold ds'. rewrite upd_depths_spec by assumption.
        destruct (pmem tpred_eqb q cands).
        -- rewrite taccept_st_stateless by assumption. apply Hz. assumption.
        -- apply Hz. assumption.
    + rewrite forallb_forall in Hinv. apply Hinv.
      apply (in_map (fun cls' => (T', cls'))).
      apply update_classes_sound. intros b Hb.
      unfold ds'. rewrite upd_depths_spec by assumption.
      destruct (pmem tpred_eqb b cands); [|reflexivity].
      apply abs_classes_sound. apply heap_preds_lits.
      apply bal_preds_In in Hb. tauto.
  - discriminate Hinv.
Qed.

Theorem consume_sound : forall a S pt c x,
  inv_check_aut a S = true -> related a pt c -> config_mem c S = true ->
  consume_tk a pt x <> Err ValueErrorAmbiguous /\
  (forall pt', consume_tk a pt x = OK (Some pt') ->
     exists c', related a pt' c' /\ config_mem c' S = true).
Proof.
  intros a S pt c x Hinv Hrel Hmem.
  destruct (consume_step a S pt c x Hinv Hrel Hmem) as [H|(pt1 & c1 & H & Hr & Hm)];
    rewrite H; split; try discriminate.
  - intros pt' K. inversion K; subst. exists c1. auto.
Qed.

(* consume never raises any error under a checked invariant *)
Theorem consume_total : forall a S pt c x,
  inv_check_aut a S = true -> related a pt c -> config_mem c S = true ->
  exists r, consume_tk a pt x = OK r.
Proof.
  intros a S pt c x Hinv Hrel Hmem.
  destruct (consume_step a S pt c x Hinv Hrel Hmem) as [H|(pt1 & c1 & H & _)];
    rewrite H; eauto.
Qed.

(* ====================================================================== *)
(* 9. the start configuration                                              *)
(* ====================================================================== *)

Theorem start_related : forall a i,
  related a (new_pat a i) (start_config a (bal_preds (a_heap a))).
Proof.
  intros a i. unfold related, start_config, new_pat. cbn [fst snd p_state p_depths].
  split; [reflexivity|]. split; [apply map_length|]. split; [|reflexivity].
  intros j p Hp. cbn [depth_of]. apply nth_error_nth.
  apply (map_nth_error (fun _ : tpred => DZero)) in Hp. exact Hp.
Qed.

Lemma inv_check_start : forall a S, inv_check_aut a S = true ->
  config_mem (start_config a (bal_preds (a_heap a))) S = true.
Proof.
  intros a S H. unfold inv_check_aut in H. apply andb_true_iff in H. tauto.
Qed.

(* a pattern is covered when it is related to a configuration of the invariant *)
Definition covered (a : automaton tpred) (S : list config) (pt : pat tpred) : Prop :=
  exists c, related a pt c /\ config_mem c S = true.

Lemma new_pat_covered : forall a S i, inv_check_aut a S = true -> covered a S (new_pat a i).
Proof.
  intros a S i H. exists (start_config a (bal_preds (a_heap a))).
  split; [apply start_related | apply inv_check_start; assumption].
Qed.

Lemma consume_covered : forall a S pt x, inv_check_aut a S = true -> covered a S pt ->
  consume_tk a pt x = OK None \/
  exists pt', consume_tk a pt x = OK (Some pt') /\ covered a S pt'.
Proof.
  intros a S pt x Hinv (c & Hr & Hm).
  destruct (consume_step a S pt c x Hinv Hr Hm) as [H|(pt1 & c1 & H & Hr1 & Hm1)]; auto.
  right. exists pt1. split; auto. exists c1. auto.
Qed.

(* ====================================================================== *)
(* 10. corollaries: match, starts_with, find_all                           *)
(* ====================================================================== *)

Definition run_all_tk := @run_all tpred token tpred_eqb taccept_st.
Definition run_prefix_tk := @run_prefix tpred token tpred_eqb taccept_st.
Definition step_active_tk := @step_active tpred token tpred_eqb taccept_st.
Definition scan_loop_tk := @scan_loop tpred token tpred_eqb taccept_st.

Theorem run_all_covered : forall a S w pt, inv_check_aut a S = true -> covered a S pt ->
  exists r, run_all_tk a pt w = OK r.
Proof.
  intros a S. induction w as [|x w IH]; intros pt Hinv Hc; cbn [run_all_tk run_all].
  - eauto.
  - fold consume_tk.
    destruct (consume_covered a S pt x Hinv Hc) as [H|(pt' & H & Hc')]; rewrite H.
    + eauto.
    + apply IH; assumption.
Qed.

Theorem run_prefix_covered : forall a S w pt, inv_check_aut a S = true -> covered a S pt ->
  exists r, run_prefix_tk a pt w = OK r.
Proof.
  intros a S. induction w as [|x w IH]; intros pt Hinv Hc; cbn [run_prefix_tk run_prefix].
  - eauto.
  - fold consume_tk.
    destruct (consume_covered a S pt x Hinv Hc) as [H|(pt' & H & Hc')]; rewrite H.
    + eauto.
    + destruct (is_accepting a pt'); [eauto|]. apply IH; assumption.
Qed.

Theorem run_all_no_amb : forall a S w i, inv_check_aut a S = true ->
  run_all tpred_eqb taccept_st a (new_pat a i) w <> Err ValueErrorAmbiguous.
Proof.
  intros a S w i Hinv.
  destruct (run_all_covered a S w (new_pat a i) Hinv (new_pat_covered a S i Hinv)) as [r H].
  unfold run_all_tk in H. rewrite H. discriminate.
Qed.

Theorem run_prefix_no_amb : forall a S w i, inv_check_aut a S = true ->
  run_prefix tpred_eqb taccept_st a (new_pat a i) w <> Err ValueErrorAmbiguous.
Proof.
  intros a S w i Hinv.
  destruct (run_prefix_covered a S w (new_pat a i) Hinv (new_pat_covered a S i Hinv)) as [r H].
  unfold run_prefix_tk in H. rewrite H. discriminate.
Qed.

Theorem starts_with_dfa_no_amb : forall a S w, inv_check_aut a S = true ->
  starts_with_dfa tpred_eqb taccept_st a w <> Err ValueErrorAmbiguous.
Proof. intros. unfold starts_with_dfa. eapply run_prefix_no_amb; eassumption. Qed.

Lemma step_active_covered : forall a S idx x active, inv_check_aut a S = true ->
  Forall (covered a S) active ->
  exists act' cs, step_active_tk a idx x active = OK (act', cs) /\ Forall (covered a S) act'.
Proof.
  intros a S idx x. induction active as [|pt rest IH]; intros Hinv Hall;
    cbn [step_active_tk step_active].
  - exists [], []. split; [reflexivity | constructor].
  - fold consume_tk. fold step_active_tk.
    inversion Hall as [|? ? Hc Hrest]; subst.
    destruct (IH Hinv Hrest) as (act' & cs & E & Hact). rewrite E.
    destruct (consume_covered a S pt x Hinv Hc) as [H|(pt' & H & Hc')]; rewrite H.
    + destruct (is_accepting a pt); eauto.
    + exists (pt' :: act'), cs. split; [reflexivity|]. constructor; assumption.
Qed.

Theorem scan_loop_covered : forall a S w idx active cands, inv_check_aut a S = true ->
  Forall (covered a S) active ->
  exists r, scan_loop_tk a idx w active cands = OK r.
Proof.
  intros a S. induction w as [|x w IH]; intros idx active cands Hinv Hall;
    cbn [scan_loop_tk scan_loop].
  - eauto.
  - fold step_active_tk. fold scan_loop_tk.
    assert (Hall' : Forall (covered a S) (active ++ [new_pat a idx])).
    { apply Forall_app. split; [assumption|]. constructor; [|constructor].
      apply new_pat_covered. assumption. }
    destruct (step_active_covered a S idx x _ Hinv Hall') as (act' & cs & E & Hact).
    rewrite E. apply IH; assumption.
Qed.

Theorem all_candidates_ok : forall a S w, inv_check_aut a S = true ->
  exists cs, all_candidates tpred_eqb taccept_st a w = OK cs.
Proof.
  intros a S w Hinv. unfold all_candidates.
  apply (scan_loop_covered a S w O [] [] Hinv). constructor.
Qed.

Lemma select_leftmost_no_amb : forall (f : cand -> res bool),
  (forall c, f c <> Err ValueErrorAmbiguous) ->
  forall cs last_end, select_leftmost f last_end cs <> Err ValueErrorAmbiguous.
Proof.
  intros f Hf. induction cs as [|c rest IH]; intros last_end; cbn [select_leftmost].
  - discriminate.
  - destruct (f c) as [[|]|k] eqn:E.
    + destruct (Nat.leb last_end (fst c)); [|apply IH].
      destruct (select_leftmost f (snd c) rest) as [r|k] eqn:E2; [discriminate|].
      intro K. inversion K; subst. apply (IH (snd c)). assumption.
    + apply IH.
    + intro K. inversion K; subst. apply (Hf c). assumption.
Qed.

Theorem find_all_no_amb : forall a S w, inv_check_aut a S = true ->
  forall f, (forall c, f c <> Err ValueErrorAmbiguous) ->
  find_all_dfa tpred_eqb taccept_st a w f <> Err ValueErrorAmbiguous.
Proof.
  intros a S w Hinv f Hf. unfold find_all_dfa.
  destruct (all_candidates_ok a S w Hinv) as [cs E]. rewrite E.
  apply select_leftmost_no_amb. assumption.
Qed.

(* end-to-end: a pattern that passes unambiguous_check never raises the
   ambiguity error in match / starts_with / find_all *)
Theorem unambiguous_check_sound : forall e w, unambiguous_check e = true ->
  tk_match e w <> Err ValueErrorAmbiguous /\
  tk_starts_with e w <> Err ValueErrorAmbiguous /\
  (forall f, (forall c, f c <> Err ValueErrorAmbiguous) ->
     tk_find_all e w f <> Err ValueErrorAmbiguous).
Proof.
  intros e w H. unfold unambiguous_check in H.
  unfold tk_match, match_, tk_starts_with, starts_with, tk_find_all, find_all.
  destruct (to_dfa e) as [a|k] eqn:E; [|discriminate].
  split; [|split].
  - pose proof (run_all_no_amb a _ w O H) as K.
    destruct (run_all tpred_eqb taccept_st a (new_pat a 0) w) as [[pt|]|k]; try discriminate.
    intro K'. inversion K'; subst. apply K. reflexivity.
  - eapply starts_with_dfa_no_amb. eassumption.
  - intros f Hf. eapply find_all_no_amb; eassumption.
Qed.

Print Assumptions tpred_eqb_spec.
Print Assumptions rep_accept.
Print Assumptions consume_sound.
Print Assumptions consume_total.
Print Assumptions start_related.
Print Assumptions run_all_no_amb.
Print Assumptions run_prefix_no_amb.
Print Assumptions find_all_no_amb.
Print Assumptions unambiguous_check_sound.
