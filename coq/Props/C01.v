(* C01 — exact function discovery, span and length on canonical programs.
   PARTIAL only in that the lexers are oracles and that the formal grammars do not cover every construct the
   generator draws; the layers, from the bottom:
   PIPELINE (`C01_brace_pipeline_partial`, kept for reference): GIVEN that the matcher returns exactly the headers of
   the function descriptors (hypothesis `extract_headers l code = OK hs /\ Permutation hs (map header_of ds)`),
   brace matching, the reverse-order pairing with block deletion, the nesting fold and
   the line counting report exactly the measurements the property prescribes
   (Scope/Spec.v: one per descriptor, in source order, name = the name token, span from
   the header's first token to just past the closing brace, length = distinct lines of
   the function's own tokens, tokens of nested functions excluded).
   HEADER RECOGNITION (Scope/HeaderSpec.v, Scope/LexShapes.v; Scope/HeaderProofs*.v,
   Scope/ShapeProofs*.v): for all seven languages the matcher, run on the captured
   patterns, is proved to return exactly the *lexically specified* headers — e.g. for the
   C family every position where an identifier is followed by one or more balanced
   parenthesis groups and then "{", leftmost first, non-overlapping; for Python
   `[async] def identifier ( ... )`; for JavaScript/TypeScript `[function] identifier (...)`
   and `[const] identifier = [async] (...) =>`; Java with `throws ...`, TypeScript with a
   return type — so the opaque hypothesis above is replaced by the decidable condition
   `lexically_canonical_of` ("those shapes occur exactly at the function headers"), which
   the harness decides inside Coq (Scope/SpecCheck.v, proved sound) on generated programs.
   PYTHON (Scope/PySpec.v, Scope/PySpecProofs*.v): the same end-to-end statement for the
   indentation family (`C01_python`).
   FORMAL GRAMMAR (Scope/Grammar.v, Scope/GrammarProofs*.v): for the C family a token-level
   canonical grammar is formalised and every program it generates is proved to satisfy both
   hypotheses: `C01_grammar_cpp`, `C01_grammar_c` are unconditional on the descriptor side; Scope/GrammarAll.v
   and Scope/GrammarAllProofs*.v do the same for all six brace languages (`C01_grammar_brace`).
   Scope/PyGrammar.v and Scope/PyGrammarProofs*.v do it for Python (`C01_grammar_python`).
   Scope/GrammarParse.v is an executable recogniser of the brace grammar, proved sound (`C01_recognised_programs`).
   The brace grammar covers statements, control statements and class-like declarations, bare blocks, `keyword :`
   labels, brace initialisers (with calls inside), callback statements (JavaScript / TypeScript), anonymous classes and
   object initialisers after `new` (Java / C#), TypeScript return types with parenthesis groups, flat brace groups in
   JavaScript / TypeScript parameter lists (a per-depth state machine says where one may start) and `async` among the
   words before a header; the Python grammar covers multi-line headers.
   MISSING: constructs the formal grammars still leave out (nested or non-flat brace groups inside parameter lists,
   callbacks and `new` expressions in other positions than a statement of their own, Python backslash continuations:
   covered in the hypothesis form and by the generator only), and the lexers themselves (oracles under the C16
   contract).
   Proofs: Scope/SpecProofs{Dyck,Pairing,Fold,Count,}.v, Scope/HeaderProofs{Dfa,Select,}.v. *)
From Verif Require Import Base Token Lex LexProofs Headers Blocks Pairing Fold ScanFile Spec
  SpecProofsDyck SpecProofsPairing SpecProofsFold SpecProofsCount SpecProofs
  Regex TokEngine HeaderSpec HeaderProofsDfa HeaderProofsSelect HeaderProofs SpecCheck
  LexShapes ShapeProofs PySpec PySpecProofsLines PySpecProofs PySpecCheck PyLexical GenCompare TieProofs Grammar GrammarProofs GrammarAll GrammarAllProofsWf GrammarAllProofs PyGrammar PyGrammarProofs GrammarParse GrammarParseProofs PyGrammarParse PyGrammarParseProofs.
From Coq Require Import Sorted Permutation.

Theorem C01_brace_pipeline_partial : forall (l : language) toks ds,
  l <> LPython -> lang_nested l = true ->
  let code := filter_tokens false toks in
  StronglySorted pos_lt code ->                       (* guaranteed by the lexing model: C16 *)
  filter_nocl_comment_tokens toks = [] ->             (* suppression markers: C17 *)
  wf_descs code ds ->
  (exists hs, extract_headers l code = OK hs /\ Permutation hs (map header_of ds)) ->   (* header recognition: NOT proved *)
  scan_file l toks = expected_all code ds ds.
Proof. exact C01_brace_pipeline. Qed.

(* C: functions do not nest *)
Theorem C01_c_pipeline_partial : forall (l : language) toks ds,
  l <> LPython -> lang_nested l = false ->
  let code := filter_tokens false toks in
  StronglySorted pos_lt code -> filter_nocl_comment_tokens toks = [] -> wf_descs code ds ->
  (forall c d, In c ds -> In d ds -> ~ nested_in c d) ->
  (exists hs, extract_headers l code = OK hs /\ Permutation hs (map header_of ds)) ->
  scan_file l toks = expected_all code ds ds.
Proof. exact C01_brace_pipeline_flat. Qed.

(* the brace matcher returns exactly the Dyck-matched pairs *)
Theorem C01_blocks_are_dyck : forall ts i j,
  In (i, S j) (balanced_from 0 ts lbrace rbrace []) <-> matched ts i j.
Proof. exact blocks_are_dyck. Qed.

(* every header is paired with its own body, whatever lies around and inside it *)
Theorem C01_pairing : forall ts ds hs, StronglySorted pos_lt ts -> wf_descs ts ds ->
  Permutation hs (map header_of ds) ->
  build_scopes_from ts hs (get_blocks ts) = map scope_of ds.
Proof. exact pairing_spec. Qed.

(* ---- header recognition: the matcher on the captured C-family pattern = the lexical specification *)
Theorem C01_headers_cfamily : forall ts : list token,
  get_headers ts cfamily_pattern (Some cfamily_followup) = OK (lexical_headers ts) /\
  extract_headers LC ts = OK (lexical_headers ts) /\
  extract_headers LCpp ts = OK (lexical_headers ts) /\
  extract_headers LCSharp ts = OK (filter (fun h => negb (java_drop ts h)) (lexical_headers ts)).
Proof.
  intros ts. split; [exact (cfamily_headers_spec ts)|]. split; [exact (extract_headers_C ts)|].
  split; [exact (extract_headers_Cpp ts)|exact (extract_headers_CSharp ts)].
Qed.

(* ---- end to end, with only lexical hypotheses (each decidable; decided in Coq on every generated program) *)
Theorem C01_cpp : forall toks ds,
  let code := filter_tokens false toks in
  StronglySorted pos_lt code -> filter_nocl_comment_tokens toks = [] ->
  wf_descs code ds -> lexically_canonical code ds ->
  scan_file LCpp toks = expected_all code ds ds.
Proof. exact C01_cpp_lexical. Qed.

Theorem C01_c : forall toks ds,
  let code := filter_tokens false toks in
  StronglySorted pos_lt code -> filter_nocl_comment_tokens toks = [] ->
  wf_descs code ds -> (forall c d, In c ds -> In d ds -> ~ nested_in c d) -> lexically_canonical code ds ->
  scan_file LC toks = expected_all code ds ds.
Proof. exact C01_c_lexical. Qed.

Theorem C01_csharp : forall toks ds,
  let code := filter_tokens false toks in
  StronglySorted pos_lt code -> filter_nocl_comment_tokens toks = [] ->
  wf_descs code ds ->
  filter (fun h => negb (java_drop code h)) (lexical_headers code) = map header_of ds ->
  scan_file LCSharp toks = expected_all code ds ds.
Proof. exact C01_csharp_lexical. Qed.

(* ---- all seven languages: the matcher on the captured patterns = the lexical specification of LexShapes.v *)
Theorem C01_headers_lexical : forall (l : language) (ts : list token),
  extract_headers l ts = OK (lexical_headers_of l ts).
Proof. exact extract_headers_lexical. Qed.

(* ---- the six brace languages end to end, with only lexical hypotheses *)
Theorem C01_brace : forall (l : language) toks ds,
  l <> LPython -> lang_nested l = true ->
  let code := filter_tokens false toks in
  StronglySorted pos_lt code -> filter_nocl_comment_tokens toks = [] ->
  wf_descs code ds -> lexically_canonical_of l code ds ->
  scan_file l toks = expected_all code ds ds.
Proof. exact C01_brace_lexical. Qed.

Theorem C01_flat : forall (l : language) toks ds,
  l <> LPython -> lang_nested l = false ->
  let code := filter_tokens false toks in
  StronglySorted pos_lt code -> filter_nocl_comment_tokens toks = [] -> wf_descs code ds ->
  (forall c d, In c ds -> In d ds -> ~ nested_in c d) -> lexically_canonical_of l code ds ->
  scan_file l toks = expected_all code ds ds.
Proof. exact C01_flat_lexical. Qed.

(* ---- Python: the suite of a definition is the maximal run of following lines indented deeper than its first
        token (Scope/PySpec.v); end to end with lexical hypotheses only ---- *)
Theorem C01_python : forall toks ds,
  let code := filter_tokens false toks in
  StronglySorted pos_lt code -> filter_nocl_comment_tokens toks = [] ->
  py_wf_descs code ds -> py_lexically_canonical code ds ->
  scan_file LPython toks = py_expected_all code ds ds.
Proof. exact C01_python_lexical. Qed.

(* the indentation-based block extraction returns exactly the suites *)
Theorem C01_python_blocks : forall code ds,
  StronglySorted pos_lt code -> nocont code -> Forall (py_shape code) ds ->
  extract_blocks LPython code (map py_header_of ds) = OK (map py_body_of ds).
Proof. exact py_extract_blocks_spec. Qed.

Theorem C01_python_hypotheses_decidable : forall ts ds,
  (py_wf_descs_b ts ds = true -> py_wf_descs ts ds) /\
  (py_lexically_canonical_b ts ds = true -> py_lexically_canonical ts ds).
Proof. intros ts ds. split; [apply py_wf_descs_b_sound|apply py_lexically_canonical_b_sound]. Qed.

(* ---- a FORMAL canonical grammar (Scope/Grammar.v: token-level, C family without brace groups in parameter lists:
        statements ending in ";", control statements "keyword [(...)] { items }", functions "[type words] name (...)+
        { items }", nested where the language nests): for every program it generates, with the descriptors it generates,
        C01 holds with no hypothesis left but the lexer's (C16) and the absence of markers (C17) ---- *)
Theorem C01_grammar_cpp : forall toks ds, let code := filter_tokens false toks in
  canonical_program true code ds -> StronglySorted pos_lt code -> filter_nocl_comment_tokens toks = [] ->
  scan_file LCpp toks = expected_all code ds ds.
Proof. exact C01_cpp_grammar. Qed.
Theorem C01_grammar_c : forall toks ds, let code := filter_tokens false toks in
  canonical_program false code ds -> StronglySorted pos_lt code -> filter_nocl_comment_tokens toks = [] ->
  scan_file LC toks = expected_all code ds ds.
Proof. exact C01_c_grammar. Qed.
Theorem C01_grammar_meets_hypotheses : forall nested ts ds, canonical_program nested ts ds ->
  wf_descs ts ds /\ lexically_canonical ts ds /\
  (nested = false -> forall c d, In c ds -> In d ds -> ~ nested_in c d).
Proof.
  intros nested ts ds H. split; [exact (canonical_wf nested ts ds H)|]. split; [exact (canonical_lexical nested ts ds H)|].
  intros E; subst nested. exact (canonical_flat ts ds H).
Qed.

(* ---- the same for ALL SIX brace languages (Scope/GrammarAll.v: the documented header forms of each language —
        plain, Java `throws`, JavaScript/TypeScript `[function] name`, TypeScript return type, arrow functions) ---- *)
Theorem C01_grammar_brace : forall (l : language) toks ds, l <> LPython ->
  let code := filter_tokens false toks in
  canonical_program_of l code ds -> StronglySorted pos_lt code -> filter_nocl_comment_tokens toks = [] ->
  scan_file l toks = expected_all code ds ds.
Proof. exact C01_brace_grammar. Qed.
Theorem C01_grammar_brace_meets_hypotheses : forall l ts ds, l <> LPython -> canonical_program_of l ts ds ->
  wf_descs ts ds /\ lexically_canonical_of l ts ds.
Proof. intros l ts ds Hl H. split; [exact (canonical_of_wf l ts ds Hl H)|exact (canonical_of_lexical l ts ds Hl H)]. Qed.

(* an executable recogniser of that grammar (Scope/GrammarParse.v) is sound, so for every program it accepts — the
   harness runs it inside Coq on generated programs — the end-to-end statement holds with no descriptor-side hypothesis *)
Theorem C01_grammar_recogniser_sound : forall (l : language) (ts : list token) (ds : list fdesc),
  parse_program l ts = Some ds -> canonical_program_of l ts ds.
Proof. exact parse_program_sound. Qed.
Theorem C01_recognised_programs : forall (l : language) toks ds, l <> LPython ->
  let code := filter_tokens false toks in
  parse_program l code = Some ds -> StronglySorted pos_lt code -> filter_nocl_comment_tokens toks = [] ->
  scan_file l toks = expected_all code ds ds.
Proof. intros l toks ds Hl code Hp HS Hn. exact (C01_brace_grammar l toks ds Hl (parse_program_sound l code ds Hp) HS Hn). Qed.

(* ---- and for Python (Scope/PyGrammar.v: blocks of lines at one indentation; a definition line `[async] def name (...)+ ...`
        followed by a deeper block is a function with that block as its suite; physical lines, no continuation) ---- *)
Theorem C01_grammar_python : forall toks ds, let code := filter_tokens false toks in
  py_canonical_program code ds -> StronglySorted pos_lt code -> filter_nocl_comment_tokens toks = [] ->
  scan_file LPython toks = py_expected_all code ds ds.
Proof. exact C01_python_grammar. Qed.
Theorem C01_grammar_python_meets_hypotheses : forall ts ds, py_canonical_program ts ds ->
  py_wf_descs ts ds /\ py_lexically_canonical ts ds.
Proof. intros ts ds H. split; [exact (py_canonical_wf ts ds H)|exact (py_canonical_lexical ts ds H)]. Qed.

(* the recogniser of the Python grammar (Scope/PyGrammarParse.v) is sound; for the programs it accepts the statement
   holds with no descriptor-side hypothesis *)
Theorem C01_grammar_python_recogniser_sound : forall (ts : list token) (ds : list pydesc),
  py_parse_program ts = Some ds -> py_canonical_program ts ds.
Proof. exact py_parse_program_sound. Qed.
Theorem C01_recognised_python_programs : forall toks ds, let code := filter_tokens false toks in
  py_parse_program code = Some ds -> StronglySorted pos_lt code -> filter_nocl_comment_tokens toks = [] ->
  scan_file LPython toks = py_expected_all code ds ds.
Proof. intros toks ds code Hp HS Hn. exact (C01_python_grammar toks ds (py_parse_program_sound code ds Hp) HS Hn). Qed.

(* ---- the comparison operators of the hand-written scope model are the ones the source states: each is equal to
        the definition regenerated from TokenRange.py / Scope.py / scope_utils.py / Python.py on this run ---- *)
Theorem C01_operators_tied :
  (forall a b, r_lt a b = token_range_lt (fst (zr a)) (snd (zr a)) (fst (zr b)) (snd (zr b))) /\
  (forall a b, r_contains a b = token_range_contains (fst (zr a)) (snd (zr a)) (fst (zr b)) (snd (zr b))) /\
  (forall a b, r_overlaps a b = token_range_overlaps (fst (zr a)) (snd (zr a)) (fst (zr b)) (snd (zr b))) /\
  (forall a b, s_contains a b = scope_contains (Z.of_nat (h_start (s_header a))) (Z.of_nat (snd (s_block a)))
                                               (Z.of_nat (h_start (s_header b))) (Z.of_nat (snd (s_block b)))) /\
  (forall h b : range, Nat.leb (snd h) (fst b) = nearest_block_is_later (Z.of_nat (fst b)) (Z.of_nat (snd h)) /\
                       Nat.leb (snd h) (fst b) = scope_block_after_header (Z.of_nat (fst b)) (Z.of_nat (snd h))) /\
  (forall idx r rest, drop_passed idx (r :: rest) =
     if child_range_passed (Z.of_nat idx) (Z.of_nat (snd r)) then drop_passed idx rest else r :: rest) /\
  (forall i r c rs, drop_passed i (c :: rs) = c :: rs ->
     scope_token_indices (i :: r) (c :: rs) =
     if before_child_range (Z.of_nat i) (Z.of_nat (fst c)) then i :: scope_token_indices r (c :: rs) else scope_token_indices r (c :: rs)) /\
  (forall ts li l r hline hindent acc, block_lines ts ((li, l) :: r) hline hindent acc =
     if py_line_not_below_header (tok_line ts (line_first l)) hline then acc
     else if py_line_deeper (tok_col ts (line_first l)) hindent then block_lines ts r hline hindent (acc ++ [li])
     else block_lines ts r hline hindent []) /\
  (forall (ts : list token) (h : header), Nat.leb (length ts) (h_end h) = py_header_at_end (Z.of_nat (h_end h)) (Z.of_nat (length ts))) /\
  (forall i t r op cl stack, is_symbol t op = false -> is_symbol t cl = true ->
     balanced_from i (t :: r) op cl stack =
     if balanced_has_open (Z.of_nat (length stack))
     then match stack with s :: stack' => (s, Z.to_nat (balanced_range_end (Z.of_nat i))) :: balanced_from (S i) r op cl stack' | [] => [] end
     else balanced_from (S i) r op cl []).
Proof.
  split; [exact tie_range_lt|]. split; [exact tie_range_contains|]. split; [exact tie_range_overlaps|].
  split; [exact tie_scope_contains|]. split; [exact tie_block_after_header|]. split; [exact tie_drop_passed|].
  split; [exact tie_scope_token_step|]. split; [exact tie_block_lines|]. split; [exact tie_py_header_at_end|exact tie_balanced_close].
Qed.

(* the boolean checkers the harness evaluates are sound for the hypotheses *)
Theorem C01_hypotheses_decidable : forall ts ds,
  (wf_descs_b ts ds = true -> wf_descs ts ds) /\ (lexically_canonical_b ts ds = true -> lexically_canonical ts ds).
Proof. intros ts ds. split; [apply wf_descs_b_sound|apply lexically_canonical_b_sound]. Qed.

Print Assumptions C01_brace_pipeline_partial.
Print Assumptions C01_headers_cfamily.
Print Assumptions C01_cpp.
Print Assumptions C01_c.
Print Assumptions C01_csharp.
Print Assumptions C01_hypotheses_decidable.
Print Assumptions C01_headers_lexical.
Print Assumptions C01_brace.
Print Assumptions C01_flat.
Print Assumptions C01_operators_tied.
Print Assumptions C01_grammar_cpp.
Print Assumptions C01_grammar_c.
Print Assumptions C01_grammar_meets_hypotheses.
Print Assumptions C01_grammar_brace.
Print Assumptions C01_grammar_brace_meets_hypotheses.
Print Assumptions C01_grammar_python.
Print Assumptions C01_grammar_python_meets_hypotheses.
Print Assumptions C01_python.
Print Assumptions C01_python_blocks.
Print Assumptions C01_grammar_recogniser_sound.
Print Assumptions C01_recognised_programs.
Print Assumptions C01_grammar_python_recogniser_sound.
Print Assumptions C01_recognised_python_programs.
Print Assumptions C01_python_hypotheses_decidable.
Print Assumptions C01_c_pipeline_partial.
Print Assumptions C01_blocks_are_dyck.
Print Assumptions C01_pairing.

Open Scope Z_scope.
(* non-vacuity: int f ( ) { x ; }  on three lines, one descriptor *)
Example C01_example :
  let code := [mkTok KKeyword [105;110;116] 1 1; mkTok KName [102] 1 5; mkTok KPunct [40] 1 6; mkTok KPunct [41] 1 7;
               mkTok KPunct [123] 1 9; mkTok KName [120] 2 3; mkTok KPunct [59] 2 4; mkTok KPunct [125] 3 1] in
  scan_file LCpp code = expected_all code [mkFd 1 1 4 4 7] [mkFd 1 1 4 4 7] /\
  expected_all code [mkFd 1 1 4 4 7] [mkFd 1 1 4 4 7] = OK [mkMeas [102] (mkLoc 1 5) (mkLoc 3 2) 3] /\
  wf_descs_b code [mkFd 1 1 4 4 7] = true /\ lexically_canonical_b code [mkFd 1 1 4 4 7] = true.
Proof. vm_compute. repeat split; reflexivity. Qed.
