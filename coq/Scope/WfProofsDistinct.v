(* WfProofsDistinct.v — under the certificate of Gsm/DistinctStart.v (no two
   header patterns of the language match from the same position) the headers
   returned by extract_headers have pairwise distinct starts, for any number
   of patterns. *)
From Verif Require Import Base Regex Nfa Dfa Token TokEngine Scan ScanProofs GenPatterns Headers
  DistinctStart DistinctStartProofs TotalProofsHeaders WfProofsBase WfProofsHeaders.
From Coq Require Import Sorted.
Open Scope nat_scope.

Lemma NoDup_app' {A} (l1 l2 : list A) :
  NoDup l1 -> NoDup l2 -> (forall x, In x l1 -> In x l2 -> False) -> NoDup (l1 ++ l2).
Proof.
  induction l1 as [|a l1 IH]; intros H1 H2 Hx; cbn [app]; [exact H2|].
  inversion H1 as [|? ? Hn Hd]; subst. constructor.
  - intros Hin. apply in_app_or in Hin. destruct Hin as [Hin|Hin]; [contradiction|].
    apply (Hx a); [left; reflexivity | exact Hin].
  - apply IH; [exact Hd | exact H2|]. intros x Hx1 Hx2. apply (Hx x); [right; exact Hx1 | exact Hx2].
Qed.

Lemma NoDup_map_filter {A B} (f : A -> B) (g : A -> bool) l :
  NoDup (map f l) -> NoDup (map f (filter g l)).
Proof.
  induction l as [|a l IH]; cbn [map filter]; intros H; [constructor|].
  inversion H as [|? ? Hn Hd]; subst. destruct (g a); [|apply IH, Hd].
  cbn [map]. constructor; [|apply IH, Hd]. intros Hin. apply Hn.
  apply in_map_iff in Hin. destruct Hin as (x & E & Hx). apply filter_In in Hx.
  rewrite <- E. apply in_map. tauto.
Qed.

(* every header of a pattern starts a successful greedy run of that pattern *)
Lemma get_headers_greedy ts e fb hs h :
  get_headers ts e fb = OK hs -> In h hs ->
  exists a t, to_dfa e = OK a /\ greedy tpred_eqb taccept_st a ts (h_start h) = OK (Some t).
Proof.
  unfold get_headers. destruct (tk_to_dfa e) as [a|k] eqn:Ea; [|discriminate].
  unfold tk_to_dfa in Ea.
  assert (Hfound : forall f, match tk_find_all_dfa a ts f with
                             | Err k => Err k | OK ms => mk_headers ts ms end = OK hs ->
                             In h hs ->
                             exists t, greedy tpred_eqb taccept_st a ts (h_start h) = OK (Some t)).
  { intros f H Hin. destruct (tk_find_all_dfa a ts f) as [ms|k] eqn:Ef; [|discriminate].
    apply mk_headers_spec in H. destruct H as [_ H2]. unfold tk_find_all_dfa in Ef.
    destruct (all_greedy tpred_eqb taccept_st a ts) as [cs|k] eqn:Eg.
    - destruct (C14_bounds tpred_eqb taccept_st a ts f cs ms Eg Ef) as (_ & Hincl & _).
      assert (Hm : In (h_start h, h_end h) ms).
      { rewrite <- H2. apply (in_map (fun h => (h_start h, h_end h))). exact Hin. }
      apply Hincl in Hm. apply (all_greedy_In tpred_eqb taccept_st a ts cs Eg) in Hm.
      exists (h_end h). tauto.
    - destruct (find_all_err tpred_eqb taccept_st a ts f k Eg) as [k' Ek']. congruence. }
  intros H Hin. exists a.
  destruct fb as [f|].
  - destruct (tk_to_dfa f) as [af|k]; [|discriminate H].
    destruct (Hfound _ H Hin) as [t Ht]. exists t. auto.
  - destruct (Hfound _ H Hin) as [t Ht]. exists t. auto.
Qed.

Lemma headers_of_patterns_In ts : forall ps hs h,
  headers_of_patterns ts ps = OK hs -> In h hs ->
  exists e fb hs', In (e, fb) ps /\ get_headers ts e fb = OK hs' /\ In h hs'.
Proof.
  induction ps as [|[e fb] r IH]; intros hs h H Hin; cbn [headers_of_patterns] in H.
  - inversion H; subst. destruct Hin.
  - destruct (get_headers ts e fb) as [h1|k] eqn:E1; [|discriminate].
    destruct (headers_of_patterns ts r) as [h2|k] eqn:E2; [|discriminate].
    inversion H; subst. apply in_app_or in Hin. destruct Hin as [Hin|Hin].
    + exists e, fb, h1. split; [left; reflexivity|]. split; [exact E1 | exact Hin].
    + destruct (IH h2 h eq_refl Hin) as (e' & fb' & hs' & H1 & H2 & H3).
      exists e', fb', hs'. split; [right; exact H1|]. split; assumption.
Qed.

Theorem headers_of_patterns_NoDup ts : forall ps hs,
  pairwise_distinct_start (map fst ps) = true ->
  headers_of_patterns ts ps = OK hs -> NoDup (map h_start hs).
Proof.
  induction ps as [|[e fb] r IH]; intros hs Hc H; cbn [headers_of_patterns] in H.
  - inversion H; subst. constructor.
  - cbn [map fst pairwise_distinct_start] in Hc. apply andb_true_iff in Hc. destruct Hc as [Hc1 Hc2].
    destruct (get_headers ts e fb) as [h1|k] eqn:E1; [|discriminate].
    destruct (headers_of_patterns ts r) as [h2|k] eqn:E2; [|discriminate].
    inversion H; subst. rewrite map_app. apply NoDup_app'.
    + pose proof (get_headers_spec ts e fb h1 E1) as [Hw Hd].
      apply (disjoint_headers_NoDup ts); assumption.
    + apply IH; [exact Hc2 | reflexivity].
    + intros x Hx1 Hx2. apply in_map_iff in Hx1. destruct Hx1 as (ha & <- & Ha).
      apply in_map_iff in Hx2. destruct Hx2 as (hb & Eq & Hb).
      destruct (get_headers_greedy ts e fb h1 ha E1 Ha) as (a1 & t1 & Ea1 & G1).
      destruct (headers_of_patterns_In ts r h2 hb E2 Hb) as (e' & fb' & hs' & Hin & E' & Hb').
      destruct (get_headers_greedy ts e' fb' hs' hb E' Hb') as (a2 & t2 & Ea2 & G2).
      rewrite forallb_forall in Hc1.
      assert (Hchk : distinct_start_check e e' = true).
      { apply Hc1. apply (in_map fst) in Hin. exact Hin. }
      rewrite Eq in G2.
      exact (distinct_start_check_sound e e' a1 a2 Hchk Ea1 Ea2 ts _ t1 t2 G1 G2).
Qed.

Theorem extract_headers_NoDup_cert l ts hs :
  pairwise_distinct_start (map fst (lang_patterns l)) = true ->
  extract_headers l ts = OK hs -> NoDup (map h_start hs).
Proof.
  intros Hc H. unfold extract_headers in H.
  destruct (headers_of_patterns ts (lang_patterns l)) as [h0|k] eqn:E; [|discriminate].
  apply (headers_of_patterns_NoDup ts _ _ Hc) in E.
  destruct l; inversion H; subst; try exact E; apply NoDup_map_filter, E.
Qed.

Print Assumptions extract_headers_NoDup_cert.
