#!/bin/sh
# Build the framework offline from files on disk: regenerate Gen/*.v from /repo, full .vo build.
cd "$(dirname "$0")" || exit 2
export LC_ALL=C PYTHONDONTWRITEBYTECODE=1 PYTHONPATH="${VERIF_REPO:-/repo}" PYTHONHASHSEED=0
mkdir -p build evidence replays coq/Gen
/venv/bin/python translate/gen.py || echo "setup: translation reported failures (checks will report them)"
cd coq && coq_makefile -f _CoqProject -o Makefile >/dev/null && timeout 3000 make -j16 -k 2>&1 | tail -5
exit 0
