(* Headers.v — scope_utils.get_headers and the languages' extract_headers.
   Patterns come from Gen/GenPatterns.v (captured from the live objects). *)
From Verif Require Import Base Regex Nfa Dfa Token TokEngine GenPatterns.
Open Scope Z_scope.

Record header := mkHeader { h_name : nat; h_start : nat; h_end : nat }.   (* indices into the code tokens *)

Fixpoint first_name_from (i : nat) (l : list token) : option nat :=
  match l with
  | [] => None
  | t :: r => if is_name t then Some i else first_name_from (S i) r
  end.

(* next(t for t in pattern.tokens if t.is_name()) over tokens[start:end] *)
Definition name_index (tokens : list token) (s e : nat) : res nat :=
  match first_name_from s (firstn (e - s) (skipn s tokens)) with
  | Some i => OK i
  | None => Err StopIteration
  end.

Fixpoint mk_headers (tokens : list token) (ms : list (nat * nat)) : res (list header) :=
  match ms with
  | [] => OK []
  | (s, e) :: r =>
      match name_index tokens s e with
      | Err k => Err k
      | OK n => match mk_headers tokens r with Err k => Err k | OK hs => OK (mkHeader n s e :: hs) end
      end
  end.

Definition get_headers (tokens : list token) (e : expr tpred) (fb : option (expr tpred)) : res (list header) :=
  match tk_to_dfa e with
  | Err k => Err k
  | OK a =>
      let found :=
        match fb with
        | None => tk_find_all_dfa a tokens (fun _ => OK true)
        | Some f =>
            match tk_to_dfa f with
            | Err k => Err k
            | OK af =>
                tk_find_all_dfa a tokens (fun c =>
                  match tk_starts_with_dfa af (skipn (snd c) tokens) with
                  | Err k => Err k
                  | OK (Some _) => OK true
                  | OK None => OK false
                  end)
            end
        end in
      match found with Err k => Err k | OK ms => mk_headers tokens ms end
  end.

(* Java.filter_headers: drop a header directly preceded by the keyword `record` or `new` *)
Definition kw_record := [114; 101; 99; 111; 114; 100].
Definition kw_new := [110; 101; 119].
Definition java_drop (tokens : list token) (h : header) : bool :=
  match h_start h with
  | O => false
  | S p => match nth_error tokens p with
           | Some t => taccept (POr (PKeyword kw_record) (PKeyword kw_new)) t
           | None => false
           end
  end.

Inductive language := LC | LCpp | LCSharp | LJava | LJavaScript | LPython | LTypeScript.
Definition lang_patterns (l : language) : list (expr tpred * option (expr tpred)) :=
  match l with
  | LC => patterns_C | LCpp => patterns_Cpp | LCSharp => patterns_CSharp | LJava => patterns_Java
  | LJavaScript => patterns_JavaScript | LPython => patterns_Python | LTypeScript => patterns_TypeScript
  end.
Definition lang_nested (l : language) : bool :=
  match l with
  | LC => nested_C | LCpp => nested_Cpp | LCSharp => nested_CSharp | LJava => nested_Java
  | LJavaScript => nested_JavaScript | LPython => nested_Python | LTypeScript => nested_TypeScript
  end.
Definition lang_code (c : Z) : language :=
  if c =? 0 then LC else if c =? 1 then LCpp else if c =? 2 then LCSharp else if c =? 3 then LJava
  else if c =? 4 then LJavaScript else if c =? 5 then LPython else LTypeScript.

Fixpoint headers_of_patterns (tokens : list token) (ps : list (expr tpred * option (expr tpred)))
  : res (list header) :=
  match ps with
  | [] => OK []
  | (e, fb) :: r =>
      match get_headers tokens e fb with
      | Err k => Err k
      | OK hs => match headers_of_patterns tokens r with Err k => Err k | OK hs' => OK (hs ++ hs') end
      end
  end.

Definition extract_headers (l : language) (tokens : list token) : res (list header) :=
  match headers_of_patterns tokens (lang_patterns l) with
  | Err k => Err k
  | OK hs => match l with
             | LJava | LCSharp => OK (filter (fun h => negb (java_drop tokens h)) hs)
             | _ => OK hs
             end
  end.

Definition enc_header (h : header) : tree := T [enc_nat (h_name h); enc_nat (h_start h); enc_nat (h_end h)].
Definition enc_headers (r : res (list header)) : tree := enc_res (enc_list enc_header) r.
