(* PySpec.v — specification side of C01 for Python: function descriptors whose
   body is the indented suite on the lines following the header ("the maximal run
   of following lines indented deeper than the header's first token"), and the
   measurement the property prescribes for each. *)
From Verif Require Import Base Token Lex Headers Blocks Pairing Fold ScanFile Spec.
Open Scope Z_scope.

Record pydesc := mkPd
  { pd_name : nat;       (* index of the name token *)
    pd_start : nat;      (* first token of the header (def / async) *)
    pd_hend : nat;       (* one past the last token of the recognised header shape: the token at pd_hend is ':' or '->' *)
    pd_bstart : nat;     (* first token of the suite *)
    pd_bend : nat }.     (* one past the last token of the suite *)

Definition py_header_of (d : pydesc) : header := mkHeader (pd_name d) (pd_start d) (pd_hend d).

(* index of the first token of the physical line that token k lies on *)
Fixpoint line_first_index (ts : list token) (k : nat) : nat :=
  match k with
  | O => O
  | S k' => if tok_line ts k' =? tok_line ts k then line_first_index ts k' else k
  end.
Definition line_indent (ts : list token) (k : nat) : Z := tok_col ts (line_first_index ts k).

Definition py_nested_in (c d : pydesc) : Prop := (pd_bstart d <= pd_start c)%nat /\ (pd_bend c <= pd_bend d)%nat.
Definition py_after (c d : pydesc) : Prop := (pd_bend d <= pd_start c)%nat.

Record py_wf_descs (ts : list token) (ds : list pydesc) : Prop := mkPyWf
  { (* no backslash continuation tokens: a logical line is a physical line *)
    pw_no_continuation : Forall (fun t => ends_with_str [92; 10] (t_value t) = false) ts;
    pw_shape : Forall (fun d =>
      (pd_start d <= pd_name d < pd_hend d)%nat /\ (pd_hend d < pd_bstart d)%nat /\ (pd_bstart d < pd_bend d <= length ts)%nat /\
      (* the suite starts on the first line after the line of the token that follows the header *)
      (forall k, (pd_hend d <= k < pd_bstart d)%nat -> tok_line ts k <= tok_line ts (pd_hend d)) /\
      tok_line ts (pd_hend d) < tok_line ts (pd_bstart d) /\
      (* every line of the suite is indented deeper than the header's first token ... *)
      (forall k, (pd_bstart d <= k < pd_bend d)%nat -> tok_col ts (pd_start d) < line_indent ts k) /\
      (* ... the suite ends at a line boundary, and is maximal *)
      ((pd_bend d < length ts)%nat -> tok_line ts (pd_bend d - 1) < tok_line ts (pd_bend d) /\
                                      tok_col ts (pd_bend d) <= tok_col ts (pd_start d))) ds;
    pw_sorted : forall i j di dj, (i < j)%nat -> nth_error ds i = Some di -> nth_error ds j = Some dj ->
                                  (pd_start di < pd_start dj)%nat /\ (py_nested_in dj di \/ py_after dj di) }.

Definition py_own_indices (ds : list pydesc) (d : pydesc) : list nat :=
  filter (fun k => negb (existsb (fun c => Nat.leb (pd_bstart d) (pd_start c) && Nat.leb (pd_bend c) (pd_bend d)
                                           && negb (Nat.eqb (pd_start c) (pd_start d))
                                           && Nat.leb (pd_start c) k && Nat.ltb k (pd_bend c)) ds))
         (seq (pd_start d) (pd_bend d - pd_start d)).

Definition py_expected (ts : list token) (ds : list pydesc) (d : pydesc) : res Measurement :=
  match nth_error ts (pd_name d), nth_error ts (pd_start d), nth_error ts (pd_bend d - 1) with
  | Some nm, Some st, Some cl =>
      OK (mkMeas (t_value nm) (mkLoc (t_line st) (t_col st)) (end_location cl)
                 (Z.of_nat (length (dedupZ (map (tok_line ts) (py_own_indices ds d))))))
  | _, _, _ => Err IndexError
  end.

Fixpoint py_expected_all (ts : list token) (ds all : list pydesc) : res (list Measurement) :=
  match ds with
  | [] => OK []
  | d :: r => match py_expected ts all d with
              | Err k => Err k
              | OK m => match py_expected_all ts r all with Err k => Err k | OK ms => OK (m :: ms) end
              end
  end.
