(* GrammarParse.v — an executable recogniser for the canonical grammar of GrammarAll.v: given the code tokens of
   a program it either produces the function descriptors of a derivation or gives up.  Proved sound in
   Scope/GrammarParseProofs.v (parse_program l ts = Some ds -> canonical_program_of l ts ds), it lets the harness
   establish, inside Coq, that a generated program IS a program of the formal grammar — for those programs the
   unconditional theorem C01_grammar_brace applies as it stands. *)
From Verif Require Import Base Regex Token TokEngine Headers Blocks Spec HeaderSpec LexShapes Grammar GrammarAll.
Open Scope Z_scope.

(* walk over tokens with a parenthesis depth: no brace symbols; at depth 0 plain tokens are allowed only when
   [top] is true; returns the final depth *)
Fixpoint paren_walk (top : bool) (ts : list token) (depth : nat) : option nat :=
  match ts with
  | [] => Some depth
  | t :: r =>
      if is_lbrace t || is_rbrace t then None
      else if is_lparen t then paren_walk top r (S depth)
      else if is_rparen t then match depth with O => None | S d => paren_walk top r d end
      else match depth with O => if top then paren_walk top r O else None | S _ => paren_walk top r depth end
  end.
Definition inner_b (ts : list token) : bool := match paren_walk true ts O with Some O => true | _ => false end.
Definition groups_b (ts : list token) : bool :=
  match ts with [] => false | _ => match paren_walk false ts O with Some O => true | _ => false end end.

(* the statement at the head of ts: tokens up to and including the first ";" symbol at parenthesis depth 0,
   provided no brace occurs before it *)
Fixpoint stmt_len (ts : list token) (depth : nat) : option nat :=
  match ts with
  | [] => None
  | t :: r =>
      if is_lbrace t || is_rbrace t then None
      else if is_lparen t then option_map S (stmt_len r (S depth))
      else if is_rparen t then match depth with O => None | S d => option_map S (stmt_len r d) end
      else if is_symbol t semicolon && Nat.eqb depth O then Some 1%nat
      else option_map S (stmt_len r depth)
  end.

(* a statement with a brace initialiser (io_init): plain tokens, "{", plain tokens, "}", a statement tail *)
Fixpoint take_plain (ts : list token) : list token * list token :=
  match ts with
  | t :: r => if plain t then let '(p, rest) := take_plain r in (t :: p, rest) else ([], ts)
  | [] => ([], [])
  end.
(* tokens up to the first "}" *)
Fixpoint take_until_rbrace (ts : list token) : list token * list token :=
  match ts with
  | t :: r => if is_rbrace t then ([], ts) else let '(c, rest) := take_until_rbrace r in (t :: c, rest)
  | [] => ([], [])
  end.
Definition init_len (ts : list token) : option nat :=
  let '(pre, r1) := take_plain ts in
  match r1 with
  | o :: r2 =>
      if is_lbrace o then
        let '(flat, r3) := take_until_rbrace r2 in
        match r3 with
        | c :: r4 =>
            if is_rbrace c && inner_b flat then
              match stmt_len r4 O with
              | Some n => if inner_b (firstn (n - 1) r4) then Some (length pre + 1 + length flat + 1 + n)%nat else None
              | None => None
              end
            else None
        | [] => None
        end
      else None
  | [] => None
  end.

(* bgroups, decided: a run of parenthesis groups that may hold flat brace groups; the states of the enclosing depths
   are kept on a stack *)
Fixpoint bwalk (fuel : nat) (ts : list token) (stack : list bstate) (s : bstate) : bool :=
  match fuel with
  | O => false
  | S f =>
      match ts with
      | [] => match stack with [] => true | _ :: _ => false end
      | t :: r =>
          if is_lparen t then bwalk f r (after_group s :: stack) BSafe
          else if is_rparen t then match stack with [] => false | s' :: st => bwalk f r st s' end
          else if is_lbrace t then
            match stack, s with
            | _ :: _, BSafe =>
                let '(flat, rest) := take_plain r in
                match rest with
                | c :: r2 => if is_rbrace c then bwalk f r2 stack BSafe else false
                | [] => false
                end
            | _, _ => false
            end
          else if is_rbrace t then false
          else match stack with [] => false | _ :: _ => bwalk f r stack (bstep_plain s t) end
      end
  end.
Definition bgroups_b (ts : list token) : bool :=
  match ts with [] => false | _ => bwalk (S (length ts)) ts [] BSafe end.

Fixpoint take_words (ts : list token) : list token * list token :=
  match ts with
  | t :: r => if word_tok t then let '(ws, rest) := take_words r in (t :: ws, rest) else ([], ts)
  | [] => ([], [])
  end.
(* clause / type tokens up to the first "{" *)
Fixpoint take_until_brace (ts : list token) : list token * list token :=
  match ts with
  | t :: r => if is_lbrace t then ([], ts) else let '(c, rest) := take_until_brace r in (t :: c, rest)
  | [] => ([], [])
  end.

(* type_seq, decided *)
Fixpoint type_walk (ts : list token) (depth : nat) : bool :=
  match ts with
  | [] => Nat.eqb depth O
  | t :: r =>
      if is_lbrace t || is_rbrace t then false
      else if is_lparen t then type_walk r (S depth)
      else if is_rparen t then match depth with O => false | S d => type_walk r d end
      else match depth with O => type_tok t && type_next_ok t r && type_walk r O | S _ => type_walk r depth end
  end.
Definition type_seq_b (ts : list token) : bool := type_walk ts O.

Definition is_java (l : language) : bool := match l with LJava => true | _ => false end.
Definition is_ts (l : language) : bool := match l with LTypeScript => true | _ => false end.

(* what precedes the body brace of an item that is not a statement: recognised from the words at its head.
   Result: (prefix words, header tokens up to the brace, name offset, header-shape end offset) for a function,
   or the control form *)
(* open_prefix, decided: Some d = the number of parentheses left open *)
Fixpoint open_walk (ts : list token) (depth : nat) : option nat :=
  match ts with
  | [] => Some depth
  | t :: r =>
      if is_lbrace t || is_rbrace t then None
      else if is_lparen t then open_walk r (S depth)
      else if is_rparen t then match depth with O => None | S d => open_walk r d end
      else if is_operator t s_colon then None
      else open_walk r depth
  end.
(* cb_tail, decided *)
Definition cb_tail_b (ts : list token) : bool :=
  match ts with
  | [] => false
  | fk :: gs =>
      (kw_is fk s_function && groups_b gs)
      || match rev ts with
         | arrow :: rgs => is_symbol arrow s_arrow && groups_b (rev rgs)
         | [] => false
         end
  end.
(* the callback split of the tokens before the first "{": the first k with an admissible prefix and tail *)
Fixpoint cb_find (fuel k : nat) (pre : list token) : option (nat * nat) :=
  match fuel with
  | O => None
  | S f =>
      let a := firstn k pre in
      let ok := match open_walk a O with
                | Some d => match a with
                            | [] => None
                            | _ => let z := last a (mkTok KOther [] 0 0) in
                                   if (is_lparen z || is_symbol z s_comma) && cb_tail_b (skipn k pre) then Some d else None
                            end
                | None => None
                end in
      match ok with
      | Some d => Some (k, d)
      | None => cb_find f (S k) pre
      end
  end.

Inductive head_kind :=
| HFunc (pre hd : list token) (nm_off hend_off : nat)
| HCtrl (kw : token) (words cond : list token)
| HCb (a tail : list token) (d : nat)
| HNew (pre : list token) (kn nm : token) (gs : list token).

(* Java / C#: `pre new Name (…)+` right before a brace *)
Definition new_head (l : language) (ts : list token) : option (head_kind * list token) :=
  match l with
  | LJava | LCSharp =>
      let '(p, r1) := take_plain ts in
      match rev p with
      | nm :: kn :: rpre =>
          if kw_is kn kw_new && is_name nm then
            let n := groups_len r1 0 in
            let gs := firstn n r1 in
            if groups_b gs then Some (HNew (rev rpre) kn nm gs, skipn n r1) else None
          else None
      | _ => None
      end
  | _ => None
  end.

Definition split_last (ws : list token) : option (list token * token) :=
  match rev ws with [] => None | x :: r => Some (rev r, x) end.

Definition parse_head (l : language) (ts : list token) : option (head_kind * list token) :=
  let '(ws, rest) := take_words ts in
  match rest with
  | [] => None
  | t :: rest' =>
      if is_lbrace t then                                   (* kw words {  : declaration without condition *)
        match ws with
        | kw :: words => if is_keyword kw then Some (HCtrl kw words [], rest) else None
        | [] => None
        end
      else if is_lparen t then
        let n := groups_len rest 0 in
        let gs := firstn n rest in
        let after := skipn n rest in
        if negb (groups_b gs || (is_jsts l && bgroups_b gs)) then None else
        match split_last ws with
        | None => None
        | Some (before, w) =>
            if is_name w then
              (* a function head: [function] name groups [throws ... | : type] *)
              let '(pre, fk) := match split_last before with
                                | Some (b2, k) => if is_jsts l && kw_is k s_function then (b2, [k]) else (before, [])
                                | None => (before, [])
                                end in
              let base := fk ++ w :: gs in
              let nm_off := length fk in
              let hend := length base in
              match after with
              | a :: _ =>
                  if is_lbrace a then
                    if (is_cfamily l && groups_b gs) || is_jsts l then Some (HFunc pre base nm_off hend, after) else None
                  else if is_java l && groups_b gs && kw_is a s_throws && Nat.eqb (length fk) 0 then
                    let '(clause, rest2) := take_until_brace (tl after) in
                    if forallb clause_tok clause then Some (HFunc pre (base ++ a :: clause) nm_off hend, rest2) else None
                  else if is_ts l && is_operator a s_colon then
                    let '(ty, rest2) := take_until_brace (tl after) in
                    if type_seq_b ty then Some (HFunc pre (base ++ a :: ty) nm_off hend, rest2) else None
                  else None
              | [] => None
              end
            else
              match ws with
              | kw :: words => if is_keyword kw && groups_b gs then Some (HCtrl kw words gs, after) else None
              | [] => None
              end
        end
      else if is_jsts l && is_operator t s_eq then
        (* an arrow function: [const] name = [async] groups => *)
        match split_last ws with
        | None => None
        | Some (before, w) =>
            if negb (is_name w) then None else
            let '(pre, ck) := match split_last before with
                              | Some (b2, k) => if kw_is k s_const then (b2, [k]) else (before, [])
                              | None => (before, [])
                              end in
            let '(ak, rest2) := match rest' with
                                | a :: r2 => if kw_is a s_async then ([a], r2) else ([], rest')
                                | [] => ([], rest')
                                end in
            let n := groups_len rest2 0 in
            let gs := firstn n rest2 in
            match skipn n rest2 with
            | arrow :: after =>
                if (groups_b gs || bgroups_b gs) && is_symbol arrow s_arrow then
                  let hd := ck ++ w :: t :: ak ++ gs ++ [arrow] in
                  Some (HFunc pre hd (length ck) (length hd), after)
                else None
            | [] => None
            end
        end
      else None
  end.

(* items until the end of the list or a closing brace; returns the descriptors and the remaining tokens *)
Fixpoint parse_items (fuel : nat) (l : language) (off : nat) (ts : list token) : option (list fdesc * list token) :=
  match fuel with
  | O => None
  | S f =>
      match ts with
      | [] => Some ([], [])
      | t :: after_t =>
          if is_rbrace t then Some ([], ts)
          else
          (* a bare block, or a label *)
          match (if is_lbrace t then
                   match parse_items f l (off + 1) after_t with
                   | Some (ds1, c :: more) =>
                       if is_rbrace c then
                         match parse_items f l (off + 1 + (length after_t - length (c :: more)) + 1) more with
                         | Some (ds2, rest3) => Some (ds1 ++ ds2, rest3)
                         | None => None
                         end
                       else None
                   | _ => None
                   end
                 else if is_keyword t then
                   (* a label `keyword :` *)
                   match after_t with
                   | colon :: r => if is_operator colon s_colon then parse_items f l (off + 2) r else None
                   | [] => None
                   end
                 else None) with
          | Some x => Some x
          | None =>
          match stmt_len ts O with
               | Some n =>
                   if inner_b (firstn (n - 1) ts) then parse_items f l (off + n) (skipn n ts) else None
               | None =>
                   match init_len ts with
                   | Some n => parse_items f l (off + n) (skipn n ts)
                   | None =>
                   let cb := if is_jsts l then
                               let '(pre, rest) := take_until_brace ts in
                               match cb_find (S (length pre)) 1 pre with
                               | Some (k, d) => Some (HCb (firstn k pre) (skipn k pre) d, rest)
                               | None => None
                               end
                             else None in
                   match (match cb with Some x => Some x | None => match new_head l ts with Some x => Some x | None => parse_head l ts end end) with
                   | None => None
                   | Some (hk, rest) =>
                       match rest with
                       | o :: body_and_more =>
                           if negb (is_lbrace o) then None else
                           let hlen := (length ts - length rest)%nat in          (* tokens before the brace *)
                           let flat_body := match hk with
                                            | HNew _ _ _ _ =>
                                                let '(flat, r3) := take_plain body_and_more in
                                                match r3 with
                                                | c0 :: _ => if is_rbrace c0 then Some (@nil fdesc, r3) else None
                                                | [] => None
                                                end
                                            | _ => None
                                            end in
                           match (match flat_body with Some x => Some x | None => parse_items f l (off + hlen + 1) body_and_more end) with
                           | Some (ds1, c :: more) =>
                               if negb (is_rbrace c) then None else
                               let blen := (length body_and_more - length (c :: more))%nat in
                               (* a callback is closed by its parentheses and a ";" *)
                               let extra := match hk with
                                            | HCb _ _ d => S d
                                            | HNew _ _ _ _ => match stmt_len more O with Some n => n | None => O end
                                            | _ => O
                                            end in
                               let closes_ok := match hk with
                                                | HCb _ _ d => forallb is_rparen (firstn d more) && Nat.eqb (length (firstn d more)) d
                                                               && match skipn d more with semi :: _ => is_symbol semi semicolon | [] => false end
                                                | HNew _ _ _ _ => match stmt_len more O with
                                                                  | Some n => inner_b (firstn (n - 1) more)
                                                                  | None => false
                                                                  end
                                                | _ => true
                                                end in
                               if negb closes_ok then None else
                               match parse_items f l (off + hlen + 1 + blen + 1 + extra) (skipn extra more) with
                               | Some (ds2, rest3) =>
                                   match hk with
                                   | HCtrl kw words cond =>
                                       if forallb word_tok words
                                          && (match cond with [] => true | _ => negb (is_name (last (kw :: words) kw)) end)
                                          && forallb (fun x => negb (kw_is x s_throws)) (words ++ cond)
                                       then Some (ds1 ++ ds2, rest3) else None
                                   | HCb _ _ _ => Some (ds1 ++ ds2, rest3)
                                   | HNew pre _ _ _ => if forallb plain pre then Some (ds1 ++ ds2, rest3) else None
                                   | HFunc pre hd nm_off hend_off =>
                                       if forallb (prefix_word l) pre
                                          && (lang_nested l || match ds1 with [] => true | _ => false end)
                                       then Some (mkFd (off + length pre + nm_off) (off + length pre) (off + length pre + hend_off)
                                                       (off + length pre + length hd)
                                                       (off + length pre + length hd + 1 + blen) :: ds1 ++ ds2, rest3)
                                       else None
                                   end
                               | None => None
                               end
                           | _ => None
                           end
                       | [] => None
                       end
                   end
                   end
               end
          end
      end
  end.

Definition parse_program (l : language) (ts : list token) : option (list fdesc) :=
  match parse_items (S (length ts)) l O ts with
  | Some (ds, []) => Some ds
  | _ => None
  end.
