"""Re-run every kept seeded change (or only the ids given as arguments) against the current checks and rewrite its
meta.json and seeded/README.md."""
import glob
import json
import os
import subprocess

import sys

only = set(sys.argv[1:])          # optional: ids (C03-3 ...) to re-evaluate; the others keep their recorded result
rows = []
for d in sorted(glob.glob("/verif/seeded/C*-*")):
    meta = json.load(open(f"{d}/meta.json"))
    if only and os.path.basename(d) not in only:
        rows.append((os.path.basename(d), meta["property"], meta.get("summary") or "", meta.get("needs") or "",
                     meta.get("caught_by", []), meta.get("confirmed")))
        continue
    prop = meta["property"]
    checks = sorted(set([prop] + [c for c in meta.get("caught_by", []) if c != prop]))
    r = subprocess.run(["/venv/bin/python", "/verif/tools/eval_mutant.py", f"{d}/patch.diff", f"{d}/demo.py"] + checks,
                       capture_output=True, text=True)
    try:
        res = json.loads(r.stdout[r.stdout.index("{"):])
    except Exception:
        print(d, "evaluation failed", r.stdout[-300:], r.stderr[-300:])
        continue
    meta["confirmed"] = res.get("suite", "").startswith("157 passed") and res.get("demo_with") == 1 and res.get("demo_without") == 0
    meta["checks_run"] = {c: {"exit": v["exit"], "violations": v["violations"], "first_report": v["first"]} for c, v in res["checks"].items()}
    meta["caught_by"] = [c for c, v in res["checks"].items() if v["exit"] == 1 and v["violations"] > 0]
    meta["what_i_ran"] = [f"git -C /repo apply patch.diff; cd /repo && /venv/bin/python -m pytest -q -p no:cacheprovider -> {res.get('suite')}",
                          f"PYTHONPATH=/repo /venv/bin/python demo.py -> exit {res.get('demo_with')} with the change, exit {res.get('demo_without')} without",
                          "./check <id> --tier quick against the changed /repo for: " + ", ".join(checks) + "; git -C /repo checkout -- ."]
    json.dump(meta, open(f"{d}/meta.json", "w"), indent=1)
    rows.append((os.path.basename(d), prop, meta.get("summary") or "", meta.get("needs") or "", meta["caught_by"], meta["confirmed"]))
    print(os.path.basename(d), "caught by", meta["caught_by"], flush=True)
with open("/verif/seeded/README.md", "w") as f:
    f.write("# Seeded changes\n\nEach directory holds `patch.diff` (apply with `git -C /repo apply`), `demo.py` (exits 1 and prints "
            "PROPERTY VIOLATED with the change, exits 0 without) and `meta.json`.  The changes were written by independent "
            "sub-agents that saw only the property text and a scratch worktree; every one keeps the 157 tests green.  "
            "`tools/rerun_seeded.py` re-evaluates all of them (suite, demonstration, checks) and rewrites this table.\n\n"
            "| id | breaks | what was changed | needs, in order to manifest | reported by |\n|---|---|---|---|---|\n")
    for name, prop, summary, needs, caught, ok in rows:
        f.write(f"| {name} | {prop} | {summary.replace('|', '/')[:260]} | {needs.replace('|', '/')[:260]} | {', '.join(caught) or '**missed**'} |\n")
print("done", len(rows))
