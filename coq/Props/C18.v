(* C18 — rendered report, diff and findings show exactly the stored numbers.
   Statements only; proofs in Report/RenderProofs{Num,}.v about the cell
   formatters re-translated from LanguageTotalsDelta / ScanTotalsDelta /
   ScanTotals on every run (Gen/GenDelta.v) and the overview model
   Report/Render.v; the findings part is Agg/CheckFlow.v (shared with C02). *)
From Verif Require Import Base BaseProofs GenDelta Render RenderProofsNum RenderProofs GenThresholds Thresholds CheckFlow GenCompare TieProofs.
From Coq Require Import Permutation Sorted.
Open Scope Z_scope.

(* a cell is "cur" or "cur (+d)": its leading integer is the stored figure; the annotation is present
   exactly when current and previous differ and its value is current - previous *)
Theorem C18_cell_number : forall c d, leading_int (cell c d) = Some c.
Proof. exact cell_number. Qed.
Theorem C18_delta_iff : forall c p,
  ((exists a, cell c (c - p) = fmt_n c ++ [32; 40] ++ a ++ [41]) <-> c <> p) /\
  (forall a, cell c (c - p) = fmt_n c ++ [32; 40] ++ a ++ [41] -> signed_int a = Some (c - p)) /\
  (c = p -> cell c (c - p) = fmt_n c).
Proof. exact cell_diff_annotated. Qed.

(* every row: language, then files, functions, lines of code, hard, unmaintainable of that language —
   plain without comparison, as delta cells against the PREVIOUS report's totals of the same language *)
Theorem C18_rows : forall cur prev, Forall2 (row_spec prev) (sort_desc lt_loc cur) (ov_rows (overview_text cur prev)).
Proof. exact C18_rows_all. Qed.

(* totals row iff more than one language; sums (and their deltas) of the stored figures *)
Theorem C18_totals : forall cur prev,
  (ov_totals (overview_text cur prev) = None <-> (length cur <= 1)%nat) /\
  ((1 < length cur)%nat ->
   ov_totals (overview_text cur prev) =
   Some (match prev with
         | None => [fmt_n (sumZ (map lt_files cur)); fmt_n (sumZ (map lt_functions cur)); fmt_n (sumZ (map lt_loc cur));
                    fmt_n (sumZ (map lt_hard_to_maintain cur)); fmt_n (sumZ (map lt_unmaintainable cur))]
         | Some pv => [cell (sumZ (map lt_files cur)) (sumZ (map lt_files cur) - sumZ (map lt_files pv));
                       cell (sumZ (map lt_functions cur)) (sumZ (map lt_functions cur) - sumZ (map lt_functions pv));
                       cell (sumZ (map lt_loc cur)) (sumZ (map lt_loc cur) - sumZ (map lt_loc pv));
                       cell (sumZ (map lt_hard_to_maintain cur)) (sumZ (map lt_hard_to_maintain cur) - sumZ (map lt_hard_to_maintain pv));
                       cell (sumZ (map lt_unmaintainable cur)) (sumZ (map lt_unmaintainable cur) - sumZ (map lt_unmaintainable pv))]
         end)).
Proof. exact RenderProofs.C18_totals. Qed.

(* languages ordered by lines of code (descending, ties in stored order); both formats show the same cells *)
Theorem C18_order : forall cur prev, let shown := sort_desc lt_loc cur in
  map row_language (ov_rows (overview_text cur prev)) = map lt_language shown /\
  length (ov_rows (overview_text cur prev)) = length cur /\
  Permutation shown cur /\
  Permutation (map lt_language shown) (map lt_language cur) /\
  StronglySorted (fun a b => lt_loc a >= lt_loc b) shown /\
  (forall k, filter (fun a => lt_loc a =? k) shown = filter (fun a => lt_loc a =? k) cur).
Proof. exact RenderProofs.C18_order. Qed.
Theorem C18_formats_agree : forall cur prev, overview_text cur prev = overview_md cur prev.
Proof. exact RenderProofs.C18_formats_agree. Qed.

(* findings: exactly the functions longer than 30 lines, longest first, at most ten unless full, with
   the exact number of omitted rows — both formats *)
Theorem C18_findings : forall full files,
  findings_view full files = findings_view_md full files /\
  let all := sort_desc (fun u => m_value (ru_measurement u))
               (filter (fun u => m_value (ru_measurement u) >? 30) (units_of files)) in
  let n := Z.of_nat (length all) in
  findings_view full files =
  if (negb full && (10 <? n))%bool then (firstn 10 all, Some (n - 10)) else (all, None).
Proof. intros full files. exact (conj (findings_formats_agree full files) (findings_view_spec full files)). Qed.

(* the totals row is shown exactly when more than one language is listed: the model's test is the one
   ScanResultTable and format_markdown state (regenerated on this run) *)
Theorem C18_totals_row_tied : forall n, (1 <? n) = text_totals_row n /\ (1 <? n) = md_totals_row n.
Proof. exact tie_totals_row. Qed.

Print Assumptions C18_cell_number.
Print Assumptions C18_delta_iff.
Print Assumptions C18_rows.
Print Assumptions C18_totals.
Print Assumptions C18_order.
Print Assumptions C18_formats_agree.
Print Assumptions C18_findings.

Example C18_example :
  ov_rows (overview_text [mkLT [80] 3 120 9 1 0; mkLT [67] 1 400 2 0 1] (Some [mkLT [67] 1 400 3 0 0; mkLT [80] 2 100 9 1 0]))
  = [[[67]; [49]; [50;32;40;45;49;41]; [52;48;48]; [48]; [49;32;40;43;49;41]];
     [[80]; [51;32;40;43;49;41]; [57]; [49;50;48;32;40;43;50;48;41]; [49]; [48]]].
Proof. vm_compute. reflexivity. Qed.
Print Assumptions C18_totals_row_tied.
