(* C03 — analysis is total.  Statements only; proofs in Scope/TotalProofs*.v,
   Gsm/HasNameProofs.v, Gsm/UnambProofs.v, Gsm/ClosureProofs.v.  The
   certificates are kernel computations over the patterns captured from /repo
   on this run. *)
From Verif Require Import Base Regex Nfa Dfa Token TokEngine Unamb HasName GenPatterns Lex Headers Blocks Pairing Fold ScanFile
  ClosureProofs TotalProofs TotalCerts.

(* certificate per pattern: unambiguous (no "Multiple transitions" error), every match contains a
   name token (next() in get_headers cannot raise), follow-up pattern unambiguous *)
Theorem C03_certificates :
  forallb (fun l => forallb pattern_total_ok (lang_patterns l))
    [LC; LCpp; LCSharp; LJava; LJavaScript; LPython; LTypeScript] = true.
Proof. vm_compute. reflexivity. Qed.

(* no token stream whatsoever — any kinds, texts, positions, any length, any nesting depth —
   makes the analysis of a file fail: every Err branch of the model (ambiguity, StopIteration,
   IndexError, KeyError, fuel) is unreachable *)
Theorem C03_scan_total : forall (l : language) (toks : list token), exists ms, scan_file l toks = OK ms.
Proof. exact scan_file_total_all. Qed.

(* ... and from the lexer's raw output (any offsets, any text): lex + scan_file + line total *)
Theorem C03_analyze_total : forall l code lts, exists r, analyze l code lts = OK r.
Proof. exact analyze_total_all. Qed.

(* the generic form: it is the certificate, not the concrete patterns, that is used *)
Theorem C03_scan_total_generic : forall (l : language) (toks : list token),
  forallb pattern_total_ok (lang_patterns l) = true -> exists ms, scan_file l toks = OK ms.
Proof. exact scan_file_total. Qed.

(* building and running a matcher never exhausts its fuel (epsilon cycles included) *)
Theorem C03_closure_total : forall P (h : heap P) l, exists v, closure h l = OK v.
Proof. exact (@closure_total). Qed.

Print Assumptions C03_certificates.
Print Assumptions C03_scan_total.
Print Assumptions C03_analyze_total.
Print Assumptions C03_scan_total_generic.
Print Assumptions C03_closure_total.

Open Scope Z_scope.
Example C03_ex_truncated_header :
  scan_file LPython [mkTok KKeyword [100;101;102] 1 1; mkTok KName [102] 1 5; mkTok KPunct [40] 1 6] = OK [].
Proof. vm_compute. reflexivity. Qed.
Example C03_ex_unbalanced :
  scan_file LJavaScript [mkTok KName [102] 1 1; mkTok KPunct [40] 1 2; mkTok KPunct [125] 1 3; mkTok KPunct [123] 1 4;
                         mkTok KPunct [41] 1 5; mkTok KPunct [123] 1 6] = OK [].
Proof. vm_compute. reflexivity. Qed.
