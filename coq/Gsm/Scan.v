(* Scan.v — specification of the search: the isolated greedy run from one start
   position, all greedy successes in start order, leftmost selection.  find_all
   (Dfa.v) is proved equal to this in Gsm/ScanProofs.v. *)
From Verif Require Import Base Regex Nfa Dfa.

Section Scan.
  Context {P I : Type}.
  Variable peqb : P -> P -> bool.
  Variable accept_st : P -> Z -> I -> bool * Z.
  Notation consume := (consume peqb accept_st).

  (* run one attempt until no transition applies or the input ends;
     Some n = it stopped in an accepting state after n items *)
  Fixpoint greedy_run (a : automaton P) (pt : pat P) (w : list I) : res (option nat) :=
    match w with
    | [] => OK (if is_accepting a pt then Some (p_len pt) else None)
    | x :: w' =>
        match consume a pt x with
        | Err k => Err k
        | OK None => OK (if is_accepting a pt then Some (p_len pt) else None)
        | OK (Some pt') => greedy_run a pt' w'
        end
    end.

  Definition greedy (a : automaton P) (w : list I) (i : nat) : res (option nat) :=
    match greedy_run a (new_pat a i) (skipn i w) with
    | Err k => Err k
    | OK None => OK None
    | OK (Some n) => OK (Some (i + n)%nat)
    end.

  Fixpoint all_greedy_from (a : automaton P) (w : list I) (starts : list nat) : res (list cand) :=
    match starts with
    | [] => OK []
    | i :: r =>
        match greedy a w i with
        | Err k => Err k
        | OK g =>
            match all_greedy_from a w r with
            | Err k => Err k
            | OK cs => OK (match g with Some t => (i, t) :: cs | None => cs end)
            end
        end
    end.
  Definition all_greedy (a : automaton P) (w : list I) : res (list cand) :=
    all_greedy_from a w (seq O (length w)).

  Definition scan_spec (a : automaton P) (w : list I) (f : cand -> res bool) : res (list cand) :=
    match all_greedy a w with
    | Err k => Err k
    | OK cs => select_leftmost f O cs
    end.
End Scan.

Definition sublist {A} (w : list A) (s t : nat) : list A := firstn (t - s) (skipn s w).
