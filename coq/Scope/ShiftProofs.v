(* ShiftProofs.v — property C04: comments, blank lines and white space never
   change what is measured.  Combines ShiftProofsNoise (white-space tokens and
   non-marker comments are invisible) with ShiftProofsRelabel (a strictly
   monotone renumbering of the lines only renumbers the reported lines). *)
From Verif Require Import Base Token Lex Headers Blocks Pairing Fold ScanFile.
From Verif Require Import ShiftProofsNoise ShiftProofsRelabel.
Open Scope Z_scope.

Lemma strip_noise_relabel phi toks :
  strip_noise (map (relabel phi) toks) = map (relabel phi) (strip_noise toks).
Proof. unfold strip_noise. rewrite filter_map_comm. reflexivity. Qed.

Lemma code_of_strip_noise toks t :
  In t (filter_tokens false (strip_noise toks)) -> In t (filter_tokens false toks).
Proof.
  unfold filter_tokens, strip_noise. intros H. apply filter_In in H. destruct H as [H Hk].
  apply filter_In in H. destruct H as [H _]. apply filter_In. split; assumption.
Qed.

(* ---------- the general statement ----------
   toks' = toks with its lines renumbered by phi, up to white-space tokens and
   non-marker comments, which may be inserted into / deleted from either stream
   at arbitrary positions and with arbitrary line numbers.  The side condition
   says that no line is inserted inside the (multi-line) last token of a function;
   it is only needed for code tokens. *)
Theorem C04_shift : forall l phi toks toks', mono phi ->
  (forall t, In t (filter_tokens false toks) -> line_ok phi t) ->
  strip_noise toks' = map (relabel phi) (strip_noise toks) ->
  scan_file l toks' = shift_res phi (scan_file l toks).
Proof.
  intros l phi toks toks' Hm Hl He.
  rewrite <- (scan_file_strip_noise l toks'), He.
  rewrite (scan_file_relabel_weak phi Hm).
  - rewrite scan_file_strip_noise. reflexivity.
  - intros t Ht. apply Hl, code_of_strip_noise, Ht.
Qed.

(* the property's wording: relabel, then insert white space / ordinary comments anywhere *)
Theorem C04_shift_insert : forall l phi toks toks', mono phi ->
  (forall t, In t toks -> forall k, 0 <= k <= newlines_in (t_value t) -> phi (t_line t + k) = phi (t_line t) + k) ->
  noise_equiv (map (relabel phi) toks) toks' ->
  scan_file l toks' =
    match scan_file l toks with OK ms => OK (map (shift_meas phi) ms) | Err k => Err k end.
Proof.
  intros l phi toks toks' Hm Hl He. apply (C04_shift l phi toks toks' Hm).
  - intros t Ht. apply filter_In in Ht. destruct Ht as [Ht _]. unfold line_ok.
    apply Hl; [exact Ht|]. pose proof (newlines_in_nonneg (t_value t)). lia.
  - apply noise_equiv_iff in He. rewrite <- He. apply strip_noise_relabel.
Qed.

(* ---------- what an observer of the report sees ---------- *)
Lemma shift_meas_name phi m : m_unit_name (shift_meas phi m) = m_unit_name m.
Proof. reflexivity. Qed.
Lemma shift_meas_value phi m : m_value (shift_meas phi m) = m_value m.
Proof. reflexivity. Qed.
Lemma shift_meas_start phi m :
  loc_line (m_start (shift_meas phi m)) = phi (loc_line (m_start m)) /\
  loc_column (m_start (shift_meas phi m)) = loc_column (m_start m).
Proof. split; reflexivity. Qed.
Lemma shift_meas_end phi m :
  loc_line (m_end (shift_meas phi m)) = phi (loc_line (m_end m)) /\
  loc_column (m_end (shift_meas phi m)) = loc_column (m_end m).
Proof. split; reflexivity. Qed.

Theorem C04_same_functions : forall l phi toks toks', mono phi ->
  (forall t, In t (filter_tokens false toks) -> line_ok phi t) ->
  strip_noise toks' = map (relabel phi) (strip_noise toks) ->
  (forall k, scan_file l toks = Err k -> scan_file l toks' = Err k) /\
  (forall ms, scan_file l toks = OK ms ->
     exists ms', scan_file l toks' = OK ms' /\
       ms' = map (shift_meas phi) ms /\
       length ms' = length ms /\
       map m_unit_name ms' = map m_unit_name ms /\
       map m_value ms' = map m_value ms /\                       (* same lengths: no added line is counted *)
       map (fun m => loc_line (m_start m)) ms' = map (fun m => phi (loc_line (m_start m))) ms /\
       map (fun m => loc_line (m_end m)) ms' = map (fun m => phi (loc_line (m_end m))) ms /\
       map (fun m => loc_column (m_start m)) ms' = map (fun m => loc_column (m_start m)) ms /\
       map (fun m => loc_column (m_end m)) ms' = map (fun m => loc_column (m_end m)) ms).
Proof.
  intros l phi toks toks' Hm Hl He. pose proof (C04_shift l phi toks toks' Hm Hl He) as H.
  split.
  - intros k Hk. rewrite H, Hk. reflexivity.
  - intros ms Hms. rewrite Hms in H. cbn [shift_res] in H.
    exists (map (shift_meas phi) ms). split; [exact H|]. split; [reflexivity|].
    rewrite map_length, !map_map. repeat split; reflexivity.
Qed.

(* ---------- phi = identity: only noise differs ---------- *)
Lemma shift_meas_id m : shift_meas (fun x => x) m = m.
Proof. destruct m as [n [sl sc] [el ec] v]. reflexivity. Qed.

Theorem C04_noise_only : forall l toks toks',
  strip_noise toks' = strip_noise toks -> scan_file l toks' = scan_file l toks.
Proof. intros l toks toks' H. apply scan_file_noise_equiv, noise_equiv_iff, H. Qed.

(* ---------- inserting k (blank or comment-only) lines before line n ---------- *)
Definition insert_lines (n k : Z) (x : Z) : Z := if x <? n then x else x + k.

Lemma insert_lines_mono n k : 0 <= k -> mono (insert_lines n k).
Proof.
  intros Hk a b Hab. unfold insert_lines.
  destruct (Z.ltb_spec a n), (Z.ltb_spec b n); lia.
Qed.

Theorem C04_insert_lines : forall l n k toks toks', 0 <= k ->
  (forall t, In t (filter_tokens false toks) ->
     t_line t + newlines_in (t_value t) < n \/ n <= t_line t) ->      (* line n does not start inside a token *)
  strip_noise toks' = map (relabel (insert_lines n k)) (strip_noise toks) ->
  scan_file l toks' = shift_res (insert_lines n k) (scan_file l toks).
Proof.
  intros l n k toks toks' Hk Hl He. apply C04_shift; [apply insert_lines_mono, Hk| |exact He].
  intros t Ht. unfold line_ok, insert_lines. pose proof (newlines_in_nonneg (t_value t)) as Hn.
  destruct (Hl t Ht) as [H|H];
    destruct (Z.ltb_spec (t_line t + newlines_in (t_value t)) n), (Z.ltb_spec (t_line t) n); lia.
Qed.

Lemma insert_lines_below n k m : n <= loc_line (m_start m) ->
  loc_line (m_start (shift_meas (insert_lines n k) m)) = loc_line (m_start m) + k /\
  m_value (shift_meas (insert_lines n k) m) = m_value m.
Proof.
  intros H. split; [|reflexivity]. cbn. unfold insert_lines.
  destruct (Z.ltb_spec (loc_line (m_start m)) n); lia.
Qed.
Lemma insert_lines_above n k m : loc_line (m_start m) < n -> loc_line (m_end m) < n ->
  shift_meas (insert_lines n k) m = m.
Proof.
  intros Hs He. destruct m as [nm [sl sc] [el ec] v]. cbn in *.
  unfold shift_meas, insert_lines. cbn.
  destruct (Z.ltb_spec sl n), (Z.ltb_spec el n); try lia. reflexivity.
Qed.
