(* CodebaseProofsTree.v — the folder tree built by add_folder / add_file:
   structural invariant TInv, specification of add_folder. *)
From Verif Require Import Base BaseProofs GenThresholds Thresholds Codebase CodebaseProofsStr CodebaseProofsTotals.
Open Scope Z_scope.

Definition keys {V} (d : dict V) : list pystr := map fst d.

Definition ents_files (l : list entry) : list FileEntry :=
  flat_map (fun en => match en with EFile e => [e] | EFolder _ => [] end) l.
Definition ents_subs (l : list entry) : list pystr :=
  flat_map (fun en => match en with EFile _ => [] | EFolder n => [n] end) l.
Definition files_of (fo : folder) : list FileEntry := ents_files (fo_entries fo).
Definition subs_of (fo : folder) : list pystr := ents_subs (fo_entries fo).
Definition zero4 : list Z := [0; 0; 0; 0].
Definition ffiles (o : option folder) : list FileEntry := match o with Some fo => files_of fo | None => [] end.
Definition fprof (o : option folder) : list Z := match o with Some fo => fo_profile fo | None => zero4 end.

Lemma ents_files_app l1 l2 : ents_files (l1 ++ l2) = ents_files l1 ++ ents_files l2.
Proof. apply flat_map_app. Qed.
Lemma ents_subs_app l1 l2 : ents_subs (l1 ++ l2) = ents_subs l1 ++ ents_subs l2.
Proof. apply flat_map_app. Qed.

Record TInv (U : list pystr) (tree : dict folder) : Prop := mkTInv {
  ti_nodup : NoDup (keys tree);
  ti_keys : forall k, In k (keys tree) -> exists cs, good cs /\ k = fkey cs;
  ti_root : In rootk (keys tree);
  ti_parent : forall cs c, good (cs ++ [c]) -> In (fkey (cs ++ [c])) (keys tree) ->
               ~ In (fkey (cs ++ [c])) U -> In (fkey cs) (keys tree);
  ti_subs : forall cs fo, good cs -> dget tree (fkey cs) = Some fo ->
     exists names, subs_of fo = map (fun c => c ++ [slash]) names /\ NoDup names /\
       forall c, In c names <-> (okc c /\ In (fkey (cs ++ [c])) (keys tree) /\ ~ In (fkey (cs ++ [c])) U)
}.

Lemma good_snoc cs c : good (cs ++ [c]) <-> good cs /\ okc c.
Proof.
  rewrite good_app. split; intros [H1 H2]; split; auto.
  - inversion H2; assumption.
  - constructor; [assumption|constructor].
Qed.

Lemma fkey_snoc_inj cs c ds d : good (cs ++ [c]) -> good (ds ++ [d]) ->
  fkey (cs ++ [c]) = fkey (ds ++ [d]) -> cs = ds /\ c = d.
Proof. intros H1 H2 E. apply fkey_inj in E; auto. apply app_inj_tail in E. exact E. Qed.

Lemma fkey_snoc_neq cs c : good (cs ++ [c]) -> fkey (cs ++ [c]) <> fkey cs.
Proof.
  intros H E. apply fkey_inj in E; [|exact H|eapply good_prefix; exact H].
  apply (f_equal (@length pystr)) in E. rewrite app_length in E. cbn in E. lia.
Qed.

(* TInv only depends on the keys and on the sub-folder names of each folder *)
Lemma TInv_ext U t t' : keys t = keys t' ->
  (forall k, option_map subs_of (dget t k) = option_map subs_of (dget t' k)) ->
  TInv U t -> TInv U t'.
Proof.
  intros Hk Hs [H1 H2 H3 H4 H5]. constructor; rewrite <- ?Hk; auto.
  intros cs fo' Hc Hg. specialize (Hs (fkey cs)). rewrite Hg in Hs.
  destruct (dget t (fkey cs)) as [fo|] eqn:E; [|discriminate]. cbn in Hs. inversion Hs as [Hs'].
  destruct (H5 cs fo Hc E) as (names & Hn1 & Hn2 & Hn3). exists names.
  split; [exact Hn1|]. split; [exact Hn2|]. exact Hn3.
Qed.

(* updating a folder without touching its sub-folder names *)
Lemma TInv_dset_same_subs U t k pf fo' : TInv U t -> dget t k = Some pf -> subs_of fo' = subs_of pf ->
  TInv U (dset t k fo').
Proof.
  intros HT Hg Hs. apply (TInv_ext U t); [| |exact HT].
  - unfold keys. symmetry. apply keys_dset_present. eapply dget_Some_key; eauto.
  - intros k'. destruct (pystr_eq_dec k' k) as [->|Hne].
    + rewrite dget_dset_same, Hg. cbn. rewrite Hs. reflexivity.
    + rewrite dget_dset_other by exact Hne. reflexivity.
Qed.

(* A: a fresh, not yet linked folder *)
Lemma TInv_pending U tree cs : TInv U tree -> good cs -> ~ In (fkey cs) (keys tree) ->
  TInv (fkey cs :: U) (dset tree (fkey cs) empty_folder).
Proof.
  intros [H1 H2 H3 H4 H5] Hc Hni.
  assert (Hk : keys (dset tree (fkey cs) empty_folder) = keys tree ++ [fkey cs]).
  { unfold keys. apply keys_dset_absent. exact Hni. }
  constructor; rewrite ?Hk.
  - apply NoDup_app_snoc; assumption.
  - intros k Hin. apply in_app_or in Hin. destruct Hin as [Hin|[<-|[]]]; [auto|eauto].
  - apply in_or_app. left. exact H3.
  - intros ds c Hg Hin Hnu. apply in_or_app. left.
    apply in_app_or in Hin. destruct Hin as [Hin|[E|[]]].
    + apply (H4 ds c Hg Hin). intros HU. apply Hnu. right. exact HU.
    + exfalso. apply Hnu. left. exact E.
  - intros ds fo Hd Hg. destruct (pystr_eq_dec (fkey ds) (fkey cs)) as [E|Hne].
    + rewrite E, dget_dset_same in Hg. inversion Hg; subst fo. exists [].
      split; [reflexivity|]. split; [constructor|]. intros c. split; [intros []|].
      intros (Hokc & Hin & Hnu). apply Hni.
      assert (Eds : ds = cs) by (apply fkey_inj; assumption). subst ds.
      assert (Hg2 : good (cs ++ [c])) by (apply good_snoc; auto).
      apply in_app_or in Hin. destruct Hin as [Hin|[E2|[]]].
      * apply (H4 cs c Hg2 Hin). intros HU. apply Hnu. right. exact HU.
      * exfalso. apply (fkey_snoc_neq cs c Hg2). symmetry. exact E2.
    + rewrite dget_dset_other in Hg by exact Hne.
      destruct (H5 ds fo Hd Hg) as (names & Hn1 & Hn2 & Hn3). exists names.
      split; [exact Hn1|]. split; [exact Hn2|]. intros c. rewrite Hn3. cbn [In].
      rewrite in_app_iff. cbn [In]. split.
      * intros (Ho & Hin & Hnu). split; [exact Ho|]. split; [left; exact Hin|].
        intros [E|HU]; [|contradiction]. apply Hni. rewrite E. exact Hin.
      * intros (Ho & Hin & Hnu). split; [exact Ho|].
        split; [|intros HU; apply Hnu; right; exact HU].
        destruct Hin as [Hin|[E|[]]]; [exact Hin|]. exfalso. apply Hnu. left. exact E.
Qed.

(* B: linking the pending folder into its parent *)
Lemma TInv_link U tree cs x pf :
  TInv (fkey (cs ++ [x]) :: U) tree -> good (cs ++ [x]) ->
  In (fkey (cs ++ [x])) (keys tree) -> ~ In (fkey (cs ++ [x])) U ->
  dget tree (fkey cs) = Some pf ->
  TInv U (dset tree (fkey cs) (mkFolder (fo_entries pf ++ [EFolder (x ++ [slash])]) (fo_profile pf))).
Proof.
  intros [H1 H2 H3 H4 H5] Hg Hin Hnu Hpf.
  assert (Hgc : good cs) by (eapply good_prefix; exact Hg).
  assert (Hox : okc x) by (apply good_snoc in Hg; tauto).
  assert (Hk : keys (dset tree (fkey cs) (mkFolder (fo_entries pf ++ [EFolder (x ++ [slash])]) (fo_profile pf)))
               = keys tree).
  { unfold keys. apply keys_dset_present. eapply dget_Some_key; eauto. }
  constructor; rewrite ?Hk; auto.
  - intros ds c Hgd Hind Hnud.
    destruct (pystr_eq_dec (fkey (ds ++ [c])) (fkey (cs ++ [x]))) as [E|Hne].
    + apply fkey_snoc_inj in E; auto. destruct E as [-> ->]. eapply dget_Some_key; eauto.
    + apply (H4 ds c Hgd Hind). intros [E|HU]; [congruence|contradiction].
  - intros ds fo Hd Hgf. destruct (pystr_eq_dec (fkey ds) (fkey cs)) as [E|Hne].
    + assert (ds = cs) by (apply fkey_inj; assumption). subst ds.
      rewrite dget_dset_same in Hgf. inversion Hgf; subst fo. clear Hgf E.
      destruct (H5 cs pf Hgc Hpf) as (names & Hn1 & Hn2 & Hn3).
      exists (names ++ [x]). split; [|split].
      * unfold subs_of in *. cbn [fo_entries]. rewrite ents_subs_app, Hn1, map_app. reflexivity.
      * apply NoDup_app_snoc; [exact Hn2|]. intros Hx. apply Hn3 in Hx.
        destruct Hx as (_ & _ & Hx). apply Hx. left. reflexivity.
      * intros c. rewrite in_app_iff. cbn [In]. rewrite Hn3. split.
        -- intros [(Ho & Hi & Hn)|[<-|[]]].
           ++ split; [exact Ho|]. split; [exact Hi|]. intros HU. apply Hn. right. exact HU.
           ++ auto.
        -- intros (Ho & Hi & Hn).
           destruct (pystr_eq_dec (fkey (cs ++ [c])) (fkey (cs ++ [x]))) as [E|Hne].
           ++ apply fkey_snoc_inj in E; auto; [|apply good_snoc; auto]. right. left. symmetry. tauto.
           ++ left. split; [exact Ho|]. split; [exact Hi|]. intros [E|HU]; [congruence|contradiction].
    + rewrite dget_dset_other in Hgf by exact Hne.
      destruct (H5 ds fo Hd Hgf) as (names & Hn1 & Hn2 & Hn3). exists names.
      split; [exact Hn1|]. split; [exact Hn2|]. intros c. rewrite Hn3. split.
      * intros (Ho & Hi & Hn). split; [exact Ho|]. split; [exact Hi|]. intros HU. apply Hn. right. exact HU.
      * intros (Ho & Hi & Hn). split; [exact Ho|]. split; [exact Hi|]. intros [E|HU]; [|contradiction].
        apply Hne. symmetry in E. apply fkey_snoc_inj in E; auto; [|apply good_snoc; auto].
        destruct E as [-> _]. reflexivity.
Qed.

Lemma add_folder_S f tree path :
  add_folder (S f) tree path =
  if pystr_eqb path dot then OK tree
  else if dmem tree (key_of path) then OK tree
  else
    match add_folder f (dset tree (key_of path) empty_folder) (get_parent_folder path) with
    | Err k => Err k
    | OK tree2 =>
        match dget tree2 (key_of (get_parent_folder path)) with
        | None => Err KeyError
        | Some pf => OK (dset tree2 (key_of (get_parent_folder path))
                           (mkFolder (fo_entries pf ++ [EFolder (get_basename path ++ [slash])]) (fo_profile pf)))
        end
    end.
Proof. reflexivity. Qed.

Definition is_prefix_key (cs : list pystr) (k : pystr) : Prop :=
  exists pre suf, cs = pre ++ suf /\ k = fkey pre.

Lemma add_folder_spec : forall fuel cs U tree,
  good cs -> (length cs < fuel)%nat -> TInv U tree ->
  (forall us, good us -> In (fkey us) U -> (length cs < length us)%nat) ->
  exists tree', add_folder fuel tree (fpath cs) = OK tree' /\ TInv U tree' /\
    In (fkey cs) (keys tree') /\
    (forall k, In k (keys tree) -> In k (keys tree')) /\
    (forall k, In k (keys tree') -> In k (keys tree) \/ is_prefix_key cs k) /\
    (forall k, ffiles (dget tree' k) = ffiles (dget tree k) /\ fprof (dget tree' k) = fprof (dget tree k)).
Proof.
  induction fuel as [|f IH]; intros cs U tree Hg Hlen HT HU; [lia|].
  rewrite add_folder_S.
  destruct (snoc_cases cs) as [->|(cs' & x & ->)].
  - (* "." *)
    cbn [fpath]. rewrite pystr_eqb_refl. exists tree. split; [reflexivity|]. split; [exact HT|].
    split; [apply (ti_root _ _ HT)|]. repeat split; auto.
  - assert (Hne : cs' ++ [x] <> []) by (destruct cs'; discriminate).
    rewrite pystr_eqb_neq by (apply fpath_not_dot; assumption).
    change (key_of (fpath (cs' ++ [x]))) with (fkey (cs' ++ [x])).
    destruct (dmem tree (fkey (cs' ++ [x]))) eqn:Hm.
    + apply dmem_true in Hm. exists tree. split; [reflexivity|]. split; [exact HT|].
      split; [exact Hm|]. repeat split; auto.
    + apply dmem_false in Hm.
      rewrite get_parent_folder_fpath, removelast_snoc by assumption.
      rewrite get_basename_fpath, last_snoc by assumption.
      change (key_of (fpath cs')) with (fkey cs').
      assert (Hgc : good cs') by (eapply good_prefix; exact Hg).
      assert (HnU : ~ In (fkey (cs' ++ [x])) U).
      { intros HinU. specialize (HU _ Hg HinU). lia. }
      destruct (IH cs' (fkey (cs' ++ [x]) :: U) (dset tree (fkey (cs' ++ [x])) empty_folder))
        as (tree2 & E2 & HT2 & Hin2 & Hsub2 & Hsup2 & Hfr2).
      * exact Hgc.
      * rewrite app_length in Hlen. cbn in Hlen. lia.
      * apply TInv_pending; assumption.
      * intros us Hus [E|HinU].
        -- apply fkey_inj in E; auto. subst us. rewrite app_length. cbn. lia.
        -- specialize (HU us Hus HinU). rewrite app_length in HU. cbn in HU. lia.
      * rewrite E2. destruct (dget_In_key tree2 (fkey cs') Hin2) as (pf & Hpf). rewrite Hpf.
        eexists. split; [reflexivity|].
        assert (Hin1 : In (fkey (cs' ++ [x])) (keys tree2)).
        { apply Hsub2. unfold keys. apply In_keys_dset. right. reflexivity. }
        assert (Hk3 : forall fo', keys (dset tree2 (fkey cs') fo') = keys tree2).
        { intros fo'. unfold keys. apply keys_dset_present. exact Hin2. }
        split; [apply TInv_link; assumption|]. rewrite Hk3.
        split; [exact Hin1|]. split; [|split].
        -- intros k Hk. apply Hsub2. unfold keys. apply In_keys_dset. left. exact Hk.
        -- intros k Hk. apply Hsup2 in Hk. destruct Hk as [Hk|(pre & suf & E & ->)].
           ++ unfold keys in Hk. apply In_keys_dset in Hk. destruct Hk as [Hk| ->]; [left; exact Hk|].
              right. exists (cs' ++ [x]), []. rewrite app_nil_r. auto.
           ++ right. exists pre, (suf ++ [x]). rewrite E, <- app_assoc. auto.
        -- intros k. destruct (pystr_eq_dec k (fkey cs')) as [->|Hnk].
           ++ rewrite dget_dset_same. destruct (Hfr2 (fkey cs')) as [F1 F2]. rewrite Hpf in F1, F2.
              rewrite dget_dset_other in F1, F2 by (apply not_eq_sym, fkey_snoc_neq, Hg).
              cbn [ffiles fprof] in *. rewrite <- F1, <- F2. unfold files_of. cbn [fo_entries fo_profile].
              rewrite ents_files_app. cbn. rewrite app_nil_r. auto.
           ++ rewrite dget_dset_other by exact Hnk. destruct (Hfr2 k) as [F1 F2]. rewrite F1, F2.
              destruct (pystr_eq_dec k (fkey (cs' ++ [x]))) as [->|Hnk2].
              ** rewrite dget_dset_same. apply dget_None in Hm. rewrite Hm. auto.
              ** rewrite dget_dset_other by exact Hnk2. auto.
Qed.
