(* Percent.v — facts about the translated summary percentages and verdicts
   (Gen/GenPercent.v, regenerated from Report.quality_profile_percentage,
   SummaryTable, format_text.print_summary, format_markdown.print_summary). *)
From Verif Require Import Base GenPercent.
From Coq Require Import ZifyBool.
Open Scope Z_scope.

(* exact ceiling of n/d *)
Lemma cdiv_spec n d : 0 < d -> d * (cdiv n d - 1) < n <= d * cdiv n d.
Proof.
  intros Hd. unfold cdiv.
  pose proof (Z.div_mod (- n) d ltac:(lia)) as E.
  pose proof (Z.mod_pos_bound (- n) d Hd) as B. nia.
Qed.

Definition shown (p : list Z) : Z * Z * Z :=          (* the three displayed figures *)
  let '(e, v, h, u) := quality_profile_percentage p in (e + v, h, u).

Definition refactor_text (p : list Z) : bool :=
  let '(_, _, h, u) := quality_profile_percentage p in verdict_unm_text u || verdict_htm_text h.
Definition refactor_md (p : list Z) : bool :=
  let '(_, _, h, u) := quality_profile_percentage p in verdict_unm_md u || verdict_htm_md h.

Section Profile.
  Variables p0 p1 p2 p3 : Z.
  Hypothesis H0 : 0 <= p0. Hypothesis H1 : 0 <= p1. Hypothesis H2 : 0 <= p2. Hypothesis H3 : 0 <= p3.
  Let total := p0 + p1 + p2 + p3.

  Lemma sum_total : sumZ [p0; p1; p2; p3] = total.
  Proof. unfold sumZ, total. cbn [fold_left]. lia. Qed.

  (* the raw (pre-adjustment) figure of one category *)
  Definition raw (x : Z) : Z := cdiv (x * 1 * 100 * 1000 - 1 * (1 * total * 1)) (1 * total * 1 * 1000).

  Lemma raw_bounds x : 0 < total -> 0 <= x <= total ->
    1000 * total * (raw x - 1) < 100000 * x - total <= 1000 * total * raw x /\ 0 <= raw x <= 100.
  Proof.
    intros Ht Hx. unfold raw.
    pose proof (cdiv_spec (x * 1 * 100 * 1000 - 1 * (1 * total * 1)) (1 * total * 1 * 1000) ltac:(lia)) as C.
    set (r := cdiv _ _) in *. split; [lia|]. split; nia.
  Qed.

  Lemma raw_pair_bound : 0 < total -> raw p2 + raw p3 <= 101.
  Proof.
    intros Ht. pose proof (raw_bounds p2 Ht ltac:(unfold total; lia)) as [B2 _].
    pose proof (raw_bounds p3 Ht ltac:(unfold total; lia)) as [B3 _].
    assert (p2 + p3 <= total) by (unfold total; lia). nia.
  Qed.

  Lemma shown_eq :
    shown [p0; p1; p2; p3] =
    if total >? 0 then
      let u0 := raw p3 in let h0 := raw p2 in
      let '(u, h) := if u0 + h0 >? 100 then (if u0 >=? h0 then (u0 - 1, h0) else (u0, h0 - 1)) else (u0, h0) in
      (100 - u - h, h, u)
    else (100, 0, 0).
  Proof.
    unfold shown, quality_profile_percentage. cbv zeta. rewrite sum_total.
    cbn [nthZ nth]. fold (raw p3) (raw p2) (raw p1).
    destruct (total >? 0); [|reflexivity].
    destruct (raw p3 + raw p2 >? 100); [destruct (raw p3 >=? raw p2)|]; f_equal; f_equal; lia.
  Qed.

  (* integers in 0..100 that sum to 100 *)
  Theorem shown_range : let '(ev, h, u) := shown [p0; p1; p2; p3] in
    0 <= ev <= 100 /\ 0 <= h <= 100 /\ 0 <= u <= 100 /\ ev + h + u = 100.
  Proof.
    rewrite shown_eq. destruct (Z.gtb_spec total 0) as [Ht|Ht]; [|lia]. cbv zeta.
    pose proof (raw_bounds p2 Ht ltac:(unfold total; lia)) as [_ R2].
    pose proof (raw_bounds p3 Ht ltac:(unfold total; lia)) as [_ R3].
    pose proof (raw_pair_bound Ht) as RP.
    destruct (Z.gtb_spec (raw p3 + raw p2) 100); [destruct (Z.geb_spec (raw p3) (raw p2))|]; lia.
  Qed.

  (* each figure within two points of the category's true share (shares are x*100/total) *)
  Theorem shown_accuracy : 0 < total -> let '(ev, h, u) := shown [p0; p1; p2; p3] in
    - 2 * total < 100 * (p0 + p1) - ev * total < 2 * total /\
    - 2 * total < 100 * p2 - h * total < 2 * total /\
    - 2 * total < 100 * p3 - u * total < 2 * total.
  Proof.
    intros Ht. rewrite shown_eq. destruct (Z.gtb_spec total 0) as [_|]; [|lia]. cbv zeta.
    pose proof (raw_bounds p2 Ht ltac:(unfold total; lia)) as [B2 R2].
    pose proof (raw_bounds p3 Ht ltac:(unfold total; lia)) as [B3 R3].
    assert (E : 100 * (p0 + p1) = 100 * total - 100 * p2 - 100 * p3) by (unfold total; lia).
    destruct (Z.gtb_spec (raw p3 + raw p2) 100); [destruct (Z.geb_spec (raw p3) (raw p2))|];
      (split; [|split]); nia.
  Qed.

  (* a hard / unmaintainable category holding more than 0.001 % never shows as 0 % *)
  Theorem shown_never_hidden : 0 < total -> let '(ev, h, u) := shown [p0; p1; p2; p3] in
    (100000 * p2 > total -> 0 < h) /\ (100000 * p3 > total -> 0 < u).
  Proof.
    intros Ht. rewrite shown_eq. destruct (Z.gtb_spec total 0) as [_|]; [|lia]. cbv zeta.
    pose proof (raw_bounds p2 Ht ltac:(unfold total; lia)) as [B2 R2].
    pose proof (raw_bounds p3 Ht ltac:(unfold total; lia)) as [B3 R3].
    destruct (Z.gtb_spec (raw p3 + raw p2) 100); [destruct (Z.geb_spec (raw p3) (raw p2))|];
      split; intros; nia.
  Qed.

  Theorem shown_empty : total = 0 -> shown [p0; p1; p2; p3] = (100, 0, 0).
  Proof. intros E. rewrite shown_eq. destruct (Z.gtb_spec total 0); [lia|reflexivity]. Qed.
End Profile.

(* the verdict: refactoring necessary  <->  unmaintainable% > 0 or hard% > 20, in all three places *)
Theorem verdict_spec p : let '(_, h, u) := shown p in
  refactor_text p = ((0 <? u) || (20 <? h)) /\ refactor_md p = ((0 <? u) || (20 <? h)) /\
  summary_red u h = (0 <? u) /\ summary_orange u h = (20 <? h) /\
  (summary_green u h = true -> (0 <? u) || (20 <? h) = false).
Proof.
  unfold shown, refactor_text, refactor_md.
  destruct (quality_profile_percentage p) as [[[e v] h] u].
  unfold verdict_unm_text, verdict_htm_text, verdict_unm_md, verdict_htm_md, summary_red, summary_orange, summary_green.
  repeat split; lia.
Qed.
