"""C09 — cache-assisted scans equal fresh scans over any edit history."""
import itertools
import json
import multiprocessing as mp
import os
import random
import shutil
import tempfile

from common import Check, assert_repo_import, eval_cases, eval_one, canon_tree, coq_list, z, NPROC
import lang_common as LC
import fs_common as F

IMPORTS = "Base Codebase Exclude GenScan FsScan Cache"
SUP = ("let supported := fun n : pystr => if pystr_eqb n %s then Some %s else if pystr_eqb n %s then Some %s "
       "else if pystr_eqb n %s then Some %s else if pystr_eqb n %s then Some %s else None in "
       "let analyze := fun (l : pystr) (c : Z) => mkAnalysis l c (if c =? 0 then [] else if c =? 40 then [20; 20] else [c]) in "
       % (LC.pystr("a.py"), LC.pystr("Python"), LC.pystr("b.js"), LC.pystr("JavaScript"), LC.pystr("c.py"), LC.pystr("Python"),
          LC.pystr("e.ts"), LC.pystr("TypeScript")))


def op_alphabet():
    ops = []
    for p in F.PATHS:
        for c in F.CONTENT_IDS:
            ops.append(("write", p, c))
        ops.append(("delete", p))
        ops.append(("touch", p))
    for a, b in itertools.permutations(F.PATHS, 2):
        ops.append(("rename", a, b))
    for a, b in itertools.combinations(F.PATHS, 2):
        ops.append(("swap", a, b))
    ops += [("exclude", ()), ("exclude", ("d",)), ("exclude", ("*.js",)), ("other_version",), ("other_version", "absent"), ("other_version", "null"), ("drop", "a.py"), ("drop", "d/c.py"),
            ("damage", "truncate"), ("damage", "garbage"), ("remove_cache",)]
    return ops


OLD_TIME = 946684800          # 2000-01-01: older than any cache file


class _W:
    """file writes; every second one keeps an OLD modification time, as a restore (cp -p, tar, a checkout) or a rename does:
    the content, not the time stamp, decides whether a cached entry may be reused (seeded change C09-9)"""
    n = 0

    @classmethod
    def write_file(cls, root, path, cid):
        F.write_file(root, path, cid)
        cls.n += 1
        if cls.n % 2 == 0:
            os.utime(os.path.join(root, path), (OLD_TIME, OLD_TIME))


def apply_op(root, files, excludes, op):
    """perform op on the real tree; `files` is the model's ordered list [(path, cid)]; returns new excludes"""
    kind = op[0]
    d = dict(files)
    if kind == "write":
        _W.write_file(root, op[1], op[2])
        if op[1] in d:
            files[:] = [(p, op[2] if p == op[1] else c) for p, c in files]
        else:
            files.append((op[1], op[2]))
    elif kind == "delete":
        if op[1] in d:
            os.remove(os.path.join(root, op[1]))
            files[:] = [(p, c) for p, c in files if p != op[1]]
    elif kind == "touch":
        if op[1] in d:
            _W.write_file(root, op[1], d[op[1]])
    elif kind == "rename":
        a, b = op[1], op[2]
        if a in d:
            # contents are tied to the extension in this universe: a rename is delete + write of the same content id
            os.remove(os.path.join(root, a))
            _W.write_file(root, b, d[a])
            files[:] = [(p, c) for p, c in files if p != a]
            if b in dict(files):
                files[:] = [(p, d[a] if p == b else c) for p, c in files]
            else:
                files.append((b, d[a]))
    elif kind == "swap":
        a, b = op[1], op[2]
        if a in d and b in d:
            _W.write_file(root, a, d[b])
            _W.write_file(root, b, d[a])
            files[:] = [(p, d[b] if p == a else d[a] if p == b else c) for p, c in files]
    elif kind == "exclude":
        return list(op[1])
    else:
        cp = F.cache_path(root)
        if kind == "remove_cache":
            shutil.rmtree(os.path.dirname(cp), ignore_errors=True)
        elif os.path.exists(cp):
            text = open(cp).read()
            if kind == "damage":
                open(cp, "w").write(text[: len(text) // 2] if op[1] == "truncate" else "not json {")
            else:
                try:
                    doc = json.loads(text)
                except ValueError:
                    return excludes
                if kind == "other_version":
                    how = op[1] if len(op) > 1 else "other"
                    if how == "absent":
                        doc.pop("version", None)          # a legacy report without a version
                    elif how == "null":
                        doc["version"] = None
                    else:
                        doc["version"] = "0.0.1"
                    for e in doc["codebase"]["files"].values():      # a different version may measure differently
                        e["loc"] = 99
                        for m in e["measurements"]:
                            m["value"] = 99
                elif kind == "drop":
                    doc["codebase"]["files"].pop(op[1], None)
                open(cp, "w").write(json.dumps(doc))
    return excludes


def model_op(op, cache_snapshot):
    kind = op[0]
    if kind == "write":
        return f"Write {F.path_lit(op[1])} {op[2]}"
    if kind == "delete":
        return f"Delete {F.path_lit(op[1])}"
    if kind == "touch":
        return f"Touch {F.path_lit(op[1])}"
    if kind == "rename":
        return f"Rename {F.path_lit(op[1])} {F.path_lit(op[2])}"
    if kind == "swap":
        return f"Swap {F.path_lit(op[1])} {F.path_lit(op[2])}"
    if kind == "exclude":
        return "SetExclude " + coq_list(LC.pystr(x) for x in op[1])
    if kind == "other_version":
        return ("ReplaceCache %s (map (fun e : list pystr * (Z * analysis) => (fst e, (fst (snd e), mkAnalysis (a_lang (snd (snd e))) 99 [99]))) "
                "match CUR with CDoc _ es => es | _ => [] end)" % LC.pystr("0.0.1"))
    if kind == "drop":
        return f"DropCacheEntries [{F.path_lit(op[1])}]"
    if kind == "damage":
        return "Damage"
    if kind == "remove_cache":
        return "RemoveCache"
    raise ValueError(op)


def run_history(args):
    ops, tmp, tag = args
    _W.n = 0          # reproducible per history
    root = tempfile.mkdtemp(prefix=f"c09_{tag}_", dir=tmp)
    scratch = root + "_fresh"
    files = []
    excludes = []
    out = []          # per scan: (index in ops, report, analysed, fresh report, model-order expected)
    try:
        for i, op in enumerate(ops):
            if op[0] == "scan":
                try:
                    rep, analysed = F.run_scan(root, excludes)
                except Exception as ex:
                    out.append((i, None, f"{type(ex).__name__}: {str(ex)[:100]}", None, None, None))
                    # leave the damaged cache in place: the next scan fails the same way
                    continue
                fresh, _ = F.fresh_report(root, excludes, scratch)
                with open(F.cache_path(root)) as f:
                    cache_ok = F.canonical(json.load(f)) == rep
                rep2 = dict(rep, root=None)
                order = [p for p, _ in files]
                out.append((i, rep2, analysed, fresh, order, cache_ok))
            else:
                had_cache = os.path.exists(F.cache_path(root))
                excludes = apply_op(root, files, excludes, op)
    finally:
        shutil.rmtree(root, ignore_errors=True)
        shutil.rmtree(scratch, ignore_errors=True)
    return ops, out


def model_expr(ops):
    """fold the ops through the model; ReplaceCache needs the current cache, so build the run incrementally"""
    lines = ["let st0 := init in"]
    k = 0
    outs = []
    for op in ops:
        if op[0] == "scan":
            lines.append(f"let '(st{k + 1}, out{k}) := step supported analyze st{k} Scan in")
            outs.append(f"out{k}")
        else:
            m = model_op(op, None).replace("CUR", f"st_cache st{k}")
            lines.append(f"let '(st{k + 1}, _) := step supported analyze st{k} ({m}) in")
        k += 1
    enc = ("enc_list (enc_list (fun eb : sentry * bool => T [enc_list enc_str (se_path (fst eb)); L (se_checksum (fst eb)); "
           "enc_str (a_lang (se_result (fst eb))); enc_list L (a_meas (se_result (fst eb))); enc_bool (snd eb)])) "
           "[" + "; ".join(outs) + "]")
    return SUP + "\n".join(lines) + "\n" + enc


def run(tier, seed, replay=None):
    assert_repo_import()
    chk = Check("C09", tier, seed)
    model_ok = chk.proof_stage(["Fs/Cache.vo", "Fs/FsProofs.vo", "Report/JsonProofs.vo", "Scope/TieProofs.vo"])
    # ---- a file that is not valid UTF-8, edited only in its invalid bytes between two scans: the checksum is one of the
    #      BYTES, so the cached entry must not be reused (seeded change C09-17: checksum of the text decoded with errors="replace")
    import tempfile as _tf
    _tmp = _tf.mkdtemp(prefix="verif_c09l_")
    try:
        for k in range(3 if tier == "quick" else 20):
            try:
                wc, nc, _, rel = F.latin1_edit_scenario(_tmp, k)
                chk.evaluations += 1
                chk.count("non-UTF-8 file edited in its invalid bytes, rescanned with the cache")
                if wc != nc:
                    chk.violation({"file": rel}, f"{rel} (Latin-1) edited only in bytes that are invalid as UTF-8: the scan with the cache reports "
                                  f"{[m['unit_name'] for m in wc['codebase']['files'].get(rel, {}).get('measurements', [])]}, a from-scratch scan "
                                  f"{[m['unit_name'] for m in nc['codebase']['files'].get(rel, {}).get('measurements', [])]}")
                else:
                    chk.nontrivial.add(("latin1", k))
            except Exception as ex:
                chk.violation({"scenario": "latin1"}, f"rescan of an edited non-UTF-8 file raised {type(ex).__name__}: {ex}")
        # ---- edits that change white space only (blank lines in front, at the end, inside; trailing spaces; line ends): the
        #      bytes differ, so nothing cached may be reused, and line numbers move (seeded change C04-27: checksum of the
        #      text with surrounding white space stripped)
        for k, (what, after) in enumerate(F.whitespace_edits()):
            for direction, (b0, b1) in (("applied", (F.WS_BASE, after)), ("undone", (after, F.WS_BASE))):
                try:
                    wc, nc = F.edit_scenario(_tmp, f"{k}{direction}", b0, b1)
                    chk.evaluations += 1
                    chk.count("white-space-only edit between two scans")
                    if wc != nc:
                        pos = lambda r: [(m["unit_name"], m["start"]["line"], m["start"]["column"], m["end"]["line"], m["end"]["column"], m["value"])
                                         for m in r["codebase"]["files"].get("pkg/mod.py", {}).get("measurements", [])]
                        chk.violation({"file": "pkg/mod.py", "before": b0.decode("latin-1"), "after": b1.decode("latin-1")},
                                      f"edit '{what}' {direction} between two scans: the scan with the cache reports {pos(wc)}, "
                                      f"a from-scratch scan {pos(nc)}")
                    else:
                        chk.nontrivial.add(("ws", k, direction))
                except Exception as ex:
                    chk.violation({"scenario": "white space", "edit": what}, f"rescan after a white-space-only edit raised {type(ex).__name__}: {ex}")
    finally:
        shutil.rmtree(_tmp, ignore_errors=True)
    alpha = op_alphabet()
    prefix = [("write", "a.py", 2), ("write", "d/b.js", 16), ("write", "d/c.py", 2), ("scan",)]
    histories = []
    if tier == "quick":
        for a in alpha:
            histories.append(prefix + [a, ("scan",), ("scan",)])
        rng = chk.rng
        for a, b in rng.sample(list(itertools.product(alpha, repeat=2)), 350):
            histories.append(prefix + [a, ("scan",), b, ("scan",)])
    else:
        for a, b in itertools.product(alpha, repeat=2):
            histories.append(prefix + [a, ("scan",), b, ("scan",)])
        rng = chk.rng
        for a, b, c in rng.sample(list(itertools.product(alpha, repeat=3)), 6000):
            histories.append(prefix + [a, b, ("scan",), c, ("scan",)])
    # every change of one file's content between two scans (incl. large files that differ only in their last bytes)
    for p in F.PATHS:
        for c1, c2 in itertools.permutations(F.CONTENT_IDS, 2):
            histories.append(prefix + [("write", p, c1), ("scan",), ("write", p, c2), ("scan",)])
    rng = chk.rng
    for _ in range(40 if tier == "quick" else 1500):
        h = []
        for _ in range(rng.randint(5, 30)):
            h.append(rng.choice(alpha) if rng.random() < 0.7 else ("scan",))
        histories.append(h + [("scan",)])
    tmp = tempfile.mkdtemp(prefix="verif_c09_")
    cases = []
    try:
        with mp.Pool(NPROC) as pool:
            for ops, out in pool.imap_unordered(run_history, [(h, tmp, i) for i, h in enumerate(histories)], chunksize=4):
                chk.evaluations += 1
                chk.count(f"history length {min(len(ops) // 5 * 5, 30)}+")
                for o in ops:
                    chk.count("op " + o[0])
                if len([o for o in ops if o[0] != "scan"]) >= 2:
                    chk.nontrivial.add(str(ops))
                expected = []
                bad = False
                for i, rep, analysed, fresh, order, cache_ok in out:
                    if rep is None:
                        chk.violation({"history": ops, "failing_scan_index": i}, f"scan #{i} of the history raised {analysed}")
                        bad = True
                        break
                    if rep != fresh:
                        diff = [k for k in rep["codebase"]["files"] if rep["codebase"]["files"].get(k) != fresh["codebase"]["files"].get(k)]
                        chk.violation({"history": ops, "failing_scan_index": i},
                                      f"scan #{i} (with cache) differs from a from-scratch scan of the same tree: files {diff or 'totals/tree'}")
                        bad = True
                        break
                    if not cache_ok:
                        chk.violation({"history": ops, "failing_scan_index": i}, f"scan #{i}: the cache left on disk is not the report")
                        bad = True
                        break
                    ent = {"/".join(e[0]): e for e in F.entries_tree(rep)}
                    expected.append([ent[p] + [p in analysed] for p in order if p in ent])
                if not bad:
                    cases.append((model_expr(ops), expected, {"history": ops}))
    finally:
        shutil.rmtree(tmp, ignore_errors=True)
    chk.samples = [c for _, _, c in cases[:2] + cases[-1:]]
    if model_ok:
        mism, err = eval_cases("C09", IMPORTS, [(m, o) for m, o, _ in cases], shard=40)
        chk.traces = len(cases)
        if err:
            chk.broken.append("correspondence evaluation failed: " + err[-400:])
        for i in mism[:3]:
            got = eval_one("C09", IMPORTS, cases[i][0])
            chk.broken.append(f"correspondence: cache machine and implementation differ on {cases[i][2]}: model {str(got)[:400]} "
                              f"vs implementation {str(canon_tree(cases[i][1]))[:400]}")
    else:
        chk.broken.append("cache model does not build; correspondence not run")
    nt = len(chk.nontrivial)
    chk.nontrivial = {str(i) for i in range(nt)}
    return chk.finish(
        rule="histories over {write(path, content), delete, rename, touch, swap, change exclusions, replace cache by one from "
             "another version with altered entries, drop cache entries, damage, remove cache, scan} on 3 paths x 3 contents: "
             "every single operation and a sample of pairs (quick) / all pairs and sampled triples (thorough) after a populated "
             "scan, plus random histories of length 5-30, on a real temporary directory through scan_command; each scan's "
             "report (up to identifier, timestamp, file order) compared with a from-scratch scan_command of a copy of the tree "
             "and with the Coq state machine (entries and which files were analysed).  Non-trivial: >= 2 edit operations.",
        assumptions=["md5 distinguishes the contents used (3 distinct texts per extension)"])
