(* FsProofsWalk.v — C11: exactly the non-hidden, non-excluded files of supported
   languages are analysed, once each; the others never influence the result. *)
From Coq Require Import Relations.
From Verif Require Import Base Codebase Exclude GenScan FsScan CodebaseProofsStr.
Open Scope Z_scope.

(* ---------- trees ---------- *)
(* the tree (given by the children of the root) contains a file with these
   path components and this content *)
Inductive file_at : list fnode -> list pystr -> Z -> Prop :=
| fa_file children n c : In (File n c) children -> file_at children [n] c
| fa_dir children n cs comps c :
    In (Dir n cs) children -> file_at cs comps c -> file_at children (n :: comps) c.

Definition nonhidden (n : pystr) : Prop := is_hidden n = false.

(* sibling names pairwise distinct, everywhere *)
Inductive wf_node : fnode -> Prop :=
| wf_File n c : wf_node (File n c)
| wf_Dir n cs : NoDup (map node_name cs) -> Forall wf_node cs -> wf_node (Dir n cs).
Definition wf_tree (children : list fnode) : Prop :=
  NoDup (map node_name children) /\ Forall wf_node children.

Fixpoint fnode_ind2 (P : fnode -> Prop) (Hf : forall n c, P (File n c))
    (Hd : forall n cs, Forall P cs -> P (Dir n cs)) (x : fnode) : P x :=
  match x with
  | File n c => Hf n c
  | Dir n cs =>
      Hd n cs ((fix go (l : list fnode) : Forall P l :=
                  match l with
                  | [] => Forall_nil P
                  | y :: r => Forall_cons y (fnode_ind2 P Hf Hd y) (go r)
                  end) cs)
  end.

Definition walk_list (rel : list pystr) (cs : list fnode) : list (list pystr * Z) :=
  flat_map (walk rel) cs.

Lemma walk_root_list children : walk_root children = walk_list [] children.
Proof. reflexivity. Qed.

Lemma walk_File rel name c :
  walk rel (File name c) = if is_hidden name then [] else [(rel ++ [name], c)].
Proof. reflexivity. Qed.

Lemma walk_Dir rel name cs :
  walk rel (Dir name cs) = if is_hidden name then [] else walk_list (rel ++ [name]) cs.
Proof.
  cbn [walk]. destruct (is_hidden name); [reflexivity|].
  unfold walk_list. induction cs as [|x r IH]; [reflexivity|].
  cbn [flat_map]. rewrite <- IH. reflexivity.
Qed.

Lemma walk_list_cons rel x r : walk_list rel (x :: r) = walk rel x ++ walk_list rel r.
Proof. reflexivity. Qed.

Lemma walk_list_app rel l1 l2 : walk_list rel (l1 ++ l2) = walk_list rel l1 ++ walk_list rel l2.
Proof. unfold walk_list. apply flat_map_app. Qed.

(* ---------- file_at, structurally ---------- *)
Lemma file_at_nil comps c : ~ file_at [] comps c.
Proof. intros H. inversion H; subst; match goal with H : In _ [] |- _ => destruct H end. Qed.

Lemma file_at_cons x r comps c :
  file_at (x :: r) comps c <-> file_at [x] comps c \/ file_at r comps c.
Proof.
  split.
  - intros H. inversion H; subst.
    + destruct H0 as [H0|H0]; [left; subst; apply fa_file; left; reflexivity|right; apply fa_file; exact H0].
    + destruct H0 as [H0|H0].
      * left. subst. eapply fa_dir; [left; reflexivity|exact H1].
      * right. eapply fa_dir; [exact H0|exact H1].
  - intros [H|H]; inversion H; subst.
    + destruct H0 as [H0|[]]. subst. apply fa_file. left. reflexivity.
    + destruct H0 as [H0|[]]. subst. eapply fa_dir; [left; reflexivity|exact H1].
    + apply fa_file. right. exact H0.
    + eapply fa_dir; [right; exact H0|exact H1].
Qed.

Lemma file_at_File n c comps c' : file_at [File n c] comps c' <-> comps = [n] /\ c' = c.
Proof.
  split.
  - intros H. inversion H; subst.
    + destruct H0 as [H0|[]]. inversion H0; subst. split; reflexivity.
    + destruct H0 as [H0|[]]. discriminate.
  - intros [-> ->]. apply fa_file. left. reflexivity.
Qed.

Lemma file_at_Dir n cs comps c :
  file_at [Dir n cs] comps c <-> exists comps', comps = n :: comps' /\ file_at cs comps' c.
Proof.
  split.
  - intros H. inversion H; subst.
    + destruct H0 as [H0|[]]. discriminate.
    + destruct H0 as [H0|[]]. inversion H0; subst. eexists; split; [reflexivity|exact H1].
  - intros [comps' [-> H]]. eapply fa_dir; [left; reflexivity|exact H].
Qed.

Lemma file_at_head x comps c : file_at [x] comps c -> exists tl, comps = node_name x :: tl.
Proof.
  destruct x as [n c0|n cs]; intros H.
  - apply file_at_File in H. destruct H as [-> _]. exists []. reflexivity.
  - apply file_at_Dir in H. destruct H as [comps' [-> _]]. exists comps'. reflexivity.
Qed.

Lemma file_at_In children comps c :
  file_at children comps c <-> exists x, In x children /\ file_at [x] comps c.
Proof.
  induction children as [|x r IH].
  - split; [intros H; destruct (file_at_nil _ _ H)|intros [x [[] _]]].
  - rewrite file_at_cons, IH. split.
    + intros [H|[y [Hy H]]]; [exists x; split; [left; reflexivity|exact H]|exists y; split; [right; exact Hy|exact H]].
    + intros [y [[Hy|Hy] H]]; [subst; left; exact H|right; exists y; split; assumption].
Qed.

Lemma file_at_nonempty children comps c : file_at children comps c -> comps <> [].
Proof. intros H; inversion H; discriminate. Qed.

(* ---------- A1: what os.walk enumerates ---------- *)
Definition walk_node_spec (n : fnode) : Prop :=
  forall rel p c,
    In (p, c) (walk rel n) <->
    exists comps, p = rel ++ comps /\ file_at [n] comps c /\ Forall nonhidden comps.

Lemma walk_list_spec_from cs :
  (forall x, In x cs -> walk_node_spec x) ->
  forall rel p c,
    In (p, c) (walk_list rel cs) <->
    exists comps, p = rel ++ comps /\ file_at cs comps c /\ Forall nonhidden comps.
Proof.
  induction cs as [|x r IH]; intros Hall rel p c.
  - cbn. split; [intros []|intros [comps [_ [H _]]]; exact (file_at_nil _ _ H)].
  - rewrite walk_list_cons, in_app_iff.
    rewrite (Hall x (or_introl eq_refl) rel p c).
    rewrite (IH (fun y Hy => Hall y (or_intror Hy)) rel p c).
    split.
    + intros [[comps [Hp [Hf Hh]]]|[comps [Hp [Hf Hh]]]]; exists comps;
        (split; [exact Hp|split; [apply file_at_cons; auto|exact Hh]]).
    + intros [comps [Hp [Hf Hh]]]. apply file_at_cons in Hf. destruct Hf as [Hf|Hf];
        [left|right]; exists comps; auto.
Qed.

Lemma walk_node_spec_all n : walk_node_spec n.
Proof.
  induction n as [n c0|n cs IH] using fnode_ind2; intros rel p c.
  - rewrite walk_File. split.
    + destruct (is_hidden n) eqn:Eh; [intros []|].
      intros [H|[]]. inversion H; subst. exists [n]. split; [reflexivity|].
      split; [apply file_at_File; auto|]. constructor; [exact Eh|constructor].
    + intros [comps [Hp [Hf Hh]]]. apply file_at_File in Hf. destruct Hf as [-> ->].
      inversion Hh; subst. unfold nonhidden in H1. rewrite H1. left. reflexivity.
  - rewrite walk_Dir.
    assert (Hall : forall x, In x cs -> walk_node_spec x) by (apply Forall_forall; exact IH).
    split.
    + destruct (is_hidden n) eqn:Eh; [intros []|].
      intros H. apply (walk_list_spec_from cs Hall) in H.
      destruct H as [comps [Hp [Hf Hh]]]. exists (n :: comps).
      split; [rewrite Hp, <- app_assoc; reflexivity|].
      split; [apply file_at_Dir; exists comps; auto|]. constructor; [exact Eh|exact Hh].
    + intros [comps [Hp [Hf Hh]]]. apply file_at_Dir in Hf. destruct Hf as [comps' [-> Hf]].
      inversion Hh; subst. unfold nonhidden in H1. rewrite H1.
      apply (walk_list_spec_from cs Hall). exists comps'.
      split; [rewrite <- app_assoc; reflexivity|]. split; assumption.
Qed.

Lemma walk_list_spec cs rel p c :
  In (p, c) (walk_list rel cs) <->
  exists comps, p = rel ++ comps /\ file_at cs comps c /\ Forall nonhidden comps.
Proof. apply walk_list_spec_from. intros x _. apply walk_node_spec_all. Qed.

(* A1 *)
Theorem walk_spec children comps c :
  In (comps, c) (walk_root children) <->
  file_at children comps c /\ Forall (fun n => is_hidden n = false) comps.
Proof.
  rewrite walk_root_list, walk_list_spec. cbn [app]. split.
  - intros [comps' [-> H]]. exact H.
  - intros H. exists comps. split; [reflexivity|exact H].
Qed.

(* ---------- A3 (tree part): no path is enumerated twice ---------- *)
Lemma NoDup_app_intro {A} (l1 l2 : list A) :
  NoDup l1 -> NoDup l2 -> (forall x, In x l1 -> ~ In x l2) -> NoDup (l1 ++ l2).
Proof.
  induction l1 as [|a l1 IH]; intros H1 H2 Hd; [exact H2|].
  inversion H1; subst. cbn. constructor.
  - rewrite in_app_iff. intros [H|H]; [contradiction|]. exact (Hd a (or_introl eq_refl) H).
  - apply IH; [assumption|assumption|]. intros x Hx. apply Hd. right. exact Hx.
Qed.

Lemma walk_path_head rel x p : In p (map fst (walk rel x)) -> exists tl, p = rel ++ node_name x :: tl.
Proof.
  intros H. apply in_map_iff in H. destruct H as [[p' c] [Hp H]]. cbn in Hp. subst p'.
  apply walk_node_spec_all in H. destruct H as [comps [-> [Hf _]]].
  apply file_at_head in Hf. destruct Hf as [tl ->]. exists tl. reflexivity.
Qed.

Lemma walk_list_NoDup rel cs :
  NoDup (map node_name cs) ->
  (forall x, In x cs -> NoDup (map fst (walk rel x))) ->
  NoDup (map fst (walk_list rel cs)).
Proof.
  induction cs as [|x r IH]; intros Hn Hall; [constructor|].
  rewrite walk_list_cons, map_app. cbn [map] in Hn. inversion Hn; subst.
  apply NoDup_app_intro.
  - apply Hall. left. reflexivity.
  - apply IH; [assumption|]. intros y Hy. apply Hall. right. exact Hy.
  - intros p Hp1 Hp2. apply walk_path_head in Hp1. destruct Hp1 as [tl1 E1].
    unfold walk_list in Hp2. rewrite flat_map_concat_map, concat_map, map_map in Hp2.
    apply in_concat in Hp2. destruct Hp2 as [l [Hl Hp2]].
    apply in_map_iff in Hl. destruct Hl as [y [<- Hy]].
    apply walk_path_head in Hp2. destruct Hp2 as [tl2 E2].
    rewrite E1 in E2. apply app_inv_head in E2. inversion E2; subst.
    apply H1. rewrite H0. apply in_map. exact Hy.
Qed.

Lemma walk_node_NoDup n : forall rel, wf_node n -> NoDup (map fst (walk rel n)).
Proof.
  induction n as [n c0|n cs IH] using fnode_ind2; intros rel Hwf.
  - rewrite walk_File. destruct (is_hidden n); cbn; [constructor|].
    constructor; [intros []|constructor].
  - rewrite walk_Dir. destruct (is_hidden n); [constructor|].
    inversion Hwf; subst. apply walk_list_NoDup; [assumption|].
    intros x Hx. rewrite Forall_forall in IH, H2. apply IH; [exact Hx|apply H2; exact Hx].
Qed.

Theorem walk_root_NoDup children : wf_tree children -> NoDup (map fst (walk_root children)).
Proof.
  intros [Hn Hw]. rewrite walk_root_list. apply walk_list_NoDup; [exact Hn|].
  intros x Hx. apply walk_node_NoDup. rewrite Forall_forall in Hw. apply Hw. exact Hx.
Qed.

Lemma NoDup_map_filter {A B} (g : A -> B) (f : A -> bool) l :
  NoDup (map g l) -> NoDup (map g (filter f l)).
Proof.
  induction l as [|a l IH]; intros H; [constructor|].
  cbn [map] in H. inversion H; subst. cbn [filter]. destruct (f a); [|apply IH; assumption].
  cbn [map]. constructor; [|apply IH; assumption].
  intros Hin. apply H2. apply in_map_iff in Hin. destruct Hin as [b [Hb Hin]].
  apply filter_In in Hin. destruct Hin as [Hin _]. rewrite <- Hb. apply in_map. exact Hin.
Qed.

Section WalkProofs.
  Variable supported : pystr -> option pystr.
  Variable analyze : pystr -> Z -> analysis.

  Notation qualifies := (qualifies supported).
  Notation scan_one := (scan_one supported analyze).
  Notation scan_tree := (scan_tree supported analyze).

  (* ---------- one file ---------- *)
  Lemma scan_one_path c (f : list pystr * Z) : se_path (fst (scan_one c f)) = fst f.
  Proof.
    unfold FsScan.scan_one. destruct c as [ca|]; [|reflexivity].
    destruct (cache_get ca (fst f)) as [[ck res]|]; [|reflexivity].
    destruct (ck =? snd f); reflexivity.
  Qed.
  Lemma scan_one_checksum c (f : list pystr * Z) : se_checksum (fst (scan_one c f)) = snd f.
  Proof.
    unfold FsScan.scan_one. destruct c as [ca|]; [|reflexivity].
    destruct (cache_get ca (fst f)) as [[ck res]|]; [|reflexivity].
    destruct (ck =? snd f); reflexivity.
  Qed.
  Lemma scan_one_analysed c (f : list pystr * Z) lang :
    supported (last (fst f) []) = Some lang ->
    snd (scan_one c f) = true -> se_result (fst (scan_one c f)) = analyze lang (snd f).
  Proof.
    intros Hl. unfold FsScan.scan_one. rewrite Hl. destruct c as [ca|]; [|reflexivity].
    destruct (cache_get ca (fst f)) as [[ck res]|]; [|reflexivity].
    destruct (ck =? snd f); [discriminate|reflexivity].
  Qed.
  Lemma scan_one_nocache (f : list pystr * Z) : snd (scan_one None f) = true.
  Proof. reflexivity. Qed.

  Lemma qualifies_iff patterns (f : list pystr * Z) :
    qualifies patterns f = true <->
    excluded patterns (fst f) = false /\ supported (last (fst f) []) <> None.
  Proof.
    unfold FsScan.qualifies. rewrite andb_true_iff, negb_true_iff.
    destruct (supported (last (fst f) [])); split; intros [H1 H2]; split; try assumption;
      try discriminate; try reflexivity. congruence.
  Qed.

  (* ---------- A2 ---------- *)
  (* every reported entry is a qualifying file, with its content as checksum;
     a `true` flag means the result is the analysis of that content under the
     language of the file name; without a cache every flag is `true` *)
  Theorem C11_sound patterns c children e b :
    In (e, b) (scan_tree patterns c children) ->
    file_at children (se_path e) (se_checksum e) /\
    Forall (fun n => is_hidden n = false) (se_path e) /\
    excluded patterns (se_path e) = false /\
    exists lang, supported (last (se_path e) []) = Some lang /\
                 (b = true -> se_result e = analyze lang (se_checksum e)) /\
                 (c = None -> b = true).
  Proof.
    unfold FsScan.scan_tree. intros H. apply in_map_iff in H. destruct H as [f [Hf Hin]].
    apply filter_In in Hin. destruct Hin as [Hin Hq].
    assert (Ep : se_path e = fst f) by (rewrite <- (scan_one_path c f), Hf; reflexivity).
    assert (Ec : se_checksum e = snd f) by (rewrite <- (scan_one_checksum c f), Hf; reflexivity).
    rewrite Ep, Ec. destruct f as [p ck]. cbn [fst snd] in *.
    apply walk_spec in Hin. destruct Hin as [Hfa Hh].
    apply qualifies_iff in Hq. cbn [fst] in Hq. destruct Hq as [Hx Hs].
    split; [exact Hfa|]. split; [exact Hh|]. split; [exact Hx|].
    destruct (supported (last p [])) as [lang|] eqn:El; [|congruence].
    exists lang. split; [reflexivity|]. split.
    - intros ->. pose proof (scan_one_analysed c (p, ck) lang El) as Ha.
      rewrite Hf in Ha. apply Ha. reflexivity.
    - intros ->. pose proof (scan_one_nocache (p, ck)) as Hn. rewrite Hf in Hn. exact Hn.
  Qed.

  Theorem C11_complete patterns c children comps content :
    file_at children comps content ->
    Forall (fun n => is_hidden n = false) comps ->
    excluded patterns comps = false ->
    supported (last comps []) <> None ->
    exists e b, In (e, b) (scan_tree patterns c children) /\
                se_path e = comps /\ se_checksum e = content.
  Proof.
    intros Hfa Hh Hx Hs.
    exists (fst (scan_one c (comps, content))), (snd (scan_one c (comps, content))).
    split; [|split; [apply scan_one_path|apply scan_one_checksum]].
    rewrite <- surjective_pairing. unfold FsScan.scan_tree. apply in_map.
    apply filter_In. split; [apply walk_spec; auto|]. apply qualifies_iff. auto.
  Qed.

  Theorem C11_iff patterns c children comps :
    (exists e b, In (e, b) (scan_tree patterns c children) /\ se_path e = comps) <->
    (exists content,
        file_at children comps content /\
        Forall (fun n => is_hidden n = false) comps /\
        excluded patterns comps = false /\
        supported (last comps []) <> None).
  Proof.
    split.
    - intros [e [b [H <-]]]. apply C11_sound in H.
      destruct H as [Hfa [Hh [Hx [lang [Hl _]]]]].
      exists (se_checksum e). repeat split; try assumption. congruence.
    - intros [content [Hfa [Hh [Hx Hs]]]].
      destruct (C11_complete patterns c children comps content Hfa Hh Hx Hs) as [e [b [H [Hp _]]]].
      exists e, b. auto.
  Qed.

  (* without a cache: each entry is exactly the analysis of a qualifying file *)
  Theorem C11_nocache patterns children e b :
    In (e, b) (scan_tree patterns None children) ->
    b = true /\
    exists lang, supported (last (se_path e) []) = Some lang /\
                 se_result e = analyze lang (se_checksum e).
  Proof.
    intros H. apply C11_sound in H. destruct H as [_ [_ [_ [lang [Hl [Ha Hb]]]]]].
    specialize (Hb eq_refl). split; [exact Hb|]. exists lang. auto.
  Qed.

  (* ---------- A3 ---------- *)
  Lemma scan_tree_paths patterns c children :
    map (fun eb => se_path (fst eb)) (scan_tree patterns c children) =
    map fst (filter (qualifies patterns) (walk_root children)).
  Proof.
    unfold FsScan.scan_tree. rewrite map_map. apply map_ext. intros f. apply scan_one_path.
  Qed.

  Theorem C11_once patterns c children :
    wf_tree children ->
    NoDup (map (fun eb => se_path (fst eb)) (scan_tree patterns c children)).
  Proof.
    intros H. rewrite scan_tree_paths. apply NoDup_map_filter. apply walk_root_NoDup. exact H.
  Qed.

  (* ---------- A4 ---------- *)
  Definition nonqual (patterns : list pystr) (p : list pystr) : Prop :=
    existsb is_hidden p = true \/ excluded patterns p = true \/ supported (last p []) = None.

  (* children' is obtained from children by deleting, anywhere, a File node whose
     path (rel = the components above) does not qualify, or by changing its content *)
  Inductive nq_edit (patterns : list pystr) : list pystr -> list fnode -> list fnode -> Prop :=
  | nq_delete rel l1 n c l2 :
      nonqual patterns (rel ++ [n]) -> nq_edit patterns rel (l1 ++ File n c :: l2) (l1 ++ l2)
  | nq_change rel l1 n c c' l2 :
      nonqual patterns (rel ++ [n]) ->
      nq_edit patterns rel (l1 ++ File n c :: l2) (l1 ++ File n c' :: l2)
  | nq_descend rel l1 n cs cs' l2 :
      nq_edit patterns (rel ++ [n]) cs cs' ->
      nq_edit patterns rel (l1 ++ Dir n cs :: l2) (l1 ++ Dir n cs' :: l2).

  Lemma nonqual_file_filtered patterns rel n c :
    existsb is_hidden rel = false -> nonqual patterns (rel ++ [n]) ->
    filter (qualifies patterns) (walk rel (File n c)) = [].
  Proof.
    intros Hrel Hn. rewrite walk_File. destruct (is_hidden n) eqn:Eh; [reflexivity|].
    cbn [filter]. destruct (qualifies patterns (rel ++ [n], c)) eqn:Eq; [|reflexivity].
    apply qualifies_iff in Eq. cbn [fst] in Eq. destruct Eq as [Hx Hs].
    destruct Hn as [Hn|[Hn|Hn]].
    - rewrite existsb_app, Hrel in Hn. cbn in Hn. rewrite Eh in Hn. discriminate.
    - congruence.
    - contradiction.
  Qed.

  Lemma nq_edit_walk patterns rel cs cs' :
    nq_edit patterns rel cs cs' -> existsb is_hidden rel = false ->
    filter (qualifies patterns) (walk_list rel cs) = filter (qualifies patterns) (walk_list rel cs').
  Proof.
    induction 1 as [rel l1 n c l2 Hn|rel l1 n c c' l2 Hn|rel l1 n cs cs' l2 He IH]; intros Hrel.
    - rewrite !walk_list_app, walk_list_cons, !filter_app.
      rewrite (nonqual_file_filtered _ _ _ _ Hrel Hn). reflexivity.
    - rewrite !walk_list_app, !walk_list_cons, !filter_app.
      rewrite !(nonqual_file_filtered _ _ _ _ Hrel Hn). reflexivity.
    - rewrite !walk_list_app, !walk_list_cons, !filter_app, !walk_Dir.
      destruct (is_hidden n) eqn:Eh; [reflexivity|].
      rewrite IH; [reflexivity|]. rewrite existsb_app, Hrel. cbn. rewrite Eh. reflexivity.
  Qed.

  Theorem C11_not_analysed patterns c children children' :
    nq_edit patterns [] children children' ->
    scan_tree patterns c children' = scan_tree patterns c children.
  Proof.
    intros H. unfold FsScan.scan_tree. rewrite (walk_root_list children), (walk_root_list children').
    rewrite (nq_edit_walk _ _ _ _ H eq_refl). reflexivity.
  Qed.

  (* any number of such deletions, (re-)insertions and content changes *)
  Theorem C11_not_analysed_many patterns c children children' :
    clos_refl_sym_trans _ (nq_edit patterns []) children children' ->
    scan_tree patterns c children' = scan_tree patterns c children.
  Proof.
    induction 1 as [x y H|x|x y _ IH|x y z _ IH1 _ IH2].
    - apply C11_not_analysed. exact H.
    - reflexivity.
    - symmetry. exact IH.
    - rewrite IH2. exact IH1.
  Qed.
End WalkProofs.

(* the analyze oracle is only ever applied to qualifying files *)
Theorem C11_oracle_only_qualifying supported analyze1 analyze2 patterns c children :
  (forall comps content lang,
      file_at children comps content ->
      Forall (fun n => is_hidden n = false) comps ->
      excluded patterns comps = false ->
      supported (last comps []) = Some lang ->
      analyze1 lang content = analyze2 lang content) ->
  scan_tree supported analyze1 patterns c children = scan_tree supported analyze2 patterns c children.
Proof.
  intros Hag. unfold scan_tree. apply map_ext_in. intros [p ck] Hin.
  apply filter_In in Hin. destruct Hin as [Hin Hq].
  apply walk_spec in Hin. destruct Hin as [Hfa Hh].
  apply qualifies_iff in Hq. cbn [fst] in Hq. destruct Hq as [Hx Hs].
  destruct (supported (last p [])) as [lang|] eqn:El; [|congruence].
  assert (E : analyze1 lang ck = analyze2 lang ck) by (eapply Hag; eassumption).
  unfold scan_one. cbn [fst snd]. rewrite El, E. reflexivity.
Qed.
