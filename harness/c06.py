"""C06 — analysis is deterministic, order-independent and isolated per file."""
import glob
import json
import os
import random
import shutil
import subprocess
import tempfile

from common import Check, assert_repo_import, eval_cases, VERIF, REPO
import lang_common as LC
import malform
import progen
import fs_common as F
import c07

IMPORTS = "Base GenThresholds Codebase"


def worker(items, hashseed):
    env = dict(os.environ, PYTHONHASHSEED=str(hashseed), PYTHONPATH=REPO, LC_ALL="C", PYTHONDONTWRITEBYTECODE="1")
    p = subprocess.run(["/venv/bin/python", os.path.join(VERIF, "harness", "c06_worker.py")], input=json.dumps({"items": items}),
                       capture_output=True, text=True, env=env, timeout=3600)
    if p.returncode != 0:
        raise RuntimeError(p.stderr[-400:])
    return json.loads(p.stdout)


def run(tier, seed, replay=None):
    assert_repo_import()
    chk = Check("C06", tier, seed)
    model_ok = chk.proof_stage(["Agg/Codebase.vo", "Agg/PermProofs.vo"] if os.path.exists(os.path.join(VERIF, "coq", "Agg", "PermProofs.v")) else ["Agg/Codebase.vo"])
    rng = chk.rng
    tmp = tempfile.mkdtemp(prefix="verif_c06_")
    items = []
    seeds = []
    try:
        # ---- (1) measurements depend only on language and content: hash seeds, orders, predecessors, repetitions
        for lang in LC.LANGS:
            files = sorted(glob.glob(os.path.join(VERIF, "corpus", lang, "*")))[: (6 if tier == "quick" else 30)]
            items += [(lang, f, 1) for f in files]
            for i in range(4 if tier == "quick" else 40):
                p = progen.generate(seed * 17 + i, lang, {"long_bodies": False})
                path = os.path.join(tmp, f"g{lang}{i}.{LC.EXT[lang]}")
                with open(path, "w") as f:
                    f.write(p["text"])
                items.append((lang, path, 1))
            mr = random.Random(seed)
            bad = list(malform.stream(mr, lang, 6, seed * 3))[:: 9][: (4 if tier == "quick" else 20)]
            for j, (kind, text) in enumerate(bad):      # inputs that stop matching midway
                path = os.path.join(tmp, f"m{lang}{j}.{LC.EXT[lang]}")
                with open(path, "w", encoding="utf8", errors="surrogateescape") as f:
                    f.write(text)
                items.append((lang, path, 1))
            # inputs on which a look-ahead or a match is given up half-way (open parenthesis at the end of the text, a
            # ternary inside a condition) next to inputs whose headers need that look-ahead: analysing the former first
            # must not change the latter
            seq_texts = ["f(", "const f = (", "x = g(a, (b", "function p(a): (", "function q() {\n  if (x ? k(a) : b) {\n    y = 1;\n  }\n}\n",
                         "function v(a): number {\n  return a;\n}\n", "function w(): (x: number) => number {\n  return f;\n}\n",
                         "void t(int a) throws (", "void u(int a) throws E {\n  x = 1;\n}\n", "def k(a, (b\n", "def m(a):\n    return a\n"]
            for j, text in enumerate(seq_texts):
                path = os.path.join(tmp, f"s{lang}{j}.{LC.EXT[lang]}")
                with open(path, "w") as f:
                    f.write(text)
                items.append((lang, path, 1))
        seeds = [0, 1, 2, 3, 17, 123, 4242, 99999] if tier == "quick" else list(range(64))
        base = None
        base_hs = None
        procs = []
        for k, hs in enumerate(seeds):
            order = list(items)
            if k % 3 == 1:
                rng.shuffle(order)
            elif k % 3 == 2:
                order = order[::-1]
            if k % 2:
                order = [(l, p, 2) for l, p, _ in order]          # every file twice in a row
            procs.append((hs, order))
        import concurrent.futures as cf
        with cf.ThreadPoolExecutor(max_workers=8) as ex:
            futs = {ex.submit(worker, order, hs): (hs, order) for hs, order in procs}
            results = []
            for fu in cf.as_completed(futs):
                hs, order = futs[fu]
                try:
                    results.append((hs, order, fu.result()))
                except Exception as e:
                    chk.violation({"hashseed": hs}, f"analysis process failed under PYTHONHASHSEED={hs}: {e}")
        for hs, order, out in sorted(results, key=lambda r: r[0]):
            chk.evaluations += len(order)
            chk.count("analysis processes")
            flat = {p: set(v) for p, v in out.items()}
            for p, v in flat.items():
                if len(v) != 1:
                    chk.violation({"file": p, "hashseed": hs}, f"{p}: repeated analysis in one process gave different results")
            if base is None:
                base, base_hs = flat, hs
            else:
                for p in flat:
                    if flat[p] != base.get(p):
                        chk.violation({"file": p, "hashseeds": [base_hs, hs]},
                                      f"{os.path.basename(p)}: result under PYTHONHASHSEED={hs} / another order of analysis differs "
                                      f"from PYTHONHASHSEED={base_hs}")
                    else:
                        chk.nontrivial.add((p, hs))
        # ---- (1a) a language defined OUTSIDE the package, with one header expression object used for every file and a stateful
        #          predicate inside a composite one ("a parenthesis group that holds no ';'", "a parenthesis or a bracket group"):
        #          a text on which matching is abandoned inside an open group must not change what the next text yields
        #          (seeded change C06-13: predicates copied shallowly, the nested Balanced shared between files)
        from pygments.lexers import CLexer
        from codelimit.common.Language import Language
        from codelimit.common.Scanner import scan_file as _scan_file
        from codelimit.common.gsm.operator.OneOrMore import OneOrMore as _OneOrMore
        from codelimit.common.lexer_utils import lex as _lex
        from codelimit.common.scope.scope_utils import get_blocks as _get_blocks, get_headers as _get_headers
        from codelimit.common.token_matching.predicate.And import And as _And
        from codelimit.common.token_matching.predicate.Or import Or as _Or
        from codelimit.common.token_matching.predicate.Balanced import Balanced as _Balanced
        from codelimit.common.token_matching.predicate.Name import Name as _Name
        from codelimit.common.token_matching.predicate.Not import Not as _Not
        from codelimit.common.token_matching.predicate.Symbol import Symbol as _Symbol
        for hname, hexpr in (("group without ';'", [_Name(), _OneOrMore(_And(_Balanced("(", ")"), _Not(";")))]),
                             ("parenthesis or bracket group", [_Name(), _OneOrMore(_Or(_Balanced("(", ")"), _Balanced("[", "]")))])):
            class _Own(Language):
                def __init__(self):
                    super().__init__("Own", False)

                def extract_headers(self, tokens, _e=hexpr):
                    return _get_headers(tokens, _e, _Symbol("{"))

                def extract_blocks(self, tokens, headers):
                    return _get_blocks(tokens, "{", "}")
            own = _Own()
            good = ["void g() {\n  run();\n  stop();\n}\n\nvoid h(int a) {\n  run();\n}\n", "int k(int a)(int b) {\n  x = 1;\n}\n",
                    "int t[3] {\n  x = 1;\n}\nint u() {\n  y = 2;\n}\n"]
            bad = ["void broken(int a, int b\n", "f(g(", "int t[", "void c(a; b) {\n}\n", "x = f((a)"]

            def own_scan(text, _own=own):
                return LC.guarded(lambda: [(m.unit_name, m.start.line, m.end.line, m.value) for m in _scan_file(_lex(CLexer(), text, False), _own)])
            alone = [own_scan(t) for t in good]
            for _ in range(6 if tier == "quick" else 60):
                seqn = [(rng.choice(bad), False) for _ in range(rng.randint(1, 3))] + [(t, True) for t in good]
                rng.shuffle(seqn)
                for t, is_good in seqn:
                    r = own_scan(t)
                    chk.evaluations += 1
                    if is_good and r != alone[good.index(t)]:
                        chk.violation({"language": hname, "sequence": [x for x, _ in seqn], "text": t},
                                      f"own language ({hname}): {t.splitlines()[0]!r} gives {r} after other texts were analysed, {alone[good.index(t)]} when analysed first")
                        break
                else:
                    chk.nontrivial.add(("own", hname, tuple(x for x, _ in seqn)))
            chk.count("own language with a composite stateful predicate")
        # ---- (1c) what a scan reports does not depend on a cache left by an earlier scan: a file that is not valid UTF-8,
        #          edited only in its invalid bytes (seeded change C06-18: checksum taken of the decoded text)
        for k in range(3 if tier == "quick" else 20):
            try:
                wc, nc, _, rel = F.latin1_edit_scenario(tmp, k)
                chk.evaluations += 1
                chk.count("non-UTF-8 file edited in its invalid bytes, rescanned with the cache")
                if wc != nc:
                    chk.violation({"file": rel}, f"{rel} (Latin-1) edited only in bytes that are invalid as UTF-8: with the earlier scan's cache "
                                  f"the report lists {[m['unit_name'] for m in wc['codebase']['files'].get(rel, {}).get('measurements', [])]}, "
                                  f"without it {[m['unit_name'] for m in nc['codebase']['files'].get(rel, {}).get('measurements', [])]}")
                else:
                    chk.nontrivial.add(("latin1", k))
            except Exception as ex:
                chk.violation({"scenario": "latin1"}, f"rescan of an edited non-UTF-8 file raised {type(ex).__name__}: {ex}")
        # ---- (1b) the order of a DFA state's transition list (a Python set's iteration order) must not matter:
        #          every text is analysed again with all transition lists reversed
        from codelimit.common.gsm import matcher as _matcher
        orig_n2d = _matcher.nfa_to_dfa

        def reversed_n2d(nfa):
            dfa = orig_n2d(nfa)
            seen, stack = set(), [dfa.start]
            while stack:
                st = stack.pop()
                if id(st) in seen:
                    continue
                seen.add(id(st))
                st.transition.reverse()
                stack.extend(t[1] for t in st.transition)
            return dfa
        texts = []
        for lang in LC.LANGS:
            for i in range(25 if tier == "quick" else 400):
                texts.append((lang, progen.generate(seed * 29 + i, lang, {"long_bodies": False})["text"]))
            texts += [(lang, t) for t in malform.SPECIALS]
        for lang, text in texts:
            a = LC.guarded(lambda: LC.impl_scan(lang, text))
            _matcher.nfa_to_dfa = reversed_n2d
            try:
                b = LC.guarded(lambda: LC.impl_scan(lang, text))
            finally:
                _matcher.nfa_to_dfa = orig_n2d
            chk.evaluations += 1
            chk.count("transition order reversed")
            if a != b:
                chk.violation({"language": lang, "text": text},
                              f"{lang}: the result depends on the order of a matcher state's transitions (a set's iteration order): {str(a)[:120]} vs {str(b)[:120]}")
            elif a[0] == 0 and a[1]:
                chk.nontrivial.add(("rev", lang, text[:40]))
        # ---- (2) two scans of the same tree under different traversal orders
        from codelimit.common import Scanner
        real_walk = os.walk
        for t in range(10 if tier == "quick" else 120):
            root = os.path.join(tmp, f"tree{t}")
            os.makedirs(root)
            for i in range(rng.randint(2, 7)):
                lang = rng.choice(LC.LANGS)
                p = progen.generate(seed * 23 + t * 10 + i, lang, {"long_bodies": False})
                d = os.path.join(root, *rng.sample(["a", "b", "c"], rng.randint(0, 2)))
                os.makedirs(d, exist_ok=True)
                with open(os.path.join(d, f"f{i}.{LC.EXT[lang]}"), "w") as f:
                    f.write(p["text"])
            # names without extension: some are recognised by their full name (BUILD, SConstruct -> Python), some are not
            # (at least one of each kind in every tree: whichever the walk meets first must not decide for the others)
            by_name = rng.sample(["BUILD", "SConstruct", "WORKSPACE"], rng.randint(1, 2))
            unknown = rng.sample(["deploy", "run", "Makefile", "x", "LICENSE"], rng.randint(1, 3))
            for nm in by_name + unknown:
                d = os.path.join(root, *rng.sample(["a", "b", "c"], rng.randint(0, 1)))
                os.makedirs(d, exist_ok=True)
                with open(os.path.join(d, nm), "w") as f:
                    f.write("def f():\n    x = 1\n    return x\n")
            # one file that is not valid UTF-8 (read through the fallback) and one UTF-8 file with non-ASCII identifiers
            # and a non-ASCII last token: how a file is decoded must not depend on which file was read before it
            dl = os.path.join(root, rng.choice(["", "a", "b"]))
            os.makedirs(dl, exist_ok=True)
            with open(os.path.join(dl, "legacy.py"), "wb") as f:
                f.write(b"# caf\xe9\ndef old():\n    x = 1\n    return x\n")
            du = os.path.join(root, rng.choice(["", "a", "c"]))
            os.makedirs(du, exist_ok=True)
            with open(os.path.join(du, "uni.py"), "w", encoding="utf8") as f:
                f.write("def caf\u00e9(\u00fc):\n    s = '\u00e9\u00e9'\n    return s + '\u65e5\u672c'\n")
            # byte-identical files in different languages (a header kept as .h and .hpp, one text as .js and .ts, two empty
            # files): each must be analysed as what ITS name says, whichever of the twins the walk meets first
            # (seeded change C06-10: results shared between files of equal checksum)
            # (the C text holds a function-local struct with a member function: C++ reports it as a nested function, C does
            #  not — byte-identical files of the two languages must each get THEIR measurements; seeded change C06-20)
            twin_c = ("int area(int w, int h) {\n    struct acc {\n        int v;\n        int add(int x) {\n            v += x;\n            return v;\n        }\n    };\n"
                      "    int r = w * h;\n    return r;\n}\nint twice(int v) {\n    return v + v;\n}\n")
            twin_js = "function area(w, h) {\n    const r = w * h;\n    return r;\n}\n"
            twins = {}
            dt = os.path.join(root, rng.choice(["", "a", "b", "c"]))
            os.makedirs(dt, exist_ok=True)
            for nm, text, lang_name in (("geometry.h", twin_c, "C"), ("geometry.hpp", twin_c, "C++"), ("shape.js", twin_js, "JavaScript"),
                                        ("shape.ts", twin_js, "TypeScript"), ("__init__.py", "", "Python"), ("stub.js", "", "JavaScript"),
                                        # extensions that differ only in case are different extensions: x.c is C, X.C is C++,
                                        # MAIN.PY is nothing Pygments knows (seeded change C06-11: lexer remembered per lower-cased extension)
                                        ("util.c", twin_c, "C"), ("Widget.C", twin_c, "C++"), ("Legacy.H", twin_c, "C++"),
                                        ("MAIN.PY", "def f():\n    x = 1\n    return x\n", None), ("main.py", "def f():\n    x = 1\n    return x\n", "Python")):
                with open(os.path.join(dt, nm), "w") as f:
                    f.write(text)
                twins[os.path.relpath(os.path.join(dt, nm), root)] = lang_name
            with open(os.path.join(dt, "solo.c"), "w") as f:
                f.write("int solo_only_here(int q) {\n    int r = q + 41;\n    return r;\n}\n")
            # order-sensitive exclusions in the configuration file: everything beneath one directory except one file
            # (gitignore semantics: the last matching pattern decides, so the ORDER of the two patterns matters)
            excl = []
            subdirs = [d0 for d0 in ("a", "b", "c") if os.path.isdir(os.path.join(root, d0))
                       and any(os.path.isfile(os.path.join(root, d0, x)) for x in os.listdir(os.path.join(root, d0)))]
            if subdirs:
                d0 = rng.choice(subdirs)
                keep = sorted(x for x in os.listdir(os.path.join(root, d0)) if os.path.isfile(os.path.join(root, d0, x)))[0]
                excl = [f"{d0}/*", f"!{d0}/{keep}", "zz_unused", "!zz_other", "yy/*", "!yy/k.py"]
                # ... in the configuration file, or in a .gitignore (with a comment, a blank line and a repeated pattern):
                # there too the order of the lines is part of their meaning (seeded change C06-24: the lines kept as a set)
                in_gitignore = t % 2 == 1
                if in_gitignore:
                    with open(os.path.join(root, ".gitignore"), "w") as f:
                        f.write("# generated files\n" + "\n".join(excl[:2]) + "\n\nzz_unused\n" + "\n".join(excl[2:]) + "\n")
                else:
                    with open(os.path.join(root, ".codelimit.yml"), "w") as f:
                        f.write("exclude:\n" + "".join(f"  - \"{x}\"\n" for x in excl))
            reports = []
            for perm in range(3):
                def shuffled(top, _p=perm):
                    for r, ds, fs in real_walk(top):
                        r2 = random.Random(hash((str(r), _p)) & 0xffff)
                        r2.shuffle(ds)
                        r2.shuffle(fs)
                        yield r, ds, fs

                class OsProxy:
                    def __getattr__(self, name):
                        return shuffled if (name == "walk" and perm) else getattr(os, name)
                orig_os = Scanner.os
                Scanner.os = OsProxy()
                try:
                    shutil.rmtree(os.path.join(root, ".codelimit_cache"), ignore_errors=True)
                    rep, _ = F.run_scan(root, [] if (excl and in_gitignore) else excl)
                finally:
                    Scanner.os = orig_os
                reports.append(rep)
                for tp, tl in twins.items():
                    e = rep["codebase"]["files"].get(tp)
                    if tl is None:
                        if e is not None:
                            chk.violation({"tree": t, "file": tp, "order": perm},
                                          f"{tp} is reported (as {e.get('language')}) although its name is not one the lexer table knows")
                        continue
                    if e is not None and tl in ("C", "C++") and tp.endswith((".h", ".hpp", ".c", ".C", ".H")):
                        alone = LC.impl_scan("C" if tl == "C" else "Cpp", twin_c)
                        names_alone = [m[0] for m in alone]
                        names_here = [m["unit_name"] for m in e.get("measurements", [])]
                        if sorted(names_alone) != sorted(names_here):
                            chk.violation({"tree": t, "file": tp, "order": perm},
                                          f"{tp} (one of several byte-identical files) reports the functions {names_here}; analysed alone as {tl}: {names_alone}")
                            continue
                    if e is not None and e.get("language") != tl:
                        chk.violation({"tree": t, "file": tp, "order": perm},
                                      f"{tp} (one of several byte-identical files) is reported as {e.get('language')}, its name says {tl}")
            # ... and by a fresh process that has analysed nothing before (state leaking between scans)
            shutil.rmtree(os.path.join(root, ".codelimit_cache"), ignore_errors=True)
            env = dict(os.environ, PYTHONPATH=REPO, LC_ALL="C", PYTHONDONTWRITEBYTECODE="1", COLUMNS="200")
            seeds_here = [None, 0, 1, 2, 3, 4, 5, 6, 7] if excl else [None]
            fresh_proc = None
            for hs in seeds_here:
                shutil.rmtree(os.path.join(root, ".codelimit_cache"), ignore_errors=True)
                env2 = dict(env) if hs is None else dict(env, PYTHONHASHSEED=str(hs))
                sp = subprocess.run(["/venv/bin/python", "-m", "codelimit", "scan", root], capture_output=True, text=True, env=env2, timeout=900)
                try:
                    with open(F.cache_path(root)) as f:
                        this = F.canonical(json.load(f))
                except (OSError, ValueError):
                    this = None
                if fresh_proc is None:
                    fresh_proc = this
                elif this != fresh_proc:
                    chk.violation({"tree": t, "excludes": excl, "hashseed": hs},
                                  f"`codelimit scan` with the exclusions {excl[:2]} in {'.gitignore' if in_gitignore else '.codelimit.yml'} gives another report under "
                                  f"PYTHONHASHSEED={hs}: files {sorted(set((this or {'codebase': {'files': {}}})['codebase']['files']) ^ set((fresh_proc or {'codebase': {'files': {}}})['codebase']['files']))}")
                    break
                chk.evaluations += 1
            try:
                if fresh_proc is None:
                    raise OSError("no report")
                if fresh_proc != reports[0]:
                    chk.violation({"tree": t, "files": sorted(os.listdir(root))},
                                  "a scan in a fresh process differs from the scan made after other scans in this process: "
                                  + str(sorted(set(fresh_proc["codebase"]["files"]) ^ set(reports[0]["codebase"]["files"]))))
            except (OSError, ValueError):
                chk.violation({"tree": t}, f"`codelimit scan` in a fresh process failed: {sp.stderr[-200:]}")
            # ... and with the cache of the last scan in place: a file copied to a name of another language (same bytes as a
            # cached file, a path the cache does not know) is analysed as what its NEW name says — the report must be the one a
            # cache-less scan gives (seeded change C06-15: cached entries looked up by checksum when the path is unknown)
            try:
                F.run_scan(root, excl)
                shutil.copy(os.path.join(dt, "solo.c"), os.path.join(dt, "solo_copy.cpp"))
                with open(os.path.join(dt, "blank_copy.js"), "w"):
                    pass
                with_cache, _ = F.run_scan(root, excl)
                shutil.rmtree(os.path.join(root, ".codelimit_cache"), ignore_errors=True)
                without_cache, _ = F.run_scan(root, excl)
                chk.evaluations += 1
                if with_cache != without_cache:
                    diff = sorted(p for p in set(with_cache["codebase"]["files"]) | set(without_cache["codebase"]["files"])
                                  if with_cache["codebase"]["files"].get(p) != without_cache["codebase"]["files"].get(p))
                    chk.violation({"tree": t, "files": diff},
                                  f"after copying solo.c to solo_copy.cpp and adding an empty blank_copy.js, the scan that starts from the "
                                  f"previous cache differs from a scan without cache in {diff}: "
                                  f"{[with_cache['codebase']['files'].get(p, {}).get('language') for p in diff]} vs "
                                  f"{[without_cache['codebase']['files'].get(p, {}).get('language') for p in diff]}")
            except Exception as ex:
                chk.violation({"tree": t}, f"cache-assisted rescan after copying files raised {type(ex).__name__}: {ex}")
            chk.evaluations += 4
            chk.count("tree scanned under 3 traversal orders + fresh process")
            if not (reports[0] == reports[1] == reports[2]):
                chk.violation({"tree": t}, "two scans of the same tree under different traversal orders differ beyond identifier, "
                                          "timestamp and file order")
            else:
                chk.nontrivial.add(("tree", t))
    finally:
        shutil.rmtree(tmp, ignore_errors=True)
    # ---- (3) the codebase built from a permuted insertion order: same totals / folder profiles, model included
    cases = []
    for _ in range(60 if tier == "quick" else 2000):
        n = rng.choice([2, 3, 4, 6])
        es = [c07.gen_entry(rng, p) for p in c07.gen_paths(rng, n)]
        es2 = list(es)
        rng.shuffle(es2)
        a, b = c07.enc_cb(c07.impl_build(es)), c07.enc_cb(c07.impl_build(es2))

        def canon(t):
            return [t[0], sorted(t[1]), sorted([[k, sorted(en), pr] for k, en, pr in t[2]]), sorted(t[3])]
        chk.evaluations += 1
        if canon(a) != canon(b):
            chk.violation({"entries": es, "permuted": es2}, "Codebase built in another insertion order differs beyond ordering")
        cases.append((c07.model_expr(es2), [0, b], {"paths": [e[0] for e in es2]}))
    chk.samples = [{"kind": "hash seeds x orders", "files": len(items), "seeds": seeds[:8]}] + [c for _, _, c in cases[:2]]
    if model_ok:
        mism, err = eval_cases("C06", IMPORTS, [(m, o) for m, o, _ in cases], shard=60)
        chk.traces = len(cases)
        if err:
            chk.broken.append("correspondence evaluation failed: " + err[-400:])
        for i in mism[:3]:
            chk.broken.append(f"correspondence: Codebase model and implementation differ on permuted insertion {cases[i][2]}")
    else:
        chk.broken.append("model does not build; correspondence not run")
    nt = len(chk.nontrivial)
    chk.nontrivial = {str(i) for i in range(nt)}
    return chk.finish(
        rule="(1) corpus files, generated programs and malformed inputs of all 7 languages analysed in sub-processes under 8 "
             "(quick) / 64 PYTHONHASHSEED values, in original / shuffled / reversed order, each file once or twice in a row: "
             "digests of the measurements must coincide; (2) trees scanned through scan_command with os.walk wrapped to "
             "permute directory and file order: canonical reports (identifier, timestamp, file order removed) must be equal; "
             "(3) Codebase built from permuted insertion orders compared with the Coq model.  Non-trivial: a file whose "
             "digest was compared across processes / a tree compared across orders.",
        assumptions=["CPython's hashing and os.walk order are exercised, not modelled"])
