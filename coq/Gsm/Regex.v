(* Regex.v — pattern syntax of codelimit.common.gsm and its regular-language
   semantics (the specification side of C13/C14). *)
From Verif Require Import Base.

Section Regex.
  Context {P I : Type}.
  Variable accepts : P -> I -> bool.      (* stateless view of a predicate *)

  (* Expression = list of operators (a sequence); the operators' arguments are
     again sequences (Python wraps a non-list argument into a one-element list) *)
  Inductive op :=
  | Atom (p : P)
  | Union (l r : list op)
  | Opt (e : list op)
  | Star (e : list op)        (* ZeroOrMore *)
  | Plus (e : list op).       (* OneOrMore *)
  Definition expr := list op.

  (* well-formed = no empty sequence anywhere (Python pops an empty stack there) *)
  Fixpoint wf_op (o : op) : bool :=
    let fix wf_seq (e : list op) : bool :=
      match e with [] => true | o :: e' => wf_op o && wf_seq e' end in
    let ne (e : list op) := match e with [] => false | _ => true end in
    match o with
    | Atom _ => true
    | Union l r => ne l && wf_seq l && ne r && wf_seq r
    | Opt e | Star e | Plus e => ne e && wf_seq e
    end.
  Fixpoint wf_seq (e : list op) : bool :=
    match e with [] => true | o :: e' => wf_op o && wf_seq e' end.
  Definition wf (e : expr) : bool := match e with [] => false | _ => wf_seq e end.

  (* regular-language semantics *)
  Inductive lang_op : op -> list I -> Prop :=
  | L_atom p x : accepts p x = true -> lang_op (Atom p) [x]
  | L_union_l l r w : lang_seq l w -> lang_op (Union l r) w
  | L_union_r l r w : lang_seq r w -> lang_op (Union l r) w
  | L_opt_none e : lang_op (Opt e) []
  | L_opt_some e w : lang_seq e w -> lang_op (Opt e) w
  | L_star_nil e : lang_op (Star e) []
  | L_star_cons e w1 w2 : lang_seq e w1 -> lang_op (Star e) w2 -> lang_op (Star e) (w1 ++ w2)
  | L_plus_one e w : lang_seq e w -> lang_op (Plus e) w
  | L_plus_cons e w1 w2 : lang_seq e w1 -> lang_op (Plus e) w2 -> lang_op (Plus e) (w1 ++ w2)
  with lang_seq : list op -> list I -> Prop :=
  | L_nil : lang_seq [] []
  | L_cons o e w1 w2 : lang_op o w1 -> lang_seq e w2 -> lang_seq (o :: e) (w1 ++ w2).

  Definition lang (e : expr) (w : list I) : Prop := lang_seq e w.

  (* nullable: the pattern can match the empty sequence *)
  Fixpoint nullable_op (o : op) : bool :=
    let fix nullable_seq (e : list op) : bool :=
      match e with [] => true | o :: e' => nullable_op o && nullable_seq e' end in
    match o with
    | Atom _ => false
    | Union l r => nullable_seq l || nullable_seq r
    | Opt _ | Star _ => true
    | Plus e => nullable_seq e
    end.
  Fixpoint nullable_seq (e : list op) : bool :=
    match e with [] => true | o :: e' => nullable_op o && nullable_seq e' end.

  (* predicates occurring in a pattern *)
  Fixpoint preds_op (o : op) : list P :=
    let fix preds_seq (e : list op) : list P :=
      match e with [] => [] | o :: e' => preds_op o ++ preds_seq e' end in
    match o with
    | Atom p => [p]
    | Union l r => preds_seq l ++ preds_seq r
    | Opt e | Star e | Plus e => preds_seq e
    end.
  Fixpoint preds_seq (e : list op) : list P :=
    match e with [] => [] | o :: e' => preds_op o ++ preds_seq e' end.

  Fixpoint size_op (o : op) : nat :=
    let fix size_seq (e : list op) : nat :=
      match e with [] => O | o :: e' => (size_op o + size_seq e')%nat end in
    match o with
    | Atom _ => 1%nat
    | Union l r => S (size_seq l + size_seq r)
    | Opt e | Star e | Plus e => S (size_seq e)
    end.
  Fixpoint size_seq (e : list op) : nat :=
    match e with [] => O | o :: e' => (size_op o + size_seq e')%nat end.
End Regex.

Arguments op P : clear implicits.
Arguments expr P : clear implicits.
