(* ShapeProofsFollow.v — the follow-up automata: "{" alone (all brace languages),
   "{" or "throws ... {" (Java), "{" or ": ... {" (TypeScript); starts_with on each of
   them decides the corresponding follow-up test of LexShapes.v. *)
From Verif Require Import Base Regex Nfa Dfa Token TokEngine GenPatterns Headers Blocks Spec HeaderSpec Scan ScanProofs.
From Verif Require Import Unamb UnambProofs LexShapes HeaderProofsDfa HeaderProofsSelect ShapeProofsGen.
Open Scope Z_scope.

Definition is_some {A} (r : option A) : bool := match r with Some _ => true | None => false end.

(* ---------- "{" ---------- *)
Lemma follow_brace_decides ts : follow_decides af follow_brace ts.
Proof.
  intros j. rewrite followup_test. unfold follow_brace.
  exists (if sym_at ts j lbrace then Some 1%nat else None). split; [reflexivity|].
  destruct (sym_at ts j lbrace); reflexivity.
Qed.

(* ---------- the loop "anything but ; and {" then "{" ---------- *)
Definition nosemi : tpred := PAnd (PNot (PValue s_semi)) (PNot (PValue lbrace)).
Definition Brace : tpred := PSymbol lbrace.

Section Until.
  Variable a : automaton tpred.
  Variables L2 E : list nat.
  Hypothesis HAL : mem (a_acc a) L2 = false.
  Hypothesis HAE : mem (a_acc a) E = true.

  Section Step.
    Variable L : list nat.
    Hypothesis HT : dtrans tpred_eqb (a_heap a) L = [nosemi; Brace].
    Hypothesis HN : closure (a_heap a) (move tpred_eqb (a_heap a) L nosemi) = OK L2.
    Hypothesis HB : closure (a_heap a) (move tpred_eqb (a_heap a) L Brace) = OK E.

    Lemma aconsume_loop x :
      aconsume a L 0 x =
      if pystr_eqb (t_value x) lbrace then (if is_symbol x lbrace then OK (Some (E, 0)) else OK None)
      else if pystr_eqb (t_value x) s_semi then OK None else OK (Some (L2, 0)).
    Proof.
      unfold aconsume. cbv zeta. rewrite HT.
      unfold nosemi, Brace. cbn [filter tpred_eqb Bal]. cbn [pfold tpred_eqb Bal taccept]. unfold is_symbol.
      destruct (pystr_eqb (t_value x) lbrace); destruct (pystr_eqb (t_value x) s_semi);
        destruct (kind_eqb (t_kind x) KPunct); cbn [negb andb]; fold nosemi; fold Brace;
        rewrite ?HN, ?HB; reflexivity.
    Qed.
  End Step.

  Hypothesis HT2 : dtrans tpred_eqb (a_heap a) L2 = [nosemi; Brace].
  Hypothesis HN2 : closure (a_heap a) (move tpred_eqb (a_heap a) L2 nosemi) = OK L2.
  Hypothesis HB2 : closure (a_heap a) (move tpred_eqb (a_heap a) L2 Brace) = OK E.

  Lemma aprefix_loop2 : forall w n, exists r, aprefix a L2 0 n w = OK r /\ is_some r = until_brace w.
  Proof.
    induction w as [|x w IH]; intros n; cbn [aprefix until_brace].
    - exists None. split; reflexivity.
    - rewrite (aconsume_loop L2 HT2 HN2 HB2).
      destruct (pystr_eqb (t_value x) lbrace).
      + destruct (is_symbol x lbrace).
        * rewrite HAE. exists (Some (S n)). split; reflexivity.
        * exists None. split; reflexivity.
      + destruct (pystr_eqb (t_value x) s_semi).
        * exists None. split; reflexivity.
        * rewrite HAL. apply IH.
  Qed.

  Variable L1 : list nat.
  Hypothesis HT1 : dtrans tpred_eqb (a_heap a) L1 = [nosemi; Brace].
  Hypothesis HN1 : closure (a_heap a) (move tpred_eqb (a_heap a) L1 nosemi) = OK L2.
  Hypothesis HB1 : closure (a_heap a) (move tpred_eqb (a_heap a) L1 Brace) = OK E.

  Lemma aprefix_loop1 w n : exists r, aprefix a L1 0 n w = OK r /\ is_some r = until_brace w.
  Proof.
    destruct w as [|x w]; cbn [aprefix until_brace].
    - exists None. split; reflexivity.
    - rewrite (aconsume_loop L1 HT1 HN1 HB1).
      destruct (pystr_eqb (t_value x) lbrace).
      + destruct (is_symbol x lbrace).
        * rewrite HAE. exists (Some (S n)). split; reflexivity.
        * exists None. split; reflexivity.
      + destruct (pystr_eqb (t_value x) s_semi).
        * exists None. split; reflexivity.
        * rewrite HAL. apply aprefix_loop2.
  Qed.
End Until.

(* a symbol is neither a keyword nor an operator *)
Lemma symbol_not_kw x s s' : is_symbol x s = true -> kwt x s' = false.
Proof. unfold is_symbol, kwt, is_keyword. destruct (t_kind x); cbn; congruence. Qed.
Lemma symbol_not_op x s s' : is_symbol x s = true -> is_operator x s' = false.
Proof. unfold is_symbol, is_operator. destruct (t_kind x); cbn; congruence. Qed.

(* the follow-up tests on the suffix *)
Lemma follow_throws_skipn ts j :
  follow_throws ts j = match skipn j ts with
                       | x :: r => is_symbol x lbrace || (kwt x s_throws && until_brace r)
                       | [] => false
                       end.
Proof.
  unfold follow_throws, sym_at, kw_at. rewrite nth_error_skipn_hd.
  destruct (skipn j ts) as [|x r] eqn:E; [reflexivity|]. rewrite (skipn_cons_S j ts x r E). reflexivity.
Qed.

Lemma follow_rettype_skipn ts j :
  follow_rettype ts j = match skipn j ts with
                        | x :: r => is_symbol x lbrace || (is_operator x s_colon && until_brace r)
                        | [] => false
                        end.
Proof.
  unfold follow_rettype, sym_at, op_at. rewrite nth_error_skipn_hd.
  destruct (skipn j ts) as [|x r] eqn:E; [reflexivity|]. rewrite (skipn_cons_S j ts x r E). reflexivity.
Qed.

(* ---------- Java: "{" or "throws ... {" ---------- *)
Definition java_followup : expr tpred :=
  [Union [Atom Brace] [Atom (PKeyword s_throws); Star [Atom nosemi]; Atom Brace]].

Definition aJ : automaton tpred :=
  Eval vm_compute in match tk_to_dfa java_followup with OK a => a | Err _ => mkAut [] [] 0%nat end.
Lemma to_dfa_java_followup : tk_to_dfa java_followup = OK aJ.
Proof. vm_compute. reflexivity. Qed.
Lemma okheap_aJ : okheap aJ = true.
Proof. vm_compute. reflexivity. Qed.

Definition U0 := [0; 1; 3]%nat.        (* start *)
Definition UB := [2; 11]%nat.          (* after "{" directly: accepting *)
Definition U1 := [4; 6; 8]%nat.        (* after the introducing token *)
Definition U2 := [6; 7; 8]%nat.        (* in the loop *)
Definition UE := [10; 11]%nat.         (* after the final "{": accepting *)

Lemma aconsume_J0 x : aconsume aJ U0 0 x =
  if is_symbol x lbrace then OK (Some (UB, 0)) else if kwt x s_throws then OK (Some (U1, 0)) else OK None.
Proof.
  unfold aconsume. cbv zeta.
  change (dtrans tpred_eqb (a_heap aJ) U0) with [Brace; PKeyword s_throws].
  unfold Brace. cbn [filter tpred_eqb Bal]. cbn [pfold tpred_eqb Bal taccept]. fold (kwt x s_throws).
  destruct (is_symbol x lbrace) eqn:E1.
  - rewrite (symbol_not_kw x lbrace s_throws E1). reflexivity.
  - destruct (kwt x s_throws); reflexivity.
Qed.

Lemma follow_throws_decides ts : follow_decides aJ follow_throws ts.
Proof.
  intros j. rewrite (starts_with_aprefix aJ okheap_aJ), follow_throws_skipn.
  change (a_start aJ) with U0.
  destruct (skipn j ts) as [|x r]; [exists None; split; reflexivity|].
  cbn [aprefix]. rewrite aconsume_J0.
  destruct (is_symbol x lbrace) eqn:E1; cbn [orb].
  - exists (Some 1%nat). split; reflexivity.
  - destruct (kwt x s_throws); cbn [andb].
    + change (mem (a_acc aJ) U1) with false. cbv iota.
      apply (aprefix_loop1 aJ U2 UE); reflexivity.
    + exists None. split; reflexivity.
Qed.

(* ---------- TypeScript: "{" or ": ... {" ---------- *)
Definition ts_followup : expr tpred :=
  [Union [Atom Brace] [Atom (POperator s_colon); Star [Atom nosemi]; Atom Brace]].

Definition aT : automaton tpred :=
  Eval vm_compute in match tk_to_dfa ts_followup with OK a => a | Err _ => mkAut [] [] 0%nat end.
Lemma to_dfa_ts_followup : tk_to_dfa ts_followup = OK aT.
Proof. vm_compute. reflexivity. Qed.
Lemma okheap_aT : okheap aT = true.
Proof. vm_compute. reflexivity. Qed.

Lemma aconsume_T0 x : aconsume aT U0 0 x =
  if is_symbol x lbrace then OK (Some (UB, 0)) else if is_operator x s_colon then OK (Some (U1, 0)) else OK None.
Proof.
  unfold aconsume. cbv zeta.
  change (dtrans tpred_eqb (a_heap aT) U0) with [Brace; POperator s_colon].
  unfold Brace. cbn [filter tpred_eqb Bal]. cbn [pfold tpred_eqb Bal taccept].
  destruct (is_symbol x lbrace) eqn:E1.
  - rewrite (symbol_not_op x lbrace s_colon E1). reflexivity.
  - destruct (is_operator x s_colon); reflexivity.
Qed.

Lemma follow_rettype_decides ts : follow_decides aT follow_rettype ts.
Proof.
  intros j. rewrite (starts_with_aprefix aT okheap_aT), follow_rettype_skipn.
  change (a_start aT) with U0.
  destruct (skipn j ts) as [|x r]; [exists None; split; reflexivity|].
  cbn [aprefix]. rewrite aconsume_T0.
  destruct (is_symbol x lbrace) eqn:E1; cbn [orb].
  - exists (Some 1%nat). split; reflexivity.
  - destruct (is_operator x s_colon); cbn [andb].
    + change (mem (a_acc aT) U1) with false. cbv iota.
      apply (aprefix_loop1 aT U2 UE); reflexivity.
    + exists None. split; reflexivity.
Qed.
