(* C15 — built-in header patterns are unambiguous on every token.
   The certificates below are kernel computations over patterns captured from
   /repo on this run (Gen/GenPatterns.v); the generic soundness theorem that
   turns `unambiguous_check = true` into "no token sequence can raise the
   ambiguity error" is in Gsm/UnambProofs.v. *)
From Verif Require Import Base Regex Nfa Dfa Token TokEngine Unamb GenPatterns Headers.

Definition pattern_ok (ef : expr tpred * option (expr tpred)) : bool :=
  unambiguous_check (fst ef) && single_stateful_check (fst ef) &&
  match snd ef with Some f => unambiguous_check f && single_stateful_check f | None => true end.

Theorem C15_cert_C : forallb pattern_ok patterns_C = true. Proof. vm_compute. reflexivity. Qed.
Theorem C15_cert_Cpp : forallb pattern_ok patterns_Cpp = true. Proof. vm_compute. reflexivity. Qed.
Theorem C15_cert_CSharp : forallb pattern_ok patterns_CSharp = true. Proof. vm_compute. reflexivity. Qed.
Theorem C15_cert_Java : forallb pattern_ok patterns_Java = true. Proof. vm_compute. reflexivity. Qed.
Theorem C15_cert_JavaScript : forallb pattern_ok patterns_JavaScript = true. Proof. vm_compute. reflexivity. Qed.
Theorem C15_cert_Python : forallb pattern_ok patterns_Python = true. Proof. vm_compute. reflexivity. Qed.
Theorem C15_cert_TypeScript : forallb pattern_ok patterns_TypeScript = true. Proof. vm_compute. reflexivity. Qed.
Print Assumptions C15_cert_TypeScript.

(* ---------- from certificates to the property ---------- *)
From Verif Require Import UnambProofs.

(* generic: a pattern that passes the check can never raise the ambiguity error, on any token sequence *)
Theorem C15_check_sound : forall e w, unambiguous_check e = true ->
  tk_match e w <> Err ValueErrorAmbiguous /\
  tk_starts_with e w <> Err ValueErrorAmbiguous /\
  (forall f, (forall c, f c <> Err ValueErrorAmbiguous) -> tk_find_all e w f <> Err ValueErrorAmbiguous).
Proof. exact unambiguous_check_sound. Qed.

Lemma all_languages_certified : forall l, forallb pattern_ok (lang_patterns l) = true.
Proof.
  intros []; [exact C15_cert_C | exact C15_cert_Cpp | exact C15_cert_CSharp | exact C15_cert_Java
             | exact C15_cert_JavaScript | exact C15_cert_Python | exact C15_cert_TypeScript].
Qed.

(* every language's header pattern and follow-up pattern, every token sequence:
   neither the search for headers nor the follow-up test can raise the ambiguity error *)
Theorem C15_all : forall l e fb (w : list token),
  In (e, fb) (lang_patterns l) ->
  (forall f, (forall c, f c <> Err ValueErrorAmbiguous) -> tk_find_all e w f <> Err ValueErrorAmbiguous) /\
  (forall f, fb = Some f -> tk_starts_with f w <> Err ValueErrorAmbiguous).
Proof.
  intros l e fb w Hin.
  pose proof (all_languages_certified l) as Hc. rewrite forallb_forall in Hc.
  specialize (Hc _ Hin). unfold pattern_ok in Hc. cbn [fst snd] in Hc.
  apply andb_prop in Hc as [Hc Hf]. apply andb_prop in Hc as [Hu _].
  split.
  - apply (C15_check_sound e w Hu).
  - intros f ->. apply andb_prop in Hf as [Hf _]. apply (C15_check_sound f w Hf).
Qed.
Print Assumptions C15_check_sound.
Print Assumptions C15_all.
