(* CheckFlow.v — the bookkeeping of `check` over the analysed files (model of
   check_command / check_file / CheckResult, leaves translated from source)
   and of the findings list of `findings` / `report`. *)
From Verif Require Import Base BaseProofs GenThresholds Thresholds.
From Coq Require Import Permutation Sorted.
Open Scope Z_scope.

Definition analysed := list (pystr * list Measurement).   (* path, scan_file result *)

Definition check_state : Type := list (pystr * list Measurement) * Z * Z.
Definition check_step (st : check_state) (f : pystr * list Measurement) : check_state :=
  let '(fl, h, u) := st in check_result_add fl h u (fst f) (check_risks (snd f)).
Definition check_files (files : analysed) : check_state := fold_left check_step files ([], 0, 0).

Record check_outcome := mkOutcome
  { co_exit : Z; co_prints : bool; co_listing : list (pystr * list Measurement);
    co_files_checked : Z; co_needs_refactoring : bool; co_summary_count : Z }.

Definition check_run (quiet : bool) (files : analysed) : check_outcome :=
  let '(fl, h, u) := check_files files in
  let cc := mkCC h u in
  mkOutcome (check_exit_code cc) (check_should_report quiet cc) fl (Z.of_nat (length fl))
            (check_report_needs_refactoring h u) (h + u).

Definition enc_outcome (o : check_outcome) : tree :=
  T [L (co_exit o); enc_bool (co_prints o);
     enc_list (enc_pair enc_str (enc_list enc_meas)) (co_listing o);
     L (co_files_checked o); enc_bool (co_needs_refactoring o); L (co_summary_count o)].

(* ---------- specification side ---------- *)
Definition findings_of (ms : list Measurement) : list Measurement :=
  sort_desc m_value (filter is_finding ms).
Fixpoint all_cat (c : category) (files : analysed) : Z :=
  match files with [] => 0 | f :: r => count_cat c (snd f) + all_cat c r end.
Notation all_hard := (all_cat Hard).
Notation all_unm := (all_cat Unm).

Lemma count_cat_perm c l l' : Permutation l l' -> count_cat c l = count_cat c l'.
Proof. induction 1; cbn [count_cat]; lia. Qed.

Lemma count_cat_nonneg c l : 0 <= count_cat c l.
Proof. induction l as [|m l IH]; cbn [count_cat]; [lia|]. destruct (in_cat c m); lia. Qed.

Lemma count_cat_pos c l : 0 < count_cat c l <-> exists m, In m l /\ in_cat c m = true.
Proof.
  induction l as [|m l IH]; cbn [count_cat In].
  - split; [lia|intros (m & [] & _)].
  - pose proof (count_cat_nonneg c l). destruct (in_cat c m) eqn:E.
    + split; [intros _; exists m; auto|lia].
    + rewrite Z.add_0_l, IH. split; intros (x & Hx & Hc); exists x; [auto|].
      destruct Hx as [->|Hx]; [congruence|auto].
Qed.

Lemma count_cat_filter_finding c l :
  c = Hard \/ c = Unm -> count_cat c (filter is_finding l) = count_cat c l.
Proof.
  intros Hc. induction l as [|m l IH]; cbn [filter count_cat]; [reflexivity|].
  destruct (is_finding m) eqn:E; cbn [count_cat]; [lia|].
  rewrite IH. unfold in_cat. destruct (cat_eqb (cat (m_value m)) c) eqn:E2; [|lia].
  exfalso. assert (is_finding m = true); [|congruence].
  apply is_finding_cat. destruct Hc; subst c; destruct (cat (m_value m)); try discriminate; auto.
Qed.

Lemma count_cat_findings c ms : c = Hard \/ c = Unm -> count_cat c (findings_of ms) = count_cat c ms.
Proof.
  intros Hc. unfold findings_of.
  rewrite (count_cat_perm c _ _ (sort_desc_perm m_value _)). apply count_cat_filter_finding, Hc.
Qed.

Lemma check_files_gen files : forall fl h u,
  fold_left check_step files (fl, h, u) =
  (fl ++ map (fun f => (fst f, findings_of (snd f))) files, h + all_hard files, u + all_unm files).
Proof.
  induction files as [|f files IH]; intros fl h u; cbn [fold_left map all_cat].
  - rewrite app_nil_r, !Z.add_0_r. reflexivity.
  - unfold check_step at 2. rewrite check_result_add_spec, check_risks_spec, IH.
    fold (findings_of (snd f)). rewrite !count_cat_findings by auto.
    rewrite <- app_assoc. cbn [app]. apply f_equal2; [apply f_equal2; [reflexivity|lia]|lia].
Qed.

Theorem check_files_spec files :
  check_files files =
  (map (fun f => (fst f, findings_of (snd f))) files, all_hard files, all_unm files).
Proof. unfold check_files. rewrite check_files_gen. reflexivity. Qed.

Lemma all_cat_nonneg c files : 0 <= all_cat c files.
Proof. induction files as [|f l IH]; cbn [all_cat]; [lia|]. pose proof (count_cat_nonneg c (snd f)). lia. Qed.

Lemma all_cat_pos c (files : analysed) :
  0 < all_cat c files <->
  exists p ms m, In (p, ms) files /\ In m ms /\ cat (m_value m) = c.
Proof.
  induction files as [|[p ms] files IH]; cbn [all_cat In snd].
  - split; [lia|intros (? & ? & ? & [] & _)].
  - pose proof (all_cat_nonneg c files) as Hn.
    pose proof (count_cat_nonneg c ms) as Hm.
    split.
    + intros Hpos. destruct (Z.ltb_spec 0 (count_cat c ms)) as [Hc|Hc].
      * apply count_cat_pos in Hc as (m & Hin & Hcat). exists p, ms, m. repeat split; auto.
        unfold in_cat in Hcat. destruct (cat (m_value m)), c; try discriminate; reflexivity.
      * assert (Hrest : 0 < all_cat c files) by lia.
        apply IH in Hrest as (p' & ms' & m & Hin & Hm' & Hcat). exists p', ms', m. auto.
    + intros (p' & ms' & m & [Heq|Hin] & Hm' & Hcat).
      * inversion Heq; subst p' ms'. assert (0 < count_cat c ms); [|lia].
        apply count_cat_pos. exists m. split; [auto|]. unfold in_cat. rewrite Hcat. destruct c; reflexivity.
      * assert (0 < all_cat c files); [|lia].
        apply IH. exists p', ms', m. auto.
Qed.

(* exit status 1 exactly when some analysed function is unmaintainable *)
Theorem exit_code_iff quiet files :
  (co_exit (check_run quiet files) = 1 <->
   exists p ms m, In (p, ms) files /\ In m ms /\ m_value m > 60) /\
  (co_exit (check_run quiet files) = 0 \/ co_exit (check_run quiet files) = 1).
Proof.
  unfold check_run. rewrite check_files_spec. cbn [co_exit]. rewrite exit_code_spec. cbn [cc_unmaintainable].
  pose proof (all_cat_pos Unm files) as H.
  destruct (Z.ltb_spec 0 (all_unm files)) as [Hp|Hp]; split; auto.
  - split; [intros _|reflexivity]. apply H in Hp as (p & ms & m & ? & ? & Hc). apply cat_Unm in Hc. eauto 6.
  - split; [discriminate|]. intros (p & ms & m & ? & ? & Hc). apply cat_Unm in Hc.
    assert (0 < all_unm files) by (apply H; eauto 6). lia.
Qed.

Theorem listing_spec quiet files :
  co_listing (check_run quiet files) = map (fun f => (fst f, findings_of (snd f))) files.
Proof. unfold check_run. rewrite check_files_spec. reflexivity. Qed.

Lemma findings_of_facts ms :
  (forall m, In m (findings_of ms) <-> In m ms /\ m_value m > 30) /\
  StronglySorted (fun a b => m_value a >= m_value b) (findings_of ms) /\
  (forall k, filter (fun a => m_value a =? k) (findings_of ms)
             = filter (fun a => m_value a =? k) (filter is_finding ms)) /\
  Permutation (findings_of ms) (filter is_finding ms).
Proof.
  unfold findings_of. split; [|split; [|split]].
  - intros m. rewrite sort_desc_In, filter_In. unfold is_finding. rewrite Z.gtb_ltb, Z.ltb_lt. intuition lia.
  - apply (sort_desc_sorted m_value).
  - intros k. apply sort_desc_stable.
  - apply sort_desc_perm.
Qed.

Theorem summary_count_spec quiet files :
  co_summary_count (check_run quiet files) = all_hard files + all_unm files /\
  co_files_checked (check_run quiet files) = Z.of_nat (length files).
Proof. unfold check_run. rewrite check_files_spec. cbn. rewrite map_length. auto. Qed.

(* --quiet prints nothing exactly when there is no function longer than 30 *)
Theorem quiet_silent_iff files :
  co_prints (check_run true files) = false <->
  ~ exists p ms m, In (p, ms) files /\ In m ms /\ m_value m > 30.
Proof.
  unfold check_run. rewrite check_files_spec. cbn [co_prints].
  rewrite should_report_spec. cbn [cc_hard_to_maintain cc_unmaintainable].
  pose proof (all_cat_pos Hard files) as HH.
  pose proof (all_cat_pos Unm files) as HU.
  pose proof (all_cat_nonneg Hard files). pose proof (all_cat_nonneg Unm files).
  split.
  - intros (_ & Hh & Hu) (p & ms & m & Hin & Hm & Hv).
    destruct (Z.leb_spec (m_value m) 60).
    + assert (0 < all_hard files); [|lia]. apply HH. exists p, ms, m. repeat split; auto. apply cat_Hard. lia.
    + assert (0 < all_unm files); [|lia]. apply HU. exists p, ms, m. repeat split; auto. apply cat_Unm. lia.
  - intros Hno. split; [reflexivity|]. split.
    + destruct (Z.ltb_spec 0 (all_hard files)) as [Hp|]; [|lia]. exfalso. apply Hno.
      apply HH in Hp as (p & ms & m & ? & ? & Hc). apply cat_Hard in Hc. exists p, ms, m. repeat split; auto; lia.
    + destruct (Z.ltb_spec 0 (all_unm files)) as [Hp|]; [|lia]. exfalso. apply Hno.
      apply HU in Hp as (p & ms & m & ? & ? & Hc). apply cat_Unm in Hc. exists p, ms, m. repeat split; auto; lia.
Qed.

Theorem not_quiet_always_prints files : co_prints (check_run false files) = true.
Proof. unfold check_run. rewrite check_files_spec. reflexivity. Qed.

(* ---------- findings list (report.all_report_units_sorted_by_length_asc + truncation) ---------- *)
Definition units_of (files : list (pystr * FileEntry)) : list ReportUnit :=
  flat_map (fun fe => map (mkReportUnit (fst fe)) (e_measurements (snd fe))) files.

Lemma all_report_units_gen files thr : forall acc,
  fold_left (fun result '(file, entry) =>
     let result := fold_left (fun result m =>
        let result := (if (f_value m >? thr) then let result := (result ++ [mkReportUnit file m]) in result else result) in result)
        (f_measurements entry) result in result) files acc
  = acc ++ filter (fun u => m_value (ru_measurement u) >? thr) (units_of files).
Proof.
  induction files as [|[file entry] files IH]; intros acc; cbn [fold_left units_of flat_map].
  - cbn. rewrite app_nil_r. reflexivity.
  - rewrite IH. clear IH. rewrite filter_app, app_assoc. f_equal.
    unfold f_measurements, entry_meas. cbn [fst snd].
    generalize (e_measurements entry) as ms. intros ms. unfold f_value, meas_value. revert acc.
    induction ms as [|m ms IHm]; intros acc; cbn [fold_left map filter].
    + rewrite app_nil_r. reflexivity.
    + cbn [ru_measurement].
      destruct (m_value m >? thr); rewrite IHm; [rewrite <- app_assoc|]; reflexivity.
Qed.

Theorem all_report_units_spec files thr :
  all_report_units files thr =
  sort_desc (fun u => m_value (ru_measurement u))
            (filter (fun u => m_value (ru_measurement u) >? thr) (units_of files)).
Proof. unfold all_report_units. cbv zeta. rewrite all_report_units_gen. reflexivity. Qed.

Definition findings_view (full : bool) (files : list (pystr * FileEntry)) : list ReportUnit * option Z :=
  let functions := all_report_units files findings_threshold_text in
  let total := Z.of_nat (length functions) in
  let shown := if findings_truncate_text full total then findings_shown_text functions else functions in
  (shown, if findings_more_rows_text full total then Some (findings_omitted_text total) else None).
Definition findings_view_md (full : bool) (files : list (pystr * FileEntry)) : list ReportUnit * option Z :=
  let functions := all_report_units files findings_threshold_md in
  let total := Z.of_nat (length functions) in
  let shown := if findings_truncate_md full total then findings_shown_md functions else functions in
  (shown, if findings_more_rows_md full total then Some (findings_omitted_md total) else None).

Theorem findings_formats_agree full files : findings_view full files = findings_view_md full files.
Proof. reflexivity. Qed.

Theorem findings_view_spec full files :
  let all := sort_desc (fun u => m_value (ru_measurement u))
               (filter (fun u => m_value (ru_measurement u) >? 30) (units_of files)) in
  let n := Z.of_nat (length all) in
  findings_view full files =
  if (negb full && (10 <? n))%bool then (firstn 10 all, Some (n - 10)) else (all, None).
Proof.
  cbv zeta. unfold findings_view. cbv zeta.
  change findings_threshold_text with 30. rewrite all_report_units_spec.
  unfold findings_truncate_text, findings_more_rows_text, findings_shown_text, findings_omitted_text.
  rewrite Z.gtb_ltb. destruct (negb full && _)%bool; reflexivity.
Qed.
