(* Token.v — tokens as codelimit sees them (kind of the Pygments token type,
   text, position) and the token predicates of
   codelimit.common.token_matching.predicate.  Definitions only. *)
From Verif Require Import Base.
Open Scope Z_scope.

(* what Token.is_* can distinguish about a Pygments token type *)
Inductive kind :=
| KKeyword      (* token_type in Keyword *)
| KName         (* in Name *)
| KPunct        (* in Punctuation *)
| KOperator     (* in Operator *)
| KComment      (* in Comment *)
| KText         (* == Token.Text exactly *)
| KWhitespace   (* == Token.Text.Whitespace exactly *)
| KOther.       (* anything else: literals, errors, other Text subtypes, ... *)

Definition kind_eqb (a b : kind) : bool :=
  match a, b with
  | KKeyword, KKeyword | KName, KName | KPunct, KPunct | KOperator, KOperator
  | KComment, KComment | KText, KText | KWhitespace, KWhitespace | KOther, KOther => true
  | _, _ => false
  end.
Definition kind_code (k : kind) : Z :=
  match k with KKeyword => 0 | KName => 1 | KPunct => 2 | KOperator => 3
             | KComment => 4 | KText => 5 | KWhitespace => 6 | KOther => 7 end.

Record token := mkTok { t_kind : kind; t_value : pystr; t_line : Z; t_col : Z }.

Definition is_keyword (t : token) : bool := kind_eqb (t_kind t) KKeyword.
Definition is_name (t : token) : bool := kind_eqb (t_kind t) KName.
Definition is_comment (t : token) : bool := kind_eqb (t_kind t) KComment.
Definition is_symbol (t : token) (s : pystr) : bool := kind_eqb (t_kind t) KPunct && pystr_eqb (t_value t) s.
Definition is_operator (t : token) (s : pystr) : bool := kind_eqb (t_kind t) KOperator && pystr_eqb (t_value t) s.

(* str.isspace(): non-empty and every character is Unicode white space *)
Definition py_space_points : list Z :=
  [9; 10; 11; 12; 13; 28; 29; 30; 31; 32; 133; 160; 5760; 8192; 8193; 8194; 8195; 8196; 8197;
   8198; 8199; 8200; 8201; 8202; 8232; 8233; 8239; 8287; 12288].
Definition is_space_char (c : Z) : bool := existsb (Z.eqb c) py_space_points.
Definition isspace (s : pystr) : bool :=
  match s with [] => false | _ => forallb is_space_char s end.
Definition is_whitespace (t : token) : bool :=
  (kind_eqb (t_kind t) KText || kind_eqb (t_kind t) KWhitespace) && isspace (t_value t).

(* ---------- predicates ---------- *)
Inductive tpred :=
| PValue (s : pystr)          (* TokenValue *)
| PName
| PKeyword (s : pystr)
| PSymbol (s : pystr)
| POperator (s : pystr)
| PAnd (a b : tpred)
| POr (a b : tpred)
| PNot (a : tpred)
| PBalanced (l r : tpred)
| PIdentity (s : pystr).      (* a bare string used as an atom: Identity(str), never equals a Token *)

Fixpoint tpred_eqb (a b : tpred) : bool :=
  match a, b with
  | PValue s, PValue s' | PKeyword s, PKeyword s' | PSymbol s, PSymbol s'
  | POperator s, POperator s' | PIdentity s, PIdentity s' => pystr_eqb s s'
  | PName, PName => true
  | PAnd x y, PAnd x' y' | POr x y, POr x' y' | PBalanced x y, PBalanced x' y' =>
      tpred_eqb x x' && tpred_eqb y y'
  | PNot x, PNot x' => tpred_eqb x x'
  | _, _ => false
  end.

(* accept of a predicate whose own state is fresh (depth 0) *)
Fixpoint taccept (p : tpred) (t : token) : bool :=
  match p with
  | PValue s => pystr_eqb (t_value t) s
  | PName => is_name t
  | PKeyword s => is_keyword t && pystr_eqb (t_value t) s
  | PSymbol s => is_symbol t s
  | POperator s => is_operator t s
  | PAnd a b => taccept a t && taccept b t
  | POr a b => taccept a t || taccept b t
  | PNot a => negb (taccept a t)
  | PBalanced l r => taccept l t            (* depth 0: only an opening token is accepted *)
  | PIdentity _ => false
  end.

(* Balanced.accept with its depth counter; every other predicate is stateless *)
Definition taccept_st (p : tpred) (d : Z) (t : token) : bool * Z :=
  match p with
  | PBalanced l r =>
      if taccept l t then (true, d + 1)
      else if taccept r t then (if d - 1 <? 0 then (false, d - 1) else (true, d - 1))
      else (0 <? d, d)
  | _ => (taccept p t, d)
  end.

Definition enc_token (t : token) : tree :=
  T [L (kind_code (t_kind t)); enc_str (t_value t); L (t_line t); L (t_col t)].
