"""C18 — rendered report, diff and findings show exactly the stored numbers."""
import io
import re

from common import Check, assert_repo_import, eval_cases, eval_one, canon_tree, coq_list, z
import lang_common as LC

IMPORTS = "Base GenDelta Render GenThresholds Thresholds CheckFlow"
LANG_POOL = ["Python", "C", "Java", "JavaScript", "C++"]
CELL = re.compile(r"^(-?\d+)(?: \(([+-]\d+)\))?$")


def gen_totals(rng, langs):
    out = []
    for l in langs:
        big = rng.random() < 0.2
        out.append((l, rng.randint(0, 9) if not big else rng.randint(1000, 99999), rng.randint(0, 40),
                    rng.choice([0, 10, 10, 250, 250, 999, 12345]) + rng.randint(0, 3), rng.randint(0, 5), rng.randint(0, 3)))
    return out      # (language, files, functions, loc, hard, unm)


def mutate_totals(rng, cur):
    prev = []
    for t in cur:
        r = rng.random()
        if r < 0.25:
            continue                                   # language added since the previous report
        if r < 0.55:
            prev.append(t)                             # unchanged
        else:
            prev.append((t[0],) + tuple(max(0, x + rng.choice([0, 0, 1, -1, 5, -3])) for x in t[1:]))
    if rng.random() < 0.3:
        prev.append(("Ruby", 2, 3, 40, 1, 0))         # language removed since
    rng.shuffle(prev)
    return prev


def scan_totals(ts):
    from codelimit.common.LanguageTotals import LanguageTotals
    from codelimit.common.ScanTotals import ScanTotals
    d = {}
    for l, f, fn, loc, h, u in ts:
        t = LanguageTotals(l)
        t.files, t.functions, t.loc, t.hard_to_maintain, t.unmaintainable = f, fn, loc, h, u
        d[l] = t
    return ScanTotals(d)


def observe(cur, prev):
    from codelimit.common.ScanResultTable import ScanResultTable
    from codelimit.common.report import format_markdown
    from rich.console import Console
    stc = scan_totals(cur)
    stp = scan_totals(prev) if prev is not None else None
    table = ScanResultTable(stc, stp)
    ncols = len(table.columns)
    nrows = len(table.columns[0]._cells)
    rows = [[str(table.columns[c]._cells[r]) for c in range(ncols)] for r in range(nrows)]
    footer = [str(table.columns[c].footer) for c in range(1, ncols)] if table.show_footer else None
    buf = io.StringIO()
    format_markdown._print_totals(Console(file=buf, width=10000, color_system=None), stc, stp)
    mrows, mtot = [], None
    for ln in buf.getvalue().splitlines()[2:]:
        cells = [c.strip() for c in ln.strip().strip("|").split("|")]
        cells = [c.replace("**", "") for c in cells]
        if cells[0] == "Totals":
            mtot = cells[1:]
        else:
            mrows.append(cells)
    return rows, footer, mrows, mtot


def judge(cur, prev, obs):
    rows, footer, mrows, mtot = obs
    probs = []
    order = sorted(range(len(cur)), key=lambda i: -cur[i][3])        # stable: loc descending
    want_langs = [cur[i][0] for i in order]
    pmap = {t[0]: t for t in (prev or [])}
    for fmt, rws, tot in (("text", rows, footer), ("markdown", mrows, mtot)):
        if [r[0] for r in rws] != want_langs:
            probs.append(f"{fmt}: languages {[r[0] for r in rws]} not ordered by lines of code {want_langs}")
            continue
        for r, i in zip(rws, order):
            t = cur[i]
            stored = [t[1], t[2], t[3], t[4], t[5]]
            for name, cell, val, k in zip(["files", "functions", "lines of code", "hard", "unmaintainable"], r[1:], stored, range(1, 6)):
                m = CELL.match(cell)
                if not m or int(m.group(1)) != val:
                    probs.append(f"{fmt}: {t[0]} {name} shows {cell!r}, stored {val}")
                    continue
                if prev is not None and t[0] in pmap:
                    d = val - pmap[t[0]][k]
                    shown = int(m.group(2)) if m.group(2) else None
                    if (d != 0) != (shown is not None) or (shown is not None and shown != d):
                        probs.append(f"{fmt}: {t[0]} {name} {val} vs previous {pmap[t[0]][k]}: annotation {m.group(2)!r}")
                elif prev is None and m.group(2):
                    probs.append(f"{fmt}: {t[0]} {name} annotated {cell!r} without a comparison report")
        sums = [sum(t[k] for t in cur) for k in (1, 2, 3, 4, 5)]
        if len(cur) > 1:
            if tot is None:
                probs.append(f"{fmt}: no totals row for {len(cur)} languages")
            else:
                psums = [sum(t[k] for t in prev) for k in (1, 2, 3, 4, 5)] if prev is not None else None
                for name, cell, val, k in zip(["files", "functions", "lines of code", "hard", "unmaintainable"], tot, sums, range(5)):
                    m = CELL.match(cell)
                    if not m or int(m.group(1)) != val:
                        probs.append(f"{fmt}: total {name} shows {cell!r}, stored {val}")
                        continue
                    if psums is not None:
                        d = val - psums[k]
                        shown = int(m.group(2)) if m.group(2) else None
                        if (d != 0) != (shown is not None) or (shown is not None and shown != d):
                            probs.append(f"{fmt}: total {name} {val} vs previous {psums[k]}: annotation {m.group(2)!r}")
        elif tot is not None:
            probs.append(f"{fmt}: totals row shown for a single language")
    if rows != mrows or footer != mtot:
        probs.append(f"text and markdown cells differ: {rows} {footer} vs {mrows} {mtot}")
    return probs[:4]


def lt_lit(t):
    return "mkLT %s %s %s %s %s %s" % (LC.pystr(t[0]), z(t[1]), z(t[3]), z(t[2]), z(t[4]), z(t[5]))


def run(tier, seed, replay=None):
    assert_repo_import()
    chk = Check("C18", tier, seed)
    model_ok = chk.proof_stage(["Report/Render.vo", "Agg/CheckFlow.vo", "Report/RenderProofs.vo", "Scope/TieProofs.vo"])
    rng = chk.rng
    # ---- the text overview on an 80-column console (what rich assumes when the output is piped) for a large code base:
    #      cells that do not fit are wrapped, never cropped — every figure and every delta stays readable
    #      (seeded change C18-18: no_wrap on the numeric columns, cells cut with an ellipsis)
    from codelimit.common.ScanResultTable import ScanResultTable
    from rich.console import Console
    for i in range(30 if tier == "quick" else 600):
        langs = rng.sample(LANG_POOL, rng.choice([1, 2, 3, 4]))
        cur = [(t[0],) + tuple(v * rng.choice([1, 1000, 12345]) for v in t[1:]) for t in gen_totals(rng, langs)]
        prev = None if rng.random() < 0.2 else [(t[0],) + tuple(max(0, v - rng.choice([0, 1, 999, 54321])) for v in t[1:]) for t in cur]
        try:
            buf = io.StringIO()
            Console(file=buf, width=80, color_system=None).print(ScanResultTable(scan_totals(cur), scan_totals(prev) if prev is not None else None))
            text = buf.getvalue()
        except Exception as ex:
            chk.violation({"current": cur, "previous": prev}, f"rendering on an 80-column console raised {type(ex).__name__}: {ex}")
            continue
        chk.evaluations += 1
        chk.count("text overview rendered on an 80-column console")
        if "\u2026" in text:
            chk.violation({"current": cur, "previous": prev, "rendered": text},
                          "the text overview on an 80-column console crops cells with an ellipsis: " + [ln for ln in text.splitlines() if "\u2026" in ln][0].strip()[:120])
        else:
            chk.nontrivial.add(("narrow", i))
    # ---- the findings list (proved as C02_findings): both formats, around the 10-row cut-off, full / not full, with / without a
    #      repository — rows, order and the exact number of omitted rows (seeded change C18-22)
    import c02
    c02.findings_cases(chk, 150 if tier == "quick" else 5000)
    cases = []
    for i in range(700 if tier == "quick" else 30000):
        langs = rng.sample(LANG_POOL, rng.choice([0, 1, 1, 2, 3, 4]))
        cur = gen_totals(rng, langs)
        prev = None if rng.random() < 0.25 else mutate_totals(rng, cur)
        try:
            obs = observe(cur, prev)
        except Exception as ex:
            chk.violation({"current": cur, "previous": prev}, f"rendering raised {type(ex).__name__}: {ex}")
            continue
        probs = judge(cur, prev, obs)
        chk.evaluations += 1
        if prev is not None and len(cur) >= 2 and any(t[0] in {p[0] for p in prev} for t in cur):
            chk.nontrivial.add((tuple(cur), tuple(prev)))
        chk.count("with comparison" if prev is not None else "without comparison")
        chk.count(f"languages {len(cur)}")
        if probs:
            chk.violation({"current": cur, "previous": prev, "text_rows": obs[0], "text_totals": obs[1]},
                          f"overview of {[t[0] for t in cur]} vs {None if prev is None else [t[0] for t in prev]}: " + "; ".join(probs))
        curl = coq_list(lt_lit(t) for t in cur)
        prevl = "None" if prev is None else "(Some " + coq_list(lt_lit(t) for t in prev) + ")"
        rows, footer, mrows, mtot = obs
        cases.append((f"T [enc_overview (overview_text {curl} {prevl}); enc_overview (overview_md {curl} {prevl})]",
                      [[rows, [] if footer is None else [footer]], [mrows, [] if mtot is None else [mtot]]],
                      {"current": cur, "previous": prev}))
    chk.samples = [c for _, _, c in cases[:3]]
    if model_ok:
        mism, err = eval_cases("C18", IMPORTS, [(m, o) for m, o, _ in cases], shard=200)
        chk.traces = len(cases)
        if err:
            chk.broken.append("correspondence evaluation failed: " + err[-400:])
        for i in mism[:4]:
            got = eval_one("C18", IMPORTS, cases[i][0])
            chk.broken.append(f"correspondence: overview model and implementation differ on {cases[i][2]}: "
                              f"model {str(got)[:400]} vs implementation {str(canon_tree(cases[i][1]))[:400]}")
    else:
        chk.broken.append("render model does not build; correspondence not run")
    nt = len(chk.nontrivial)
    chk.nontrivial = {str(i) for i in range(nt)}
    return chk.finish(
        rule="random pairs (current totals, optional previous totals): 0-4 languages, languages added / removed / unchanged "
             "between the two, figures equal or differing by small deltas, large values; cells read back from the "
             "ScanResultTable object and from the Markdown lines; judged against the stored numbers (leading integer, "
             "annotation iff differs and equal to current - previous for languages in both and totals, ordering by lines "
             "of code, formats equal).  The findings part of the property is proved in C02 "
             "(C02_findings); its rendering (both formats, cut-off at ten, full / not full, with / without repository) is checked here too.  Non-trivial: comparison present, >= 2 languages, one shared.",
        assumptions=["LC_ALL=C so that the :n format is plain decimal"])
