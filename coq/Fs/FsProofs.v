(* FsProofs.v — C11 (part A, FsProofsWalk.v), C09 (part B) and C10 (part C,
   both in FsProofsCache.v): entry point, plus non-vacuity examples.

   Part A  file_at, wf_tree, nq_edit;
           walk_spec, C11_sound, C11_complete, C11_iff, C11_nocache, C11_once,
           C11_not_analysed, C11_not_analysed_many, C11_oracle_only_qualifying.
   Part B  entries_ok, CacheOK, good_op, fresh_outs;
           CacheOK_init, CacheOK_step, scan_with_good_cache, C09_equal_all,
           C09_equal, C09_reuse_only_unchanged, C09_version_guard,
           C09_other_version_rescans.
   Part C  C10_tolerant, C10_cache_after_scan_is_complete, C10_fault_sequences,
           C10_partial_cache, good_op_stale_cache. *)
From Verif Require Export FsProofsWalk FsProofsCache.
From Verif Require Import Base Codebase Exclude GenScan FsScan Cache.
Open Scope Z_scope.

(* ---------- the definitions are inhabited as intended ---------- *)
Module FsProofsExamples.
  Definition a : pystr := [97].                      (* a *)
  Definition x_py : pystr := [120; 46; 112; 121].    (* x.py *)
  Definition dot_h : pystr := [46; 104].             (* .h *)
  Definition b_txt : pystr := [98].                  (* b *)
  Definition tree : list fnode := [Dir a [File x_py 1; File dot_h 2]; File b_txt 3].
  Definition tree' : list fnode := [Dir a [File x_py 1]; File b_txt 3].

  Example ex_file_at : file_at tree [a; x_py] 1.
  Proof.
    eapply fa_dir; [left; reflexivity|]. apply fa_file. left. reflexivity.
  Qed.

  Example ex_walk : In ([a; x_py], 1) (walk_root tree).
  Proof.
    apply walk_spec. split; [exact ex_file_at|]. repeat constructor.
  Qed.

  Example ex_hidden_not_walked : ~ In ([a; dot_h], 2) (walk_root tree).
  Proof.
    intros H. apply walk_spec in H. destruct H as [_ H].
    inversion H; subst. inversion H3; subst. discriminate.
  Qed.

  Example ex_wf : wf_tree tree.
  Proof.
    split.
    - repeat constructor; cbn; intuition discriminate.
    - repeat constructor; cbn; intuition discriminate.
  Qed.

  (* deleting the hidden file a/.h is an nq_edit, whatever the oracles and patterns *)
  Example ex_edit supported patterns : nq_edit supported patterns [] tree tree'.
  Proof.
    apply (nq_descend supported patterns [] [] a [File x_py 1; File dot_h 2] [File x_py 1] [File b_txt 3]).
    apply (nq_delete supported patterns ([] ++ [a]) [File x_py 1] dot_h 2 []).
    left. reflexivity.
  Qed.
End FsProofsExamples.
